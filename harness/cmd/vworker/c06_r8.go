package main

// C06, round-8 extensions: VOLUME and HISTORY.
//
// The statement quantifies over all ordered pairs of values. Nothing in it depends on
// how many other pairs the process compared before, how often the comparison node was
// evaluated before and with which operands, how long a string or a container is, at
// which position a container differs or a list holds the needle, how many cases a switch
// has, or what else is running. The older phases ask every question once, in short-lived
// worker processes, with small operands. The four phases of this file keep the oracle of
// the older phases (c06Ref: the statement's reference rules; the laws sym / neg / in /
// switch; int vs float against the observed <= and >=) - applied to EVERY evaluation -
// and move the workload:
//
//	stream  one case = one history in ONE process: ~11000 (thorough ~19000 / 85000) steps, each a bundle of
//	        pairwise distinct pairs (numbers against numeral strings in integer,
//	        fraction and exponent spelling, padded to every length up to and beyond 64
//	        bytes and to 127..129 / 255..257 bytes; numbers congruent to the reference
//	        numbers modulo 256, 1024, 4096, 65536, 2^32; distinct strings with equal
//	        prefixes; containers that differ in one leaf; PRNG pairs of the older
//	        generator) observed as x==y, y==x, x!=y, y!=x, x in [y], y in [x], switch x
//	        {case y}, switch y {case x} (and x<=y && x>=y for int/float), while a fixed
//	        reference set and the bundles of earlier steps are asked again after exactly
//	        N-1, N, N+1 steps for N in 256, 1000, 1024, 4096. Operands reach the same
//	        comparison nodes through one parsed loop (vm.RunContext, long-lived
//	        environment), through fresh sources and environments, through a script
//	        function, as literals of fresh sources, and one pair per run of a parsed tree;
//	        environments are leaked and dropped, runtime.GC() is forced.
//	hot     ONE set of comparison nodes (the eight forms over variables, and == / in /
//	        switch against literal operands) evaluated thousands of times in one run; the
//	        operand kinds stay the same (changing or identical values) for the first 1, 2,
//	        255..257, 999..1001, 1023..1025, 4095..4097 (65535..65537) evaluations and
//	        then change to pairs of all kinds; afterwards everything is dropped,
//	        runtime.GC() runs and the same source meets all kinds from the first evaluation.
//	big     operands on and next to the generic size thresholds: lists, maps, lists of
//	        lists of 255..65537 (~200000) elements and lists nested 255..12000 deep that
//	        differ in exactly one position (first, last, on and next to 256, 1024, 4096,
//	        65536) or in length; `in` over lists of those sizes (untyped, []int64,
//	        []string) with the needle at each of those positions or absent (congruent
//	        values, near misses); switch statements of 255..4097 cases / case values with
//	        the subject matching at each of those positions or nowhere; strings of those
//	        sizes (multi-byte characters at every alignment) that differ in one byte;
//	        numerals of those lengths against the numbers they denote or just miss.
//	crowd   256..4096 goroutines compare at the same time (own environments, one shared
//	        parsed tree or own sources), next to leaked script goroutines and environments
//	        of earlier runs; every goroutine's pairs are distinct, a shared reference set
//	        is asked by all; judged after the join (no timing in the verdict).
//
// No phase knows a cache, a counter or a threshold of the code under test.

import (
	"context"
	"fmt"
	"math"
	"runtime"
	"strconv"
	"strings"
	"sync"

	"github.com/mattn/anko/ast"
	"github.com/mattn/anko/env"

	"verifharness/internal/ank"
	"verifharness/internal/fw"
	"verifharness/internal/wk"
)

const c06R8Rule = " Round 8 (volume and history; the reference rules and laws of the older phases, applied at every evaluation): " +
	"phase stream: one case is one history in one process: 10900 steps (thorough: 19100, and 84700 in every fifth case), each a bundle of 10-14 pairwise distinct pairs - a float or integer against numeral strings of it and of its neighbours in integer, fraction and exponent spelling (leading zeros, trailing zeros, shifted mantissas, padded to 8..70, 62..66, 127..129 and 255..257 bytes), integers congruent to the reference numbers modulo 256, 1024, 4096, 65536 and 2^32 against each other, their floats and their numerals, distinct strings with long equal prefixes that differ in the first, a middle or the last byte, lists / maps / nested containers that differ in one leaf, nil against them, two PRNG pairs of the older generator - each observed as x==y, y==x, x!=y, y!=x, x in [y], y in [x], switch x {case y}, switch y {case x} (x<=y && x>=y for int/float) through one of five carriers (one parsed loop over host lists re-run with vm.RunContext in a long-lived environment; a fresh source in a fresh environment with an index loop, a for-in loop or a script function; literals in a fresh source; one run of a parsed tree per pair), while a fixed reference set of 106 ordered pairs with absolute answers and (every second step; thorough: every step, the whole bundle) the number-against-numeral pairs of the step d steps back are asked again for d = N-1, N, N+1, N in 256, 1000, 1024, 4096 (quick: every reference goes through the nine distances around 256, 1000, 1024 and one of 4095..4097; every fifth thorough case: one of 65535..65537 too); environments are leaked and dropped and runtime.GC() runs every 1500 steps. " +
	"phase hot: the same comparison nodes (the eight forms over x and y, and x == literal, literal == x, x in [4 literals], switch x over 4 literal cases with an int, a numeral string, a float and a plain string drawn per case) are evaluated T+300 times in one run - index loop, for-in loop, script function called from the loop, or one parsed tree re-run per evaluation - with operands of one kind pair (equal ints, unequal ints, the very same two values, strings, floats, int/float, int/numeral, float/numeral, lists, nil) for the first T evaluations, T in 1, 2, 255..257, 999..1001, 1023..1025, 4095..4097 (thorough: 65535..65537), and pairs of all kinds afterwards; then everything is dropped, runtime.GC() runs and the same source runs again with all kinds from the first evaluation. " +
	"phase big: lists (ints, strings, mixed leaves with nested lists), maps (string keys) and lists of lists of 255..257, 1023..1025, 4095..4097, 65535..65537 (thorough: 131071..131073, 199999..200001) elements against a copy and against copies that differ in exactly one position (0, 1, last, last-1, and 254..257, 1022..1025, 4094..4097, 65534..65537 where they exist; a congruent value, a neighbour, another kind) or are one element longer / shorter; single-element lists and maps nested 255..257, 1023..1025, 4095..4097, 12000 deep that differ in the innermost leaf; `in` over []interface{}, []int64 and []string lists of those sizes with the needle (the element itself, its numeral string, its float) at each of those positions, absent, or congruent to an element modulo 256..65536, and for sizes up to 4097 the number of elements equal to the needle counted by a == loop in the same run; switch statements with 255..257, 1023..1025, 4095..4097 (thorough 65537) literal cases, and with two cases of that many values together (case values all ints, all strings, ints and strings, or ints, floats and strings, rotating per size), the subject (int, numeral string, float, string) matching at each of those positions or nowhere, parsed once and run per subject; strings of those sizes (1- to 4-byte characters at four alignments) against copies that differ in one byte at those positions; numerals of 255..4097 characters (thorough: 65535..65537, laws only) against the int and float they denote or miss by one digit. " +
	"phase crowd: 256, 1024 and 2000 (thorough 4096, 10000) goroutines are released at once, each comparing its own 12 distinct pairs and 6 pairs of a shared reference set through one shared parsed tree (vm.RunContext, own environments) or own sources, next to 100 leaked script goroutines and 500 leaked environments of earlier runs; every outcome is judged after the join."

var c06R8Assumptions = []string{
	"how many other pairs the process compared before, how often a comparison node was evaluated before and with which operands, the length of a string or container, the position of the difference or of the needle, the number of cases of a switch and what other goroutines compare are not inputs of equality: the reference of a late, large or concurrent comparison is the same rule as for a first small one",
	"an int64 of magnitude up to 2^53 against a finite float64 in the literal forms of phase hot is judged by exact arithmetic (both <= and >= are exact there); everywhere else int/float is judged against the observed x<=y && x>=y as before",
	"operands of phase big are built by the host ([]interface{}, map[interface{}]interface{}, []int64, []string); their reference is known by construction (distinct elements, one position changed) and is cross-checked against the structural rule for sizes up to 1025; numerals beyond 40000 characters are judged by the laws only",
}

func c06R8Phases(tier string) []fw.Phase {
	nStream, nHot, nCrowd := 4, len(c06R8HotTs("quick")), 3
	if tier == "thorough" {
		nStream, nHot, nCrowd = 20, 8*len(c06R8HotTs(tier)), 10
	}
	return []fw.Phase{
		{Name: "stream", Cases: nStream, Chunk: 1, TimeoutS: 1800},
		{Name: "hot", Cases: nHot, Chunk: 3, TimeoutS: 900},
		{Name: "big", Cases: len(c06R8BigKinds(tier)), Chunk: 1, TimeoutS: 1800},
		{Name: "crowd", Cases: nCrowd, Chunk: 1, TimeoutS: 900},
	}
}

// c06R8Run runs a case of one of the round-8 phases; false when the phase is not one of them.
func c06R8Run(c *wk.Case) bool {
	switch c.Phase {
	case "stream":
		c06R8Stream(c)
	case "hot":
		c06R8Hot(c)
	case "big":
		c06R8Big(c)
	case "crowd":
		c06R8Crowd(c)
	default:
		return false
	}
	return true
}

// ---------------------------------------------------------------------------
// PRNG that is a pure function of (case seed, step): a bundle can be rebuilt when it is asked again

type c06R8Rng struct{ s uint64 }

func c06R8NewRng(seed int64, t int) *c06R8Rng {
	g := &c06R8Rng{s: uint64(seed) ^ (uint64(t)+1)*0x9E3779B97F4A7C15}
	g.Uint64()
	return g
}
func (g *c06R8Rng) Uint64() uint64 {
	g.s += 0x9E3779B97F4A7C15
	z := g.s
	z = (z ^ (z >> 30)) * 0xBF58476D1CE4E5B9
	z = (z ^ (z >> 27)) * 0x94D049BB133111EB
	return z ^ (z >> 31)
}
func (g *c06R8Rng) Int63() int64     { return int64(g.Uint64() >> 1) }
func (g *c06R8Rng) Intn(n int) int   { return int(g.Uint64() % uint64(n)) }
func (g *c06R8Rng) Float64() float64 { return float64(g.Uint64()>>11) / (1 << 53) }

// ---------------------------------------------------------------------------
// questions, carriers, judging

// c06R8Q is one ordered pair with what the statement prescribes for it.
type c06R8Q struct {
	x, y       interface{} // the Go values handed to the interpreter
	want       c06Tri
	rule       string
	pairD      string
	mixed      bool   // an integer against a float: x<=y && x>=y is observed too
	litX, litY string // literal spellings ("" = none)
	fam        string
	showX      string // printable operands (clipped)
	showY      string
	back       int // asked again after this many steps (0: first time)
}

func c06R8Clip(s string, n int) string {
	if len(s) <= n {
		return s
	}
	return s[:n/2] + "...(" + strconv.Itoa(len(s)) + " bytes)..." + s[len(s)-n/2:]
}

// c06R8Small makes a question of two model values (small enough to be rendered).
func c06R8Small(a, b c06V, fam string) c06R8Q {
	q := c06R8Q{x: a.goVal(), y: b.goVal(), fam: fam}
	q.want, q.rule = c06Ref(a, b)
	q.pairD = a.desc() + "," + b.desc()
	q.mixed = (a.k == 'f' && b.k == 'i') || (a.k == 'i' && b.k == 'f')
	if l, ok := a.lit(1); ok {
		q.litX = l
	}
	if l, ok := b.lit(0); ok {
		q.litY = l
	}
	q.showX, q.showY = c06R8Clip(a.key(), 300), c06R8Clip(b.key(), 300)
	return q
}

// the forms, over two operand expressions; bit k of r is form k
var c06R8FormNames = []string{"x == y", "y == x", "x != y", "y != x", "x in [y]", "y in [x]", "switch x { case y }", "switch y { case x }", "x <= y && x >= y"}

func c06R8Body(X, Y, M string) string {
	return "r = 0\n" +
		"if " + X + " == " + Y + " { r += 1 }\n" +
		"if " + Y + " == " + X + " { r += 2 }\n" +
		"if " + X + " != " + Y + " { r += 4 }\n" +
		"if " + Y + " != " + X + " { r += 8 }\n" +
		"if (" + X + " in [" + Y + "]) { r += 16 }\n" +
		"if (" + Y + " in [" + X + "]) { r += 32 }\n" +
		"switch " + X + " {\ncase " + Y + ":\n r += 64\n}\n" +
		"switch " + Y + " {\ncase " + X + ":\n r += 128\n}\n" +
		"if " + M + " { if " + X + " <= " + Y + " && " + X + " >= " + Y + " { r += 256 } }\n"
}

var c06R8Drivers = []string{"index-loop", "for-in", "function"}

// c06R8LoopSrc: a script that asks all pairs of the host lists xs / ys (ms: int/float flag) and stores the outcome bits in out.
func c06R8LoopSrc(driver, extra string) string {
	body := c06R8Body("x", "y", "m") + extra
	switch driver {
	case "for-in":
		return "i = 0\nfor x in xs {\ny = ys[i]\nm = ms[i]\n" + body + "out[i] = r\ni++\n}\nn"
	case "function":
		return "f = func(x, y, m) {\n" + body + "return r\n}\nfor i = 0; i < n; i++ {\nout[i] = f(xs[i], ys[i], ms[i])\n}\nn"
	}
	return "for i = 0; i < n; i++ {\nx = xs[i]\ny = ys[i]\nm = ms[i]\n" + body + "out[i] = r\n}\nn"
}

type c06R8 struct {
	c     *wk.Case
	tag   string // "r8:<phase>"
	seen  map[string]int
	total int
	asked int
	envs  []*env.Env // environments of earlier runs left alive
}

func newC06R8(c *wk.Case) *c06R8 {
	return &c06R8{c: c, tag: "r8:" + c.Phase, seen: map[string]int{}}
}

// viol reports at most two violations per signature and 40 per case: one broken node gives thousands of wrong evaluations.
func (h *c06R8) viol(sig, detail string, input map[string]interface{}) {
	h.seen[sig]++
	h.total++
	if h.seen[sig] > 2 || h.total > 40 {
		h.c.Count("r8_violations_suppressed_as_repeats_within_case", 1)
		return
	}
	in := map[string]interface{}{"phase": h.c.Phase, "case": h.c.Index, "seed": h.c.W.Seed, "replay": "the case is rebuilt from (VERIF_SEED, phase, case index): ./vcheck replay re-runs its whole history"}
	for k, v := range input {
		in[k] = v
	}
	h.c.Violation(sig, detail, in)
}

// lists hands the questions to an environment as host lists.
func c06R8Lists(e *env.Env, qs []c06R8Q) []interface{} {
	n := len(qs)
	xs, ys, ms, out := make([]interface{}, n), make([]interface{}, n), make([]interface{}, n), make([]interface{}, n)
	for i := range qs {
		xs[i], ys[i], ms[i] = qs[i].x, qs[i].y, qs[i].mixed
	}
	e.Define("xs", xs)
	e.Define("ys", ys)
	e.Define("ms", ms)
	e.Define("out", out)
	e.Define("n", int64(n))
	return out
}

// askLoop asks all questions in one run (stmt != nil: vm.RunContext of a parsed tree, else vm.Execute of src).
func (h *c06R8) askLoop(e *env.Env, qs []c06R8Q, src string, stmt ast.Stmt, how string, where map[string]interface{}) []int64 {
	if len(qs) == 0 {
		return nil
	}
	out := c06R8Lists(e, qs)
	h.c.Begin(map[string]interface{}{"how": how, "pairs": len(qs), "first": qs[0].showX + " ? " + qs[0].showY, "where": where})
	var o ank.Out
	if stmt != nil {
		o = ank.RunCtx(context.Background(), e, stmt)
	} else {
		o = ank.Exec(e, src)
	}
	return h.collect(o, out, qs, how, where)
}

func (h *c06R8) collect(o ank.Out, out []interface{}, qs []c06R8Q, how string, where map[string]interface{}) []int64 {
	bits := make([]int64, len(qs))
	bad := ""
	switch {
	case o.Panicked:
		bad = "panic: " + o.PanicVal
	case o.Err != nil:
		bad = "error: " + o.Err.Error()
	}
	for i := range qs {
		b, ok := out[i].(int64)
		if !ok && bad == "" {
			bad = fmt.Sprintf("no outcome stored for pair %d: %s", i, ank.Render(out[i]))
		}
		if !ok {
			b = -1
		}
		bits[i] = b
	}
	if bad != "" {
		j := 0
		for j < len(bits)-1 && bits[j] >= 0 {
			j++
		}
		in := map[string]interface{}{"how": how, "x": qs[j].showX, "y": qs[j].showY, "pair index in the run": j}
		for k, v := range where {
			in[k] = v
		}
		h.viol(h.tag+":noresult:"+qs[j].pairD, "a run of comparisons did not finish: "+c06R8Clip(bad, 300), in)
	}
	for i := range qs {
		if bits[i] >= 0 {
			h.judge(&qs[i], bits[i], how, where)
		}
	}
	return bits
}

// askOne asks one question in one run: literals in a fresh source, or one run of a parsed tree over x, y, m.
func (h *c06R8) askOne(e *env.Env, q *c06R8Q, stmt ast.Stmt, how string, where map[string]interface{}) {
	var o ank.Out
	if stmt == nil {
		o = ank.Exec(e, c06R8Body(q.litX, q.litY, strconv.FormatBool(q.mixed))+"r")
	} else {
		e.Define("x", q.x)
		e.Define("y", q.y)
		e.Define("m", q.mixed)
		o = ank.RunCtx(context.Background(), e, stmt)
	}
	b, ok := o.Val.(int64)
	if o.Panicked || o.Err != nil || !ok {
		got := ank.Render(o.Val)
		if o.Panicked {
			got = "panic: " + o.PanicVal
		} else if o.Err != nil {
			got = "error: " + o.Err.Error()
		}
		in := map[string]interface{}{"how": how, "x": q.showX, "y": q.showY}
		for k, v := range where {
			in[k] = v
		}
		h.viol(h.tag+":noresult:"+q.pairD, "the comparisons of one pair gave "+c06R8Clip(got, 300), in)
		return
	}
	h.judge(q, b, how, where)
}

// judge applies the statement to the outcome bits of one pair.
func (h *c06R8) judge(q *c06R8Q, bits int64, how string, where map[string]interface{}) {
	c := h.c
	h.asked++
	nf := 8
	if q.mixed {
		nf = 9
	}
	c.Events(nf)
	c.Eval(q.fam+"\x00"+q.showX+"\x00"+q.showY+"\x00"+how, true)
	bit := func(k uint) bool { return bits&(1<<k) != 0 }
	E, Q, N, M, I, J, S, T := bit(0), bit(1), bit(2), bit(3), bit(4), bit(5), bit(6), bit(7)
	in := func() map[string]interface{} {
		obs := map[string]bool{}
		for k := 0; k < nf; k++ {
			obs[c06R8FormNames[k]] = bit(uint(k))
		}
		m := map[string]interface{}{"x": q.showX, "y": q.showY, "observed": obs, "how": how, "family": q.fam, "reference": q.rule + ":" + q.want.String()}
		if q.back > 0 {
			m["asked before, steps ago"] = q.back
		}
		for k, v := range where {
			m[k] = v
		}
		return m
	}
	late := ""
	if q.back > 0 {
		late = " (the same pair was asked " + strconv.Itoa(q.back) + " steps earlier in this process)"
	}
	if E != Q {
		h.viol(fmt.Sprintf("%s:sym:%s:xy=%v,yx=%v", h.tag, q.pairD, E, Q), fmt.Sprintf("== is not symmetric: x == y is %v, y == x is %v for x = %s, y = %s%s", E, Q, q.showX, q.showY, late), in())
	}
	if N != !E || M != !Q {
		h.viol(fmt.Sprintf("%s:neg:%s:eq=%v,ne=%v", h.tag, q.pairD, E, N), fmt.Sprintf("!= is not the negation of ==: x==y %v, x!=y %v, y==x %v, y!=x %v for x = %s, y = %s%s", E, N, Q, M, q.showX, q.showY, late), in())
	}
	if E == Q {
		if I != E || J != E {
			h.viol(fmt.Sprintf("%s:in:%s:eq=%v,in=%v", h.tag, q.pairD, E, I && J), fmt.Sprintf("membership disagrees with ==: x==y %v, x in [y] %v, y in [x] %v for x = %s, y = %s%s", E, I, J, q.showX, q.showY, late), in())
		}
		if S != E || T != E {
			h.viol(fmt.Sprintf("%s:switch:%s:eq=%v,switch=%v", h.tag, q.pairD, E, S && T), fmt.Sprintf("switch matching disagrees with ==: x==y %v, switch x {case y} %v, switch y {case x} %v for x = %s, y = %s%s", E, S, T, q.showX, q.showY, late), in())
		}
	}
	if q.mixed {
		if lege := bit(8); E != lege {
			h.viol(fmt.Sprintf("%s:lege:%s:eq=%v,lege=%v", h.tag, q.pairD, E, lege), fmt.Sprintf("int/float: x == y is %v but x <= y && x >= y is %v for x = %s, y = %s%s", E, lege, q.showX, q.showY, late), in())
		}
	}
	if q.want != c06Unspec {
		w := q.want == c06True
		if E != w || Q != w {
			g := E
			if E == w {
				g = Q
			}
			h.viol(fmt.Sprintf("%s:%s:%s:got=%v", h.tag, q.rule, q.pairD, g), fmt.Sprintf("rule %q: x == y is %v and y == x is %v, the statement prescribes %v for x = %s, y = %s%s", q.rule, E, Q, q.want, q.showX, q.showY, late), in())
		}
		c.Tag(h.tag + ":judged-by-rule:" + q.rule)
	} else {
		c.Tag(h.tag + ":judged-by-laws-only")
	}
	if c.WantSample() {
		c.Sample(in())
	}
}

func c06R8Max(c *wk.Case, name string, v int, marks []int) {
	for _, m := range marks {
		if v >= m {
			c.Tag(name + ">=" + strconv.Itoa(m))
		}
	}
}

func c06R8Parse(h *c06R8, src string) ast.Stmt {
	stmt, err, po := ank.Parse(src)
	if po.Panicked || err != nil {
		h.viol(h.tag+":noresult:parse", "the comparison script does not parse: "+c06R8Clip(fmt.Sprint(err, po.PanicVal), 300), map[string]interface{}{"src": c06R8Clip(src, 600)})
		return nil
	}
	return stmt
}

// ---------------------------------------------------------------------------
// generators

var c06R8Mods = []int64{256, 1024, 4096, 65536, 1 << 32}

// reference numbers: the stream's numbers are congruent to them
var c06R8RefInts = []int64{0, 1, 2, 7, 255, 1000, 4095, 4096, 65535, 1000000, c06P53 + 1, -1, -4096}
var c06R8Fracs = []string{"5", "25", "125", "75", "0625", "5", "25"}

// c06R8Pad pads a numeral with a fraction (no exponent) with trailing zeros / leading zeros to about L bytes.
func c06R8Pad(g c06Rng, s string, L int) string {
	if len(s) >= L {
		return s
	}
	neg := strings.HasPrefix(s, "-")
	t := strings.TrimPrefix(s, "-")
	if !strings.Contains(t, ".") {
		t += ".0"
	}
	k := L - len(t)
	if neg {
		k--
	}
	if k > 0 {
		if g.Intn(3) == 0 {
			t = strings.Repeat("0", k) + t
		} else {
			t += strings.Repeat("0", k)
		}
	}
	if neg {
		t = "-" + t
	}
	return t
}

func c06R8Len(g c06Rng) int {
	switch g.Intn(10) {
	case 0:
		return 62 + g.Intn(5)
	case 1:
		return 127 + g.Intn(3)
	case 2:
		return 255 + g.Intn(3)
	case 3, 4:
		return 8 + g.Intn(63)
	}
	return 0
}

// c06R8Numeral spells the decimal number ip.frac (ip an integer, frac a digit string, possibly empty) in one of many ways.
func c06R8Numeral(g c06Rng, ip int64, frac string) string {
	is := strconv.FormatInt(ip, 10)
	neg := ip < 0
	digits := strings.TrimPrefix(is, "-") + frac
	sign := ""
	if neg {
		sign = "-"
	}
	var s string
	switch g.Intn(8) {
	case 0, 1, 2: // positional
		s = is
		if frac != "" {
			s += "." + frac
		} else if g.Intn(2) == 0 {
			s += ".0"
		}
		return c06R8Pad(g, s, c06R8Len(g))
	case 3: // all digits as an integer mantissa under a negative exponent
		d := strings.TrimLeft(digits, "0")
		if d == "" {
			d = "0"
		}
		return sign + d + "e-" + strconv.Itoa(len(frac))
	case 4: // scientific
		d := strings.TrimLeft(digits, "0")
		if d == "" {
			return sign + "0.0e0"
		}
		ex := len(d) - 1 - len(frac)
		m := d[:1] + "." + d[1:]
		if len(d) == 1 {
			m += "0"
		}
		es := strconv.Itoa(ex)
		if ex >= 0 && g.Intn(2) == 0 {
			es = "+" + es
		}
		if g.Intn(3) == 0 {
			m = c06R8Pad(g, m, c06R8Len(g)-len(es)-2)
		}
		return sign + m + "e" + es
	case 5: // shifted the other way
		k := 1 + g.Intn(4)
		return sign + "0." + strings.Repeat("0", k-1) + digits + "e" + strconv.Itoa(len(digits)-len(frac)+k-1)
	case 6: // positional with a padded exponent of zero
		s = is
		if frac != "" {
			s += "." + frac
		}
		return s + []string{"e0", "e+0", "e-0", "e00"}[g.Intn(4)]
	}
	s = is
	if frac != "" {
		s += "." + frac
	}
	return c06R8Pad(g, s, 40+g.Intn(30))
}

func c06R8Float(ip int64, frac string) float64 {
	s := strconv.FormatInt(ip, 10)
	if frac != "" {
		s += "." + frac
	}
	f, _ := strconv.ParseFloat(s, 64)
	return f
}

var c06R8Alphabet = []string{"a", "b", "z", "0", "9", " ", "é", "日", "𝄞", "Z", "_"}

// c06R8Text makes a string of about L bytes that starts with stem.
func c06R8Text(g c06Rng, stem string, L int) string {
	var b strings.Builder
	b.WriteString(stem)
	fill := c06R8Alphabet[g.Intn(len(c06R8Alphabet))]
	for b.Len() < L {
		if g.Intn(8) == 0 {
			b.WriteString(c06R8Alphabet[g.Intn(len(c06R8Alphabet))])
		} else {
			b.WriteString(fill)
		}
	}
	return b.String()
}

// c06R8Change returns s with one byte replaced by another ASCII byte at one of: first, middle, last.
func c06R8Change(g c06Rng, s string) string {
	if s == "" {
		return "x"
	}
	b := []byte(s)
	p := []int{0, len(b) / 2, len(b) - 1}[g.Intn(3)]
	if b[p] == 'q' {
		b[p] = 'r'
	} else {
		b[p] = 'q'
	}
	return string(b)
}

// c06R8Bundle builds the pairs of step t: a pure function of (seed, t). numeralsOnly: only the
// number-against-numeral pairs (the first nine).
func c06R8Bundle(seed int64, t int, numeralsOnly bool) []c06R8Q {
	g := c06R8NewRng(seed, t)
	var qs []c06R8Q
	add := func(fam string, a, b c06V) {
		if g.Intn(2) == 0 {
			a, b = b, a
		}
		qs = append(qs, c06R8Small(a, b, fam))
	}
	mod := c06R8Mods[g.Intn(len(c06R8Mods))]
	ref := c06R8RefInts[g.Intn(len(c06R8RefInts))]
	n := ref + int64(t)*mod
	if g.Intn(6) == 0 {
		n = -n
	}
	frac := c06R8Fracs[g.Intn(len(c06R8Fracs))]
	if g.Intn(3) == 0 {
		frac = strings.TrimRight(strconv.Itoa(t), "0")
	}
	f := c06R8Float(n, frac)
	mod2 := c06R8Mods[g.Intn(len(c06R8Mods))]
	// a float against numerals of it, of a neighbour, of the reference
	add("float~numeral", c06F(f), c06S(c06R8Numeral(g, n, frac)))
	add("float~numeral", c06F(f), c06S(c06R8Numeral(g, n, frac)))
	add("float~numeral-of-neighbour", c06F(f), c06S(c06R8Numeral(g, n+1, frac)))
	add("reference-float~numeral", c06F(c06R8Float(ref, frac)), c06S(c06R8Numeral(g, n, frac)))
	add("float~reference-numeral", c06F(f), c06S(c06R8Numeral(g, ref, frac)))
	// an integer against whole numerals in fraction / exponent spelling, and numerals with a fraction
	add("int~whole-numeral", c06I(n), c06S(c06R8Numeral(g, n, "")))
	add("int~fraction-numeral", c06I(n), c06S(c06R8Numeral(g, n, frac)))
	add("int~int-numeral", c06I(n), c06S(strconv.FormatInt(n, 10)))
	add("int~numeral-of-congruent", c06I(n), c06S(c06R8Numeral(g, n+mod2, "")))
	if numeralsOnly {
		return qs
	}
	switch t % 3 {
	case 0:
		add("int~float", c06I(n), c06F(float64(n)))
		add("int~int-congruent", c06I(n), c06I(n+mod2))
		add("float~float", c06F(f), c06F(c06R8Float(n, frac)))
	case 1:
		add("int~float-near", c06I(n), c06F(float64(n)+0.5))
		add("int~int", c06I(n), c06I(n))
		add("float~float-near", c06F(f), c06F(c06R8Float(n+mod2, frac)))
	case 2:
		add("int~reference-int", c06I(n), c06I(ref))
		add("float-whole~int-numeral", c06F(float64(n)), c06S(strconv.FormatInt(n, 10)))
		add("nil~value", c06Nil(), []c06V{c06I(n), c06S(strconv.Itoa(t)), c06L(), c06F(f), c06Nil()}[g.Intn(5)])
	}
	// strings
	s1 := c06R8Text(g, "s"+strconv.Itoa(t)+":", []int{0, 0, 8 + g.Intn(63), 62 + g.Intn(5), 255 + g.Intn(3), 1023 + g.Intn(3)}[g.Intn(6)])
	switch t % 2 {
	case 0:
		add("string~copy", c06S(s1), c06S(string([]byte(s1))))
		add("nonnumeral~int", c06S(strconv.FormatInt(n, 10)+[]string{"x", " ", "e", ".", "..0", "e+"}[g.Intn(6)]), c06I(n))
	case 1:
		add("string~one-byte-changed", c06S(s1), c06S(c06R8Change(g, s1)))
		add("string~longer", c06S(s1), c06S(s1+"a"))
	}
	// containers that differ in one leaf
	leaf, leaf2 := c06I(n), c06I(n+mod2)
	switch g.Intn(3) {
	case 1:
		leaf, leaf2 = c06S(s1), c06S(c06R8Change(g, s1))
	case 2:
		leaf, leaf2 = c06F(f), c06F(f+1)
	}
	wrap := func(v c06V, k int) c06V {
		switch k {
		case 0:
			return c06L(c06I(1), v)
		case 1:
			return c06M("a", v, "b", c06I(2))
		case 2:
			return c06L(c06L(v), c06M("k", c06S("v")))
		case 3:
			return c06M("a", c06L(c06I(0), v))
		}
		return c06L(v, v, v)
	}
	k := g.Intn(5)
	if t%2 == 0 {
		add("container~copy", wrap(leaf, k), wrap(c06Copy(leaf), k))
	} else {
		add("container~one-leaf-changed", wrap(leaf, k), wrap(leaf2, k))
	}
	if t%5 == 0 {
		add("container~other-shape", wrap(leaf, k), wrap(leaf, (k+1)%5))
	}
	// the older generator's pairs
	a := c06RandValue(g)
	add("prng-related", a, c06Derive(g, a))
	if t%4 == 0 {
		add("prng-independent", c06RandValue(g), c06RandValue(g))
	}
	return qs
}

// the fixed reference set
func c06R8Refs() []c06R8Q {
	var qs []c06R8Q
	add := func(a, b c06V) {
		qs = append(qs, c06R8Small(a, b, "reference"), c06R8Small(b, a, "reference"))
	}
	for _, w := range c06Witnesses {
		add(w[0], w[1])
	}
	add(c06F(2.5), c06S("2.5"))
	add(c06F(2.5), c06S("3.5"))
	add(c06F(3.5), c06S("3.5"))
	add(c06I(1000), c06S("1e3"))
	add(c06F(1000), c06S("1e3"))
	add(c06I(7), c06S("7.0"))
	add(c06I(8), c06S("7.0"))
	add(c06F(0.125), c06S("1.25e-1"))
	add(c06F(0.25), c06S("1.25e-1"))
	add(c06I(c06P53+1), c06S("9007199254740993.0"))
	add(c06I(c06P53), c06S("9007199254740993.0"))
	add(c06I(4096), c06S("4096.5"))
	add(c06F(4096.5), c06S("4096.5"))
	add(c06F(0.1), c06S("0.10"))
	add(c06F(0.1), c06S("1e-1"))
	add(c06I(-1), c06S("-1.0e0"))
	add(c06F(2.5), c06S("2."+"5"+strings.Repeat("0", 60)))
	add(c06F(2.5), c06S("2."+"5"+strings.Repeat("0", 61)))
	add(c06F(2.5), c06S("2."+"5"+strings.Repeat("0", 62)))
	add(c06I(2), c06S("2."+"5"+strings.Repeat("0", 61)))
	add(c06I(3), c06S("3."+strings.Repeat("0", 62)))
	add(c06I(3), c06S("3."+strings.Repeat("0", 61)+"1"))
	add(c06S("abc"), c06S("abc"))
	add(c06S("abc"), c06S("abd"))
	add(c06S("2.5"), c06S("2.50"))
	add(c06S(strings.Repeat("k", 64)), c06S(strings.Repeat("k", 64)))
	add(c06S(strings.Repeat("k", 64)), c06S(strings.Repeat("k", 63)+"j"))
	add(c06I(4095), c06I(4095))
	add(c06I(1<<40), c06I(1<<40))
	add(c06I(1<<40), c06I(1<<40+256))
	add(c06I(3), c06F(3))
	add(c06I(3), c06F(3.5))
	add(c06Nil(), c06Nil())
	add(c06Nil(), c06I(0))
	add(c06Nil(), c06S(""))
	add(c06Nil(), c06L())
	add(c06B(true), c06B(true))
	add(c06B(true), c06B(false))
	add(c06L(c06I(1), c06I(2)), c06L(c06I(1), c06I(2)))
	add(c06L(c06I(1), c06I(2)), c06L(c06I(1), c06I(3)))
	add(c06M("a", c06I(1)), c06M("a", c06I(1)))
	add(c06M("a", c06I(1)), c06M("a", c06I(2)))
	add(c06L(c06L(c06S("a")), c06M("k", c06F(2.5))), c06L(c06L(c06S("a")), c06M("k", c06F(2.5))))
	add(c06L(c06L(c06S("a")), c06M("k", c06F(2.5))), c06L(c06L(c06S("a")), c06M("k", c06F(3.5))))
	add(c06L(), c06M())
	return qs
}

func c06R8Distances(long bool) []int {
	var d []int
	Ns := []int{256, 1000, 1024, 4096}
	if long {
		Ns = append(Ns, 65536)
	}
	for _, n := range Ns {
		d = append(d, n-1, n, n+1)
	}
	return d
}

// ---------------------------------------------------------------------------
// phase stream

func c06R8Stream(c *wk.Case) {
	h := newC06R8(c)
	seed := c.Rng.Int63()
	refs := c06R8Refs()
	long := c.Tier == "thorough" && c.Index%5 == 4
	D := c06R8Distances(long) // the bundles of earlier steps are asked again at these distances
	e0 := ank.NewCoreEnv()
	loopTree := c06R8Parse(h, c06R8LoopSrc(c06R8Drivers[c.Index%3], ""))
	pairTree := c06R8Parse(h, c06R8Body("x", "y", "m")+"r")
	if loopTree == nil || pairTree == nil {
		return
	}
	ePair := e0.NewEnv()
	// the schedule of the reference set: reference j is asked first at step j%16, then
	// again after d steps for every d of the distance list (each in its own rotation)
	due := map[int][]int{}
	dist := map[[2]int]int{}
	last := 0
	for j := range refs {
		t := j % 16
		due[t] = append(due[t], j)
		Dj := D[:12]
		if c.Tier != "thorough" {
			// quick: every reference goes through the nine distances around 256, 1000, 1024 and one of 4095, 4096, 4097
			Dj = append(append([]int(nil), D[:9]...), D[9+(j/2)%3])
		} else if long {
			// every fifth thorough case: and one of 65535, 65536, 65537
			Dj = append(append([]int(nil), D[:12]...), D[12+(j/2)%3])
		}
		for k := range Dj {
			d := Dj[(k+j/2)%len(Dj)]
			t += d
			due[t] = append(due[t], j)
			dist[[2]int{j, t}] = d
		}
		if t > last {
			last = t
		}
	}
	gcs, reasks, backs, maxAlive := 0, 0, 0, 0
	carriers := map[string]int{}
	for t := 0; t <= last; t++ {
		var qs []c06R8Q
		for _, j := range due[t] {
			q := refs[j]
			q.back = dist[[2]int{j, t}]
			if q.back > 0 {
				c.Tag("r8:stream:reference-asked-again-after:" + strconv.Itoa(q.back))
				reasks++
			}
			qs = append(qs, q)
		}
		// the bundle of this step, and the bundle of an earlier step once more
		qs = append(qs, c06R8Bundle(seed, t, false)...)
		if d := D[(t/2)%len(D)]; t-d >= 0 && (t%2 == 0 || c.Tier == "thorough") {
			old := c06R8Bundle(seed, t-d, c.Tier != "thorough")
			for i := range old {
				old[i].back = d
			}
			qs = append(qs, old...)
			backs += len(old)
			c.Tag("r8:stream:bundle-asked-again-after:" + strconv.Itoa(d))
		}
		where := map[string]interface{}{"step of the history": t}
		var how string
		switch k := t % 16; {
		case k < 8 || k == 12: // one parsed loop, long-lived environment
			how = "one parsed loop over host lists (" + c06R8Drivers[c.Index%3] + "), vm.RunContext, long-lived environment"
			h.askLoop(e0, qs, "", loopTree, how, where)
		case k < 11: // a fresh source in a fresh environment
			drv := c06R8Drivers[(t/16+k)%3]
			how = "fresh source (" + drv + ") in a fresh environment"
			e := ank.NewCoreEnv()
			if t%32 < 16 {
				e = e0.NewEnv()
				how = "fresh source (" + drv + ") in a child environment"
			}
			h.askLoop(e, qs, c06R8LoopSrc(drv, ""), nil, how, where)
			if t%64 < 32 {
				h.envs = append(h.envs, e) // left alive
			}
		case k == 11: // literals
			how = "literal operands in a fresh source"
			var rest []c06R8Q
			for i := range qs {
				if qs[i].litX != "" && qs[i].litY != "" {
					h.askOne(e0.NewEnv(), &qs[i], nil, how, where)
				} else {
					rest = append(rest, qs[i])
				}
			}
			h.askLoop(e0, rest, "", loopTree, "one parsed loop over host lists, vm.RunContext, long-lived environment", where)
		default: // one run of one parsed tree per pair
			how = "one parsed tree over x and y, one vm.RunContext per pair, long-lived environment"
			for i := range qs {
				h.askOne(ePair, &qs[i], pairTree, how, where)
			}
		}
		carriers[strings.SplitN(how, ",", 2)[0]]++
		if len(h.envs) > maxAlive {
			maxAlive = len(h.envs)
		}
		if t%1500 == 1499 {
			h.envs = append([]*env.Env(nil), h.envs[len(h.envs)/2:]...)
			runtime.GC()
			gcs++
		}
	}
	for k, n := range carriers {
		c.Count("stream_steps_through: "+k, n)
	}
	c.Count("stream_histories", 1)
	c.Count("stream_steps", last+1)
	c.Count("stream_pairs_asked", h.asked)
	c.Count("stream_reasks_of_references", reasks)
	c.Count("stream_reasks_of_earlier_bundles", backs)
	c.Count("stream_gcs", gcs)
	c06R8Max(c, "r8:stream:history-steps", last+1, []int{6000, 19000, 100000})
	c06R8Max(c, "r8:stream:pairs-in-one-process", h.asked, []int{100000, 400000, 1000000})
	c06R8Max(c, "r8:stream:max-envs-kept-alive", maxAlive, []int{256, 1000})
}

// ---------------------------------------------------------------------------
// phase hot

func c06R8HotTs(tier string) []int {
	ts := []int{1, 2, 255, 256, 257, 999, 1000, 1001, 1023, 1024, 1025, 4095, 4096, 4097}
	if tier == "thorough" {
		ts = append(ts, 65535, 65536, 65537)
	}
	return ts
}

var c06R8Monos = []string{"int=int", "int!=int", "same-two-values", "string=string", "string!=string", "float=float", "int~float", "int~numeral", "float~numeral", "same-float-and-numeral", "list=list", "list!=list", "nil~int", "string~numeral-string"}

func c06R8Mono(g c06Rng, fam string, i int) (c06V, c06V) {
	n := int64(i)*7 + int64(g.Intn(3))*4096
	switch fam {
	case "int=int":
		return c06I(n), c06I(n)
	case "int!=int":
		return c06I(n), c06I(n + []int64{1, 256, 4096, 65536}[i%4])
	case "same-two-values":
		return c06I(7), c06I(7)
	case "string=string":
		s := "k" + strconv.Itoa(i)
		return c06S(s), c06S(string([]byte(s)))
	case "string!=string":
		s := "k" + strconv.Itoa(i)
		return c06S(s), c06S(s + "x")
	case "float=float":
		return c06F(float64(n) + 0.5), c06F(float64(n) + 0.5)
	case "int~float":
		return c06I(n), c06F(float64(n) + float64(i%2)*0.5)
	case "int~numeral":
		return c06I(n), c06S(c06R8Numeral(g, n+int64(i%2), ""))
	case "float~numeral":
		return c06F(c06R8Float(n, "25")), c06S(c06R8Numeral(g, n, []string{"25", "5"}[i%2]))
	case "same-float-and-numeral":
		return c06F(2.5), c06S("2.5")
	case "list=list":
		return c06L(c06I(n), c06S("a")), c06L(c06I(n), c06S("a"))
	case "list!=list":
		return c06L(c06I(n), c06S("a")), c06L(c06I(n+256), c06S("a"))
	case "nil~int":
		return c06Nil(), c06I(n)
	}
	return c06S(strconv.Itoa(i)), c06S(strconv.Itoa(i) + ".0")
}

// c06R8LitRef: the reference for x against a literal; int/float of magnitude up to 2^53 by exact arithmetic.
func c06R8LitRef(x, l c06V) c06Tri {
	if (x.k == 'i' && l.k == 'f') || (x.k == 'f' && l.k == 'i') {
		i, f := x, l
		if x.k == 'f' {
			i, f = l, x
		}
		if i.i >= -c06P53 && i.i <= c06P53 && !math.IsNaN(f.f) && !math.IsInf(f.f, 0) {
			return c06T(float64(i.i) == f.f)
		}
		return c06Unspec
	}
	w, _ := c06Ref(x, l)
	return w
}

func c06R8Hot(c *wk.Case) {
	h := newC06R8(c)
	seed := c.Rng.Int63()
	ts := c06R8HotTs(c.Tier)
	T := ts[c.Index%len(ts)]
	g := c06R8NewRng(seed, 0)
	// the four literals of this case
	li := int64(g.Intn(9000))
	lf := c06R8Float(int64(g.Intn(9000)), "5")
	lits := []c06V{c06I(li), c06S(c06R8Numeral(g, int64(g.Intn(9000)), "25")), c06F(lf), c06S("k" + strconv.Itoa(g.Intn(50)))}
	var L [4]string
	for k := range lits {
		L[k], _ = lits[k].lit(1)
	}
	extra := "if x == " + L[0] + " { r += 512 }\n" +
		"if " + L[1] + " == x { r += 1024 }\n" +
		"if (x in [" + L[0] + ", " + L[1] + ", " + L[2] + ", " + L[3] + "]) { r += 2048 }\n" +
		"switch x {\ncase " + L[0] + ":\n r += 4096\ncase " + L[1] + ":\n r += 8192\ncase " + L[2] + ", " + L[3] + ":\n r += 16384\n}\n"
	maxEvals, rounds, litJudged := 0, 0, 0
	round := func(rd int, fam, driver string, T int, perPair bool) {
		N := T + 300
		if T == 0 {
			N = 96
		}
		qs := make([]c06R8Q, 0, N)
		xv := make([]c06V, 0, N)
		bundle := []c06R8Q(nil)
		for i := 0; len(qs) < N; i++ {
			if i < T {
				a, b := c06R8Mono(g, fam, i)
				qs, xv = append(qs, c06R8Small(a, b, "hot:"+fam)), append(xv, a)
				continue
			}
			// afterwards: all kinds. x is sometimes one of the literals' values
			var a, b c06V
			switch g.Intn(6) {
			case 0:
				a = lits[g.Intn(4)]
				b = c06Derive(g, a)
			case 1:
				l := lits[g.Intn(4)]
				a, b = c06Derive(g, l), l
			case 2:
				a = c06RandValue(g)
				b = c06Derive(g, a)
			default:
				if len(bundle) == 0 {
					bundle = c06R8Bundle(seed, 100000*rd+i, false)
				}
				// a bundle pair is taken over as it is (x of the literal forms is judged only where the model value is known)
				qs, xv = append(qs, bundle[0]), append(xv, c06V{k: 0})
				bundle = bundle[1:]
				continue
			}
			qs, xv = append(qs, c06R8Small(a, b, "hot:mixed")), append(xv, a)
		}
		where := map[string]interface{}{"round": rd, "driver": driver, "operand kinds of the first evaluations": fam, "number of those": T, "literals": L[:]}
		src := c06R8LoopSrc(driver, extra)
		var bits []int64
		how := "one run, " + driver + ", every node evaluated " + strconv.Itoa(N) + " times"
		if perPair {
			// one parsed tree, one vm.RunContext per evaluation
			how = "one parsed tree, one vm.RunContext per evaluation, " + strconv.Itoa(N) + " evaluations"
			stmt := c06R8Parse(h, c06R8Body("x", "y", "m")+extra+"r")
			if stmt == nil {
				return
			}
			e := ank.NewCoreEnv()
			bits = make([]int64, len(qs))
			for i := range qs {
				e.Define("x", qs[i].x)
				e.Define("y", qs[i].y)
				e.Define("m", qs[i].mixed)
				o := ank.RunCtx(context.Background(), e, stmt)
				b, ok := o.Val.(int64)
				if !ok {
					h.viol(h.tag+":noresult:"+qs[i].pairD, "evaluation "+strconv.Itoa(i+1)+" gave "+c06R8Clip(ank.Render(o.Val)+" "+ank.ErrText(o.Err)+" "+o.PanicVal, 300), map[string]interface{}{"x": qs[i].showX, "y": qs[i].showY, "where": where})
					return
				}
				bits[i] = b
				where["evaluation"] = i + 1
				h.judge(&qs[i], b, how, where)
			}
			delete(where, "evaluation")
		} else {
			bits = h.askLoop(ank.NewCoreEnv(), qs, src, nil, how, where)
		}
		// the literal forms
		for i := range qs {
			if i >= len(bits) || bits[i] < 0 || xv[i].k == 0 {
				continue
			}
			var w [4]c06Tri
			unspec := false
			for k := range lits {
				w[k] = c06R8LitRef(xv[i], lits[k])
				unspec = unspec || w[k] == c06Unspec
			}
			if unspec {
				c.Tag("r8:hot:literal-forms-unspecified-for-this-x")
				continue
			}
			litJudged++
			c.Events(4)
			want := int64(0)
			if w[0] == c06True {
				want |= 512
			}
			if w[1] == c06True {
				want |= 1024
			}
			if w[0] == c06True || w[1] == c06True || w[2] == c06True || w[3] == c06True {
				want |= 2048
			}
			switch {
			case w[0] == c06True:
				want |= 4096
			case w[1] == c06True:
				want |= 8192
			case w[2] == c06True || w[3] == c06True:
				want |= 16384
			}
			if got := bits[i] &^ 511; got != want {
				form := "x == literal"
				switch d := got ^ want; {
				case d&512 != 0:
				case d&1024 != 0:
					form = "literal == x"
				case d&2048 != 0:
					form = "x in [literals]"
				default:
					form = "switch x over literal cases"
				}
				in := map[string]interface{}{"x": qs[i].showX, "evaluation": i + 1, "outcome bits of the literal forms (512: x==L0, 1024: L1==x, 2048: x in [L0..L3], 4096/8192/16384: case L0 / L1 / L2,L3)": got, "expected": want, "how": how}
				for k, v := range where {
					in[k] = v
				}
				h.viol(fmt.Sprintf("%s:literal-form:%s:%s", h.tag, form, xv[i].desc()),
					fmt.Sprintf("evaluation %d of the node %q: outcome bits %d, the statement prescribes %d for x = %s against the literals %v", i+1, form, got, want, qs[i].showX, L), in)
			}
		}
		if N > maxEvals {
			maxEvals = N
		}
		rounds++
		c.Tag("r8:hot:first-kinds:"+fam, "r8:hot:driver:"+driver, "r8:hot:kinds-change-after:"+strconv.Itoa(T))
	}
	for k := 0; k < 3; k++ {
		fam := c06R8Monos[(c.Index*3+k+int(c.W.Seed))%len(c06R8Monos)]
		driver := c06R8Drivers[(c.Index+k)%3]
		perPair := k == 2 && T <= 4097
		round(2*k, fam, driver, T, perPair)
		runtime.GC()
		// the same source again, all kinds from the first evaluation on
		round(2*k+1, fam, driver, 0, false)
		runtime.GC()
	}
	c.Count("hot_rounds", rounds)
	c.Count("hot_pairs_judged", h.asked)
	c.Count("hot_literal_form_evaluations_judged", litJudged)
	c06R8Max(c, "r8:hot:max-evaluations-of-one-node", maxEvals, []int{257, 1001, 1025, 4097, 65537})
}

// ---------------------------------------------------------------------------
// phase big

func c06R8BigKinds(tier string) []string {
	ks := []string{"list-int", "list-string", "list-mixed", "map", "list-of-lists", "deep", "in-untyped", "in-int64", "in-string", "switch-cases", "switch-caselist", "strings", "numerals"}
	_ = tier
	return ks
}

// c06R8Sizes: the generic sizes up to max. The quick tier takes every size up to 4097 and ONE of
// 65535, 65536, 65537 (by case index and seed); the thorough tier all of them and ~131072, ~200000.
func c06R8Sizes(c *wk.Case, max int) []int {
	all := []int{255, 256, 257, 1023, 1024, 1025, 4095, 4096, 4097}
	if c.Tier == "thorough" {
		all = append(all, 65535, 65536, 65537, 131071, 131072, 131073, 199999, 200000, 200001)
	} else {
		all = append(all, 65535+(c.Index+int(c.W.Seed%3)+3)%3)
	}
	var out []int
	for _, n := range all {
		if n <= max {
			out = append(out, n)
		}
	}
	return out
}

// c06R8Pos: the positions asked for a container of n elements; the quick tier asks fewer of a large one.
func c06R8Pos(c *wk.Case, n int) []int {
	ps := c06R8Positions(n)
	if c.Tier == "thorough" || n <= 4097 {
		return ps
	}
	var out []int
	for _, p := range ps {
		if p == 0 || p == 4096 || p == n/2 || p >= 65534 || p == n-1 {
			out = append(out, p)
		}
	}
	return out
}

// positions of a container of n elements: first, last, on and next to the thresholds
func c06R8Positions(n int) []int {
	seen := map[int]bool{}
	var ps []int
	add := func(p int) {
		if p >= 0 && p < n && !seen[p] {
			seen[p] = true
			ps = append(ps, p)
		}
	}
	add(0)
	add(1)
	for _, t := range []int{256, 1024, 4096, 65536, 131072} {
		for d := -2; d <= 1; d++ {
			add(t + d)
		}
	}
	add(n / 2)
	add(n - 2)
	add(n - 1)
	return ps
}

func c06R8BigQ(x, y interface{}, want bool, rule, pairD, fam, showX, showY string) c06R8Q {
	return c06R8Q{x: x, y: y, want: c06T(want), rule: rule, pairD: pairD, fam: fam, showX: showX, showY: showY}
}

func c06R8Big(c *wk.Case) {
	h := newC06R8(c)
	kinds := c06R8BigKinds(c.Tier)
	kind := kinds[c.Index%len(kinds)]
	g := c06R8NewRng(c.Rng.Int63(), 0)
	c.Tag("r8:big:kind:" + kind)
	maxN := 0
	src := c06R8LoopSrc(c06R8Drivers[c.Index%3], "")
	ask := func(qs []c06R8Q, n int) {
		if n > maxN {
			maxN = n
		}
		where := map[string]interface{}{"kind": kind, "size": n}
		h.askLoop(ank.NewCoreEnv(), qs, src, nil, "host-built operands, "+c06R8Drivers[c.Index%3]+" over the pairs", where)
		c.Tag("r8:big:" + kind + ":size:" + strconv.Itoa(n))
	}
	// element i of a list of the kind, and another value for the same position
	elem := func(kind string, i int, changed int) interface{} {
		switch kind {
		case "list-string":
			s := "e" + strconv.Itoa(i)
			if changed > 0 {
				s += []string{"", "x", " ", "0"}[changed]
			}
			return s
		case "list-mixed":
			v := int64(i)*3 + int64([]int{0, 1, 256, 65536}[changed])
			switch i % 4 {
			case 0:
				return v
			case 1:
				return float64(v) + 0.5
			case 2:
				return "m" + strconv.FormatInt(v, 10)
			}
			return []interface{}{v, "t"}
		case "list-of-lists":
			return []interface{}{int64(i), []interface{}{int64(i)*5 + int64([]int{0, 1, 256, 65536}[changed])}, "u"}
		}
		return int64(i)*7 + 1 + int64([]int{0, 1, 256, 65536}[changed])
	}
	switch kind {
	case "list-int", "list-string", "list-mixed", "list-of-lists":
		maxList := 1 << 30
		if kind == "list-mixed" || kind == "list-of-lists" {
			maxList = 70000 // nested elements: one comparison of 200000 sublists costs the interpreter about a second
		}
		for _, n := range c06R8Sizes(c, maxList) {
			build := func(p, changed, extraLen int) []interface{} {
				l := make([]interface{}, n+extraLen)
				for i := range l {
					if i == p {
						l[i] = elem(kind, i, changed)
					} else {
						l[i] = elem(kind, i, 0)
					}
				}
				return l
			}
			base := build(-1, 0, 0)
			sx := fmt.Sprintf("%s of %d elements", kind, n)
			qs := []c06R8Q{c06R8BigQ(base, build(-1, 0, 0), true, "struct", "slice,slice", "big:copy", sx, "a copy built separately"),
				c06R8BigQ(base, build(-1, 0, 1), false, "struct", "slice,slice", "big:longer", sx, "the same with one more element"),
				c06R8BigQ(build(-1, 0, -1), base, false, "struct", "slice,slice", "big:shorter", "the same without the last element", sx)}
			ps := c06R8Pos(c, n)
			if kind == "list-of-lists" && len(ps) > 3 && n > 4097 && c.Tier != "thorough" {
				ps = ps[len(ps)-3:] // a comparison of 65537 sublists costs the interpreter ~0.3 s
			}
			for j, p := range ps {
				q := c06R8BigQ(base, build(p, 1+(j+c.Index)%3, 0), false, "struct", "slice,slice", "big:one-position-changed", sx, fmt.Sprintf("a copy that differs at position %d only", p))
				if j%2 == 1 {
					q.x, q.y, q.showX, q.showY = q.y, q.x, q.showY, q.showX
				}
				qs = append(qs, q)
			}
			ask(qs, n)
		}
	case "map":
		for _, n := range c06R8Sizes(c, 70000) {
			build := func(p int, how int) map[interface{}]interface{} {
				m := make(map[interface{}]interface{}, n)
				for i := 0; i < n; i++ {
					k, v := "k"+strconv.Itoa(i), interface{}(int64(i)*7+1)
					if i%5 == 4 {
						v = "v" + strconv.Itoa(i)
					}
					if i == p {
						switch how {
						case 0:
							v = int64(i)*7 + 1 + 65536
						case 1:
							k += "x"
						default:
							v = nil
						}
					}
					m[k] = v
				}
				return m
			}
			base := build(-1, 0)
			sx := fmt.Sprintf("map of %d entries", n)
			qs := []c06R8Q{c06R8BigQ(base, build(-1, 0), true, "struct", "map,map", "big:copy", sx, "a copy built separately")}
			ps := c06R8Pos(c, n)
			for j := 0; j < len(ps); j += 2 { // every other position: map comparisons are the slow ones
				p := ps[(j+c.Index)%len(ps)]
				qs = append(qs, c06R8BigQ(base, build(p, j/2%3), false, "struct", "map,map", "big:one-entry-changed", sx, fmt.Sprintf("a copy whose entry k%d differs (value, key or nil)", p)))
			}
			ask(qs, n)
		}
	case "deep":
		for _, d := range []int{255, 256, 257, 1023, 1024, 1025, 4095, 4096, 4097, 12000} {
			build := func(leaf interface{}, asMap bool) interface{} {
				v := leaf
				for i := 0; i < d; i++ {
					if asMap && i%2 == 1 {
						v = map[interface{}]interface{}{"a": v}
					} else {
						v = []interface{}{v}
					}
				}
				return v
			}
			var qs []c06R8Q
			for _, asMap := range []bool{false, true} {
				sx := fmt.Sprintf("the leaf 7 inside %d nested single-element containers (maps at odd levels: %v)", d, asMap)
				qs = append(qs,
					c06R8BigQ(build(int64(7), asMap), build(int64(7), asMap), true, "struct", "slice,slice", "big:deep-copy", sx, "a copy built separately"),
					c06R8BigQ(build(int64(7), asMap), build(int64(8), asMap), false, "struct", "slice,slice", "big:deep-leaf-changed", sx, "the same around the leaf 8"),
					c06R8BigQ(build("7", asMap), build("7x", asMap), false, "struct", "slice,slice", "big:deep-leaf-changed", sx+" (leaf \"7\")", "the same around the leaf \"7x\""),
					c06R8BigQ(build(int64(7), asMap), build([]interface{}{int64(7)}, asMap), false, "struct", "slice,slice", "big:deeper", sx, "the same one level deeper"))
			}
			ask(qs, d)
		}
	case "in-untyped", "in-int64", "in-string":
		c06R8BigIn(h, c, kind, g)
		return
	case "switch-cases", "switch-caselist":
		c06R8BigSwitch(h, c, kind)
		return
	case "strings":
		for _, n := range c06R8Sizes(c, 1<<30) {
			var qs []c06R8Q
			for al := 0; al < 4; al++ {
				unit := []string{"a", "é", "日", "𝄞"}[al]
				s := strings.Repeat("x", al) + strings.Repeat(unit, n/len(unit)+1)
				s = s[:n] // may cut a character: the statement's strings are Go strings, any bytes
				sx := fmt.Sprintf("string of %d bytes (%d x's, then %q repeated)", n, al, unit)
				qs = append(qs, c06R8BigQ(s, string([]byte(s)), true, "same", "string[nonnum],string[nonnum]", "big:string-copy", sx, "a copy built separately"),
					c06R8BigQ(s, s+"a", false, "same", "string[nonnum],string[nonnum]", "big:string-longer", sx, "the same and one more byte"))
				for j, p := range c06R8Positions(n) {
					if (j+al)%2 == 0 {
						continue
					}
					b := []byte(s)
					b[p] ^= 1
					qs = append(qs, c06R8BigQ(s, string(b), false, "same", "string[nonnum],string[nonnum]", "big:string-one-byte-changed", sx, fmt.Sprintf("a copy whose byte %d differs in its lowest bit", p)))
				}
			}
			ask(qs, n)
		}
	case "numerals":
		maxNumeral := 4097 // the quick tier stops here: a numeral of 65537 digits costs the interpreter ~0.1 s per comparison
		if c.Tier == "thorough" {
			maxNumeral = 70000
		}
		for _, n := range c06R8Sizes(c, maxNumeral) {
			var qs []c06R8Q
			ip := int64(7 + g.Intn(5000))
			is := strconv.FormatInt(ip, 10)
			mk := func(num c06V, s string, fam string) {
				q := c06R8Q{x: num.goVal(), y: s, fam: fam, showX: num.key(), showY: c06R8Clip(s, 80)}
				q.want, q.rule = c06Ref(num, c06S(s))
				q.pairD = num.desc() + "," + c06S(s).desc()
				if g.Intn(2) == 0 {
					q.x, q.y, q.showX, q.showY = q.y, q.x, q.showY, q.showX
				}
				qs = append(qs, q)
			}
			zeros := strings.Repeat("0", n-len(is)-1)
			exact := is + "." + zeros
			mk(c06I(ip), exact, "big:numeral-exact")
			mk(c06F(float64(ip)), exact, "big:numeral-exact")
			mk(c06I(ip+1), exact, "big:numeral-of-neighbour")
			mk(c06F(float64(ip)+0.5), is+".5"+zeros[1:], "big:numeral-exact")
			for j, p := range c06R8Positions(len(zeros)) {
				if j%3 != c.Index%3 {
					continue
				}
				b := []byte(zeros)
				b[p] = '1'
				mk(c06I(ip), is+"."+string(b), "big:numeral-one-digit-off")
				mk(c06F(float64(ip)), is+"."+string(b), "big:numeral-one-digit-off")
			}
			lead := strings.Repeat("0", n-len(is)) + is
			mk(c06I(ip), lead, "big:numeral-leading-zeros")
			mk(c06I(ip), is+zeros+"e-"+strconv.Itoa(len(zeros)), "big:numeral-shifted")
			ask(qs, n)
		}
	}
	c.Count("big_pairs_judged", h.asked)
	c06R8Max(c, "r8:big:max-size", maxN, []int{257, 1025, 4097, 12000, 65537, 200001})
}

// c06R8BigIn: `in` over long lists with the needle at the threshold positions.
func c06R8BigIn(h *c06R8, c *wk.Case, kind string, g c06Rng) {
	maxN, judged := 0, 0
	for _, n := range c06R8Sizes(c, 1<<30) {
		var list interface{}
		var at func(i int) c06V
		switch kind {
		case "in-int64":
			l := make([]int64, n)
			for i := range l {
				l[i] = int64(i)*3 + 1
			}
			list, at = l, func(i int) c06V { return c06I(l[i]) }
		case "in-string":
			l := make([]string, n)
			for i := range l {
				l[i] = "e" + strconv.Itoa(i)
				if i%7 == 3 {
					l[i] = strconv.Itoa(i) + ".5" // a numeral
				}
			}
			list, at = l, func(i int) c06V { return c06S(l[i]) }
		default:
			l := make([]interface{}, n)
			vs := make([]c06V, n)
			for i := range l {
				switch i % 4 {
				case 0, 1:
					vs[i] = c06I(int64(i)*3 + 1)
				case 2:
					vs[i] = c06S("e" + strconv.Itoa(i))
				default:
					vs[i] = c06L(c06I(int64(i)), c06S("t"))
				}
				l[i] = vs[i].goVal()
			}
			list, at = l, func(i int) c06V { return vs[i] }
		}
		// needles: (value, index it is at or -1)
		type needle struct {
			v    c06V
			at   int
			what string
		}
		var ns []needle
		for _, p := range c06R8Pos(c, n) {
			el := at(p)
			ns = append(ns, needle{c06Copy(el), p, "the element itself"})
			switch el.k {
			case 'i':
				ns = append(ns, needle{c06S(c06R8Numeral(g, el.i, "")), p, "a numeral string of the element"},
					needle{c06F(float64(el.i)), p, "the float of the element"},
					needle{c06I(el.i + 1), -1, "the element plus 1"},
					needle{c06I(el.i + 3*[]int64{256, 1024, 4096, 65536}[p%4]*int64(n)), -1, "a value congruent to the element"},
					needle{c06S(c06R8Numeral(g, el.i, "5")), -1, "a numeral of the element plus a half"})
			case 's':
				if c06NumeralRe.MatchString(el.s) {
					f, _ := strconv.ParseFloat(el.s, 64)
					ns = append(ns, needle{c06F(f), p, "the float the numeral element denotes"})
				}
				ns = append(ns, needle{c06S(el.s + "x"), -1, "the element and one more byte"})
			case 'L':
				ns = append(ns, needle{c06L(el.el[0], c06S("T")), -1, "the element with another leaf"})
			}
		}
		ns = append(ns, needle{c06Nil(), -1, "nil"}, needle{c06S(""), -1, "the empty string"})
		xs := make([]interface{}, len(ns))
		out := make([]interface{}, len(ns))
		for i := range ns {
			xs[i] = ns[i].v.goVal()
		}
		count := n <= 4097
		e := ank.NewCoreEnv()
		e.Define("big", list)
		e.Define("xs", xs)
		e.Define("out", out)
		e.Define("n", int64(len(ns)))
		e.Define("count", count)
		src := "for i = 0; i < n; i++ {\nx = xs[i]\nr = 0\nif (x in big) { r += 1 }\nif !(x in big) { r += 2 }\nk = 0\nif count { for el in big { if x == el { k++ }\nif el == x { k += 1000000 } } }\nout[i] = [r, k]\n}\nn"
		where := map[string]interface{}{"kind": kind, "size": n}
		c.Begin(map[string]interface{}{"how": "in over a long list", "where": where})
		o := ank.Exec(e, src)
		if o.Panicked || o.Err != nil {
			h.viol(h.tag+":noresult:"+kind, "the run over the needles did not finish: "+c06R8Clip(ank.ErrText(o.Err)+" "+o.PanicVal, 300), where)
			continue
		}
		for i, nd := range ns {
			rk, _ := out[i].([]interface{})
			if len(rk) != 2 {
				h.viol(h.tag+":noresult:"+kind, "no outcome stored for a needle: "+ank.Render(out[i]), where)
				break
			}
			r, _ := rk[0].(int64)
			k, _ := rk[1].(int64)
			judged++
			c.Events(2)
			c.Eval(kind+strconv.Itoa(n)+nd.v.key()+strconv.Itoa(nd.at), true)
			want := int64(2)
			if nd.at >= 0 {
				want = 1
			}
			in := map[string]interface{}{"kind": kind, "size": n, "needle": c06R8Clip(nd.v.key(), 200), "needle is": nd.what, "position of the equal element (-1: none)": nd.at, "outcome (1: x in list, 2: !(x in list))": r, "elements equal to the needle counted by x == el (and 1000000 x el == x)": k}
			if nd.at >= 0 {
				// by the older rule the needle equals the element (cross-check of the construction)
				if w := c06R8LitRef(nd.v, at(nd.at)); w != c06True {
					c.Tag("r8:big:in:needle-not-judged(reference " + w.String() + ")")
					continue
				}
			}
			desc := nd.v.desc()
			if r != want {
				h.viol(fmt.Sprintf("%s:in-long-list:%s:%s:at=%v,got=%d", h.tag, kind, desc, nd.at >= 0, r),
					fmt.Sprintf("x in list over %d elements gave outcome %d, expected %d: the needle (%s) %s", n, r, want, nd.what, map[bool]string{true: "equals the element at position " + strconv.Itoa(nd.at), false: "equals no element"}[nd.at >= 0]), in)
			}
			if count {
				wk := int64(0)
				if nd.at >= 0 {
					wk = 1000001
				}
				if k != wk {
					h.viol(fmt.Sprintf("%s:eq-over-long-list:%s:%s:at=%v", h.tag, kind, desc, nd.at >= 0),
						fmt.Sprintf("a loop over the %d elements found %d elements with x == el and %d with el == x, expected %d", n, k%1000000, k/1000000, wk%1000000), in)
				}
			}
		}
		if n > maxN {
			maxN = n
		}
		c.Tag("r8:big:" + kind + ":size:" + strconv.Itoa(n))
	}
	c.Count("big_needles_judged", judged)
	c06R8Max(c, "r8:big:max-size", maxN, []int{257, 1025, 4097, 65537, 200001})
}

// c06R8BigSwitch: switch statements with hundreds to thousands of cases / case values.
func c06R8BigSwitch(h *c06R8, c *wk.Case, kind string) {
	sizes := []int{255, 256, 257, 1023, 1024, 1025, 4095, 4096, 4097}
	if c.Tier == "thorough" {
		sizes = append(sizes, 65535, 65536, 65537)
	}
	judged, maxN := 0, 0
	for si, n := range sizes {
		// case values: distinct under equality; all ints, all strings, ints and strings, or ints, floats and strings
		vals := make([]c06V, n)
		lits := make([]string, n)
		mix := []string{"ints", "strings", "ints-and-strings", "ints-floats-strings"}[(si+c.Index+int(c.W.Seed%4)+4)%4]
		c.Tag("r8:big:" + kind + ":case-values:" + mix)
		for i := range vals {
			k := (i + c.Index) % 4
			switch {
			case mix == "ints" || (k < 2 && mix != "strings"):
				vals[i] = c06I(int64(i)*3 + 1)
			case k == 2 && mix == "ints-floats-strings":
				vals[i] = c06F(float64(i)*3 + 1.5)
			default:
				vals[i] = c06S("c" + strconv.Itoa(i))
			}
			lits[i], _ = vals[i].lit(1)
		}
		var b strings.Builder
		b.WriteString("r = -1\nswitch x {\n")
		if kind == "switch-cases" {
			for i := range lits {
				b.WriteString("case " + lits[i] + ":\n r = " + strconv.Itoa(i) + "\n")
			}
		} else {
			// one case with the first half of the values, one with the second half
			b.WriteString("case " + strings.Join(lits[:n/2], ", ") + ":\n r = 1\n")
			b.WriteString("case " + strings.Join(lits[n/2:], ", ") + ":\n r = 2\n")
		}
		b.WriteString("default:\n r = -2\n}\nr")
		where := map[string]interface{}{"kind": kind, "cases / case values": n, "case values are": mix, "source bytes": b.Len()}
		stmt := c06R8Parse(h, b.String())
		if stmt == nil {
			continue
		}
		e := ank.NewCoreEnv()
		g := c06R8NewRng(int64(n), c.Index)
		type subj struct {
			v    c06V
			at   int
			what string
		}
		var ss []subj
		for _, p := range c06R8Positions(n) {
			v := vals[p]
			ss = append(ss, subj{c06Copy(v), p, "the case value itself"})
			switch v.k {
			case 'i':
				ss = append(ss, subj{c06S(c06R8Numeral(g, v.i, "")), p, "a numeral string of the case value"}, subj{c06F(float64(v.i)), p, "the float of the case value"},
					subj{c06I(v.i + 1), -1, "the case value plus 1"}, subj{c06I(v.i + 3*65536*int64(n)), -1, "a value congruent to the case value"})
			case 'f':
				ss = append(ss, subj{c06S(strconv.FormatFloat(v.f, 'f', 3, 64)), p, "a numeral string of the case value"}, subj{c06F(v.f + 0.25), -1, "the case value plus a quarter"})
			case 's':
				ss = append(ss, subj{c06S(v.s + " "), -1, "the case value and a blank"})
			}
		}
		ss = append(ss, subj{c06Nil(), -1, "nil"}, subj{c06L(c06I(1)), -1, "a list"})
		for round := 0; round < 2; round++ { // the tree is run for every subject, twice over
			for _, s := range ss {
				e.Define("x", s.v.goVal())
				c.Begin(map[string]interface{}{"how": "long switch", "where": where, "x": s.v.key()})
				o := ank.RunCtx(context.Background(), e, stmt)
				got, ok := o.Val.(int64)
				in := map[string]interface{}{"kind": kind, "cases / case values": n, "subject": s.v.key(), "subject is": s.what, "index of the equal case value (-1: none)": s.at, "got": ank.Render(o.Val)}
				if !ok {
					h.viol(h.tag+":noresult:"+kind, "the switch gave "+c06R8Clip(ank.Render(o.Val)+" "+ank.ErrText(o.Err)+" "+o.PanicVal, 300), in)
					continue
				}
				if s.at >= 0 {
					if w := c06R8LitRef(s.v, vals[s.at]); w != c06True {
						c.Tag("r8:big:switch:subject-not-judged(reference " + w.String() + ")")
						continue
					}
				}
				judged++
				c.Events(1)
				c.Eval(kind+strconv.Itoa(n)+s.v.key()+strconv.Itoa(round), true)
				want := int64(-2)
				if s.at >= 0 {
					want = int64(s.at)
					if kind == "switch-caselist" {
						want = 1
						if s.at >= n/2 {
							want = 2
						}
					}
				}
				if got != want {
					h.viol(fmt.Sprintf("%s:long-switch:%s:%s:at=%v", h.tag, kind, s.v.desc(), s.at >= 0),
						fmt.Sprintf("a switch of %d case values selected %d, expected %d: the subject %s (%s) %s", n, got, want, s.v.key(), s.what, map[bool]string{true: "equals case value " + strconv.Itoa(s.at) + " only", false: "equals no case value"}[s.at >= 0]), in)
				}
			}
		}
		if n > maxN {
			maxN = n
		}
		c.Tag("r8:big:" + kind + ":size:" + strconv.Itoa(n))
	}
	c.Count("big_switch_runs_judged", judged)
	c06R8Max(c, "r8:big:max-size", maxN, []int{257, 1025, 4097, 65537})
}

// ---------------------------------------------------------------------------
// phase crowd

func c06R8Crowd(c *wk.Case) {
	h := newC06R8(c)
	seed := c.Rng.Int63()
	Gs := []int{256, 1024, 2000}
	if c.Tier == "thorough" {
		Gs = []int{256, 1024, 2000, 4096, 10000}
	}
	G := Gs[c.Index%len(Gs)]
	refs := c06R8Refs()
	shared := c.Index%2 == 0
	src := c06R8LoopSrc(c06R8Drivers[c.Index%3], "")
	tree := c06R8Parse(h, src)
	if tree == nil {
		return
	}
	// earlier runs left alive: script goroutines blocked on a channel, environments with definitions
	e0 := ank.NewCoreEnv()
	release := make(chan struct{})
	e0.Define("release", release)
	leak := ank.Exec(e0, "for i = 0; i < 100; i++ { go func() { <-release }() }\n1")
	if leak.Err != nil || leak.Panicked {
		c.Tag("r8:crowd:leaked-goroutines-not-started")
	}
	for i := 0; i < 500; i++ {
		e := e0.NewEnv()
		e.Define("x", int64(i)*4096)
		e.Define("y", strconv.Itoa(i)+".5")
		ank.Exec(e, "x == y")
		h.envs = append(h.envs, e)
	}
	runtime.GC()
	type job struct {
		qs  []c06R8Q
		out []interface{}
		o   ank.Out
	}
	jobs := make([]*job, G)
	start := make(chan struct{})
	var wg sync.WaitGroup
	for j := range jobs {
		jb := &job{}
		b := c06R8Bundle(seed, j, false)
		if len(b) > 12 {
			b = b[:12]
		}
		jb.qs = append(jb.qs, b...)
		for k := 0; k < 6; k++ {
			jb.qs = append(jb.qs, refs[(j*6+k)%len(refs)])
		}
		e := ank.NewCoreEnv()
		if j%3 == 0 {
			e = e0.NewEnv()
		}
		jb.out = c06R8Lists(e, jb.qs)
		jobs[j] = jb
		wg.Add(1)
		go func() {
			defer wg.Done()
			<-start
			if shared {
				jb.o = ank.RunCtx(context.Background(), e, tree)
			} else {
				jb.o = ank.Exec(e, src)
			}
		}()
	}
	c.Begin(map[string]interface{}{"how": "goroutines released at once", "goroutines": G})
	close(start)
	wg.Wait()
	how := fmt.Sprintf("%d goroutines at once, own sources", G)
	if shared {
		how = fmt.Sprintf("%d goroutines at once, one shared parsed tree", G)
	}
	for j, jb := range jobs {
		h.collect(jb.o, jb.out, jb.qs, how, map[string]interface{}{"goroutine": j})
	}
	close(release)
	c.Count("crowd_pairs_judged", h.asked)
	c.Count("crowd_runs", 1)
	c.Tag("r8:crowd:goroutines:" + strconv.Itoa(G))
	c06R8Max(c, "r8:crowd:max-goroutines", G, []int{256, 1024, 2000, 4096, 10000})
}
