package main

// C06, round-10 extension: A FAULT AT A PARTICULAR POINT of a comparison.
//
// The statement says what `==`, `!=`, `in` and switch matching answer for a pair of values. It
// does not make the answer depend on what ELSE happens to the run while the operands are
// evaluated: a host function called inside an operand may cancel the run's context
// synchronously, or fail (once, at its k-th call) and be caught by a try. The run may then end
// with 'execution interrupted' (nothing is observable: nothing is judged) - but whatever boolean
// IS observable (the value of the run when the comparison is its last statement, what the
// statement stored and a later run reads, what it handed to a host recorder, what a function
// returned, which branch ran, what the same nodes answer in the next round of the loop or in the
// next run of the same tree) is an answer of the relation and is judged by the reference the
// older phases use: the structural rule for containers, Go's == for same-typed primitives, the
// numeral rule for string/number, in = OR(== over the elements), switch = ==, != negates ==.
//
//	midfault  one case = one operand kind x one size (1 .. 5000 elements / bytes). The only equal
//	          element (the only differing position) sits at every position class (first, second,
//	          on and next to 256, 512, 1024, 2048, 4096, middle, last but one, last) or nowhere.
//	          Every comparison expression has one call of the host function stop(v) in an operand
//	          position (left operand, right operand, an earlier element of the same expression,
//	          an earlier switch case); stop returns v, and at its j-th call either cancels the
//	          run's context first or panics with an error. Shapes: the expression as the last
//	          statement, assigned, recorded, returned from a script function, deciding an if, all
//	          at top level; and assigned inside try/catch in a loop of three rounds (the fault
//	          arrives in round 1, 2 or 3; the second round asks about another operand with the
//	          opposite answer, the third about the first again). Every faulted run is followed by a run of the same tree
//	          in the same environment with a fresh context and no fault; every question is first
//	          asked without any fault (the control), and for `in` the number of elements the
//	          needle is == to is counted by a == loop in the same environment.
//
// The phase knows no constant, threshold or mechanism of the code under test: sizes and
// positions are the generic powers of two and their neighbours.

import (
	"context"
	"errors"
	"fmt"
	"strconv"
	"strings"

	"github.com/mattn/anko/ast"
	"github.com/mattn/anko/env"

	"verifharness/internal/ank"
	"verifharness/internal/fw"
	"verifharness/internal/wk"
)

const c06R10Rule = " Round 10 (a fault at a particular point; the reference rules and laws of the older phases, applied to every boolean that is observable): " +
	"phase midfault: one case is one operand kind (`in` over a []interface{}, []int64 or []string list with the needle as the element itself, its numeral string or its float; == / != over two lists, two maps, two strings, two lists of lists; switch over list operands with one or two cases) at one size out of 1, 2, 3, 64, 255..257, 511..513, 1000, 1023..1025, 2047..2049, 4095..4097, 5000 (maps and lists of lists beyond 2049 elements, and the positions next to the thresholds for the == and switch kinds: thorough tier); the only element equal to the needle (the only position where the two containers differ) sits at 0, 1, t-1, t, t+1 for t in 256, 512, 1024, 2048, 4096, the middle, the last but one, the last, or nowhere. " +
	"Each comparison expression (x in stop(hay), stop(x) in hay, [stop(0), x in hay][1], !(x in stop(hay)), [x in stop(hay), x == hay[k]], stop(true) && x in hay; x == stop(y), stop(x) == y, stop(y) == x, x != stop(y), [stop(0), x == y][1], [x == stop(y), y == x, x != y, x in [y], stop(y) in [x]], stop(true) && x == y; switch stop(x) {case y}, switch x {case stop(y)}, switch x {case z, stop(y)}, switch x {case stop(z): case y:}, switch y {case w: case stop(x), w:}) calls the host function stop(v) once; stop returns v and at its j-th call cancels the run's context synchronously or panics with an error. " +
	"Shapes: the expression as the last statement (value of vm.RunContext when the error is nil), assigned (read from the environment afterwards), handed to a host recorder, returned from a script function, deciding an if, with the fault at the first call; and `for round = 0; round < 3; round++ { try { rs[round] = E } catch e { rs[round] = \"caught\" } }` with the fault in round 1, 2 or 3 (cancel, panic, or a panic followed by a cancel one round later), where the second round gives the varying operand (the needle x and the index k for `in`, the right operand y for == and switch) a value with the opposite answer and the third round the first value again, so that an operand, subject or answer left over from a failed round is seen. After every faulted run the same tree runs again in the same environment with a fresh context and no fault. Every question is asked without a fault first; for `in` a == loop over the list counts the equal elements in the same environment. " +
	"Oracle: every boolean observed through any channel equals the reference (by construction: distinct elements, one position changed; small integers, so the numeral and int/float rules are exact), `in` = (count of == elements > 0), != negates ==; a run that ends with 'execution interrupted' or with the injected error before the boolean became observable is counted, not judged. "

var c06R10Assumptions = []string{
	"cancelling the context of a run, or a failure of a host function called inside an operand, are not inputs of equality: a comparison whose answer becomes observable (as the value of the run, in a variable, at a host function, as a return value, as the branch taken, in a later round or run of the same nodes) answers by the same rule as an undisturbed one; a run may always end with 'execution interrupted' instead, then nothing is judged (no wall-clock verdict anywhere: the cancel is synchronous)",
}

// sizes, large and small interleaved so that every chunk of cases costs about the same
var c06R10Sizes = []int{513, 5000, 1, 4097, 2, 4096, 3, 4095, 64, 2049, 255, 2048, 256, 2047, 257, 1025, 511, 1024, 512, 1023, 1000}

// c06R10HeavyMax: two maps / two lists of lists cost ten times a flat list per comparison; the quick tier keeps them up to this size
const c06R10HeavyMax = 2049

var c06R10Kinds = []string{"in-any", "in-int64", "in-string", "eq-list", "eq-map", "eq-string", "eq-nested", "switch"}

func c06R10Phases(tier string) []fw.Phase {
	return []fw.Phase{
		{Name: "midfault", Cases: len(c06R10Kinds) * len(c06R10Sizes), Chunk: 4, Exhaust: true, TimeoutS: 900},
	}
}

// c06R10Run runs a case of the round-10 phase; false when the phase is not one of them.
func c06R10Run(c *wk.Case) bool {
	if c.Phase != "midfault" {
		return false
	}
	c06R10Midfault(c)
	return true
}

// positions of the only equal element / the only difference; -1 = nowhere.
// few: -1, first, every threshold, middle, last (the == kinds, where one comparison costs the whole container twice)
func c06R10Positions(n int, few bool) []int {
	seen := map[int]bool{}
	ps := []int{-1}
	add := func(p int) {
		if p >= 0 && p < n && !seen[p] {
			seen[p] = true
			ps = append(ps, p)
		}
	}
	add(0)
	if !few {
		add(1)
	}
	for _, t := range []int{256, 512, 1024, 2048, 4096} {
		for d := -1; d <= 1; d++ {
			if !few || d == 0 {
				add(t + d)
			}
		}
	}
	add(n / 2)
	if !few {
		add(n - 2)
	}
	add(n - 1)
	return ps
}

// c06R10Expr is one comparison expression with one call of stop in it.
// pat: what the value must be, per element: 'W' the reference answer, 'N' its negation, '_' anything.
type c06R10Expr struct {
	src    string
	pat    string
	single bool // the value is one boolean (usable as a condition)
}

var c06R10InExprs = []c06R10Expr{
	{"x in stop(hay)", "W", true},
	{"stop(x) in hay", "W", true},
	{"[stop(0), x in hay][1]", "W", true},
	{"!(x in stop(hay))", "N", true},
	{"[x in stop(hay), x == hay[kk], x != hay[kk]]", "WWN", false},
	{"stop(true) && x in hay", "W", true},
}

var c06R10EqExprs = []c06R10Expr{
	{"x == stop(y)", "W", true},
	{"stop(x) == y", "W", true},
	{"stop(y) == x", "W", true},
	{"x != stop(y)", "N", true},
	{"[stop(0), x == y][1]", "W", true},
	{"[x == stop(y), y == x, x != y, x in [y], stop(y) in [x]]", "WWNWW", false},
	{"stop(true) && x == y", "W", true},
}

// switch programs assign sw themselves (statement forms); {R} is the target of the outcome
var c06R10SwForms = []string{
	"switch stop(x) {\ncase y:\n{R} = true\ndefault:\n{R} = false\n}",
	"switch x {\ncase stop(y):\n{R} = true\ndefault:\n{R} = false\n}",
	"switch x {\ncase z, stop(y):\n{R} = true\ndefault:\n{R} = false\n}",
	"switch x {\ncase stop(z):\n{R} = \"z\"\ncase y:\n{R} = true\ndefault:\n{R} = false\n}",
	"switch y {\ncase w:\n{R} = \"w\"\ncase stop(x), w:\n{R} = true\ndefault:\n{R} = false\n}",
}

var c06R10Channels = []string{"value", "assign", "record", "func", "if"}

// c06R10Prog builds the top-level program of a channel around expression E.
func c06R10Prog(ch, E string) string {
	switch ch {
	case "value":
		return E
	case "assign":
		return "r = " + E + "\nmark = 1"
	case "record":
		return "record(" + E + ")\nmark = 1"
	case "func":
		return "func f() {\nreturn " + E + "\n}\nr = f()\nmark = 1"
	case "if":
		return "if " + E + " {\nr = true\n} else {\nr = false\n}\nmark = 1"
	}
	return ""
}

// the loops give the varying operand another value in the second round (the opposite answer), the first again in the third
func c06R10Loop(E string) string {
	return "for round = 0; round < 3; round++ {\ntry {\n" + c06R10Vary + "rs[round] = " + E + "\n} catch e {\nrs[round] = \"caught\"\n}\n}\nmark = 1"
}

const c06R10Vary = "x = xs[round]\ny = ys[round]\nkk = kks[round]\n"

func c06R10SwLoop(form string) string {
	return "for round = 0; round < 3; round++ {\ntry {\n" + c06R10Vary + strings.Replace(form, "{R}", "rs[round]", -1) + "\n} catch e {\nrs[round] = \"caught\"\n}\n}\nmark = 1"
}

// fault plan of one run: at which call of stop the context is cancelled / the function panics (0 = never)
type c06R10Fault struct {
	name              string
	cancelAt, throwAt int
}

var c06R10TopFaults = []c06R10Fault{{"cancel at call 1", 1, 0}, {"panic at call 1", 0, 1}}
var c06R10LoopFaults = []c06R10Fault{
	{"cancel at call 1", 1, 0}, {"cancel at call 2", 2, 0}, {"cancel at call 3", 3, 0},
	{"panic at call 1", 0, 1}, {"panic at call 2", 0, 2}, {"panic at call 1, cancel at call 2", 2, 1}, {"panic at call 2, cancel at call 3", 3, 2},
}

type c06R10Q struct {
	kind, show string
	n, p       int
	want       bool
	bind       map[string]interface{}
}

type c06R10 struct {
	c      *wk.Case
	seen   map[string]int
	total  int
	trees  map[string]ast.Stmt
	judged int
	unobs  int
	half   bool // every second expression per question, alternating
}

func (h *c06R10) viol(sig, detail string, input map[string]interface{}) {
	h.seen[sig]++
	h.total++
	if h.seen[sig] > 2 || h.total > 24 {
		h.c.Count("r10_violations_suppressed_as_repeats_within_case", 1)
		return
	}
	in := map[string]interface{}{"phase": h.c.Phase, "case": h.c.Index, "seed": h.c.W.Seed, "replay": "the case is rebuilt from (phase, case index): ./vcheck replay re-runs all its questions"}
	for k, v := range input {
		in[k] = v
	}
	h.c.Violation(sig, detail, in)
}

func (h *c06R10) tree(src string) ast.Stmt {
	if t, ok := h.trees[src]; ok {
		return t
	}
	stmt, err, po := ank.Parse(src)
	if po.Panicked || err != nil {
		h.viol("r10:midfault:noresult:parse", "the comparison script does not parse: "+c06R8Clip(fmt.Sprint(err, po.PanicVal), 300), map[string]interface{}{"src": src})
		stmt = nil
	}
	h.trees[src] = stmt
	return stmt
}

// one run: the environment's stop / record are armed by the fault plan
type c06R10Obs struct {
	o        ank.Out
	rec      []interface{}
	calls    int
	canceled bool
}

type c06R10Host struct {
	fault  c06R10Fault
	calls  int
	cancel context.CancelFunc
	rec    []interface{}
}

func (h *c06R10) newEnv(q *c06R10Q, host *c06R10Host) *env.Env {
	e := env.NewEnv()
	for k, v := range q.bind {
		e.Define(k, v)
	}
	e.Define("stop", func(v interface{}) interface{} {
		host.calls++
		if host.fault.cancelAt == host.calls && host.cancel != nil {
			host.cancel()
		}
		if host.fault.throwAt == host.calls {
			panic(errors.New("midfault: the host function failed"))
		}
		return v
	})
	e.Define("record", func(v interface{}) { host.rec = append(host.rec, v) })
	return e
}

func (h *c06R10) run(e *env.Env, host *c06R10Host, stmt ast.Stmt, f c06R10Fault, in map[string]interface{}) ank.Out {
	ctx, cancel := context.WithCancel(context.Background())
	host.fault, host.calls, host.cancel, host.rec = f, 0, cancel, nil
	e.Define("rs", []interface{}{nil, nil, nil})
	e.Define("r", nil)
	e.Define("mark", int64(0))
	h.c.Begin(in)
	o := ank.RunCtx(ctx, e, stmt)
	cancel()
	host.cancel = nil
	return o
}

// check judges one observed value against the pattern; returns false when nothing boolean was observed.
func (h *c06R10) check(v interface{}, pat string, q *c06R10Q, in map[string]interface{}, channel string, faulted bool, class string, flip bool) bool {
	var got []interface{}
	switch t := v.(type) {
	case bool:
		got = []interface{}{t}
	case []interface{}:
		got = t
	default:
		return false
	}
	if len(got) != len(pat) {
		return false
	}
	any := false
	for i, g := range got {
		b, ok := g.(bool)
		if !ok || pat[i] == '_' {
			continue
		}
		any = true
		want := q.want != flip
		if pat[i] == 'N' {
			want = !want
		}
		h.judged++
		h.c.Eval("", false)
		if b != want {
			what := "after the fault (clean run of the same tree)"
			if faulted {
				what = "with the fault"
			}
			if in["fault"] == "none" {
				what = "without any fault"
			}
			inp := map[string]interface{}{"channel": channel, "element of the value": i, "observed": b, "reference": want, "whole observed value": ank.Render(v)}
			for k, x := range in {
				inp[k] = x
			}
			h.viol("r10:midfault:"+class+":"+faultClass(in["fault"], faulted),
				fmt.Sprintf("%s: `%v` observed through %s %s answers %v where the relation of the statement (and == in an undisturbed run) answers %v; %s", q.kind, in["expr"], channel, what, b, want, q.show), inp)
		}
	}
	return any
}

func faultClass(f interface{}, faulted bool) string {
	s, _ := f.(string)
	switch {
	case s == "none":
		return "control"
	case !faulted:
		return "next-run"
	case strings.HasPrefix(s, "cancel"):
		return "cancel"
	case strings.Contains(s, "cancel"):
		return "panic+cancel"
	}
	return "panic"
}

func c06R10Interrupted(o ank.Out) bool {
	return o.Err != nil && strings.Contains(o.Err.Error(), "execution interrupted")
}

// observe judges everything a run of a top-level program made observable.
func (h *c06R10) observeTop(e *env.Env, host *c06R10Host, o ank.Out, ch, pat string, q *c06R10Q, in map[string]interface{}, faulted bool, class string) {
	if o.Panicked {
		h.viol("r10:midfault:"+class+":panic", "a comparison run panicked: "+c06R8Clip(o.PanicVal, 300), in)
		return
	}
	seen := false
	switch ch {
	case "value":
		if o.Err == nil {
			seen = h.check(o.Val, pat, q, in, "the value of the run (error nil)", faulted, class, false)
		}
	case "record":
		for _, v := range host.rec {
			if h.check(v, pat, q, in, "the host recorder", faulted, class, false) {
				seen = true
			}
		}
	default:
		if v, err := e.Get("r"); err == nil {
			seen = h.check(v, pat, q, in, "the variable the statement assigned (read after the run)", faulted, class, false)
		}
	}
	fault, _ := in["fault"].(string)
	if !seen {
		h.unobs++
		h.c.Count("r10_runs_that_made_no_boolean_observable", 1)
		if !faulted || fault == "none" {
			h.viol("r10:midfault:"+class+":noresult", fmt.Sprintf("a comparison run without a fault made no boolean observable: value %s, error %v", c06R8Clip(ank.Render(o.Val), 200), o.Err), in)
		} else if !c06R10Interrupted(o) && !(o.Err != nil && strings.Contains(o.Err.Error(), "midfault")) {
			h.c.Inconclusive("r10-midfault-neither-answer-nor-interrupt", fmt.Sprintf("a faulted run ended with value %s, error %v", c06R8Clip(ank.Render(o.Val), 200), o.Err), in)
		}
	}
}

func (h *c06R10) observeLoop(e *env.Env, o ank.Out, pat string, q *c06R10Q, in map[string]interface{}, faulted bool, class string) {
	if o.Panicked {
		h.viol("r10:midfault:"+class+":panic", "a comparison run panicked: "+c06R8Clip(o.PanicVal, 300), in)
		return
	}
	v, err := e.Get("rs")
	rs, ok := v.([]interface{})
	if err != nil || !ok || len(rs) != 3 {
		h.viol("r10:midfault:"+class+":noresult", "the list of round outcomes is gone: "+c06R8Clip(ank.Render(v), 200), in)
		return
	}
	n := 0
	for round, x := range rs {
		if h.check(x, pat, q, in, "rs["+strconv.Itoa(round)+"] (round "+strconv.Itoa(round+1)+" of the loop, the varying operand being "+[]string{"the first value", "the second value (opposite answer)", "the first value again"}[round]+"; read after the run)", faulted, class, round == 1) {
			n++
		}
	}
	if n < 3 {
		h.c.Count("r10_loop_rounds_without_an_observable_boolean", 3-n)
	}
	fault, _ := in["fault"].(string)
	if (!faulted || fault == "none") && (n < 3 || o.Err != nil) {
		h.viol("r10:midfault:"+class+":noresult", fmt.Sprintf("a loop of three comparisons without a fault stored %s, error %v", c06R8Clip(ank.Render(v), 200), o.Err), in)
	}
}

func c06R10Midfault(c *wk.Case) {
	h := &c06R10{c: c, seen: map[string]int{}, trees: map[string]ast.Stmt{}}
	kind := c06R10Kinds[c.Index%len(c06R10Kinds)]
	n := c06R10Sizes[(c.Index/len(c06R10Kinds))%len(c06R10Sizes)]
	c.Tag("r10:kind:"+kind, "r10:size:"+strconv.Itoa(n))
	heavy := kind == "eq-map" || kind == "eq-nested"
	if heavy && n > c06R10HeavyMax && c.W.Tier != "thorough" {
		c.Excluded("r10: maps and lists of lists beyond " + strconv.Itoa(c06R10HeavyMax) + " elements run in the thorough tier")
		return
	}
	h.half = heavy && c.W.Tier != "thorough"
	qi := c.Index // rotates channels and loop faults over questions and expressions
	for _, p := range c06R10Positions(n, !strings.HasPrefix(kind, "in-") && c.W.Tier != "thorough") {
		for _, q := range c06R10Questions(kind, n, p) {
			q := q
			qi++
			h.ask(&q, qi)
		}
	}
	c.Count("r10_booleans_judged", h.judged)
}

// c06R10Questions builds the operands of one (kind, size, position): distinct small integers, so every reference is exact.
func c06R10Questions(kind string, n, p int) []c06R10Q {
	val := func(i int) int64 { return int64(i*3 + 7) }
	pos := "nowhere"
	if p >= 0 {
		pos = "at index " + strconv.Itoa(p)
	}
	kk := p
	if kk < 0 {
		kk = 0
	}
	var qs []c06R10Q
	switch kind {
	case "in-any", "in-int64", "in-string":
		var hay interface{}
		var shows []string
		nv := int64(3*(n/2) + 8) // equal to no element
		ov := val(n / 2)         // the second round's needle: an element when the first is none, and the other way round
		if p >= 0 {
			nv, ov = val(p), nv
		}
		var needles func(v int64) []interface{}
		switch kind {
		case "in-any":
			l := make([]interface{}, n)
			for i := range l {
				l[i] = val(i)
			}
			hay = l
			needles = func(v int64) []interface{} { return []interface{}{v, strconv.FormatInt(v, 10), float64(v)} }
			shows = []string{"the int64 itself", "its numeral string", "its float64"}
		case "in-int64":
			l := make([]int64, n)
			for i := range l {
				l[i] = val(i)
			}
			hay = l
			needles = func(v int64) []interface{} { return []interface{}{v, strconv.FormatInt(v, 10)} }
			shows = []string{"the int64 itself", "its numeral string"}
		default:
			l := make([]string, n)
			for i := range l {
				l[i] = "s" + strconv.FormatInt(val(i), 10)
			}
			hay = l
			needles = func(v int64) []interface{} { return []interface{}{"s" + strconv.FormatInt(v, 10)} }
			shows = []string{"the string itself"}
		}
		k2 := int64(kk)
		if p < 0 {
			k2 = int64(n / 2)
		}
		others := needles(ov)
		for i, nd := range needles(nv) {
			qs = append(qs, c06R10Q{kind: kind, n: n, p: p, want: p >= 0,
				show: fmt.Sprintf("hay has %d distinct elements (%d, %d, ...), x = %s is %s of the element %s (second round of a loop: x = %s)", n, val(0), val(1), ank.Render(nd), shows[i], pos, ank.Render(others[i])),
				bind: map[string]interface{}{"x": nd, "y": nil, "hay": hay, "kk": int64(kk), "n": int64(n),
					"xs": []interface{}{nd, others[i], nd}, "ys": []interface{}{nil, nil, nil}, "kks": []interface{}{int64(kk), k2, int64(kk)}}})
		}
	default:
		mk := func(change int, to int64) interface{} {
			switch kind {
			case "eq-map":
				m := make(map[interface{}]interface{}, n)
				for i := 0; i < n; i++ {
					m["k"+strconv.Itoa(i)] = val(i)
				}
				if change >= 0 {
					m["k"+strconv.Itoa(change)] = to
				}
				return m
			case "eq-string":
				b := make([]byte, n)
				for i := range b {
					b[i] = byte('a' + i%26)
				}
				if change >= 0 {
					b[change] = byte('A' + (to&1)*3)
				}
				return string(b)
			case "eq-nested":
				l := make([]interface{}, n)
				for i := range l {
					l[i] = []interface{}{val(i), "s"}
				}
				if change >= 0 {
					l[change] = []interface{}{val(change), "s" + strconv.FormatInt(to, 10)}
				}
				return l
			}
			l := make([]interface{}, n)
			for i := range l {
				l[i] = val(i)
			}
			if change >= 0 {
				l[change] = to
			}
			return l
		}
		x, y, z, w := mk(-1, 0), mk(p, -2), mk(n-1, -3), mk(0, -4)
		y2 := z // the second round's y: the opposite answer
		if p >= 0 {
			y2 = mk(-1, 0)
		}
		qs = append(qs, c06R10Q{kind: kind, n: n, p: p, want: p < 0,
			show: fmt.Sprintf("x and y have %d elements / bytes and differ %s; z differs from x in the last one, w in the first (second round of a loop: y is z when x equals y, else a copy of x)", n, pos),
			bind: map[string]interface{}{"x": x, "y": y, "z": z, "w": w, "n": int64(n), "kk": int64(0),
				"xs": []interface{}{x, x, x}, "ys": []interface{}{y, y2, y}, "kks": []interface{}{int64(0), int64(0), int64(0)}}})
	}
	return qs
}

func (h *c06R10) ask(q *c06R10Q, qi int) {
	class := "in"
	exprs := c06R10InExprs
	if strings.HasPrefix(q.kind, "eq-") {
		class, exprs = "eq", c06R10EqExprs
	}
	host := &c06R10Host{}
	none := c06R10Fault{name: "none"}
	base := func(src, expr string, f c06R10Fault) map[string]interface{} {
		return map[string]interface{}{"kind": q.kind, "size": q.n, "position": q.p, "operands": q.show, "expr": expr, "src": src, "fault": f.name}
	}
	if q.kind == "switch" {
		class = "switch"
		for fi, form := range c06R10SwForms {
			// top level: the switch assigns r; then the loop of three rounds
			top := strings.Replace(form, "{R}", "r", -1) + "\nmark = 1"
			if st := h.tree(top); st != nil {
				e := h.newEnv(q, host)
				in := base(top, form, none)
				h.observeTop(e, host, h.run(e, host, st, none, in), "assign", "W", q, in, true, class)
				for _, f := range c06R10TopFaults {
					in := base(top, form, f)
					h.observeTop(e, host, h.run(e, host, st, f, in), "assign", "W", q, in, true, class)
					h.observeTop(e, host, h.run(e, host, st, none, in), "assign", "W", q, in, false, class)
				}
			}
			lp := c06R10SwLoop(form)
			if st := h.tree(lp); st != nil {
				e := h.newEnv(q, host)
				in := base(lp, form, none)
				h.observeLoop(e, h.run(e, host, st, none, in), "W", q, in, true, class)
				for k := 0; k < 3; k++ {
					f := c06R10LoopFaults[(qi+fi+k*3)%len(c06R10LoopFaults)]
					in := base(lp, form, f)
					h.observeLoop(e, h.run(e, host, st, f, in), "W", q, in, true, class)
					h.observeLoop(e, h.run(e, host, st, none, in), "W", q, in, false, class)
				}
			}
		}
		return
	}
	if class == "in" {
		// the count of == elements, in an undisturbed run of the same environment
		src := "cnt = 0\nfor el in hay {\nif x == el {\ncnt++\n}\nif (x != el) == (x == el) {\ncnt = cnt + 100000\n}\n}\ncnt"
		if st := h.tree(src); st != nil {
			e := h.newEnv(q, host)
			in := base(src, "count of x == el over hay", none)
			o := h.run(e, host, st, none, in)
			want := int64(0)
			if q.want {
				want = 1
			}
			h.c.Eval(fmt.Sprint("r10cnt|", q.kind, q.n, q.p, q.show), true)
			if cnt, ok := o.Val.(int64); !ok || o.Err != nil || cnt != want {
				h.viol("r10:midfault:in:control", fmt.Sprintf("a == loop over the list finds %s equal elements (100000 per element where != does not negate ==), error %v; by construction %d; %s", ank.Render(o.Val), o.Err, want, q.show), in)
			}
		}
	}
	for ei, ex := range exprs {
		if h.half && (qi+ei)%2 == 1 {
			continue
		}
		// top level: one channel per (question, expression), rotating; "if" only for single booleans
		ch := c06R10Channels[(qi+ei)%len(c06R10Channels)]
		if ch == "if" && !ex.single {
			ch = "assign"
		}
		pat := ex.pat
		src := c06R10Prog(ch, ex.src)
		h.c.Eval(fmt.Sprint("r10|", q.kind, q.n, q.p, q.show, src), true)
		if st := h.tree(src); st != nil {
			e := h.newEnv(q, host)
			in := base(src, ex.src, none)
			h.observeTop(e, host, h.run(e, host, st, none, in), ch, pat, q, in, true, class)
			for _, f := range c06R10TopFaults {
				in := base(src, ex.src, f)
				h.observeTop(e, host, h.run(e, host, st, f, in), ch, pat, q, in, true, class)
				h.observeTop(e, host, h.run(e, host, st, none, in), ch, pat, q, in, false, class)
			}
		}
		lp := c06R10Loop(ex.src)
		if st := h.tree(lp); st != nil {
			e := h.newEnv(q, host)
			in := base(lp, ex.src, none)
			if (qi+ei)%4 == 0 {
				h.observeLoop(e, h.run(e, host, st, none, in), ex.pat, q, in, true, class)
			}
			for k := 0; k < 2; k++ {
				f := c06R10LoopFaults[(qi+ei*2+k*4)%len(c06R10LoopFaults)]
				in := base(lp, ex.src, f)
				h.observeLoop(e, h.run(e, host, st, f, in), ex.pat, q, in, true, class)
				if k == 1 {
					h.observeLoop(e, h.run(e, host, st, none, in), ex.pat, q, in, false, class)
				}
			}
		}
	}
}
