package main

// C05, round-7 extensions: operand SPELLING.
//
// The statement speaks of operand VALUES ("on integer operands ...", "as soon as
// one operand is a float", "numbers in Go's default formatting") and ends with
// "no result depends on operand magnitude: small-value fast paths return the
// same values as the general path". A number written in the source is an operand
// like any other: what an operator gives for it is Go's result for the VALUE the
// numeral denotes, whichever way the numeral was written (leading zeros, -0,
// 0x/0b forms, fractions with trailing zeros, exponent forms, a sign, one or
// more pairs of parentheses) - the same result the operator gives when the
// value is read from a variable. The earlier tables wrote every literal in one
// canonical form (strconv.FormatInt, strconv.FormatFloat 'e', strconv.Quote).
//
//  1. phase spelling (c05SpellingCase): one case per value of c05SpellUnits; every
//     spelling of that value (c05Spellings) is evaluated alone and then used as a
//     direct operand of every operator of the statement, on either side, with
//     partners of the three kinds (variables, canonical literals and literals in
//     another spelling), in several statement positions (c05Wrap), without blanks,
//     parsed once and run twice, below the unary operators and as the right
//     operand of every compound form through the four kinds of places.
//     Reference: c05Bin / c05Un on the literal's value - the function the
//     variable-bound operands are judged by.
//  2. phase trees (c05SpeltTree, c05SpeltChain, c05SpeltCompoundSeq):
//     PRNG-generated trees, unparenthesised chains and compound sequences whose
//     literal leaves are written in PRNG-chosen spellings.
//
// What value a numeral denotes is taken from Go's syntax (strconv), like the
// canonical numerals of the earlier tables - except for decimal numerals with
// leading zeros whose value is above 7 (010, 08): Go reads them as octal or
// refuses them, the language here may read them as decimal, and the statement
// does not say. Their value is OBSERVED (the numeral evaluated alone must give
// an int64, else the spelling is counted as excluded) and the operators are
// judged on the observed value.

import (
	"context"
	"fmt"
	"math"
	"strconv"
	"strings"

	"github.com/mattn/anko/env"

	"verifharness/internal/ank"
	"verifharness/internal/wk"
)

// c05Spelt is one way to write a value in the source.
type c05Spelt struct {
	src   string
	class string // for the coverage tags only
	v     c05Val
	loose bool // the reading of the numeral is not fixed (see the file comment): value observed
}

func c05SpellInt(i int64) []c05Spelt {
	v := c05Val{kind: 'i', i: i}
	var out []c05Spelt
	add := func(src, class string, loose bool) { out = append(out, c05Spelt{src, class, v, loose}) }
	neg := i < 0
	mag := uint64(i)
	if neg {
		mag = uint64(-i) // MinInt64: -i wraps to MinInt64, whose uint64 is 2^63
	}
	dec := strconv.FormatUint(mag, 10)
	hex := strconv.FormatUint(mag, 16)
	bin := strconv.FormatUint(mag, 2)
	lz := mag > 7 // with leading zeros: decimal or octal?
	if !neg {
		add(dec, "canonical", false)
		add("0"+dec, "leadzero", lz)
		add("00"+dec, "leadzero", lz)
		add("0x"+hex, "hex", false)
		add("0X"+strings.ToUpper(hex), "hex", false)
		add("0x00"+hex, "hex", false)
		add("0b"+bin, "bin", false)
		add("0B0"+bin, "bin", false)
		add("("+dec+")", "paren", false)
		add("((0"+dec+"))", "paren", lz)
		add("( 0x"+hex+" )", "paren", false)
		if i > 0 {
			add("-(-"+dec+")", "signed", false)
			add("- -0"+dec, "signed", lz)
		}
	}
	if neg || i == 0 {
		class := "signed"
		if i == 0 {
			class = "negzero"
		}
		add("-"+dec, class, false)
		add("-0"+dec, class, lz)
		add("-00"+dec, class, lz)
		add("-0x"+hex, class, false)
		add("-0b"+bin, class, false)
		add("- "+dec, class, false)
		add("(-"+dec+")", class, false)
		add("(-0"+dec+")", class, lz)
		if mag <= math.MaxInt64 {
			add("-("+dec+")", class, false)
			add("-(0x"+hex+")", class, false)
			add("-((00"+dec+"))", class, lz)
		}
	}
	return out
}

func c05SpellFloat(f float64) []c05Spelt {
	if math.IsNaN(f) || math.IsInf(f, 0) {
		return nil
	}
	v := c05Val{kind: 'f', f: f}
	neg := math.Signbit(f)
	a := math.Abs(f)
	type form struct{ s, class string }
	var forms []form
	addf := func(s, class string) {
		// every form denotes the same decimal number, hence the same float64
		if g, err := strconv.ParseFloat(s, 64); err != nil || math.Float64bits(g) != math.Float64bits(a) {
			panic("c05SpellFloat: " + s + " is not a spelling of " + strconv.FormatFloat(a, 'g', -1, 64))
		}
		forms = append(forms, form{s, class})
	}
	es := strconv.FormatFloat(a, 'e', -1, 64) // d.ddde±xx
	cut := strings.IndexByte(es, 'e')
	mant := es[:cut]
	exp, _ := strconv.Atoi(es[cut+1:])
	digits := strings.Replace(mant, ".", "", 1)
	nd := len(digits)
	sgn := func(n int) string { // exponent with an explicit plus sign
		if n >= 0 {
			return "+" + strconv.Itoa(n)
		}
		return strconv.Itoa(n)
	}
	addf(es, "canonical")
	addf(strings.ToUpper(es), "exp")
	addf(mant+"e"+strconv.Itoa(exp), "exp")
	addf(digits+"e"+strconv.Itoa(exp-(nd-1)), "exp")
	addf("0."+digits+"e"+strconv.Itoa(exp+1), "exp")
	addf("0.0"+digits+"e"+sgn(exp+2), "exp")
	addf(digits+"00e"+strconv.Itoa(exp-(nd-1)-2), "exp")
	if strings.Contains(mant, ".") {
		addf(mant+"0e"+sgn(exp), "exp")
	} else {
		addf(mant+".0e"+sgn(exp), "exp")
	}
	addf("0"+es, "leadzero")
	fixed := strconv.FormatFloat(a, 'f', -1, 64)
	if !strings.Contains(fixed, ".") {
		fixed += ".0"
	}
	if len(fixed) <= 40 {
		addf(fixed, "frac")
		addf(fixed+"0", "frac")
		addf(fixed+"000", "frac")
		addf("0"+fixed, "leadzero")
		addf("00"+fixed+"0", "leadzero")
	}
	g := strconv.FormatFloat(a, 'g', -1, 64)
	if !strings.ContainsAny(g, ".e") {
		g += ".0"
	}
	addf(g, "frac")
	var out []c05Spelt
	add := func(src, class string) { out = append(out, c05Spelt{src, class, v, false}) }
	for k, fm := range forms {
		if !neg {
			add(fm.s, fm.class)
			switch k % 4 {
			case 1:
				add("("+fm.s+")", "paren")
			case 2:
				add("(( "+fm.s+" ))", "paren")
			case 3:
				if a != 0 {
					add("-(-"+fm.s+")", "signed")
				}
			}
			continue
		}
		class := "signed"
		if a == 0 {
			class = "negzero"
		}
		add("-"+fm.s, class)
		switch k % 4 {
		case 0:
			add("(-"+fm.s+")", class)
		case 1:
			add("-("+fm.s+")", class)
		case 2:
			add("- "+fm.s, class)
		}
	}
	return out
}

func c05SpellString(s string) []c05Spelt {
	v := c05Val{kind: 's', s: s}
	out := []c05Spelt{{strconv.Quote(s), "canonical", v, false}, {"(" + strconv.Quote(s) + ")", "paren", v, false}}
	if !strings.ContainsAny(s, "'\\\n") {
		out = append(out, c05Spelt{"'" + s + "'", "quote", v, false})
	}
	if !strings.ContainsAny(s, "`\r") {
		out = append(out, c05Spelt{"`" + s + "`", "quote", v, false})
	}
	return out
}

func c05Spellings(v c05Val) []c05Spelt {
	switch v.kind {
	case 'i':
		return c05SpellInt(v.i)
	case 'f':
		return c05SpellFloat(v.f)
	}
	return c05SpellString(v.s)
}

// values whose spellings are enumerated: the digits where the decimal/octal
// readings agree (0..7) and part (8, 10), the small-value range and its edges,
// the 2^31 / 2^53 / int64 edges, both zeros, floats with short and long
// mantissas, large and small exponents
var c05SpellInts = []int64{0, 1, 7, 8, 10, 64, 4095, 4096, 1 << 31, 1<<53 + 1, math.MaxInt64,
	-1, -7, -8, -10, -4096, -(1<<53 + 1), math.MinInt64}

var c05SpellFloats = []float64{0, math.Copysign(0, -1), 1, 1.5, -2.5, 0.1, 3, 1e6, 1e21, 1e-7, math.MaxFloat64, -math.MaxFloat64,
	math.SmallestNonzeroFloat64, 1 << 53, -(1<<53 + 2), 4095, 4096.5, 1e300}

func c05SpellUnits() []c05Val {
	var u []c05Val
	for _, i := range c05SpellInts {
		u = append(u, c05Val{kind: 'i', i: i})
	}
	for _, f := range c05SpellFloats {
		u = append(u, c05Val{kind: 'f', f: f})
	}
	for _, s := range c05Strings {
		u = append(u, c05Val{kind: 's', s: s})
	}
	return u
}

// c05SpellingCases is the number of cases of phase spelling.
func c05SpellingCases() int { return len(c05SpellInts) + len(c05SpellFloats) + len(c05Strings) }

// partners of the quick tier (the thorough tier takes the whole pools)
var c05SpellPartnerInts = []int64{0, 1, -2, 7, 4096, math.MaxInt64, math.MinInt64, 1<<53 + 1}
var c05SpellPartnerFloats = []float64{0.5, math.Copysign(0, -1), 2, 1e21, math.NaN(), math.Inf(1), -2.5, 0.1}
var c05SpellPartnerStrings = []string{"a", "", "12", "héllo"}

// c05SpellPartners: the partner values of spelling k under operator o.
func c05SpellPartners(tier string, pool []c05Val, k, o int) []c05Val {
	if tier == "thorough" {
		return c05SameBoxVals(pool)
	}
	pi, pf, ps := c05SpellPartnerInts, c05SpellPartnerFloats, c05SpellPartnerStrings
	n := k + o
	return []c05Val{
		{kind: 'i', i: pi[n%len(pi)]}, {kind: 'i', i: pi[(n+3)%len(pi)]},
		{kind: 'f', f: pf[n%len(pf)]}, {kind: 'f', f: pf[(n+5)%len(pf)]},
		{kind: 's', s: ps[n%len(ps)]}, {kind: 's', s: ps[(n+1)%len(ps)]},
	}
}

// c05NCtx statement positions of an expression (c05Wrap)
const c05NCtx = 9

// c05Wrap puts an expression into a statement position; the value of the script
// is the value of the expression in every one of them.
func c05Wrap(ctx int, expr string, defs map[string]interface{}) string {
	switch ctx {
	case 1:
		return "r = " + expr + "; r"
	case 2:
		return "f = func() { return " + expr + " }; f()"
	case 3:
		return "r = nil; for i = 0; i < 3; i++ { r = " + expr + " }; r"
	case 4:
		return "[" + expr + "][0]"
	case 5:
		defs["id"] = func(a interface{}) interface{} { return a }
		return "id(" + expr + ")"
	case 6:
		return "r = nil; if true { r = " + expr + " }; r"
	case 7:
		return "m = {\"k\": " + expr + "}; m.k"
	case 8:
		return "func g5(a) { return a }; g5(" + expr + ")"
	}
	return expr
}

// c05CheckParsed parses src once and runs the tree twice, each time in a fresh
// environment: both runs are judged against want.
func c05CheckParsed(c *wk.Case, src string, want c05Res, tag string, defs map[string]interface{}) {
	if want.unspec {
		return
	}
	c.Begin(map[string]interface{}{"src": src, "defs": fmt.Sprint(defs), "how": "parsed once, run twice"})
	stmt, err, po := ank.Parse(src)
	c.Eval("parsed:"+src+fmt.Sprint(defs), true)
	how := map[string]interface{}{"how": "parser.ParseSrc once, vm.RunContext twice (fresh environment each)"}
	if po.Panicked || err != nil {
		c05Judge(c, po, src, want, tag, defs, how)
		return
	}
	for run := 0; run < 2; run++ {
		e := ank.NewCoreEnv()
		for k, v := range defs {
			e.Define(k, v)
		}
		c05Judge(c, ank.RunCtx(context.Background(), e, stmt), src, want, tag, defs, how)
	}
}

// c05LiteralAlone evaluates a spelling alone and returns the value the operators
// are judged on.
func c05LiteralAlone(c *wk.Case, e *env.Env, s c05Spelt) (c05Val, bool) {
	tag := "literal:" + kindTag(s.v)
	if !s.loose {
		c05Check(c, e, s.src, c05Res{v: s.v}, tag, nil)
		return s.v, true
	}
	// a numeral whose reading the statement does not fix: its value is observed
	c.Begin(map[string]interface{}{"src": s.src})
	o := ank.Exec(e, s.src)
	c.Eval(s.src, false)
	if o.Panicked {
		c.Violation("panic:"+tag, "panic: "+o.PanicVal, map[string]interface{}{"src": s.src})
		return s.v, false
	}
	i, isInt := o.Val.(int64)
	if o.Err != nil || !isInt {
		c.Excluded("numeral-reading-not-stated")
		return s.v, false
	}
	if i != s.v.i {
		c.Tag("spelling:leadzero-not-read-as-decimal")
	}
	return c05Val{kind: 'i', i: i}, true
}

// c05SpellPartner spells the partner operand w: a variable, its canonical
// literal, or a literal in another spelling.
func c05SpellPartner(w c05Val, how int, defs map[string]interface{}) string {
	switch how % 3 {
	case 1:
		return c05Spell(w, "w", false, defs)
	case 2:
		var fixed []c05Spelt
		for _, s := range c05Spellings(w) {
			if !s.loose {
				fixed = append(fixed, s)
			}
		}
		if len(fixed) > 0 {
			return fixed[(how/3)%len(fixed)].src
		}
	}
	return c05Spell(w, "w", true, defs)
}

// noBlanks reports whether `a op b` may be written without blanks: not when b
// begins with a sign (`x--7`, `x<-7` are other tokens).
func c05NoBlanks(b string) bool { return !strings.HasPrefix(b, "-") }

// c05SpellingCase: case k of phase spelling.
func c05SpellingCase(c *wk.Case, pool []c05Val, k int) {
	e := ank.NewCoreEnv()
	unit := c05SpellUnits()[k]
	for si, sp := range c05Spellings(unit) {
		v, ok := c05LiteralAlone(c, e, sp)
		c.Tag("spelling:" + sp.class)
		if !ok {
			continue
		}
		L := sp.src
		// below the unary operators
		for _, op := range []string{"-", "^"} {
			want := c05Un(op, v)
			tag := "unary" + op + ":spelling:" + kindTag(v)
			blank := ""
			if strings.HasPrefix(L, "-") {
				blank = " "
			}
			c05Check(c, e, op+blank+L, want, tag, nil)
			c05Check(c, e, op+"("+L+")", want, tag, nil)
			defs := map[string]interface{}{}
			c05Check(c, e, c05Wrap(1+si%(c05NCtx-1), op+blank+L, defs), want, tag, defs)
		}
		// as a direct operand of every binary operator, on either side
		for oi, op := range c05BinOps {
			for pi, w := range c05SpellPartners(c.Tier, pool, si, oi) {
				n := si + oi + pi
				for side := 0; side < 2; side++ {
					x, y := v, w
					if side == 1 {
						x, y = w, v
					}
					want := c05Bin(op, x, y)
					if want.unspec || len(want.v.s) > 1<<16 {
						continue
					}
					tag := op + ":spelling:" + kindTag(x) + "," + kindTag(y)
					defs := map[string]interface{}{}
					W := c05SpellPartner(w, n+side, defs)
					a, b := L, W
					if side == 1 {
						a, b = W, L
					}
					switch mode := (n + 5*side) % (c05NCtx + 3); {
					case mode == c05NCtx && c05NoBlanks(b):
						c05Check(c, e, a+op+b, want, tag, defs)
					case mode == c05NCtx+1:
						c05CheckParsed(c, a+" "+op+" "+b, want, tag, defs)
					case mode == c05NCtx+2:
						// not a direct operand: the literal is bound to a name, passed as an
						// argument or stored in a list first (its value is what travels)
						switch n % 3 {
						case 0:
							if side == 0 {
								c05Check(c, e, "x = "+L+"; x "+op+" "+W, want, tag, defs)
							} else {
								c05Check(c, e, "x = "+L+"; "+W+" "+op+" x", want, tag, defs)
							}
						case 1:
							c05Check(c, e, "f = func(a, b) { return a "+op+" b }; f("+a+", "+b+")", want, tag, defs)
						default:
							c05Check(c, e, "r = ["+a+", "+b+"]; r[0] "+op+" r[1]", want, tag, defs)
						}
					default:
						c05Check(c, e, c05Wrap(mode%c05NCtx, a+" "+op+" "+b, defs), want, tag, defs)
					}
					c.Tag("op:" + tag)
				}
			}
		}
		// as the right operand of the compound forms, through the four kinds of
		// places; once as the value the place starts from
		for oi, op := range c05CompoundOps {
			for pi, w := range c05SpellPartners(c.Tier, pool, si, oi+1) {
				want := c05Bin(op, w, v)
				if want.unspec || want.isBool || len(want.v.s) > 1<<12 {
					continue
				}
				tag := op + "=:spelling:" + kindTag(w) + "," + kindTag(v)
				defs := map[string]interface{}{}
				W := c05SpellPartner(w, si+pi, defs)
				st := " " + op + "= " + L
				if (si+oi+pi)%5 == 0 {
					st = op + "=" + L
				}
				var src string
				switch (si + oi + pi) % 6 {
				case 0:
					src = "t = " + W + "; t" + st + "; t"
				case 1:
					src = "r = [0, " + W + "]; r[1]" + st + "; r[1]"
				case 2:
					src = "m = {\"k\": " + W + "}; m.k" + st + "; m[\"k\"]"
				case 3:
					src = "f = func(p) { p" + st + "; return p }; f(" + W + ")"
				case 4:
					// the same statement executed twice: the fold
					if !want.isErr {
						want = c05Bin(op, want.v, v)
						if want.unspec || want.isBool || len(want.v.s) > 1<<12 {
							continue
						}
					}
					src = "t = " + W + "; for i = 0; i < 2; i++ { t" + st + " }; t"
				default:
					c05CheckParsed(c, "t = "+W+"; t"+st+"; t", want, tag, defs)
					c.Tag("op:" + tag)
					continue
				}
				c05Check(c, e, src, want, tag, defs)
				c.Tag("op:" + tag)
			}
			// the place starts from the spelled literal
			for _, w := range c05SpellPartners(c.Tier, pool, si+oi, 0) {
				want := c05Bin(op, v, w)
				if want.unspec || want.isBool || len(want.v.s) > 1<<12 {
					continue
				}
				defs := map[string]interface{}{}
				c05Check(c, e, "t = "+L+"; t "+op+"= "+c05SpellPartner(w, si+oi, defs)+"; t", want, op+"=:spelling:"+kindTag(v)+","+kindTag(w), defs)
				break
			}
		}
	}
}

// ---- PRNG-generated shapes with spelled leaves (phase trees) ----

// c05RandSpelt draws a value and one of its spellings (never one whose reading
// is not fixed). Small integers, where the notations differ most, are favoured.
func c05RandSpelt(c *wk.Case, allowString bool) (c05Val, string) {
	r := c.Rng
	for {
		var v c05Val
		switch x := r.Intn(16); {
		case x < 5:
			v = c05Val{kind: 'i', i: int64(r.Intn(8))}
		case x < 7:
			v = c05Val{kind: 'i', i: -int64(r.Intn(8))}
		case x < 9:
			v = c05Val{kind: 'i', i: c05Ints[r.Intn(len(c05Ints))]}
		case x < 10:
			v = c05Val{kind: 'i', i: int64(r.Uint64() >> uint(r.Intn(64)))}
		case x < 13:
			v = c05Val{kind: 'f', f: c05Floats[r.Intn(len(c05Floats))]}
		case x < 14:
			v = c05Val{kind: 'f', f: float64(r.Intn(4000)) / 8}
		default:
			if !allowString {
				continue
			}
			v = c05Val{kind: 's', s: c05Strings[r.Intn(len(c05Strings))]}
		}
		sp := c05Spellings(v)
		if len(sp) == 0 {
			continue
		}
		s := sp[r.Intn(len(sp))]
		if s.loose {
			continue
		}
		return v, s.src
	}
}

// c05SpeltTree: a fully parenthesised PRNG-generated tree (depth <= 3,
// comparisons at the root) whose literal leaves are written in PRNG-chosen
// spellings; the other leaves are variables. Reference: eval().
func c05SpeltTree(c *wk.Case, e *env.Env) {
	r := c.Rng
	for try := 0; try < 12; try++ {
		defs := map[string]interface{}{}
		depth0 := 1 + r.Intn(3)
		var gen func(d int) *c05Node
		gen = func(d int) *c05Node {
			if d == 0 || (d < depth0 && r.Intn(3) == 0) {
				if r.Intn(4) == 0 {
					var v c05Val
					switch x := r.Intn(10); {
					case x < 4:
						v = c05Val{kind: 's', s: c05Strings[r.Intn(len(c05Strings))]}
					case x < 7:
						v = c05Val{kind: 'i', i: c05Ints[r.Intn(len(c05Ints))]}
					default:
						v = c05Val{kind: 'f', f: c05Floats[r.Intn(len(c05Floats))]}
					}
					n := &c05Node{leaf: v, name: "v" + strconv.Itoa(len(defs))}
					defs[n.name] = v.goValue()
					return n
				}
				v, s := c05RandSpelt(c, true)
				return &c05Node{leaf: v, spell: s}
			}
			if r.Intn(8) == 0 {
				return &c05Node{op: []string{"u-", "u^"}[r.Intn(2)], l: gen(d - 1)}
			}
			op := c05BinOps[r.Intn(9)]
			if d == depth0 && r.Intn(3) == 0 {
				op = c05BinOps[9+r.Intn(6)]
			} else if r.Intn(3) == 0 {
				op = "+"
			}
			return &c05Node{op: op, l: gen(d - 1), r: gen(d - 1)}
		}
		t := gen(depth0)
		want, ok := t.eval()
		if !ok || len(want.v.s) > 1<<16 {
			continue
		}
		var sb strings.Builder
		t.src(&sb)
		src := sb.String()
		// the outermost pair of parentheses is dropped half of the time: the root's
		// operands are then direct operands of a statement-level expression
		if t.op != "" && t.op[0] != 'u' && r.Intn(2) == 0 {
			src = src[1 : len(src)-1]
		}
		if r.Intn(6) == 0 {
			c05CheckParsed(c, src, want, "tree-spelling", defs)
		} else {
			c05Check(c, e, c05Wrap(r.Intn(c05NCtx), src, defs), want, "tree-spelling", defs)
		}
		c.Tag("tree-spelling")
		return
	}
	c.Excluded("spelt-tree-outside-stated-domain")
}

// c05SpeltChain: an unparenthesised chain of one operator set (x op l1 op l2
// ...), literal operands in PRNG-chosen spellings; the native reference is the
// left fold.
func c05SpeltChain(c *wk.Case, e *env.Env) {
	r := c.Rng
	for try := 0; try < 12; try++ {
		defs := map[string]interface{}{}
		ops := [][]string{{"+", "-"}, {"+"}, {"+", "-"}, {"*", "/", "%"}, {"&"}, {"|"}, {"<<"}, {">>"}}[r.Intn(8)]
		var t *c05Node
		src := ""
		blanks := r.Intn(4) != 0
		n := 2 + r.Intn(3)
		for i := 0; i <= n; i++ {
			var v c05Val
			var s string
			switch x := r.Intn(10); {
			case i == 0 && x < 4:
				v = c05Val{kind: 's', s: c05Strings[r.Intn(len(c05Strings))]}
				s = c05Spell(v, "v0", r.Intn(2) == 0, defs)
			case x < 2:
				v = c05Val{kind: 'i', i: c05Ints[r.Intn(len(c05Ints))]}
				s = c05Spell(v, "v"+strconv.Itoa(i), true, defs)
			default:
				v, s = c05RandSpelt(c, ops[0] == "+")
			}
			leaf := &c05Node{leaf: v}
			if i == 0 {
				t, src = leaf, s
				continue
			}
			op := ops[r.Intn(len(ops))]
			t = &c05Node{op: op, l: t, r: leaf}
			if blanks || !c05NoBlanks(s) {
				src += " " + op + " " + s
			} else {
				src += op + s
			}
		}
		want, ok := t.eval()
		if !ok || len(want.v.s) > 1<<16 {
			continue
		}
		c05Check(c, e, c05Wrap(r.Intn(c05NCtx), src, defs), want, "chain-spelling", defs)
		c.Tag("chain-spelling")
		return
	}
	c.Excluded("spelt-chain-outside-stated-domain")
}

// c05SpeltCompoundSeq: 2-4 compound assignments on one place, right operands
// literals in PRNG-chosen spellings (or an unparenthesised sum of two); the
// native reference is the fold of the binary operators.
func c05SpeltCompoundSeq(c *wk.Case, e *env.Env) {
	r := c.Rng
	for try := 0; try < 12; try++ {
		defs := map[string]interface{}{}
		var cur c05Val
		var first string
		if r.Intn(3) == 0 {
			cur = c05Val{kind: 's', s: c05Strings[r.Intn(len(c05Strings))]}
			first = c05Spell(cur, "v0", r.Intn(2) == 0, defs)
		} else {
			cur, first = c05RandSpelt(c, true)
		}
		place, get, pre := "t", "t", "t = "+first+"; "
		switch r.Intn(4) {
		case 1:
			pre, place, get = "r = [0, "+first+"]; ", "r[1]", "r[1]"
		case 2:
			pre, place, get = "m = {\"k\": "+first+"}; ", "m.k", "m[\"k\"]"
		case 3:
			pre, place, get = "f = func(p) { ", "p", "return p }; f("+first+")"
		}
		src := pre
		ok, wantErr := true, false
		for n := 2 + r.Intn(3); n > 0 && ok && !wantErr; n-- {
			op := c05CompoundOps[r.Intn(len(c05CompoundOps))]
			if r.Intn(2) == 0 {
				op = "+"
			}
			y, ys := c05RandSpelt(c, op == "+")
			if r.Intn(5) == 0 {
				op2 := []string{"+", "-", "*"}[r.Intn(3)]
				z, zs := c05RandSpelt(c, false)
				sub := c05Bin(op2, y, z)
				if sub.unspec || sub.isErr || sub.isBool || sub.v.kind == 'F' || len(sub.v.s) > 1<<12 {
					ok = false
					break
				}
				y, ys = sub.v, ys+" "+op2+" "+zs
			}
			res := c05Bin(op, cur, y)
			if res.unspec || res.isBool || res.v.kind == 'F' || len(res.v.s) > 1<<12 {
				ok = false
				break
			}
			if r.Intn(5) == 0 && c05NoBlanks(ys) {
				src += place + op + "=" + ys + "; "
			} else {
				src += place + " " + op + "= " + ys + "; "
			}
			wantErr = res.isErr
			cur = res.v
		}
		if !ok {
			continue
		}
		c05Check(c, e, src+get, c05Res{v: cur, isErr: wantErr}, "compound-chain-spelling", defs)
		c.Tag("compound-chain-spelling")
		return
	}
	c.Excluded("spelt-compound-outside-stated-domain")
}
