package main

// C13, phase "snapshots" (plain build, real parallelism): a copy is a consistent snapshot.
//
// The statement says "A copy is a consistent snapshot of its scope" and that concurrent
// operations "return results ... that some one-at-a-time ordering of those operations
// (consistent with each goroutine's own order) would produce". The phases sched/race/owners
// cannot refute an implementation whose copy walks the tables while single stores land in the
// middle of the walk WITHOUT a lock hand-over and WITHOUT a data race (atomic cells written
// under the read lock, a concurrent map whose iteration is no snapshot): the controlled
// scheduler switches at lock operations only, the race detector has nothing to report, and the
// single-writer oracle of phase owners looks at one symbol at a time.
//
// The oracle here needs nothing but program order. A LANE is a list of names item[0..n) of one
// scope with ONE writing goroutine, which works generation after generation: in generation g it
// writes item[0], item[1], ... item[n-1] in that order, one operation each, and the content it
// writes names g. In every one-at-a-time ordering that respects the writer's own order the
// lane therefore looks like  g .. g, g-1 .. g-1  at every moment, and
//   - an operation that reads the whole scope at once (Copy, DeepCopy, String, a listing) must
//     show every lane in that shape ("later-write-without-earlier" otherwise),
//   - what one goroutine sees of one item in successive operations never goes back,
//   - single reads (Get, Type) of items taken in DESCENDING item order by one goroutine form a
//     sequence that never goes down: a read of item[i+1] that shows g is ordered after the write
//     of item[i] to g.
// Lane kinds: values (content = the number g), types (content = the type [g]struct{}),
// values+types (one lane alternating a value and a type, so that the two tables of a copy must
// belong to one moment), presence (odd generations define the names in order, even generations
// delete them in order: the names present form a prefix or a suffix of the lane).
//
// Nothing is decided from the clock: the writers do a fixed number of generations, the readers
// work until the writers are done, and a run that does not end is judged from goroutine states
// like in the other stress phases.

import (
	"context"
	"fmt"
	"reflect"
	"runtime"
	"strconv"
	"strings"
	"sync"
	"sync/atomic"
	"time"

	"github.com/mattn/anko/ast"
	"github.com/mattn/anko/env"

	"verifharness/internal/ank"
	"verifharness/internal/fw"
	"verifharness/internal/wk"
)

func c13r6Phase(tier string) fw.Phase {
	n := 8
	if tier == "thorough" {
		n = 240
	}
	return fw.Phase{Name: "snapshots", Cases: n, Chunk: 2, TimeoutS: 900, Jobs: 4, MemMB: 3072}
}

const c13r6Rule = " phase snapshots (plain build, GOMAXPROCS 4/8/16): one scope (the root, or a child of a read-only root) holds 1-4 lanes of 24-400 names, each lane written by ONE goroutine generation after generation in item order (values: Set/SetValue/Define/DefineValue on the scope, Set through a descendant, DefineGlobal through a descendant when the scope is the root, a pre-parsed script 'v_000 = gen; v_001 = gen; ...' run in a child scope; types: DefineType/DefineReflectType and the Global forms through a descendant when the scope is the root, the type of generation g is [g]struct{}; values+types: one lane alternating a value and a type; presence: Define in order in odd generations, Delete/DeleteGlobal in order in even ones); case 4k has a values lane only, 4k+1 a types lane only, 4k+2 all four lanes, 4k+3 a PRNG subset. 2-4 reader goroutines run {Copy, DeepCopy of the scope or of a descendant, String (lines 'name = number' / 'name = [n]struct {}' are read, other text is skipped), GetValueSymbols, GetTypeSymbols, single Get/Type reads of up to 16 items in descending item order} until the writers are done; every whole-scope result must show each lane as g..g,g-1..g-1 in item order (presence: the names present carry one number and form a prefix or a suffix), no item goes back between two results of one goroutine, and descending single reads never go down. In half of the cases the scope also binds a host value whose GoString reads the scope (Get and Type) when String prints it, and in half of them a struct read out of an unexported field is offered to DefineValue (refusing it is accepted; once bound, copies and dumps must still come back). Non-trivial = at least one whole-scope result caught a writer in the middle of a generation."

const c13r6Assumption = "phase snapshots runs on the schedules the Go runtime produces on the available cores (no controlled interleaving): its verdicts are derived from the writers' program order only, so they hold for every schedule, but whether a copy overlaps a store is left to the runtime (the count of results that caught a writer mid-generation is recorded); the script writer uses nothing but assignments of one variable to existing variables"

// ---------------------------------------------------------------------------------------------

const (
	c13r6Values   = "values"
	c13r6Types    = "types"
	c13r6Mixed    = "values+types"
	c13r6Presence = "presence"
)

type c13r6Item struct {
	isType bool
	name   string
}

type c13r6Lane struct {
	kind   string
	items  []c13r6Item
	gens   int
	script ast.Stmt // values lanes: every item assigned from the variable gen, in item order
	src    string
}

var c13r6Elem = reflect.TypeOf(struct{}{})

// c13r6TypeOf: the type whose content names generation g (its zero value occupies no memory)
func c13r6TypeOf(g int) reflect.Type { return reflect.ArrayOf(g, c13r6Elem) }

// c13r6Int reads the number out of a value bound by a writer (a Go int; a script store may
// hand back another integer kind)
func c13r6Int(v interface{}) (int, bool) {
	switch n := v.(type) {
	case int:
		return n, true
	case int64:
		return int(n), true
	}
	rv := reflect.ValueOf(v)
	if rv.IsValid() && rv.Kind() >= reflect.Int && rv.Kind() <= reflect.Int64 {
		return int(rv.Int()), true
	}
	return 0, false
}

// c13r6View is what one whole-scope operation showed: for an item the generation its content
// names, c13r6Absent when the name is not there, c13r6Unknown when the operation does not show
// contents (listings) or the text could not be read.
type c13r6View func(it c13r6Item) int

const (
	c13r6Absent  = -1
	c13r6Unknown = -2
)

func c13r6EnvView(e *env.Env) c13r6View {
	return func(it c13r6Item) int {
		if it.isType {
			t, err := e.Type(it.name)
			if err != nil {
				return c13r6Absent
			}
			if t == nil || t.Kind() != reflect.Array {
				return c13r6Unknown - 1 // a content nobody wrote
			}
			return t.Len()
		}
		v, err := e.Get(it.name)
		if err != nil {
			return c13r6Absent
		}
		n, ok := c13r6Int(v)
		if !ok {
			return c13r6Unknown - 1
		}
		return n
	}
}

// c13r6StringView reads the lines "name = text" of Env.String. The format of the dump is not
// part of the statement: a line whose text is not a plain number / "[n]struct {}" is unknown.
func c13r6StringView(txt string) c13r6View {
	lines := map[string]string{}
	for _, ln := range strings.Split(txt, "\n") {
		if i := strings.Index(ln, " = "); i > 0 {
			lines[ln[:i]] = ln[i+3:]
		}
	}
	return func(it c13r6Item) int {
		s, ok := lines[it.name]
		if !ok {
			return c13r6Absent
		}
		if it.isType {
			if !strings.HasPrefix(s, "[") || !strings.HasSuffix(s, "]struct {}") {
				return c13r6Unknown
			}
			s = s[1 : len(s)-len("]struct {}")]
		}
		n, err := strconv.Atoi(s)
		if err != nil || n < 0 {
			return c13r6Unknown
		}
		return n
	}
}

// c13r6ListView: a listing of the value names (types == false) or of the type names shows which
// names of that table are there, not their contents
func c13r6ListView(list []string, types bool) c13r6View {
	listed := map[string]bool{}
	for _, k := range list {
		listed[k] = true
	}
	return func(it c13r6Item) int {
		if it.isType != types || listed[it.name] {
			return c13r6Unknown // the other table was not listed / listed: the content is not shown
		}
		return c13r6Absent
	}
}

// c13r6Check judges what one whole-scope operation (op) showed of one lane. seen holds, per item,
// the newest generation this goroutine has seen so far. It returns whether the result caught the
// writer in the middle of a generation.
func c13r6Check(rep *c13r5Reporter, op string, lane *c13r6Lane, view c13r6View, seen []int) (mixed bool) {
	sig := func(what string) string { return "snapshot:" + op + ":" + lane.kind + ":" + what }
	n := len(lane.items)
	gens := make([]int, n)
	known := true
	for i, it := range lane.items {
		g := view(it)
		gens[i] = g
		switch {
		case g == c13r6Unknown:
			known = false
		case g < c13r6Unknown || g > lane.gens:
			rep.report(sig("content-never-written"), fmt.Sprintf("%s shows %s with a content no writer ever stored (the lane's writer stores generations 0..%d)", op, it.name, lane.gens))
			return false
		case g == c13r6Absent && lane.kind != c13r6Presence:
			rep.report(sig("symbol-missing"), fmt.Sprintf("%s does not show %s; the name was defined before the start and nobody deletes it", op, it.name))
			return false
		}
	}
	if lane.kind == c13r6Presence {
		// the names present carry one (odd) number v and form a prefix (generation v under way)
		// or a suffix (generation v+1, the deleting one, under way) of the lane
		first, last, count, v := -1, -1, 0, c13r6Unknown
		for i, g := range gens {
			if g == c13r6Absent {
				continue
			}
			if first < 0 {
				first = i
			}
			last = i
			count++
			if g != c13r6Unknown {
				if v != c13r6Unknown && g != v {
					rep.report(sig("later-write-without-earlier"), fmt.Sprintf("%s shows %s = %d next to %s = %d: the writer deletes every name of the lane between two generations of definitions, so no moment of the scope looks like this", op, lane.items[i].name, g, lane.items[first].name, v))
					return false
				}
				v = g
			}
		}
		if count == 0 || count == n {
			if count == n && v != c13r6Unknown && v%2 == 1 {
				for i := range gens {
					gens[i] = v
				}
				c13r6Seen(rep, sig, op, lane, gens, seen)
			}
			return false
		}
		isPrefix, isSuffix := first == 0 && last == count-1, last == n-1 && first == n-count
		if !isPrefix && !isSuffix {
			rep.report(sig("later-write-without-earlier"), fmt.Sprintf("%s shows %d of the %d names of the lane, the first at item %d and the last at item %d: the writer defines them in item order and deletes them in item order, so the names present form a prefix or a suffix at every moment", op, count, n, first, last))
			return false
		}
		if v != c13r6Unknown {
			if v%2 == 0 {
				rep.report(sig("content-never-written"), fmt.Sprintf("%s shows the number %d in the lane; only odd generations define", op, v))
				return false
			}
			for i := range gens {
				switch {
				case gens[i] != c13r6Absent:
					gens[i] = v
				case isPrefix:
					gens[i] = v - 1
				default:
					gens[i] = v + 1
				}
			}
			c13r6Seen(rep, sig, op, lane, gens, seen)
		}
		return true
	}
	if !known {
		return false
	}
	for i := 1; i < n; i++ {
		if gens[i] > gens[i-1] {
			rep.report(sig("later-write-without-earlier"), fmt.Sprintf("%s shows %s at generation %d but %s at generation %d: the lane's only writer stores generation %d into %s before it stores it into %s, so no moment of the scope looks like this", op, lane.items[i-1].name, gens[i-1], lane.items[i].name, gens[i], gens[i], lane.items[i-1].name, lane.items[i].name))
			return false
		}
	}
	if gens[n-1] < gens[0]-1 {
		rep.report(sig("later-write-without-earlier"), fmt.Sprintf("%s shows %s at generation %d but %s at generation %d: the writer finishes generation %d for every name before it starts generation %d", op, lane.items[0].name, gens[0], lane.items[n-1].name, gens[n-1], gens[0]-1, gens[0]))
		return false
	}
	c13r6Seen(rep, sig, op, lane, gens, seen)
	return gens[0] != gens[n-1]
}

// c13r6Seen: what one goroutine sees of an item never goes back
func c13r6Seen(rep *c13r5Reporter, sig func(string) string, op string, lane *c13r6Lane, gens, seen []int) {
	for i, g := range gens {
		if g < seen[i] {
			rep.report(sig("went-back"), fmt.Sprintf("%s shows %s at generation %d; an earlier operation of the same goroutine showed generation %d, and its only writer never goes back", op, lane.items[i].name, g, seen[i]))
			return
		}
		seen[i] = g
	}
}

func c13r6Snapshots(c *wk.Case) {
	procs := []int{16, 4, 8}[(c.Index/4)%3]
	old := runtime.GOMAXPROCS(procs)
	defer runtime.GOMAXPROCS(old)

	// the scopes
	onRoot := c.Rng.Intn(3) == 0
	root := env.NewEnv()
	var scope, leaf *env.Env
	if onRoot {
		scope = root
		leaf = root.NewEnv().NewEnv()
	} else {
		root.Define("kp", "P") // the parent is read-only
		scope = root.NewEnv()
		leaf = scope.NewEnv()
	}

	// the lanes
	var kinds []string
	switch c.Index % 4 {
	case 0:
		kinds = []string{c13r6Values}
	case 1:
		kinds = []string{c13r6Types}
	case 2:
		kinds = []string{c13r6Values, c13r6Types, c13r6Mixed, c13r6Presence}
	default:
		for _, k := range []string{c13r6Values, c13r6Types, c13r6Mixed, c13r6Presence} {
			if c.Rng.Intn(2) == 0 {
				kinds = append(kinds, k)
			}
		}
		if len(kinds) == 0 {
			kinds = []string{c13r6Mixed}
		}
	}
	budget := 100000
	if len(kinds) > 2 {
		budget = 60000
	}
	var lanes []*c13r6Lane
	var laneDesc []string
	for _, kind := range kinds {
		n := 24 + c.Rng.Intn(377)
		lane := &c13r6Lane{kind: kind}
		var src strings.Builder
		for i := 0; i < n; i++ {
			switch kind {
			case c13r6Values:
				lane.items = append(lane.items, c13r6Item{false, fmt.Sprintf("v_%03d", i)})
				fmt.Fprintf(&src, "v_%03d = gen\n", i)
			case c13r6Types:
				lane.items = append(lane.items, c13r6Item{true, fmt.Sprintf("T_%03d", i)})
			case c13r6Mixed:
				if i%2 == 0 {
					lane.items = append(lane.items, c13r6Item{false, fmt.Sprintf("m_%03d", i)})
				} else {
					lane.items = append(lane.items, c13r6Item{true, fmt.Sprintf("M_%03d", i)})
				}
			default:
				lane.items = append(lane.items, c13r6Item{false, fmt.Sprintf("p_%03d", i)})
			}
		}
		lane.gens = budget / n
		if lane.gens < 60 {
			lane.gens = 60
		}
		if kind == c13r6Values {
			lane.src = src.String()
			stmt, err, out := ank.Parse(lane.src)
			if err != nil || out.Panicked {
				c.Inconclusive("snapshots-script-does-not-parse", fmt.Sprintf("%v %s", err, out.PanicVal), lane.src)
				return
			}
			lane.script = stmt
		}
		// generation 0, one-at-a-time
		for _, it := range lane.items {
			switch {
			case kind == c13r6Presence:
			case it.isType:
				scope.DefineReflectType(it.name, c13r6TypeOf(0))
			default:
				scope.Define(it.name, 0)
			}
		}
		lanes = append(lanes, lane)
		laneDesc = append(laneDesc, fmt.Sprintf("%s:%d names x %d generations", kind, n, lane.gens))
	}
	nReaders := 2 + c.Rng.Intn(3)
	wseeds := make([]int64, len(lanes))
	for i := range wseeds {
		wseeds[i] = c.Rng.Int63()
	}
	rseeds := make([]int64, nReaders)
	for i := range rseeds {
		rseeds[i] = c.Rng.Int63()
	}
	// two bystanders that belong to no lane (nobody rebinds them):
	//  - zz_echo, a host value whose GoString reads the scope it is bound in: String prints the
	//    bindings with %#v, so printing the scope runs Get and Type of the same scope from inside
	//    String while writers queue up - a combination of environment operations like any other,
	//    which must not block for good;
	//  - zz_ro, a struct read out of an unexported field (a read-only reflect.Value). The
	//    statement does not say whether such a value may be bound; when DefineValue accepts it,
	//    the copies and dumps of the scope must still come back (a panic inside Copy would leave
	//    the scope's lock held).
	echo := c.Rng.Intn(2) == 0
	if echo {
		probe := "kp"
		if onRoot {
			probe = lanes[0].items[0].name
		}
		scope.Define("zz_echo", &c13r6Echo{scope: scope, name: probe})
	}
	roBound := false
	if c.Rng.Intn(2) == 0 {
		roBound = scope.DefineValue("zz_ro", reflect.ValueOf(&c13r6Holder{}).Elem().Field(0)) == nil
	}
	input := map[string]interface{}{"phase": "snapshots", "lanes": laneDesc, "lanes_on_root": onRoot, "readers": nReaders, "gomaxprocs": procs, "echo_value_bound": echo, "read_only_value_bound": roBound}
	c.Begin(input)

	rep := &c13r5Reporter{viol: map[string]string{}, counts: map[string]int{}}
	var failed, writersLeft int32
	writersLeft = int32(len(lanes))
	var mixedTotal, wholeTotal int64
	var wg, ready sync.WaitGroup
	ready.Add(nReaders)
	start := make(chan struct{})

	// the writers
	for li, lane := range lanes {
		wg.Add(1)
		go func(li int, lane *c13r6Lane) {
			defer wg.Done()
			defer atomic.AddInt32(&writersLeft, -1)
			defer func() {
				if r := recover(); r != nil {
					rep.recovered(r)
				}
			}()
			x := uint64(wseeds[li]) | 1
			next := func(n int) int {
				x ^= x << 13
				x ^= x >> 7
				x ^= x << 17
				return int(x % uint64(n))
			}
			local := map[string]int{}
			fails := func(op string, it c13r6Item, err error) {
				rep.report("snapshot:writer:"+op+":fails", fmt.Sprintf("%s(%s) by the only writer of the name fails: %v", op, it.name, err))
			}
			<-start
			ready.Wait() // every reader has taken its first look
			for g := 1; g <= lane.gens && atomic.LoadInt32(&failed) == 0; g++ {
				mode := next(8)
				if lane.kind == c13r6Values && mode == 7 {
					// the whole generation as one script run in a scope of its own: every
					// assignment finds its variable in the lane's scope
					d := leaf.NewEnv()
					d.Define("gen", g)
					out := ank.RunCtx(context.Background(), d, lane.script)
					local["script-assign"] += len(lane.items)
					if out.Panicked || out.Err != nil {
						rep.report("snapshot:writer:script:fails", fmt.Sprintf("the assignments of generation %d fail: %v %s", g, out.Err, out.PanicVal))
						return
					}
					continue
				}
				typ := c13r6TypeOf(g)
				for _, it := range lane.items {
					var err error
					var op string
					switch {
					case lane.kind == c13r6Presence && g%2 == 1:
						switch m := mode % 3; {
						case m == 0:
							err, op = scope.Define(it.name, g), "Define"
						case m == 1:
							err, op = scope.DefineValue(it.name, reflect.ValueOf(g)), "DefineValue"
						case onRoot:
							err, op = leaf.DefineGlobal(it.name, g), "DefineGlobal"
						default:
							err, op = scope.Define(it.name, g), "Define"
						}
					case lane.kind == c13r6Presence:
						if mode%2 == 0 {
							scope.Delete(it.name)
							op = "Delete"
						} else {
							leaf.DeleteGlobal(it.name)
							op = "DeleteGlobal"
						}
					case it.isType:
						switch m := mode % 4; {
						case m == 0:
							err, op = scope.DefineType(it.name, reflect.Zero(typ).Interface()), "DefineType"
						case m == 1 && onRoot:
							err, op = leaf.DefineGlobalReflectType(it.name, typ), "DefineGlobalReflectType"
						case m == 2 && onRoot:
							err, op = leaf.DefineGlobalType(it.name, reflect.Zero(typ).Interface()), "DefineGlobalType"
						default:
							err, op = scope.DefineReflectType(it.name, typ), "DefineReflectType"
						}
					default:
						switch m := mode % 7; {
						case m == 0:
							err, op = scope.SetValue(it.name, reflect.ValueOf(g)), "SetValue"
						case m == 1:
							err, op = leaf.Set(it.name, g), "Set"
						case m == 2:
							err, op = scope.Define(it.name, g), "Define"
						case m == 3:
							err, op = scope.DefineValue(it.name, reflect.ValueOf(g)), "DefineValue"
						case m == 4 && onRoot:
							err, op = leaf.DefineGlobal(it.name, g), "DefineGlobal"
						default:
							err, op = scope.Set(it.name, g), "Set"
						}
					}
					local[op]++
					if err != nil {
						fails(op, it, err)
						return
					}
				}
				if next(4) == 0 {
					runtime.Gosched()
				}
			}
			rep.merge(local)
		}(li, lane)
	}

	// the readers
	for r := 0; r < nReaders; r++ {
		wg.Add(1)
		go func(r int) {
			defer wg.Done()
			isReady := false
			defer func() {
				if !isReady {
					ready.Done()
				}
				if r := recover(); r != nil {
					rep.recovered(r)
				}
			}()
			x := uint64(rseeds[r]) | 1
			next := func(n int) int {
				x ^= x << 13
				x ^= x >> 7
				x ^= x << 17
				return int(x % uint64(n))
			}
			seen := make([][]int, len(lanes))
			for i, lane := range lanes {
				seen[i] = make([]int, len(lane.items))
			}
			local := map[string]int{}
			mine := c13r6Sub(leaf, r)
			var mixed, whole int64
			<-start
			for ops := 0; atomic.LoadInt32(&failed) == 0 && (atomic.LoadInt32(&writersLeft) > 0 || ops < 24); ops++ {
				var view c13r6View
				var op string
				switch k := next(14); {
				case k < 5:
					op, view = "Copy", c13r6EnvView(scope.Copy())
				case k < 6:
					op, view = "DeepCopy", c13r6EnvView(scope.DeepCopy())
				case k < 8:
					// the copy of a descendant: the names are found in the copy of the lane's scope
					d := leaf
					if next(2) == 0 {
						d = mine
					}
					op, view = "DeepCopy", c13r6EnvView(d.DeepCopy())
				case k < 10:
					op, view = "String", c13r6StringView(scope.String())
				case k < 11:
					op, view = "GetValueSymbols", c13r6ListView(scope.GetValueSymbols(), false)
				case k < 12:
					op, view = "GetTypeSymbols", c13r6ListView(scope.GetTypeSymbols(), true)
				default:
					// single reads in descending item order
					li := next(len(lanes))
					lane := lanes[li]
					if lane.kind == c13r6Presence {
						continue
					}
					d := []*env.Env{scope, leaf, mine}[next(3)]
					look := c13r6EnvView(d)
					i := len(lane.items) - 1 - next(8)
					prev, prevName := -1, ""
					for k := 0; k < 16 && i >= 0; k, i = k+1, i-1-next(1+len(lane.items)/12) {
						it := lane.items[i]
						g := look(it)
						what := "Get"
						if it.isType {
							what = "Type"
						}
						local[what]++
						switch {
						case g < 0 || g > lane.gens:
							rep.report("ordered-reads:"+what+":"+lane.kind+":symbol-missing-or-content-never-written", fmt.Sprintf("%s(%s) answers no generation the writer stored (%d)", what, it.name, g))
						case g < prev:
							rep.report("ordered-reads:"+what+":"+lane.kind+":earlier-write-not-visible", fmt.Sprintf("%s(%s) showed generation %d, the read of %s after it shows generation %d: the lane's only writer stores a generation into %s before it stores it into %s", what, prevName, prev, it.name, g, it.name, prevName))
						case g < seen[li][i]:
							rep.report("ordered-reads:"+what+":"+lane.kind+":went-back", fmt.Sprintf("%s(%s) shows generation %d; an earlier operation of the same goroutine showed %d", what, it.name, g, seen[li][i]))
						default:
							seen[li][i] = g
						}
						prev, prevName = g, it.name
					}
					if !isReady {
						isReady = true
						ready.Done()
					}
					continue
				}
				local[op]++
				whole++
				for li, lane := range lanes {
					if c13r6Check(rep, op, lane, view, seen[li]) {
						mixed++
					}
				}
				if !isReady {
					isReady = true
					ready.Done()
				}
				rep.mu.Lock()
				bad := len(rep.viol) > 0
				rep.mu.Unlock()
				if bad {
					atomic.StoreInt32(&failed, 1)
				}
			}
			atomic.AddInt64(&mixedTotal, mixed)
			atomic.AddInt64(&wholeTotal, whole)
			rep.merge(local)
		}(r)
	}
	close(start)
	c13r5Wait(c, &wg, 60*time.Second, "snapshots-watchdog", input)

	// the final state: every lane at its last generation (when nothing stopped the writers early)
	if len(rep.panics) == 0 && len(rep.viol) == 0 {
		view := c13r6EnvView(scope)
		for _, lane := range lanes {
			for _, it := range lane.items {
				g := view(it)
				want := lane.gens
				if lane.kind == c13r6Presence && lane.gens%2 == 0 {
					want = c13r6Absent
				}
				if g != want {
					rep.report("snapshot:final-state:"+lane.kind+":last-write-missing", fmt.Sprintf("the writer of %s left it at generation %d (%d = deleted), at the end the scope shows %d", it.name, lane.gens, c13r6Absent, g))
					break
				}
			}
		}
	}
	c.Count("snapshots_whole_scope_results", int(wholeTotal))
	c.Count("snapshots_results_mid_generation", int(mixedTotal))
	rep.flush(c, "snapshots_ops:", input)
	c.Eval(fmt.Sprintf("snapshots lanes=%v root=%v readers=%d procs=%d seed0=%d", laneDesc, onRoot, nReaders, procs, rseeds[0]), mixedTotal > 0)
	c.Tag(fmt.Sprintf("snapshots-gomaxprocs:%d", procs), fmt.Sprintf("snapshots-lanes-on-root:%v", onRoot), fmt.Sprintf("snapshots-echo-value:%v", echo), fmt.Sprintf("snapshots-read-only-value-accepted:%v", roBound))
	for _, k := range kinds {
		c.Tag("snapshots-lane:" + k)
	}
	if c.WantSample() {
		c.Sample(map[string]interface{}{"phase": "snapshots", "lanes": laneDesc, "lanes_on_root": onRoot, "readers": nReaders, "gomaxprocs": procs, "whole_scope_results": wholeTotal, "results_mid_generation": mixedTotal, "operation_counts": rep.counts})
	}
}

// c13r6Echo: a host value that reads the scope it is bound in when it is printed with %#v
type c13r6Echo struct {
	scope *env.Env
	name  string
}

func (e *c13r6Echo) GoString() string {
	e.scope.Get(e.name)
	e.scope.Type(e.name)
	return "echo"
}

// c13r6Holder: its field is not exported, so a reflect.Value read out of it is read-only
type c13r6Holder struct {
	inner struct{ X int }
}

// c13r6Sub: a descendant of its own for reader r (a child of the shared leaf)
func c13r6Sub(leaf *env.Env, r int) *env.Env {
	e := leaf.NewEnv()
	e.Define(fmt.Sprintf("own%d", r), r)
	return e
}
