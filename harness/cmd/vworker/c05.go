package main

// C05 — arithmetic follows the int64/float64/string tower exactly.
// Monitor: differential against native Go arithmetic, value AND dynamic type.

import (
	"fmt"
	"math"
	"reflect"
	"strconv"
	"strings"
	"sync"
	"sync/atomic"

	"github.com/mattn/anko/env"

	"verifharness/internal/ank"
	"verifharness/internal/fw"
	"verifharness/internal/wk"
)

var c05Ints = []int64{0, 1, -1, 2, -2, 3, 7, 63, 64, 65, 4094, 4095, 4096, 4097, -3,
	1 << 31, -(1 << 31), 1<<31 - 1, 1<<32 + 1, 1 << 53, 1<<53 + 1, 1<<53 - 1, -(1 << 53), -(1<<53 + 1),
	math.MaxInt64, math.MaxInt64 - 1, math.MinInt64, math.MinInt64 + 1, 1 << 62, -(1 << 62), 1000000, 1000003, 0x5555555555555555, -0x5555555555555555, 10}

var c05Floats = []float64{0, math.Copysign(0, -1), 1, -1, 0.5, -2.5, 3, 1e6, 1e21, 1e-7, math.MaxFloat64, -math.MaxFloat64,
	math.SmallestNonzeroFloat64, math.Inf(1), math.Inf(-1), math.NaN(), 1 << 53, 1<<53 + 2, -(1<<53 + 2), 9.223372036854775807e18, -9.223372036854775808e18, 4095, 4096.5, 1e300, 0.1}

var c05BinOps = []string{"+", "-", "*", "/", "%", "&", "|", "<<", ">>", "==", "!=", "<", "<=", ">", ">="}

// c05Val is a value of the tower.
type c05Val struct {
	kind byte // 'i','f','s'; 'F' = "a float64 whose value the statement does not fix" (never a leaf, see c05BinAnyFloat)
	i    int64
	f    float64
	s    string
}

func (v c05Val) goValue() interface{} {
	switch v.kind {
	case 'i':
		return v.i
	case 'f':
		return v.f
	}
	return v.s
}

func (v c05Val) String() string {
	switch v.kind {
	case 'i':
		return "int64(" + strconv.FormatInt(v.i, 10) + ")"
	case 'f':
		if math.IsNaN(v.f) {
			return "float64(NaN)"
		}
		return fmt.Sprintf("float64(%s|%016x)", strconv.FormatFloat(v.f, 'g', -1, 64), math.Float64bits(v.f))
	case 'F':
		return "float64(any value) or an error"
	}
	return "string(" + strconv.Quote(v.s) + ")"
}

func c05Equal(a, b c05Val) bool {
	if a.kind != b.kind {
		return false
	}
	switch a.kind {
	case 'i':
		return a.i == b.i
	case 'f':
		if math.IsNaN(a.f) && math.IsNaN(b.f) {
			return true
		}
		return math.Float64bits(a.f) == math.Float64bits(b.f)
	}
	return a.s == b.s
}

// literal spelling; ok=false when the value has no literal (inf, NaN)
func (v c05Val) literal() (string, bool) {
	switch v.kind {
	case 'i':
		return strconv.FormatInt(v.i, 10), true
	case 'f':
		if math.IsNaN(v.f) || math.IsInf(v.f, 0) {
			return "", false
		}
		return strconv.FormatFloat(v.f, 'e', -1, 64), true
	}
	return strconv.Quote(v.s), true
}

type c05Res struct {
	isErr  bool
	isBool bool
	b      bool
	v      c05Val
	unspec bool // outside the property's statement: not judged
}

func fnum(v c05Val) float64 {
	if v.kind == 'i' {
		return float64(v.i)
	}
	return v.f
}

func c05Sprint(v c05Val) string {
	switch v.kind {
	case 'i':
		return fmt.Sprint(v.i)
	case 'f':
		return fmt.Sprint(v.f)
	}
	return v.s
}

// native reference for a binary operator
func c05Bin(op string, x, y c05Val) c05Res {
	if x.kind == 'F' || y.kind == 'F' {
		return c05BinAnyFloat(op, x, y)
	}
	if x.kind == 's' || y.kind == 's' {
		switch {
		case op == "-" && (x.kind == 'f' || y.kind == 'f'):
			// "+ - * ... are carried out in float64 as soon as one operand is a float":
			// the quantifier pairs every operator with strings too, and only `+`
			// (concatenation) and `string * n` are given another meaning. What number
			// a string counts as is not stated, so only the kind of the outcome is
			// fixed: a float64 (or an error), never an int64 or a string.
			return c05Res{v: c05Val{kind: 'F'}}
		case op == "+":
			return c05Res{v: c05Val{kind: 's', s: c05Sprint(x) + c05Sprint(y)}}
		case op == "*" && x.kind == 's' && y.kind == 'i':
			if y.i < 0 {
				return c05Res{isErr: true}
			}
			if x.s == "" {
				// the empty string repeated n times is the empty string for every n >= 0,
				// however large: nothing astronomically large is asked for
				return c05Res{v: c05Val{kind: 's'}}
			}
			if y.i > 1000 {
				return c05Res{unspec: true} // astronomically large results are outside the guarantee
			}
			return c05Res{v: c05Val{kind: 's', s: strings.Repeat(x.s, int(y.i))}}
		case (op == "==" || op == "!=") && x.kind == 's' && y.kind == 's':
			return c05Res{isBool: true, b: (x.s == y.s) == (op == "==")}
		}
		return c05Res{unspec: true}
	}
	bothInt := x.kind == 'i' && y.kind == 'i'
	switch op {
	case "+", "-", "*":
		if bothInt {
			var r int64
			switch op {
			case "+":
				r = x.i + y.i
			case "-":
				r = x.i - y.i
			case "*":
				r = x.i * y.i
			}
			return c05Res{v: c05Val{kind: 'i', i: r}}
		}
		var r float64
		switch op {
		case "+":
			r = fnum(x) + fnum(y)
		case "-":
			r = fnum(x) - fnum(y)
		case "*":
			r = fnum(x) * fnum(y)
		}
		return c05Res{v: c05Val{kind: 'f', f: r}}
	case "/":
		return c05Res{v: c05Val{kind: 'f', f: fnum(x) / fnum(y)}}
	case "%", "&", "|", "<<", ">>":
		if !bothInt {
			return c05Res{unspec: true}
		}
		var r int64
		switch op {
		case "%":
			if y.i == 0 {
				return c05Res{isErr: true}
			}
			if y.i == -1 {
				r = 0
			} else {
				r = x.i % y.i
			}
		case "&":
			r = x.i & y.i
		case "|":
			r = x.i | y.i
		case "<<":
			r = x.i << uint64(y.i)
		case ">>":
			r = x.i >> uint64(y.i)
		}
		return c05Res{v: c05Val{kind: 'i', i: r}}
	case "==", "!=":
		if bothInt {
			return c05Res{isBool: true, b: (x.i == y.i) == (op == "==")}
		}
		if x.kind == 'f' && y.kind == 'f' {
			return c05Res{isBool: true, b: (x.f == y.f) == (op == "==")}
		}
		return c05Res{unspec: true} // mixed equality is C06's business
	case "<", "<=", ">", ">=":
		var b bool
		if bothInt {
			switch op {
			case "<":
				b = x.i < y.i
			case "<=":
				b = x.i <= y.i
			case ">":
				b = x.i > y.i
			case ">=":
				b = x.i >= y.i
			}
		} else {
			fx, fy := fnum(x), fnum(y)
			switch op {
			case "<":
				b = fx < fy
			case "<=":
				b = fx <= fy
			case ">":
				b = fx > fy
			case ">=":
				b = fx >= fy
			}
		}
		return c05Res{isBool: true, b: b}
	}
	return c05Res{unspec: true}
}

func c05Un(op string, x c05Val) c05Res {
	switch op {
	case "-":
		if x.kind == 'i' {
			return c05Res{v: c05Val{kind: 'i', i: -x.i}}
		}
		if x.kind == 'f' {
			return c05Res{v: c05Val{kind: 'f', f: -x.f}}
		}
		if x.kind == 'F' {
			return c05Res{v: x}
		}
	case "^":
		if x.kind == 'i' {
			return c05Res{v: c05Val{kind: 'i', i: ^x.i}}
		}
	}
	return c05Res{unspec: true}
}

// ---- expression trees ----

type c05Node struct {
	op   string // "" leaf, "u-" "u^" unary, else binary
	l, r *c05Node
	leaf c05Val
	name string // when the leaf is supplied through a variable
	// spell, when set, is the literal's spelling in the source (c05_r7.go: leading
	// zeros, 0x/0b, exponent forms, signed, parenthesised ...); leaf is its value
	spell string
}

func (n *c05Node) src(b *strings.Builder) {
	switch {
	case n.op == "":
		if n.name != "" {
			b.WriteString(n.name)
			return
		}
		if n.spell != "" {
			b.WriteString(n.spell)
			return
		}
		lit, _ := n.leaf.literal()
		if strings.HasPrefix(lit, "-") {
			b.WriteString("(" + lit + ")")
		} else {
			b.WriteString(lit)
		}
	case n.op[0] == 'u':
		b.WriteString("(" + n.op[1:])
		var ob strings.Builder
		n.l.src(&ob)
		if strings.HasPrefix(ob.String(), "-") {
			b.WriteString(" ") // a signed spelling below a unary minus: `- -7`, not the token `--`
		}
		b.WriteString(ob.String())
		b.WriteString(")")
	default:
		b.WriteString("(")
		n.l.src(b)
		b.WriteString(" " + n.op + " ")
		n.r.src(b)
		b.WriteString(")")
	}
}

// eval returns the native result; ok=false when the tree leaves the specified domain
func (n *c05Node) eval() (c05Res, bool) {
	if n.op == "" {
		return c05Res{v: n.leaf}, true
	}
	lr, ok := n.l.eval()
	if !ok {
		return lr, false
	}
	if lr.isErr {
		return lr, true
	}
	if lr.isBool {
		return lr, false // arithmetic on booleans is unspecified
	}
	if n.op[0] == 'u' {
		r := c05Un(n.op[1:], lr.v)
		return r, !r.unspec
	}
	rr, ok := n.r.eval()
	if !ok {
		return rr, false
	}
	if rr.isErr {
		return rr, true
	}
	if rr.isBool {
		return rr, false
	}
	r := c05Bin(n.op, lr.v, rr.v)
	return r, !r.unspec
}

func c05Check(c *wk.Case, e *env.Env, src string, want c05Res, tag string, defs map[string]interface{}) {
	if want.unspec {
		return
	}
	for k, v := range defs {
		e.Define(k, v)
	}
	c.Begin(map[string]interface{}{"src": src, "defs": fmt.Sprint(defs)})
	o := ank.Exec(e, src)
	c.Eval(src+fmt.Sprint(defs), true)
	c05Judge(c, o, src, want, tag, defs, nil)
}

// c05Judge compares what one execution of src gave (o) with the native
// reference want. extra is added to the recorded input (how src was run when it
// was not a plain vm.Execute).
func c05Judge(c *wk.Case, o ank.Out, src string, want c05Res, tag string, defs map[string]interface{}, extra map[string]interface{}) {
	c.Events(1)
	input := map[string]interface{}{"src": src, "defs": renderDefs(defs)}
	for k, v := range extra {
		input[k] = v
	}
	if c05HistoryCtx != nil {
		input["history"] = c05HistoryCtx // phase history: what the process ran before src
	}
	if c.WantSample() {
		c.Sample(map[string]interface{}{"src": src, "defs": renderDefs(defs), "native": c05Want(want), "anko": ank.Render(o.Val), "err": ank.ErrText(o.Err)})
	}
	if o.Panicked {
		c.Violation("panic:"+tag, "panic: "+o.PanicVal, input)
		return
	}
	if want.isErr {
		if o.Err == nil {
			c.Violation("noerror:"+tag, fmt.Sprintf("expected an error, got %s", ank.Render(o.Val)), input)
		}
		return
	}
	if want.v.kind == 'F' && !want.isBool {
		// only the kind of the outcome is stated: a float64 of any value, or an error
		if o.Err != nil {
			c.Tag("anyfloat:error-accepted")
			return
		}
		if _, isFloat := o.Val.(float64); !isFloat {
			c.Violation("type:"+tag, fmt.Sprintf("got %s of type %v, want %s", ank.Render(o.Val), reflect.TypeOf(o.Val), c05Want(want)), input)
		}
		return
	}
	if o.Err != nil {
		c.Violation("error:"+tag, fmt.Sprintf("unexpected error %q, want %s", o.Err.Error(), c05Want(want)), input)
		return
	}
	var got c05Val
	switch g := o.Val.(type) {
	case bool:
		if !want.isBool || g != want.b {
			c.Violation("value:"+tag, fmt.Sprintf("got bool(%v), want %s", g, c05Want(want)), input)
		}
		return
	case int64:
		got = c05Val{kind: 'i', i: g}
	case float64:
		got = c05Val{kind: 'f', f: g}
	case string:
		got = c05Val{kind: 's', s: g}
	default:
		c.Violation("type:"+tag, fmt.Sprintf("got %s of type %v, want %s", ank.Render(o.Val), reflect.TypeOf(o.Val), c05Want(want)), input)
		return
	}
	if want.isBool {
		c.Violation("type:"+tag, fmt.Sprintf("got %s, want %s", got, c05Want(want)), input)
		return
	}
	if !c05Equal(got, want.v) {
		kind := "value:"
		if got.kind != want.v.kind {
			kind = "type:"
		}
		c.Violation(kind+tag, fmt.Sprintf("got %s, want %s", got, want.v), input)
	}
}

func renderDefs(defs map[string]interface{}) map[string]string {
	m := map[string]string{}
	for k, v := range defs {
		m[k] = ank.Render(v)
	}
	return m
}

func c05Want(r c05Res) string {
	if r.isErr {
		return "error"
	}
	if r.isBool {
		return fmt.Sprintf("bool(%v)", r.b)
	}
	return r.v.String()
}

func c05Pool() []c05Val {
	var p []c05Val
	for _, i := range c05Ints {
		p = append(p, c05Val{kind: 'i', i: i})
	}
	for _, f := range c05Floats {
		p = append(p, c05Val{kind: 'f', f: f})
	}
	return p
}

var c05Strings = []string{"", "a", "ab c", "héllo", "12", "1.5", "\"q\"", "日本"}

func kindTag(v c05Val) string {
	switch v.kind {
	case 'i':
		if v.i >= -1 && v.i <= 4095 {
			return "intcached"
		}
		return "int"
	case 'f', 'F':
		return "float"
	}
	return "string"
}

func init() {
	pool := c05Pool()
	nEnum := len(c05BinOps) * len(pool) // case = (op, lhs): all rhs
	// compound forms (appended after the older cases so that their indices stay put):
	// one case per (compound operator, lhs) with all rhs, one per string of the
	// string table, one for ++/--
	compBase := nEnum + 3
	nComp := len(c05CompoundOps) * len(pool)
	nCompAll := nComp + len(c05Strings) + 1
	// operand provenance (c05_r6.go), appended after the compound cases
	provBase := compBase + nCompAll
	wk.Register(&wk.Engine{
		ID: "C05",
		Plan: func(tier string) fw.Plan {
			nRand, nConc, nHist := 300, 8, 24
			if tier == "thorough" {
				nRand, nConc, nHist = 100000, 400, 4000
			}
			return fw.Plan{
				Level: "exploration",
				Rule: "phase enum: every operator of {+ - * / % & | << >> == != < <= > >=} on ALL ordered pairs of the int64/float64 boundary pools (complete enumeration), " +
					"operands supplied as literals and as variables; unary - ^ on the pool; string +/* tables; cache-transparency identities for every i in -3..4098. " +
					"Compound forms (x op= y is x = x op y, x++/x-- is x = x +/- 1; same native reference as the binary operator): every operator of {+= -= *= /= &= |=} on ALL ordered pairs of the pools, ++/-- on the pools, the string tables (s += t, s += number, number += s, s *= n, s++), each through four kinds of places: a plain variable, a list element, a map member and a function parameter (complete enumeration, operands as literals and as variables, containers built by the script and supplied by the host). " +
					"Operand provenance (both operands ONE value that reaches the operator from one place; reference = the same native (v op v) as for separately bound operands): every operator on every value of the pools and of the string table with the same name on both sides (x op x), a name and a copy of it (y = x; x op y, copies of copies, either order), two parameters bound to one argument and a parameter with itself (f(x, x), g(x), closures), one list element / map member read twice, an element and the name it was built from, a host function handing its argument back, names bound by the script to a literal, names bound to a value the script computed (p * 1, the quotient n / d: 0.0/0.0 and 1/0.0 for NaN and the infinities), a copy whose original is then reassigned (y = x; x = x + 1; y op x), and the compound forms t op= t (complete enumeration); the empty string times every integer of the pool (\"\" for every count >= 0 however large, an error for a negative one; of the other strings only counts up to 1000 are judged). " +
					"phase trees: PRNG-generated trees (depth<=3, comparisons at the root) whose leaves are drawn from one to three names, each bound once by the host, by the script to a literal or as a copy of an earlier name, values biased to NaN, the infinities, the zeros and the int64/2^53/cache edges; PRNG-generated expression trees (depth<=4, fully parenthesised) and unparenthesised chains of one precedence level (x op c1 op c2 ..., string/float/int first operand, literal and variable operands) evaluated natively in Go as the left fold; PRNG-generated sequences of 2-4 compound assignments on one place (`t = v; t += a; t *= b - c; t++; t`, operand a leaf or an unparenthesised binary expression) evaluated natively as the fold of the binary operators. phase concurrent (race build): 8 independent interpreters (own environment each) evaluate integer operator chains at the same time, every result handed to a host probe that recomputes it natively (results of different interpreters are chosen congruent modulo 256 and 4096 and outside the small-value range); no race report allowed. `-` and `-=` with a float64 on one side and a string on the other (either order; the strings of the string table and spellings of numbers; literals, variables, container elements, below the root of a tree): the outcome is a float64 of any value or an error, never an int64. phase history: one case = one history in a fresh environment, 3-7 PRNG-chosen steps that try to write to an integer operator/len result (pointer taken of the result - `q = &(a op b); *q = w`, `*q += w`, `*q++`, through a copy of the pointer, inside a loop, inside a script function, through host functions taking *int64 / interface{}, of a call result, of `(i += d)` / `(i++)` - and stores to names, list elements, map members and parameters bound to the result), targets inside, on the edges of and outside the small-value range; afterwards every target value is produced again by every operator of the statement (and used in comparisons, a concatenation and float operations) in the same and in a fresh environment, one row of the enumerated table is recomputed, and a fresh environment sweeps every integer of -3..4098 through eleven formulas checked by a host probe; the cases of a chunk share one process. phase spelling (complete enumeration; the result of an operator does not depend on how a literal operand is written): every spelling of 18 integers, 18 floats and the string table - decimal numerals with leading zeros, -0 and its variants, 0x/0X/0b/0B forms with and without leading zeros, a sign written before the numeral (with and without a blank, before a parenthesis, doubled), one or two pairs of parentheses, floats in fixed notation with trailing and leading zeros, in exponent notation with shifted mantissas, upper-case E, signed and unpadded exponents, strings in double, single and back quotes - is evaluated alone, below unary - and ^, and as a DIRECT operand of every operator of {+ - * / % & | << >> == != < <= > >=} on either side, with integer, float and string partners (rotating through partner tables in the quick tier, the whole pools in the thorough tier) supplied as variables, canonical literals and literals in another spelling; the expression stands alone, on the right of an assignment, in a function body, in a loop body run three times, in a list and a map literal, as an argument of a host and of a script function, in an if branch, is written without blanks, and is parsed once and run twice in fresh environments; the literal is also bound to a name, passed as an argument and stored in a list before the operator reads it; the same spellings as the right operand of every compound form {+= -= *= /= &= |=} through the four kinds of places, in a loop (the fold), parsed once and run twice, and as the value the place starts from. Reference: the same native function applied to the literal's value. phase trees additionally: PRNG-generated trees, unparenthesised chains (operator sets {+ -}, {* / %}, {&}, {|}, {<<}, {>>}, with and without blanks) and compound sequences whose literal leaves are written in PRNG-chosen spellings, in PRNG-chosen statement positions. An evaluation is non-trivial when the native reference is inside the property's stated domain; distinct = distinct (source, bindings)." + c05R8Rule,
				Assumptions: []string{"Go's own int64/float64 arithmetic, strconv and fmt are the reference", "operands outside the statement (bool/nil, float operands of % & | << >>, n*string, string*float, int - string, string / x, comparisons with a string) are not judged",
					"float - string and string - float: the statement fixes the kind of the outcome (float64) but not the number a string counts as; an error is accepted too",
					"the steps of a history are not judged themselves (the statement says nothing about pointers); only the arithmetic done after them is, against the same native reference",
					"a compound assignment `x op= y` / `x++` / `x--` denotes `x = x op y` / `x = x + 1` / `x = x - 1` with the operator of the statement (the language's definition of the compound forms); only the value stored in the place is judged, operands are free of side effects (evaluation order belongs to C07)",
					"where an operand was read from (the same name twice, a copy, a parameter, a container element) is not an input of the operator: v op v has Go's result for the value pair (v, v), so a float64 NaN is unequal to and unordered with itself; `y = x` and parameter passing bind the value of a number or string (reassigning the name x afterwards does not change y)",
					"a numeral denotes the value Go's syntax gives it (strconv: 0x/0b prefixes, fractions, exponents, superfluous zeros), like the canonical numerals of the older tables; the one exception are decimal integer numerals with leading zeros and a value above 7 (010, 08), which Go reads as octal or refuses and the statement does not mention: their value is observed by evaluating the numeral alone (it must be an int64, otherwise the spelling is counted as excluded) and the operators are judged on the observed value",
					"a sign or a unary operator written before a numeral applies to the numeral alone, whatever binary operator follows (-7 >> 1 is (-7) >> 1, Go's precedence); single- and back-quoted strings without quotes or backslashes inside denote the characters between the quotes",
					c05R8Assumptions[0], c05R8Assumptions[1], c05R8Assumptions[2]},
				Phases: append([]fw.Phase{
					{Name: "enum", Cases: provBase + c05SameBoxCases(), Chunk: 60, Exhaust: true, TimeoutS: 600},
					{Name: "trees", Cases: nRand, Chunk: 100, TimeoutS: 900},
					{Name: "concurrent", Race: true, Cases: nConc, Chunk: 4, TimeoutS: 900, Jobs: 4},
					{Name: "history", Cases: nHist, Chunk: 4, TimeoutS: 600, Jobs: 4, MemMB: 3072},
					{Name: "spelling", Cases: c05SpellingCases(), Chunk: 3, Exhaust: true, TimeoutS: 900},
				}, c05R8Phases(tier)...),
			}
		},
		Run: func(c *wk.Case) {
			if c05R8Run(c, pool) {
				return
			}
			if c.Phase == "concurrent" {
				c05Concurrent(c)
				return
			}
			if c.Phase == "history" {
				c05History(c, pool)
				return
			}
			if c.Phase == "spelling" {
				c05SpellingCase(c, pool, c.Index)
				return
			}
			e := ank.NewCoreEnv()
			if c.Phase == "enum" {
				switch {
				case c.Index >= provBase:
					c05SameBoxEnum(c, e, pool, c.Index-provBase)
				case c.Index >= compBase:
					c05CompoundEnum(c, e, pool, c.Index-compBase, nComp)
				case c.Index < nEnum:
					op := c05BinOps[c.Index/len(pool)]
					x := pool[c.Index%len(pool)]
					for j, y := range pool {
						want := c05Bin(op, x, y)
						tag := op + ":" + kindTag(x) + "," + kindTag(y)
						// supply: literal/literal, var/var, alternating mixed
						for mode := 0; mode < 3; mode++ {
							defs := map[string]interface{}{}
							ls, lok := x.literal()
							rs, rok := y.literal()
							if mode == 1 || !lok || (mode == 2 && j%2 == 0) {
								defs["x"] = x.goValue()
								ls = "x"
							}
							if mode == 1 || !rok || (mode == 2 && j%2 == 1) {
								defs["y"] = y.goValue()
								rs = "y"
							}
							if mode == 2 && len(defs) == 2 {
								continue
							}
							c05Check(c, e, ls+" "+op+" "+rs, want, tag, defs)
						}
						// operands read from a container (interface-boxed): same arithmetic
						if (j+c.Index)%2 == 0 {
							c05Check(c, e, "s[0] "+op+" s[1]", want, tag, map[string]interface{}{"s": []interface{}{x.goValue(), y.goValue()}})
						} else {
							c05Check(c, e, "m.a "+op+" id(y)", want, tag, map[string]interface{}{"m": map[string]interface{}{"a": x.goValue()}, "y": y.goValue(), "id": func(v interface{}) interface{} { return v }})
						}
						c.Tag("op:" + tag)
					}
				case c.Index == nEnum:
					// unary operators, string tables
					for _, x := range pool {
						for _, op := range []string{"-", "^"} {
							want := c05Un(op, x)
							if ls, ok := x.literal(); ok {
								c05Check(c, e, op+"("+ls+")", want, "unary"+op+":"+kindTag(x), nil)
								if !strings.HasPrefix(ls, "-") {
									c05Check(c, e, op+ls, want, "unary"+op+":"+kindTag(x), nil)
								}
							}
							c05Check(c, e, op+"x", want, "unary"+op+":"+kindTag(x), map[string]interface{}{"x": x.goValue()})
							c.Tag("op:unary" + op + ":" + kindTag(x))
						}
					}
					for _, s := range c05Strings {
						sv := c05Val{kind: 's', s: s}
						for _, t := range c05Strings {
							c05Check(c, e, strconv.Quote(s)+" + "+strconv.Quote(t), c05Bin("+", sv, c05Val{kind: 's', s: t}), "+:string,string", nil)
						}
						for _, y := range pool {
							lit, ok := y.literal()
							defs := map[string]interface{}{}
							if !ok {
								lit = "y"
								defs["y"] = y.goValue()
							}
							c05Check(c, e, strconv.Quote(s)+" + "+lit, c05Bin("+", sv, y), "+:string,"+kindTag(y), defs)
							c05Check(c, e, lit+" + "+strconv.Quote(s), c05Bin("+", y, sv), "+:"+kindTag(y)+",string", defs)
							c05Check(c, e, "y + s", c05Bin("+", y, sv), "+:"+kindTag(y)+",string", map[string]interface{}{"y": y.goValue(), "s": s})
							// `-` with a float on one side and a string on the other (c05Bin: the
							// outcome is a float64; int - string is not stated and not judged)
							c05MinusStringFloat(c, e, sv, y, defs, lit)
						}
						for n := int64(-1); n <= 8; n++ {
							c05Check(c, e, strconv.Quote(s)+" * "+strconv.FormatInt(n, 10), c05Bin("*", sv, c05Val{kind: 'i', i: n}), "*:string,int", nil)
							c05Check(c, e, "s * n", c05Bin("*", sv, c05Val{kind: 'i', i: n}), "*:string,int", map[string]interface{}{"s": s, "n": n})
						}
						c.Tag("op:string")
					}
					c05MinusStringsExtra(c, e, pool)
				default:
					// cache transparency: half of the range per case
					lo, hi := int64(-3), int64(2048)
					if c.Index == nEnum+2 {
						lo, hi = 2049, 4098
					}
					for i := lo; i <= hi; i++ {
						want := c05Res{v: c05Val{kind: 'i', i: i}}
						is := strconv.FormatInt(i, 10)
						p := "(" + is + ")"
						for _, s := range []string{p, "(" + p + " - 1) + 1", p + " * 1", "-(-" + p + ")", "^(^" + p + ")", "(" + p + " + 4096) - 4096", "(" + p + " << 1) >> 1", p + " | 0", p + " & -1", p + " % 4611686018427387904"} {
							w := want
							if strings.Contains(s, "%") && i < 0 {
								w = c05Res{v: c05Val{kind: 'i', i: i % 4611686018427387904}}
							}
							c05Check(c, e, s, w, "cache-identity", nil)
						}
						c05Check(c, e, "v + 0", want, "cache-identity", map[string]interface{}{"v": i})
					}
					c.Tag("op:cache-identities")
				}
				return
			}
			// random trees
			for k := 0; k < 40; k++ {
				defs := map[string]interface{}{}
				nvar := 0
				depth0 := 1 + c.Rng.Intn(4)
				var gen func(d int) *c05Node
				gen = func(d int) *c05Node {
					if d == 0 || c.Rng.Intn(4) == 0 {
						var v c05Val
						switch r := c.Rng.Intn(20); {
						case r < 9:
							v = c05Val{kind: 'i', i: c05Ints[c.Rng.Intn(len(c05Ints))]}
						case r < 12:
							v = c05Val{kind: 'i', i: int64(c.Rng.Intn(4200)) - 50}
						case r < 13:
							v = c05Val{kind: 'i', i: int64(c.Rng.Uint64())}
						case r < 18:
							v = c05Val{kind: 'f', f: c05Floats[c.Rng.Intn(len(c05Floats))]}
						case r < 19:
							v = c05Val{kind: 'f', f: math.Float64frombits(c.Rng.Uint64())}
						default:
							v = c05Val{kind: 's', s: c05Strings[c.Rng.Intn(len(c05Strings))]}
						}
						n := &c05Node{leaf: v}
						if _, ok := v.literal(); !ok || c.Rng.Intn(3) == 0 {
							n.name = "v" + strconv.Itoa(nvar)
							nvar++
							defs[n.name] = v.goValue()
						}
						return n
					}
					if c.Rng.Intn(8) == 0 {
						return &c05Node{op: []string{"u-", "u^"}[c.Rng.Intn(2)], l: gen(d - 1)}
					}
					op := c05BinOps[c.Rng.Intn(9)]
					if d == depth0 && c.Rng.Intn(3) == 0 {
						op = c05BinOps[9+c.Rng.Intn(6)] // comparisons only at the root (booleans are not operands of the tower)
					} else if c.Rng.Intn(3) == 0 {
						op = []string{"+", "-", "*"}[c.Rng.Intn(3)]
					}
					return &c05Node{op: op, l: gen(d - 1), r: gen(d - 1)}
				}
				t := gen(depth0)
				want, ok := t.eval()
				for try := 0; !ok && try < 12; try++ {
					defs = map[string]interface{}{}
					nvar = 0
					t = gen(depth0)
					want, ok = t.eval()
				}
				if !ok {
					c.Excluded("tree-outside-stated-domain")
					continue
				}
				var sb strings.Builder
				t.src(&sb)
				if len(want.v.s) > 1<<16 {
					c.Excluded("huge-string")
					continue
				}
				c05Check(c, e, sb.String(), want, "tree", defs)
				c.Tag("tree")
				if c.WantSample() && k == 0 {
					c.Sample(map[string]interface{}{"src": sb.String(), "defs": renderDefs(defs), "native": c05Want(want)})
				}
			}
			// unparenthesised chains of one precedence level: x op c1 op c2 ... is the
			// left fold, step by step (no regrouping of the constants)
			for k := 0; k < 25; k++ {
				c05Chain(c, e, k)
			}
			// sequences of compound assignments on one place: the fold of the binary operators
			for k := 0; k < 12; k++ {
				c05CompoundChain(c, e)
			}
			// trees whose leaves share one to three names (operand provenance, c05_r6.go)
			for k := 0; k < 20; k++ {
				c05SharedTree(c, e)
			}
			// literal leaves in PRNG-chosen spellings (c05_r7.go)
			for k := 0; k < 12; k++ {
				c05SpeltTree(c, e)
				c05SpeltChain(c, e)
			}
			for k := 0; k < 8; k++ {
				c05SpeltCompoundSeq(c, e)
			}
		},
	})
}

var c05ChainFixed = []string{"\"a\" + 1 + 2", "\"s\" + 4095 + 1", "9007199254740992.0 + 1 + 1", "0.1 + 1 - 1", "1e16 - 1 - 1", "1e16 + 1 + 1 + 1 + 1",
	"\"\" + 1 - 1", "\"x\" * 2 * 2", "7 / 2 * 2", "7 * 2 / 4", "9223372036854775807 + 1 - 1", "1.5 + 9223372036854775807 - 9223372036854775807"}

func c05Chain(c *wk.Case, e *env.Env, k int) {
	r := c.Rng
	defs := map[string]interface{}{}
	leaf := func(first bool) (*c05Node, string) {
		var v c05Val
		switch x := r.Intn(12); {
		case first && x < 3:
			v = c05Val{kind: 's', s: c05Strings[r.Intn(len(c05Strings))]}
		case first && x < 7:
			v = c05Val{kind: 'f', f: []float64{0.1, 0.3, 1e16, 9007199254740992, 9007199254740993, -9007199254740992, 1e-7, 2.5, 4.5e15, 1e21}[r.Intn(10)]}
		case x < 9:
			v = c05Val{kind: 'i', i: int64(r.Intn(5000))}
		case x < 10:
			v = c05Val{kind: 'i', i: c05Ints[r.Intn(len(c05Ints))]}
		case x < 11:
			v = c05Val{kind: 'f', f: c05Floats[r.Intn(len(c05Floats))]}
		default:
			v = c05Val{kind: 'i', i: int64(r.Uint64() >> uint(r.Intn(64)))}
		}
		n := &c05Node{leaf: v}
		lit, ok := v.literal()
		if !ok || (first && r.Intn(3) == 0) || strings.HasPrefix(lit, "-") {
			n.name = "v" + strconv.Itoa(len(defs))
			defs[n.name] = v.goValue()
			return n, n.name
		}
		return n, lit
	}
	ops := []string{"+", "-"}
	if r.Intn(4) == 0 {
		ops = []string{"*", "/", "%"}
	}
	if r.Intn(8) == 0 {
		ops = []string{"&"}
	}
	t, src := leaf(true)
	for n := 2 + r.Intn(3); n > 0; n-- {
		op := ops[r.Intn(len(ops))]
		rn, rs := leaf(false)
		t = &c05Node{op: op, l: t, r: rn}
		src += " " + op + " " + rs
	}
	want, ok := t.eval()
	if !ok || len(want.v.s) > 1<<16 {
		c.Excluded("chain-outside-stated-domain")
		return
	}
	c05Check(c, e, src, want, "chain", defs)
	c.Tag("chain")
	if k < len(c05ChainFixed) && c.Index == 0 {
		c05ChainFixedCheck(c, e, c05ChainFixed[k])
	}
}

// the fixed chains are written out; their reference is the parenthesised left fold
func c05ChainFixedCheck(c *wk.Case, e *env.Env, src string) {
	toks := strings.Fields(src)
	grouped := toks[0]
	for i := 1; i+1 < len(toks); i += 2 {
		grouped = "(" + grouped + " " + toks[i] + " " + toks[i+1] + ")"
	}
	a, b := ank.Exec(e, src), ank.Exec(e, grouped)
	c.Begin(map[string]interface{}{"src": src})
	c.Eval("fixedchain"+src, true)
	c.Events(2)
	if a.Panicked || b.Panicked || ank.ErrText(a.Err) != ank.ErrText(b.Err) || ank.Render(a.Val) != ank.Render(b.Val) {
		c.Violation("value:chain", fmt.Sprintf("%s gives %s (%s), its left fold %s gives %s (%s)", src, ank.Render(a.Val), ank.ErrText(a.Err), grouped, ank.Render(b.Val), ank.ErrText(b.Err)), map[string]interface{}{"src": src, "grouped": grouped})
	}
}

const c05ConcScript = `
for i = 0; i < n; i++ {
  chk(0, i, b + i * 256)
  chk(1, i, (b + i) * 2 - i)
  chk(2, i, (b | i) << 1)
  chk(3, i, -(b + i))
  chk(4, i, (b + i) % 1000003)
  chk(5, i, ^(b - i))
  chk(6, i, (b * 4096 + i) >> 3)
  chk(7, i, (b & 1048575) + i + 5000)
}
`

func c05ConcNative(k int, i, b int64) int64 {
	switch k {
	case 0:
		return b + i*256
	case 1:
		return (b+i)*2 - i
	case 2:
		return (b | i) << 1
	case 3:
		return -(b + i)
	case 4:
		return (b + i) % 1000003
	case 5:
		return ^(b - i)
	case 6:
		return (b*4096 + i) >> 3
	default:
		return (b & 1048575) + i + 5000
	}
}

// c05Concurrent: arithmetic results do not depend on what other interpreters in
// the process compute at the same time.
func c05Concurrent(c *wk.Case) {
	const workers = 8
	n := int64(300 + c.Rng.Intn(700))
	base := 5000 + int64(c.Rng.Intn(1<<20))
	input := map[string]interface{}{"script": c05ConcScript, "n": n, "base": base, "workers": workers}
	c.Begin(input)
	var mu sync.Mutex
	var bad []string
	var events int64
	var wg sync.WaitGroup
	start := make(chan struct{})
	outs := make([]ank.Out, workers)
	for g := 0; g < workers; g++ {
		wg.Add(1)
		go func(g int) {
			defer wg.Done()
			b := base + int64(g)*256*4096
			e := ank.NewCoreEnv()
			e.Define("n", n)
			e.Define("b", b)
			e.Define("chk", func(k, i, v int64) {
				atomic.AddInt64(&events, 1)
				if want := c05ConcNative(int(k), i, b); v != want {
					mu.Lock()
					if len(bad) < 5 {
						bad = append(bad, fmt.Sprintf("interpreter %d (b=%d): formula %d at i=%d gave %d, native %d", g, b, k, i, v, want))
					}
					mu.Unlock()
				}
			})
			<-start
			outs[g] = ank.Exec(e, c05ConcScript)
		}(g)
	}
	close(start)
	wg.Wait()
	c.Eval(fmt.Sprintf("conc:%d:%d", n, base), true)
	c.Events(int(events))
	c.Tag("concurrent-interpreters")
	for g, o := range outs {
		if o.Panicked || o.Err != nil {
			c.Violation("error:concurrent", fmt.Sprintf("interpreter %d: %s %s", g, ank.ErrText(o.Err), o.PanicVal), input)
			return
		}
	}
	if len(bad) > 0 {
		c.Violation("value:concurrent", strings.Join(bad, "; "), input)
	}
}

// ---- compound assignment forms ----
//
// `x op= y` is `x = x op y` and `x++` / `x--` are `x = x + 1` / `x = x - 1`: the
// value found in the place afterwards is the statement's `lhs op rhs`, with the
// place's old value as the LEFT operand. The reference is c05Bin, the same
// function the binary operator is judged by; pairs it calls unspecified are
// skipped. Only the stored value is judged (not the value of the assignment
// expression, about which the statement is silent) and the operands have no
// side effects, so no evaluation order is assumed.

// operators that have a compound form
var c05CompoundOps = []string{"+", "-", "*", "/", "&", "|"}

// c05Spell gives the spelling of an operand: its literal (negative ones in
// parentheses) or, when it has none or asVar is set, the variable name bound to
// it in defs.
func c05Spell(v c05Val, name string, asVar bool, defs map[string]interface{}) string {
	lit, ok := v.literal()
	if !ok || asVar {
		defs[name] = v.goValue()
		return name
	}
	if strings.HasPrefix(lit, "-") {
		return "(" + lit + ")"
	}
	return lit
}

// c05Compound checks one compound statement through the four kinds of places.
// op is a binary operator ("*" stands for `*=`) or "++" / "--" (y is ignored);
// alt varies how operands and containers are supplied: bit 0 = lhs through a
// variable, bit 1 = rhs through a variable, bit 2 = which of list/map comes from
// the host instead of a script literal (and the spelling m.k / m["k"]).
func c05Compound(c *wk.Case, e *env.Env, op string, x, y c05Val, want c05Res, tag string, alt int) {
	if want.unspec {
		return
	}
	for place := 0; place < 4; place++ {
		defs := map[string]interface{}{}
		ls := c05Spell(x, "a", alt&1 != 0, defs)
		stmt := func(p string) string { return p + op }
		if op != "++" && op != "--" {
			rs := c05Spell(y, "b", alt&2 != 0, defs)
			stmt = func(p string) string { return p + " " + op + "= " + rs }
		}
		var src string
		switch place {
		case 0:
			src = "t = " + ls + "; " + stmt("t") + "; t"
		case 1:
			if alt&4 != 0 {
				delete(defs, "a")
				defs["r"] = []interface{}{int64(0), x.goValue()}
				src = stmt("r[1]") + "; r[1]"
			} else {
				src = "r = [" + ls + "]; " + stmt("r[0]") + "; r[0]"
			}
		case 2:
			if alt&4 == 0 {
				delete(defs, "a")
				defs["m"] = map[string]interface{}{"k": x.goValue()}
				src = stmt("m.k") + "; m.k"
			} else {
				src = "m = {\"k\": " + ls + "}; " + stmt("m[\"k\"]") + "; m[\"k\"]"
			}
		default:
			src = "f = func(p) { " + stmt("p") + "; return p }; f(" + ls + ")"
		}
		c05Check(c, e, src, want, tag, defs)
	}
	c.Tag("op:" + tag)
}

// c05CompoundEnum: case k of the compound part of phase enum.
func c05CompoundEnum(c *wk.Case, e *env.Env, pool []c05Val, k, nComp int) {
	one := c05Val{kind: 'i', i: 1}
	switch {
	case k < nComp:
		// (operator, lhs): all rhs of the numeric pools
		op := c05CompoundOps[k/len(pool)]
		x := pool[k%len(pool)]
		for j, y := range pool {
			c05Compound(c, e, op, x, y, c05Bin(op, x, y), op+"=:"+kindTag(x)+","+kindTag(y), j+k)
		}
	case k < nComp+len(c05Strings):
		// string table, one string per case: s += t, s += number, number += s, s *= n, s++,
		// s -= float, float -= s (s -= int, s /= .., n *= s are outside the statement: c05Bin says unspec)
		sv := c05Val{kind: 's', s: c05Strings[k-nComp]}
		alt := k
		for _, t := range c05Strings {
			tv := c05Val{kind: 's', s: t}
			c05Compound(c, e, "+", sv, tv, c05Bin("+", sv, tv), "+=:string,string", alt)
			alt++
		}
		for _, y := range pool {
			c05Compound(c, e, "+", sv, y, c05Bin("+", sv, y), "+=:string,"+kindTag(y), alt)
			c05Compound(c, e, "+", y, sv, c05Bin("+", y, sv), "+=:"+kindTag(y)+",string", alt+1)
			if y.kind == 'i' {
				c05Compound(c, e, "*", sv, y, c05Bin("*", sv, y), "*=:string,"+kindTag(y), alt+2)
			}
			if y.kind == 'f' {
				// s -= float, float -= s: a float64 (c05Bin)
				c05Compound(c, e, "-", sv, y, c05Bin("-", sv, y), "-=:string,float", alt+3)
				c05Compound(c, e, "-", y, sv, c05Bin("-", y, sv), "-=:float,string", alt)
			}
			alt++
		}
		for n := int64(-1); n <= 8; n++ {
			nv := c05Val{kind: 'i', i: n}
			c05Compound(c, e, "*", sv, nv, c05Bin("*", sv, nv), "*=:string,"+kindTag(nv), alt)
			alt++
		}
		for a := 0; a < 8; a += 4 {
			c05Compound(c, e, "++", sv, one, c05Bin("+", sv, one), "++:string", a|(alt&1))
		}
	default:
		// x++ / x-- on the numeric pools
		for j, x := range pool {
			for a := 0; a < 8; a += 4 {
				c05Compound(c, e, "++", x, one, c05Bin("+", x, one), "++:"+kindTag(x), a|(j&1))
				c05Compound(c, e, "--", x, one, c05Bin("-", x, one), "--:"+kindTag(x), a|(j&1))
			}
		}
	}
}

// c05CompoundChain: a PRNG-generated sequence of compound assignments on one
// place; the native reference is the fold of the binary operators, the place's
// value being the left operand of every step.
func c05CompoundChain(c *wk.Case, e *env.Env) {
	// sequences that leave the stated domain (string -= .., float &= .., huge
	// repeats) are regenerated a few times before the slot is given up
	for try := 0; try < 10; try++ {
		if src, want, defs, ok := c05GenCompoundChain(c); ok {
			c05Check(c, e, src, want, "compound-chain", defs)
			c.Tag("compound-chain")
			return
		}
	}
	c.Excluded("compound-chain-outside-stated-domain")
}

func c05GenCompoundChain(c *wk.Case) (string, c05Res, map[string]interface{}, bool) {
	r := c.Rng
	defs := map[string]interface{}{}
	leaf := func(first bool) (c05Val, string) {
		var v c05Val
		switch x := r.Intn(14); {
		case first && x < 4:
			v = c05Val{kind: 's', s: c05Strings[r.Intn(len(c05Strings))]}
		case x < 6:
			v = c05Val{kind: 'i', i: int64(r.Intn(12)) - 2}
		case x < 8:
			v = c05Val{kind: 'i', i: int64(r.Intn(5000))}
		case x < 10:
			v = c05Val{kind: 'i', i: c05Ints[r.Intn(len(c05Ints))]}
		case x < 12:
			v = c05Val{kind: 'f', f: c05Floats[r.Intn(len(c05Floats))]}
		case x < 13:
			v = c05Val{kind: 's', s: c05Strings[r.Intn(len(c05Strings))]}
		default:
			v = c05Val{kind: 'i', i: int64(r.Uint64() >> uint(r.Intn(64)))}
		}
		return v, c05Spell(v, "v"+strconv.Itoa(len(defs)), r.Intn(3) == 0, defs)
	}
	cur, ls := leaf(true)
	place, get, pre := "t", "t", ""
	switch r.Intn(4) {
	case 0:
		pre = "t = " + ls + "; "
	case 1:
		pre, place, get = "r = [0, "+ls+"]; ", "r[1]", "r[1]"
	case 2:
		pre, place, get = "m = {\"k\": "+ls+"}; ", "m.k", "m[\"k\"]"
	default:
		pre, place, get = "f = func(p) { ", "p", "return p }; f("+ls+")"
	}
	src := pre
	wantErr := false
	for n := 2 + r.Intn(3); n > 0 && !wantErr; n-- {
		var res c05Res
		if r.Intn(6) == 0 {
			op := []string{"++", "--"}[r.Intn(2)]
			res = c05Bin(op[:1], cur, c05Val{kind: 'i', i: 1})
			src += place + op + "; "
		} else {
			op := c05CompoundOps[r.Intn(len(c05CompoundOps))]
			y, rs := leaf(false)
			if r.Intn(4) == 0 {
				// unparenthesised binary right-hand side: t op= a op2 b is t = t op (a op2 b)
				op2 := []string{"+", "-", "*"}[r.Intn(3)]
				z, zs := leaf(false)
				sub := c05Bin(op2, y, z)
				if sub.unspec || sub.isErr || sub.isBool || len(sub.v.s) > 1<<12 {
					return "", c05Res{}, nil, false
				}
				y, rs = sub.v, rs+" "+op2+" "+zs
			}
			res = c05Bin(op, cur, y)
			src += place + " " + op + "= " + rs + "; "
		}
		if res.unspec || res.isBool || len(res.v.s) > 1<<12 {
			return "", c05Res{}, nil, false
		}
		wantErr = res.isErr
		cur = res.v
	}
	return src + get, c05Res{v: cur, isErr: wantErr}, defs, true
}
