package main

// C20, phase live (round 5): an operand is a VALUE wherever it was read from.
//
// Statement: "The result of every operation depends only on the values of its operands,
// never on how they were obtained: an operand read from a variable, from a slice or map
// element, from a struct field, returned by a script function, or returned by a Go function
// declared to return interface{} behaves identically in every operator, statement and call
// position (same result value and dynamic type, same error-or-success)."
//
// What phase live adds to the live-* templates of c20.go: there the operand kinds are those a
// plain host variable can be compared with, and the store is `$X += $X`. Here the operand is
// read from a PLACE - a name, a module member, an element of a []T, a field typed T, the target
// of a *T, an element of a Go array field, an element of a slice field, an element of an untyped
// list, a map entry / member, an entry of a map[string]T, an interface{}-typed struct field -
// that holds a value of ANY kind (scalars, named types, Go arrays [N]T, structs, typed slices,
// typed maps, pointers, channels, Go functions), and WHILE the operation is still under way
// (its other operand is being evaluated, its body runs) or right after the operand was bound,
// something stores into that very place:
//   replace : place = <another value of the same type held in a sibling place>
//   mutate  : an in-place store into the value held there (place[i] = e, place.A = e);
//             this is what distinguishes an array / struct VALUE from the cell it was read from.
// Metamorphic relation, reference IN POSITION: the same program with the operand expression
// `place` replaced by `id(place)` (a Go function declared to return interface{}) and by
// `func(){ return place }()` (a script function result). The reference operand is evaluated at
// the same point of the same operation as the direct operand, so no evaluation order is assumed:
// whatever the order is, at that point both expressions yield the same value, and the statement
// demands the same result, effects and error-or-success from then on. Variants: `place`,
// `(place)`, `(true ? place : nil)`. The two references must agree with each other as well.
// Observed: outcome class, the result and the final contents of the place and of its sibling
// (rendered with dynamic types, reference-like values by identity with the two host objects),
// the two host objects inspected from Go, the log of the host callees.
//
// Not generated / not compared (the statement is silent):
//   - mutate-stores while a MAP is being iterated (Go leaves it open whether an entry not yet
//     reached shows the store; the iteration order is random): maps are only replaced there;
//   - `place[i] = v` with an array / struct held in the place as the assignment TARGET container:
//     whether the store reaches the place is Go's addressability, not provenance (see c20.go);
//   - slicing a Go array (`place[g():]`): the result aliases an addressable array and is a copy of any
//     other one - Go's own distinction, like the in-place stores excluded in c20.go;
//   - compound assignments `place op= g()`: the place is the target as well as the operand;
//   - error texts.
//
// Special families (programs that must agree with the first one of their group):
//   forin-var : the variable of a for-in loop is a name bound to a VALUE: with pointer elements (for-in
//               hands out what they point to) whose pointees the body overwrites, the variable read
//               after the store is what `b = e`, bound before the store, reads - for every container
//               the loop runs over (slice, Go array, channel, untyped list, map, channel / slice held
//               in a field or in a typed slice);
//   addr-hop  : a pointer `&x` passed to a Go function that writes through it, given directly, in
//               parentheses, through ?:, ??, a variable, a list element, a call result.

import (
	"context"
	"fmt"
	"reflect"
	"sort"
	"strings"
	"time"

	"verifharness/internal/ank"
	"verifharness/internal/wk"
)

// Input classes on which the UNCHANGED tree violates the statement (reproducers, code at fault,
// suggested fixes: /tmp/strengthen/C20-r5-genuine.md). Not generated until /repo is repaired.
const (
	// r5-1: the container of an assignment target `place[i] = v` read from a slot (element of a
	// list / typed slice, field) follows a store the index operand makes into that slot; a
	// container read from a variable or a call result does not
	c20PendingFix_liveTargetContainer = false
	// r5-2: the write-back after f(&x) is made only when the argument is syntactically `&name`
	// (or that in parentheses): the same pointer given through ?:, ??, a variable, an element or a
	// call result is not written back
	c20PendingFix_addrHopWriteback = false
	// r5-3: a Go ARRAY that is the container of an index expression `place[g()]` is kept as the place
	// it was read from while the index operand runs (every other container kind is detached since
	// /repo a248f99): the element read is the one a store made by the index operand put there
	c20PendingFix_liveArrayContainer = true
	// r5-4: the receiver of a method call `place.M(g())` read from a slot (or from a name holding a
	// struct) is bound as a view of that storage: the method runs on what an argument stored there
	c20PendingFix_liveMethodReceiver = false
)

// c20LS is the struct operand of phase live: a method WITH a parameter, so that the receiver is
// read before an argument is evaluated
type c20LS struct {
	A int64
	B string
}

func (s c20LS) Plus(n int64) int64 { return s.A + n }

// c20LAS is a struct that holds a Go array
type c20LAS struct {
	Arr [3]int64
	N   int64
}

type c20LKind struct {
	name     string
	class    string // num str bool arr slice map struct ptr chan func
	mk       func(st *c20State) (x, y interface{})
	ret      string // what g() returns where the site wants a second operand of a fitting kind
	mutate   string // in-place store into the value held in $P ("" none)
	idx      string // the index / key the mutate-store writes (what an index site asks for)
	n        string // length
	hashable bool
}

func c20LiveKinds() []c20LKind {
	pair := func(x, y interface{}) func(*c20State) (interface{}, interface{}) {
		return func(*c20State) (interface{}, interface{}) { return x, y }
	}
	return []c20LKind{
		{name: "int", class: "num", mk: pair(int64(2), int64(7)), ret: "3", hashable: true},
		{name: "float", class: "num", mk: pair(float64(2.5), float64(7.5)), ret: "1.5", hashable: true},
		{name: "str", class: "str", mk: pair("abc", "xyz"), ret: `"s"`, idx: "1", n: "3", hashable: true},
		{name: "bool", class: "bool", mk: pair(true, false), ret: "true", hashable: true},
		{name: "ncolor", class: "str", mk: pair(c20Color("red"), c20Color("blue")), ret: `"s"`, idx: "1", n: "3", hashable: true},
		{name: "ndur", class: "num", mk: pair(c20Dur(2), c20Dur(7)), ret: "3", hashable: true},
		{name: "array", class: "arr", mk: pair([3]int64{1, 2, 3}, [3]int64{7, 8, 9}), ret: "[0]", mutate: "$P[2] = 90", idx: "2", n: "3", hashable: true},
		{name: "sarray", class: "arr", mk: pair([2]string{"a", "b"}, [2]string{"x", "y"}), ret: `["q"]`, mutate: `$P[1] = "zz"`, idx: "1", n: "2", hashable: true},
		{name: "farray", class: "arr", mk: pair([2]float64{1.5, 2.5}, [2]float64{7.5, 8.5}), ret: "[0.5]", mutate: "$P[1] = 90.5", idx: "1", n: "2", hashable: true},
		{name: "struct", class: "struct", mk: pair(c20LS{A: 5, B: "b"}, c20LS{A: 6, B: "c"}), ret: "3", mutate: "$P.A = 90", hashable: true},
		{name: "aarray", class: "arr", mk: pair([2][2]int64{{1, 2}, {3, 4}}, [2][2]int64{{5, 6}, {7, 8}}), ret: "[0]", mutate: "$P[1][1] = 90", idx: "1", n: "2", hashable: true},
		{name: "astruct", class: "struct", mk: pair(c20LAS{Arr: [3]int64{1, 2, 3}, N: 1}, c20LAS{Arr: [3]int64{7, 8, 9}, N: 2}), ret: "3", mutate: "$P.Arr[2] = 90", hashable: true},
		{name: "tslice", class: "slice", mk: func(*c20State) (interface{}, interface{}) { return []int64{4, 5, 6}, []int64{7, 8, 9} },
			ret: "[0]", mutate: "$P[2] = 90", idx: "2", n: "3"},
		{name: "tmap", class: "map", mk: func(*c20State) (interface{}, interface{}) {
			return map[string]int64{"a": 1, "b": 2, "c": 3}, map[string]int64{"a": 10, "b": 20, "d": 40}
		}, ret: "3", mutate: `$P["a"] = 90`, idx: `"a"`},
		{name: "ptrint", class: "ptr", mk: func(*c20State) (interface{}, interface{}) {
			p, q := new(int64), new(int64)
			*p, *q = 1, 7
			return p, q
		}, ret: "3", hashable: true},
		{name: "pstruct", class: "ptr", mk: func(*c20State) (interface{}, interface{}) { return &c20LS{A: 5, B: "b"}, &c20LS{A: 6, B: "c"} },
			ret: "3", mutate: "$P.A = 90", hashable: true},
		{name: "chan", class: "chan", mk: func(*c20State) (interface{}, interface{}) {
			a, b := make(chan int64, 4), make(chan int64, 4)
			a <- 11
			b <- 21
			return a, b
		}, ret: "3", hashable: true},
		{name: "chanc", class: "chan", mk: func(*c20State) (interface{}, interface{}) {
			a, b := make(chan int64, 4), make(chan int64, 4)
			a <- 11
			a <- 12
			a <- 13
			b <- 21
			b <- 22
			close(a)
			close(b)
			return a, b
		}, ret: "3", hashable: true},
		{name: "gofunc", class: "func", mk: func(st *c20State) (interface{}, interface{}) {
			f := func(x int64) int64 { st.addLog(fmt.Sprintf("fx(%d)", x)); return x * 10 }
			g := func(x int64) int64 { st.addLog(fmt.Sprintf("fy(%d)", x)); return x * 100 }
			return f, g
		}, ret: "3"},
	}
}

// a place holding the operand x, with a sibling place holding y (same type)
type c20LPlace struct {
	name   string
	pre    []string
	read   string // the expression that reads the place
	other  string // the sibling
	target string // the place as an assignment target ("" = read)
	item   bool   // read is an index expression: `b, ok = read` is the comma-ok statement
}

var c20LivePlaces = []c20LPlace{
	{name: "name", pre: []string{"nx = hx", "ny = hy"}, read: "nx", other: "ny"},
	{name: "modmember", pre: []string{"module LM {\nx = hx\ny = hy\n}"}, read: "LM.x", other: "LM.y"},
	{name: "tyelem", read: "lts[0]", other: "lts[1]", item: true},
	{name: "tyfield", read: "lhf.F", other: "lhf.G"},
	{name: "tyderef", read: "(*lpp)", other: "(*lpq)", target: "*lpp"},
	{name: "arrelem", read: "lhf.A[0]", other: "lhf.A[1]", item: true},
	{name: "fieldelem", read: "lhf.S[0]", other: "lhf.S[1]", item: true},
	{name: "elem", pre: []string{"ul = [hx, hy]"}, read: "ul[0]", other: "ul[1]", item: true},
	{name: "mapent", pre: []string{`um = {"p": hx, "o": hy}`}, read: `um["p"]`, other: `um["o"]`, item: true},
	{name: "member", pre: []string{`um = {"p": hx, "o": hy}`}, read: "um.p", other: "um.o"},
	{name: "tymapent", read: `ltm["p"]`, other: `ltm["o"]`, item: true},
	{name: "ifacefield", pre: []string{"lbx = pbox(hx)", "lby = pbox(hy)"}, read: "lbx.V", other: "lby.V"},
}

// c20LiveDefine builds the typed places around x and y by reflection (T = their dynamic type):
// lts []T{x, y}; lhf *struct{F, G T; A [2]T; S []T}; lpp, lpq *T; ltm map[string]T{"p": x, "o": y};
// gt2 func(T, interface{}) string; gtv func(...T) string
func c20LiveDefine(st *c20State, x, y interface{}) {
	e := st.env
	t := reflect.TypeOf(x)
	xv, yv := reflect.ValueOf(x), reflect.ValueOf(y)
	e.Define("hx", x)
	e.Define("hy", y)
	st.base["v"], st.base["w"] = x, y
	ts := reflect.MakeSlice(reflect.SliceOf(t), 2, 2)
	ts.Index(0).Set(xv)
	ts.Index(1).Set(yv)
	e.Define("lts", ts.Interface())
	hf := reflect.New(reflect.StructOf([]reflect.StructField{
		{Name: "F", Type: t}, {Name: "G", Type: t}, {Name: "A", Type: reflect.ArrayOf(2, t)}, {Name: "S", Type: reflect.SliceOf(t)}}))
	hf.Elem().Field(0).Set(xv)
	hf.Elem().Field(1).Set(yv)
	hf.Elem().Field(2).Index(0).Set(xv)
	hf.Elem().Field(2).Index(1).Set(yv)
	s2 := reflect.MakeSlice(reflect.SliceOf(t), 2, 2)
	s2.Index(0).Set(xv)
	s2.Index(1).Set(yv)
	hf.Elem().Field(3).Set(s2)
	e.Define("lhf", hf.Interface())
	pp, pq := reflect.New(t), reflect.New(t)
	pp.Elem().Set(xv)
	pq.Elem().Set(yv)
	e.Define("lpp", pp.Interface())
	e.Define("lpq", pq.Interface())
	tm := reflect.MakeMap(reflect.MapOf(reflect.TypeOf(""), t))
	tm.SetMapIndex(reflect.ValueOf("p"), xv)
	tm.SetMapIndex(reflect.ValueOf("o"), yv)
	e.Define("ltm", tm.Interface())
	e.DefineReflectType("LT", t)
	// Go callees whose first / variadic parameter has the operand's own type T
	str := reflect.TypeOf("")
	e.Define("gt2", reflect.MakeFunc(reflect.FuncOf([]reflect.Type{t, c20IfaceType}, []reflect.Type{str}, false), func(in []reflect.Value) []reflect.Value {
		return []reflect.Value{reflect.ValueOf(st.render(in[0].Interface()) + " | " + ank.RenderValue(in[1]))}
	}).Interface())
	e.Define("gtv", reflect.MakeFunc(reflect.FuncOf([]reflect.Type{reflect.SliceOf(t)}, []reflect.Type{str}, true), func(in []reflect.Value) []reflect.Value {
		var parts []string
		for i := 0; i < in[0].Len(); i++ {
			parts = append(parts, st.render(in[0].Index(i).Interface()))
		}
		return []reflect.Value{reflect.ValueOf(strings.Join(parts, " | "))}
	}).Interface())
}

type c20LSite struct {
	id       string
	pre      string
	src      string                   // $A the operand, $G the later operand (a call of g), $S the store (inline sites); assigns r
	ret      func(k *c20LKind) string // what g() returns ("0" when nil)
	ok       func(k *c20LKind) bool   // the kinds the site is instantiated with (nil: all)
	commaok  bool                     // the variant is `<target>, ok = place`, the reference `<target> = id(place)`
	noMutate func(k *c20LKind) bool
	pending  bool
	pendingK func(k *c20LKind) bool // kinds awaiting a repair of /repo
	mutOn    string                 // round 6: the kind's in-place store is made THROUGH this expression ($A the operand); no other store
}

func c20LiveSites() []c20LSite {
	var ss []c20LSite
	class := func(cs ...string) func(k *c20LKind) bool {
		return func(k *c20LKind) bool {
			for _, c := range cs {
				if k.class == c {
					return true
				}
			}
			return false
		}
	}
	not := func(f func(k *c20LKind) bool) func(k *c20LKind) bool { return func(k *c20LKind) bool { return !f(k) } }
	kret := func(k *c20LKind) string { return k.ret }
	kidx := func(k *c20LKind) string { return k.idx }
	klen := func(k *c20LKind) string { return k.n }
	lit := func(s string) func(k *c20LKind) string { return func(*c20LKind) string { return s } }
	isMap := class("map")
	pendArr := func(k *c20LKind) bool { return c20PendingFix_liveArrayContainer && k.class == "arr" }

	// --- the operand is read, then ANOTHER operand of the same operation stores into the place
	for _, o := range []struct{ name, op string }{{"add", "+"}, {"sub", "-"}, {"mul", "*"}, {"div", "/"}, {"mod", "%"}, {"and", "&"}, {"or", "|"},
		{"shl", "<<"}, {"shr", ">>"}, {"eq", "=="}, {"ne", "!="}, {"lt", "<"}, {"le", "<="}, {"gt", ">"}, {"ge", ">="}, {"land", "&&"}, {"lor", "||"}} {
		ok := class("num", "str", "bool", "arr", "slice")
		if o.name == "add" || o.name == "eq" {
			ok = nil
		}
		ss = append(ss, c20LSite{id: "bin-" + o.name, src: "r = $A " + o.op + " $G", ret: kret, ok: ok})
	}
	ss = append(ss,
		c20LSite{id: "in-lhs", src: "r = $A in $G", ret: lit(`[2, "abc", 2.5, true, "red", hx]`)},
		c20LSite{id: "index-of", src: "r = $A[$G]", ret: kidx, ok: class("arr", "slice", "map", "str"), pendingK: pendArr},
		// (slicing a Go array: the result ALIASES the array when it sits in addressable storage and is a
		// copy otherwise - Go's own distinction, like the in-place stores excluded in c20.go: not generated)
		c20LSite{id: "slice-of-lo", src: "r = $A[$G:]", ret: lit("1"), ok: class("slice", "str")},
		c20LSite{id: "slice-of-hi", src: "r = $A[:$G]", ret: klen, ok: class("slice", "str")},
		c20LSite{id: "slice-of-lohi", src: "r = $A[1:$G]", ret: klen, ok: class("slice", "str")},
		c20LSite{id: "method-recv", src: "r = $A.Plus($G)", ret: lit("1"), ok: func(k *c20LKind) bool { return k.name == "struct" || k.name == "pstruct" }, pending: c20PendingFix_liveMethodReceiver},
		c20LSite{id: "arg-script-2", pre: "f2 = func(a, b){ return [a, b] }", src: "r = f2($A, $G)"},
		c20LSite{id: "arg-script-5", pre: "f5 = func(a, b, c, d, e){ return [d, e] }", src: "r = f5(0, 0, 0, $A, $G)"},
		c20LSite{id: "arg-script-variadic", pre: "fv = func(a...){ return a }", src: "r = fv($A, $G)"},
		c20LSite{id: "arg-go-2", src: "r = g2($A, $G)"},
		c20LSite{id: "arg-go-variadic", src: "r = gv($A, $G)"},
		c20LSite{id: "arg-go-typed", src: "r = gt2($A, $G)"},
		c20LSite{id: "arg-go-typed-variadic", src: "r = gtv($A, $G)", ret: lit("hy")},
		c20LSite{id: "arg-defer", src: "func(){\ndefer glog($A, $G)\n}()\nr = 0"},
		c20LSite{id: "callee", src: "r = $A($G)", ret: lit("3"), ok: class("func")},
		c20LSite{id: "callee-defer", src: "func(){\ndefer $A($G)\n}()\nr = 0", ret: lit("3"), ok: class("func")},
		c20LSite{id: "lit-list", src: "r = [$A, $G]"},
		c20LSite{id: "lit-map-val", src: `r = {"a": $A, "b": $G}`},
		c20LSite{id: "lit-map-key", src: "r = {$A: $G}", ok: func(k *c20LKind) bool { return k.hashable }},
		c20LSite{id: "send-val", pre: "sc = make(chan interface, 2)", src: "$G <- $A\nr = <-sc", ret: lit("sc"), ok: not(class("chan"))},
		c20LSite{id: "send-chan", src: "$A <- $G\nr = 0", ret: lit("5"), ok: func(k *c20LKind) bool { return k.name == "chan" }},
		c20LSite{id: "delete-of", src: "delete($A, $G)\nr = 0", ret: kidx, ok: isMap},
		c20LSite{id: "switch-subject", src: "r = 0\nswitch $A {\ncase $G:\nr = 1\ndefault:\nr = 2\n}", ret: lit("hx")},
		c20LSite{id: "switch-case-list", src: "r = 0\nswitch hx {\ncase $A, $G:\nr = 1\ndefault:\nr = 2\n}", ret: lit(`"nomatch"`)},
		c20LSite{id: "make-len", src: "r = make([]int64, $A, $G)", ret: lit("9"), ok: func(k *c20LKind) bool { return k.name == "int" }},
		c20LSite{id: "return-multi", src: "r = func(){ return $A, $G }()"},
		c20LSite{id: "let-multi", src: "r1, r2 = $A, $G\nr = [r1, r2]"},
		c20LSite{id: "var-multi", src: "var r1, r2 = $A, $G\nr = [r1, r2]"},
		c20LSite{id: "store-rhs-elem", src: "tgt = [0, 0]\ntgt[$G] = $A\nr = tgt"},
		c20LSite{id: "store-rhs-mapkey", src: "tgm = {}\ntgm[$G] = $A\nr = tgm", ret: lit(`"k"`)},
		c20LSite{id: "store-rhs-member", pre: "tgo = {}", src: "$G.k = $A\nr = tgo", ret: lit("tgo")},
		c20LSite{id: "store-rhs-field", pre: "tgp = pbox(0)", src: "$G.V = $A\nr = tgp.V", ret: lit("tgp")},
		// the container of an assignment target is an operand of the store (slices and maps: the store
		// goes into the container that was read; arrays / structs are excluded, see the header)
		c20LSite{id: "target-container", src: "$A[$G] = 5\nr = 0", ret: kidx, ok: class("slice", "map"), pending: c20PendingFix_liveTargetContainer},

		// --- the subject of for-in: the loop runs over the value read when the statement began
		c20LSite{id: "forin-1", src: "acc = []\nfor e in $A {\nacc += [e]\n$S\n}\nr = acc", ok: func(k *c20LKind) bool {
			return k.class == "arr" || k.class == "slice" || k.name == "chanc"
		}},
		c20LSite{id: "forin-2", src: "acc = {}\nfor k, e in $A {\nacc[k] = e\n$S\n}\nr = acc", ok: isMap, noMutate: isMap},
		c20LSite{id: "forin-keys", src: "acc = {}\nfor k in $A {\nacc[k] = 1\n$S\n}\nr = acc", ok: isMap, noMutate: isMap},
		c20LSite{id: "forin-2-sum", src: "n = 0\nsum = 0\nfor k, e in $A {\nn++\nsum += e\n$S\n}\nr = [n, sum]", ok: isMap, noMutate: isMap},

		// --- the operand is bound / stored / sent, THEN the place is stored to: what was bound is a value
		c20LSite{id: "bind-let", src: "b = $A\n$S\nr = b"},
		c20LSite{id: "bind-var", src: "var b = $A\n$S\nr = b"},
		c20LSite{id: "bind-multi", src: "b, b2 = $A, 1\n$S\nr = b"},
		c20LSite{id: "bind-module", pre: "module BM { b = 0 }", src: "BM.b = $A\n$S\nr = BM.b"},
		c20LSite{id: "bind-module-multi", pre: "module BM { b = 0 }", src: "BM.b, b2 = $A, 1\n$S\nr = BM.b"},
		c20LSite{id: "bind-member", src: "bm = {}\nbm.k = $A\n$S\nr = bm.k"},
		c20LSite{id: "bind-elem", src: "bl = [0]\nbl[0] = $A\n$S\nr = bl[0]"},
		c20LSite{id: "bind-field", src: "bb = pbox(0)\nbb.V = $A\n$S\nr = bb.V"},
		c20LSite{id: "bind-param", src: "r = func(p){\n$S\nreturn p\n}($A)"},
		c20LSite{id: "bind-param5", src: "r = func(a, b, c, d, p){\n$S\nreturn p\n}(0, 0, 0, 0, $A)"},
		c20LSite{id: "bind-variadic", src: "r = func(p...){\n$S\nreturn p\n}($A)"},
		c20LSite{id: "bind-closure", src: "f = func(p){ return func(){ return p } }($A)\n$S\nr = f()"},
		c20LSite{id: "bind-result", src: "r0 = func(){ return $A }()\n$S\nr = r0"},
		c20LSite{id: "bind-implicit-result", src: "r0 = func(){ $A }()\n$S\nr = r0"},
		c20LSite{id: "bind-return-defer", src: "r = func(){\ndefer func(){ $S }()\nreturn $A\n}()"},
		c20LSite{id: "bind-implicit-result-defer", src: "r = func(){\ndefer func(){ $S }()\n$A\n}()"},
		c20LSite{id: "bind-method-value", src: "f = $A.Plus\n$S\nr = f(1)", ok: func(k *c20LKind) bool { return k.name == "struct" || k.name == "pstruct" }, pending: c20PendingFix_liveMethodReceiver},
		c20LSite{id: "bind-forvar", src: "r = nil\nfor e in [$A] {\n$S\nr = e\n}"},
		c20LSite{id: "bind-lit-list", src: "bl = [$A, 1]\n$S\nr = bl"},
		c20LSite{id: "bind-lit-map", src: "bm = {\"k\": $A}\n$S\nr = bm"},
		c20LSite{id: "bind-go-box", src: "bb = box($A)\n$S\nr = bb.V"},
		c20LSite{id: "bind-send", pre: "sc = make(chan interface, 2)", src: "sc <- $A\n$S\nr = <-sc", ok: not(class("chan"))},
		c20LSite{id: "bind-defer-arg", src: "func(){\ndefer glog($A)\n$S\n}()\nr = 0"},
		c20LSite{id: "bind-commaok-let", src: "b$C = $A\n$S\nr = b", commaok: true},
		c20LSite{id: "bind-commaok-module", pre: "module BM { b = 0 }", src: "BM.b$C = $A\n$S\nr = BM.b", commaok: true},

		// --- round 6 (the classes of /tmp/seed6-C20/preexisting.md that lie inside the statement)
		// the key of a TYPED map literal is an operand like the key of an untyped one (LT = the operand's type)
		c20LSite{id: "lit-tmap-key", src: "r = map[LT]interface{$A: $G}", ok: func(k *c20LKind) bool { return k.hashable }},
		// the index operand of the CONTAINER of a nested assignment target (the store appends, so the
		// new inner list has to be put back where the index operand said when it was evaluated)
		c20LSite{id: "target-index-nested", pre: "tg2 = [[], [], [], [], [], [], [], [], []]", src: "tg2[$A][$G] = \"v\"\nr = tg2", ok: func(k *c20LKind) bool { return k.name == "int" }},
		c20LSite{id: "target-index-nested-map", pre: "tg3 = {}", src: "tg3[$A][$G] = \"v\"\nr = tg3", ret: lit(`"k"`), ok: func(k *c20LKind) bool { return k.hashable && k.class != "arr" && k.class != "struct" }},
		// the value of `target, ok = place` is read before the operands of the target are evaluated
		c20LSite{id: "commaok-target-operand", src: "tgt = [0, 0]\ntgt[$G]$C = $A\nr = tgt", commaok: true},
		// an in-place store made THROUGH the result of a function whose body reads the place: the result
		// is a value (the store succeeds or fails, and leaves the place alone, as with id(place) inside)
		c20LSite{id: "store-through-result", mutOn: "func(){ return $A }()"},
		c20LSite{id: "store-through-implicit-result", mutOn: "func(){ $A }()"},
		c20LSite{id: "store-through-param-result", mutOn: "func(p){ return p }($A)"},
	)
	return ss
}

// --- special families -------------------------------------------------------------------------

type c20LSpecial struct {
	id      string
	progs   []struct{ name, src string } // progs[0] is the reference
	pending bool
}

func c20LiveSpecials() []c20LSpecial {
	type prog = struct{ name, src string }
	var out []c20LSpecial
	// forin-var: the body binds b = e, overwrites every pointee, then reads e and b: the reference
	// reads b in both positions (b is the same value after one more hop, a plain assignment)
	for _, el := range []struct{ name, pfx string }{{"ptrint", "li"}, {"pstruct", "ls"}} {
		for _, k := range []struct{ name, head string }{
			{"slice", "for e in " + el.pfx + "sl"},
			{"chan", "for e in " + el.pfx + "ch"},
			{"array", "for e in " + el.pfx + "ar"},
			{"list", "for e in [" + el.pfx + "sl[0], " + el.pfx + "sl[1]]"},
			{"map", "for k, e in " + el.pfx + "mp"},
			{"chan-field", "for e in " + el.pfx + "h.C"},
			{"slice-field", "for e in " + el.pfx + "h.S"},
			{"chan-elem", "for e in " + el.pfx + "chs[0]"},
		} {
			loop := func(first, second string) string {
				return "acc = []\n" + k.head + " {\nb = e\nacc += [" + first + "]\n" + el.pfx + "set(100)\nacc += [" + second + ", b]\n}\nacc"
			}
			out = append(out, c20LSpecial{id: "forin-var:" + el.name + ":" + k.name, progs: []prog{
				{"let-bound-copy", loop("b", "b")},
				{"loop-variable", loop("e", "e")},
			}})
		}
	}
	// addr-hop: the pointer operand of a Go function that writes through it
	for _, f := range []string{"incr", "gset"} {
		mk := func(pre, arg string) string { return "x = 1\n" + pre + f + "(" + arg + ")\nx" }
		out = append(out, c20LSpecial{id: "addr-hop:" + f, pending: c20PendingFix_addrHopWriteback, progs: []prog{
			{"direct", mk("", "&x")},
			{"paren", mk("", "(&x)")},
			{"ternary", mk("", "(true ? &x : nil)")},
			{"coalesce", mk("", "(&x ?? nil)")},
			{"var", mk("p = &x\n", "p")},
			{"elem", mk("", "[&x][0]")},
			{"scall", mk("", "func(){ return &x }()")},
			{"gocall", mk("", "id(&x)")},
		}})
	}
	return out
}

func c20LiveSpecialState() *c20State {
	st := c20NewState()
	e := st.env
	e.Define("incr", func(p *interface{}) {
		if p != nil {
			*p = int64(42)
		}
	})
	// two pointees with the SAME content, so that the order in which a map is visited does not show
	i0, i1 := int64(1), int64(1)
	ips := []*int64{&i0, &i1}
	ich := make(chan *int64, 2)
	ich <- &i0
	ich <- &i1
	close(ich)
	ich2 := make(chan *int64, 2)
	ich2 <- &i0
	ich2 <- &i1
	close(ich2)
	e.Define("lisl", ips)
	e.Define("lich", ich)
	e.Define("liar", [2]*int64{&i0, &i1})
	e.Define("limp", map[string]*int64{"a": &i0, "b": &i1})
	e.Define("lih", &struct {
		C chan *int64
		S []*int64
	}{C: ich2, S: []*int64{&i0, &i1}})
	ich3 := make(chan *int64, 2)
	ich3 <- &i0
	ich3 <- &i1
	close(ich3)
	e.Define("lichs", []chan *int64{ich3})
	e.Define("liset", func(v int64) { i0, i1 = v, v })
	s0, s1 := &c20LS{A: 1, B: "b"}, &c20LS{A: 1, B: "b"}
	sch := make(chan *c20LS, 2)
	sch <- s0
	sch <- s1
	close(sch)
	sch2 := make(chan *c20LS, 2)
	sch2 <- s0
	sch2 <- s1
	close(sch2)
	e.Define("lssl", []*c20LS{s0, s1})
	e.Define("lsch", sch)
	e.Define("lsar", [2]*c20LS{s0, s1})
	e.Define("lsmp", map[string]*c20LS{"a": s0, "b": s1})
	e.Define("lsh", &struct {
		C chan *c20LS
		S []*c20LS
	}{C: sch2, S: []*c20LS{s0, s1}})
	sch3 := make(chan *c20LS, 2)
	sch3 <- s0
	sch3 <- s1
	close(sch3)
	e.Define("lschs", []chan *c20LS{sch3})
	e.Define("lsset", func(v int64) { s0.A, s1.A = v, v })
	return st
}

// --- running ------------------------------------------------------------------------------------

// lrender renders nested lists element by element, so that every reference-like element is
// shown by its identity with the host objects
func (st *c20State) lrender(val interface{}) string {
	if l, ok := val.([]interface{}); ok {
		parts := make([]string, len(l))
		for i, x := range l {
			parts[i] = st.lrender(x)
		}
		return "[" + strings.Join(parts, " ") + "]"
	}
	return st.render(val)
}

func c20LiveExec(c *wk.Case, st *c20State, tag map[string]string, src string) c20Out {
	out := c20Out{src: src}
	if _, err, _ := ank.Parse(src); err != nil {
		out.class = "parse"
		out.errText = err.Error()
		return out
	}
	tag["src"] = src
	c.Begin(tag)
	ctx, cancel := context.WithTimeout(context.Background(), 20*time.Second)
	o := ank.ExecCtx(ctx, st.env, src)
	cancel()
	out.class = c20Class(o)
	switch out.class {
	case "ok":
		out.val = c20NoAddr(st.lrender(o.Val))
		out.typ = fmt.Sprint(reflect.TypeOf(o.Val))
	case "panic":
		out.errText = o.PanicVal
	default:
		out.errText = ank.ErrText(o.Err)
	}
	out.goside = ""
	if b, ok := st.base["v"]; ok {
		out.goside = "x=" + c20ObserveBase(b) + " y=" + c20ObserveBase(st.base["w"]) + " "
	}
	out.goside = c20NoAddr(out.goside + "log=[" + st.logString() + "]")
	return out
}

func c20LiveDiff(ref, got *c20Out) string {
	switch {
	case ref.class != got.class:
		return got.class + "-vs-" + ref.class
	case ref.class == "ok" && ref.typ != got.typ:
		return "type"
	case ref.class == "ok" && ref.val != got.val:
		return "value"
	case ref.goside != got.goside:
		return "effect-objects"
	}
	return ""
}

type c20LiveGrid struct {
	kinds []c20LKind
	sites []c20LSite
	specs []c20LSpecial
}

var c20LiveG *c20LiveGrid

func c20Live() *c20LiveGrid {
	if c20LiveG == nil {
		c20LiveG = &c20LiveGrid{kinds: c20LiveKinds(), sites: c20LiveSites(), specs: c20LiveSpecials()}
	}
	return c20LiveG
}

var c20LiveStores = []string{"replace", "mutate"}

func c20LiveCases() int {
	g := c20Live()
	return len(g.sites)*len(g.kinds)*len(c20LiveStores) + len(g.specs)
}

func c20RunLive(c *wk.Case) {
	g := c20Live()
	nGrid := len(g.sites) * len(g.kinds) * len(c20LiveStores)
	if c.Index >= nGrid {
		c20RunLiveSpecial(c, &g.specs[c.Index-nGrid])
		return
	}
	site := &g.sites[c.Index/(len(g.kinds)*len(c20LiveStores))]
	kind := &g.kinds[(c.Index/len(c20LiveStores))%len(g.kinds)]
	store := c20LiveStores[c.Index%len(c20LiveStores)]
	switch {
	case site.pending:
		c.Excluded("pending-fix:" + site.id)
		return
	case site.pendingK != nil && site.pendingK(kind):
		c.Excluded("pending-fix:" + site.id + ":" + kind.name)
		return
	case site.ok != nil && !site.ok(kind):
		c.Excluded("site-about-other-kinds")
		return
	case site.mutOn != "" && (store != "replace" || kind.mutate == ""):
		// the site's only store is the kind's in-place store, made through the operand expression
		c.Excluded("store-through-site:one-store-form")
		return
	case store == "mutate" && kind.mutate == "":
		c.Excluded("kind-without-in-place-store")
		return
	case store == "mutate" && site.noMutate != nil && site.noMutate(kind):
		c.Excluded("in-place-store-into-a-map-being-iterated")
		return
	}
	c.Tag("live-site:"+site.id, "live-kind:"+kind.name, "live-store:"+store)
	type agg struct {
		n      int
		detail string
		input  interface{}
	}
	viols := map[string]*agg{}
	report := func(sig, detail string, input interface{}) {
		a := viols[sig]
		if a == nil {
			a = &agg{detail: detail, input: input}
			viols[sig] = a
		}
		a.n++
	}
	for pi := range c20LivePlaces {
		pl := &c20LivePlaces[pi]
		if site.commaok && !pl.item {
			c.Excluded("comma-ok-needs-an-index-expression")
			continue
		}
		target := pl.target
		if target == "" {
			target = pl.read
		}
		st := target + " = " + pl.other
		if store == "mutate" {
			st = strings.ReplaceAll(kind.mutate, "$P", pl.read)
		}
		ret := "0"
		if site.ret != nil {
			ret = site.ret(kind)
		}
		build := func(operand string, commaok bool) string {
			var parts []string
			if site.pre != "" {
				parts = append(parts, site.pre)
			}
			parts = append(parts, pl.pre...)
			parts = append(parts, "func g(){\n"+st+"\nreturn "+ret+"\n}")
			src := site.src
			if site.mutOn != "" {
				src = strings.ReplaceAll(kind.mutate, "$P", site.mutOn) + "\nr = 0"
			}
			body := strings.ReplaceAll(src, "$A", operand)
			body = strings.ReplaceAll(body, "$G", "g()")
			body = strings.ReplaceAll(body, "$S", st)
			if commaok {
				body = strings.ReplaceAll(body, "$C", ", ok")
			} else {
				body = strings.ReplaceAll(body, "$C", "")
			}
			parts = append(parts, body, "[r, "+pl.read+", "+pl.other+"]")
			return strings.Join(parts, "\n")
		}
		run := func(name, operand string, commaok bool) c20Out {
			s := c20NewState()
			x, y := kind.mk(s)
			c20LiveDefine(s, x, y)
			return c20LiveExec(c, s, map[string]string{"site": site.id, "kind": kind.name, "place": pl.name, "store": store, "operand": name}, build(operand, commaok))
		}
		refGo := run("gocall", "id("+pl.read+")", false)
		refSc := run("scall", "func(){ return "+pl.read+" }()", false)
		if refGo.class == "parse" || refSc.class == "parse" {
			c.Inconclusive("live-reference-does-not-parse:"+site.id, refGo.errText+refSc.errText, refGo.src)
			continue
		}
		if refGo.class == "timeout" || refSc.class == "timeout" {
			c.Inconclusive("live-reference-timeout:"+site.id+":"+kind.name, "", refGo.src)
			continue
		}
		base := site.id + ":" + kind.name + ":" + store
		if d := c20LiveDiff(&refGo, &refSc); d != "" {
			report("live:"+base+":scall-vs-gocall:"+d,
				fmt.Sprintf("place %s: operand func(){ return %s }(): %s  BUT operand id(%s): %s", pl.name, pl.read, refSc.String(), pl.read, refGo.String()),
				map[string]interface{}{"site": site.id, "kind": kind.name, "place": pl.name, "store": store, "src": refSc.src, "reference_src": refGo.src})
		}
		type variant struct{ name, operand string }
		variants := []variant{{"direct", pl.read}}
		if !site.commaok {
			variants = append(variants, variant{"paren", "(" + pl.read + ")"}, variant{"ternary", "(true ? " + pl.read + " : nil)"})
			if c.Tier != "thorough" {
				// quick tier: the direct operand and one of the two wrapped forms
				k := 1 + c.Rng.Intn(2)
				variants = []variant{variants[0], variants[k]}
			}
		}
		for _, v := range variants {
			got := run(v.name, v.operand, site.commaok)
			c.Eval("live|"+base+"|"+got.src, refGo.class == "ok" || got.class == "ok")
			c.Events(1)
			c.Tag("live-place:"+pl.name, "live-outcome:"+got.class)
			input := map[string]interface{}{"site": site.id, "kind": kind.name, "place": pl.name, "store": store, "operand": v.name, "src": got.src, "reference_src": refGo.src}
			if c.W.Verbose {
				fmt.Printf("%s %s %s %s %s\n  src: %q\n  got: %s\n  ref: %s\n", site.id, kind.name, store, pl.name, v.name, got.src, got.String(), refGo.String())
			}
			switch got.class {
			case "parse":
				c.Inconclusive("live-instantiation-does-not-parse:"+site.id+":"+v.name, got.errText, input)
				continue
			case "timeout":
				c.Inconclusive("live-timeout:"+site.id+":"+kind.name, got.errText, input)
				continue
			}
			d := c20LiveDiff(&refGo, &got)
			if d == "" {
				if c.WantSample() && c.Rng.Intn(16) == 0 {
					c.Sample(map[string]interface{}{"site": site.id, "kind": kind.name, "place": pl.name, "store": store, "src": got.src, "observed": got.String(), "reference": refGo.String()})
				}
				continue
			}
			report("live:"+base+":"+d,
				fmt.Sprintf("place %s, operand %s: %s  BUT the same program with the operand id(%s) (a Go result): %s", pl.name, v.operand, got.String(), pl.read, refGo.String()), input)
		}
	}
	sigs := make([]string, 0, len(viols))
	for s := range viols {
		sigs = append(sigs, s)
	}
	sort.Strings(sigs)
	for _, s := range sigs {
		a := viols[s]
		c.Violation(s, fmt.Sprintf("%s (%d instantiation(s) of this case differ the same way)", a.detail, a.n), a.input)
	}
}

func c20RunLiveSpecial(c *wk.Case, sp *c20LSpecial) {
	if sp.pending {
		c.Excluded("pending-fix:" + sp.id)
		return
	}
	c.Tag("live-special:" + sp.id)
	var ref c20Out
	for i, p := range sp.progs {
		st := c20LiveSpecialState()
		got := c20LiveExec(c, st, map[string]string{"special": sp.id, "prog": p.name}, p.src)
		if got.class == "parse" || got.class == "timeout" {
			c.Inconclusive("live-special-"+got.class+":"+sp.id+":"+p.name, got.errText, p.src)
			if i == 0 {
				return
			}
			continue
		}
		if i == 0 {
			ref = got
			continue
		}
		c.Eval("live-special|"+sp.id+"|"+p.name, ref.class == "ok" || got.class == "ok")
		c.Events(1)
		if c.W.Verbose {
			fmt.Printf("%s %s\n  src: %q\n  got: %s\n  ref: %s\n", sp.id, p.name, got.src, got.String(), ref.String())
		}
		if d := c20LiveDiff(&ref, &got); d != "" {
			c.Violation("live-special:"+sp.id+":"+p.name+":"+d,
				fmt.Sprintf("%s: %s  BUT %s: %s", p.name, got.String(), sp.progs[0].name, ref.String()),
				map[string]interface{}{"special": sp.id, "prog": p.name, "src": p.src, "reference_src": sp.progs[0].src})
		}
	}
}
