package main

// C10 — slices, maps, strings and struct fields behave like their Go models.
//
// Monitor: history + executable model. One case is one fresh environment and a
// sequence of container operations; every operation is its own vm.Execute call
// (ank.Exec) so the per-operation error status is observed at the boundary.
// The model keeps the same variables as native Go values ([]interface{},
// map[interface{}]interface{}, string, typed slices/maps and a struct value
// built with reflect) and applies the SAME Go operation to them (b = a[1:3] is
// a real re-slice of the model's slice), so aliasing in the model is Go's own.
// After every operation every variable is fetched with env.Get and walked in
// parallel with the model: dynamic types, contents, len, cap and — through a
// bijection between live and model element addresses — the sharing of storage.
//
// Only Go-specified facts are asserted. The capacity after a GROWING append is
// not specified by Go: the model reads cap() of the live object and adopts it.
// Kept out of the generator (statement silent / ambiguous, see DESIGN.md C10):
// numeric strings, floats and booleans as slice indices; a reslice whose high
// bound lies in (len, cap]; copying vs aliasing of struct VALUES on assignment;
// `in` on maps and strings; multi-byte or empty stores into a string position;
// int -> string conversion on a typed store (Go would yield a rune string);
// nil stored into a typed non-interface slot; NaN; `v in x` where x sits in an
// interface-typed slot (nested element, interface field: C20's finding, not a
// container rule); `a[:]` (not in the script grammar); string + non-string (C05).
//
// Typed numeric slices of other element types ([]int32, []byte, []float32) take part
// in every operation; a store converts as Go would when the element type can hold the
// value ([]byte / []rune read as a string are kept out; an integer the element type holds
// only wrapped and a string offered to a byte / rune slot: c10_r6.go, which also drives
// every slot kind with the values at the ends of its range through every way of storing).
// `in` on a typed numeric slice: two numbers of
// different Go types are unequal as Go interface values and equal for the script's ==
// when they denote the same number - not judged; a needle that denotes a number no
// element denotes (1.5 against int64 1, 257 against byte 1) is not `in`.
// Nil typed maps and nil typed slices (zero elements of make([]map[string]float64, n) /
// make([][]int64, n) / make([][]interface, n), names bound to them, struct fields set
// to nil) are containers like any other: appending to a nil slice allocates (the result
// never shares storage with the right operand); a store into a nil map is accepted as
// an error that changes nothing (Go) or as a new map holding the CONVERTED value bound
// to the place (script). A slice expression `a[i:j]` is a place for reads and stores.
//
// Struct values come in several shapes side by side (c10ShapeOf): the same field names at
// other positions, fewer fields, anonymous Go structs bound by the host through a pointer.
// Literal expressions evaluated more than once (a script function returning a nested
// literal that is called repeatedly, a literal in a loop body): c10_lit.go.
// Assignment statements with a nested (parenthesised) target executed more than once from
// one syntax tree, and struct values held by elements of untyped lists / maps: c10_r5.go.
// Unsigned / byte-typed containers, the conversion matrix (phase "conv"), p[i] = p[i] and
// `+` with a map on the left: c10_r6.go.
// Containers that travel (arguments of direct / deferred / go calls, every way a value is
// handed on: phase "pass"), maps and slices of another type stored into typed slots and what
// the slot's content is for the names bound to it afterwards (phase "slots"), nil-ness: c10_r7.go.

import (
	"context"
	"fmt"
	"math"
	"reflect"
	"sort"
	"strconv"
	"strings"

	"github.com/mattn/anko/env"

	"verifharness/internal/ank"
	"verifharness/internal/fw"
	"verifharness/internal/wk"
)

var (
	c10IfaceT  = reflect.TypeOf((*interface{})(nil)).Elem()
	c10USliceT = reflect.TypeOf([]interface{}{})
	c10UMapT   = reflect.TypeOf(map[interface{}]interface{}{})
	c10I64T    = reflect.TypeOf(int64(0))
	c10F64T    = reflect.TypeOf(float64(0))
	c10StrT    = reflect.TypeOf("")
	c10BoolT   = reflect.TypeOf(false)
	c10I64SlT  = reflect.TypeOf([]int64{})
	c10F64SlT  = reflect.TypeOf([]float64{})
	c10StrSlT  = reflect.TypeOf([]string{})
	c10MapSIT  = reflect.TypeOf(map[string]int64{})
	c10MapISt  = reflect.TypeOf(map[int64]string{})
	c10I32T    = reflect.TypeOf(int32(0))
	c10U8T     = reflect.TypeOf(uint8(0))
	c10F32T    = reflect.TypeOf(float32(0))
	c10I32SlT  = reflect.TypeOf([]int32{})
	c10U8SlT   = reflect.TypeOf([]uint8{})
	c10F32SlT  = reflect.TypeOf([]float32{})
	c10MapSFT  = reflect.TypeOf(map[string]float64{})
	c10MapSlT  = reflect.TypeOf([]map[string]float64{}) // elements of make([]map[string]float64, n) are nil maps
	c10SlSlT   = reflect.TypeOf([][]int64{})            // elements of make([][]int64, n) are nil slices
	c10USlSlT  = reflect.TypeOf([][]interface{}{})
	c10StructT = reflect.StructOf([]reflect.StructField{
		{Name: "A", Type: c10I64T}, {Name: "B", Type: c10StrT}, {Name: "C", Type: c10I64SlT},
		{Name: "D", Type: c10MapSIT}, {Name: "E", Type: c10IfaceT}, {Name: "F", Type: c10F64T}, {Name: "G", Type: c10BoolT}})
	c10FieldNames = []string{"A", "B", "C", "D", "E", "F", "G"}
)

const c10StructSrc = "make(struct{A int64, B string, C []int64, D map[string]int64, E interface, F float64, G bool})"

// Further struct shapes: the same field names at OTHER positions, a shape with fewer
// fields, and anonymous Go structs the host binds by pointer. A field is addressed by
// its name within the struct's own type, whatever other struct types the process has
// seen: several shapes live side by side in one history.
var (
	c10StructQT = reflect.StructOf([]reflect.StructField{
		{Name: "D", Type: c10MapSIT}, {Name: "G", Type: c10BoolT}, {Name: "B", Type: c10StrT}, {Name: "A", Type: c10I64T}, {Name: "C", Type: c10I64SlT}})
	c10StructRT = reflect.StructOf([]reflect.StructField{{Name: "F", Type: c10F64T}, {Name: "A", Type: c10I64T}})
	c10StructHT = reflect.StructOf([]reflect.StructField{
		{Name: "B", Type: c10StrT}, {Name: "E", Type: c10IfaceT}, {Name: "A", Type: c10I64T}, {Name: "C", Type: c10I64SlT}})
	c10StructGT = reflect.StructOf([]reflect.StructField{{Name: "C", Type: c10I64SlT}, {Name: "A", Type: c10I64T}, {Name: "D", Type: c10MapSIT}})
)

type c10Shape struct {
	src  string // script source of the value; "" for a host value
	t    reflect.Type
	host bool
}

var c10ShapeOf = map[string]c10Shape{
	"st": {c10StructSrc, c10StructT, false},
	"sq": {"make(struct{D map[string]int64, G bool, B string, A int64, C []int64})", c10StructQT, false},
	"sr": {"make(struct{F float64, A int64})", c10StructRT, false},
	"hp": {"", c10StructHT, true},
	"hq": {"", c10StructGT, true},
}

// c10Val is a script value: its source spelling and the model's Go value.
type c10Val struct {
	src string
	v   interface{}
	tag string
}

func c10Int(n int64) c10Val { return c10Val{strconv.FormatInt(n, 10), n, "int"} }
func c10Float(f float64) c10Val {
	s := strconv.FormatFloat(f, 'f', -1, 64)
	if !strings.Contains(s, ".") {
		s += ".0"
	}
	return c10Val{s, f, "float"}
}
func c10Str(s string) c10Val { return c10Val{strconv.Quote(s), s, "string"} }
func c10Bool(b bool) c10Val  { return c10Val{strconv.FormatBool(b), b, "bool"} }
func c10Nil() c10Val         { return c10Val{"nil", nil, "nil"} }

// c10USlice is a fresh untyped slice literal.
func c10USlice(el ...c10Val) c10Val {
	s := make([]interface{}, len(el))
	var src []string
	for i, e := range el {
		s[i] = e.v
		src = append(src, e.src)
	}
	return c10Val{"[" + strings.Join(src, ", ") + "]", s, "uslice-lit"}
}

// c10UMap is a fresh untyped map literal with one entry.
func c10UMap(k, v c10Val) c10Val {
	return c10Val{"{" + k.src + ": " + v.src + "}", map[interface{}]interface{}{k.v: v.v}, "umap-lit"}
}

func c10I64Lit(ns ...int64) c10Val {
	var src []string
	for _, n := range ns {
		src = append(src, strconv.FormatInt(n, 10))
	}
	cp := make([]int64, len(ns))
	copy(cp, ns)
	return c10Val{"[]int64{" + strings.Join(src, ", ") + "}", cp, "tslice-lit"}
}

func c10F64Lit(fs ...float64) c10Val {
	var src []string
	for _, f := range fs {
		src = append(src, c10Float(f).src)
	}
	cp := make([]float64, len(fs))
	copy(cp, fs)
	return c10Val{"[]float64{" + strings.Join(src, ", ") + "}", cp, "tslice-lit"}
}

// c10NumLit is a typed literal of a numeric slice type: `[]int32{1, 2}`; the values are
// representable in the element type.
func c10NumLit(elem string, t reflect.Type, fs ...float64) c10Val {
	var src []string
	sl := reflect.MakeSlice(t, len(fs), len(fs))
	for i, f := range fs {
		if c10IsFloatKind(t.Elem().Kind()) {
			src = append(src, c10Float(f).src)
		} else {
			src = append(src, strconv.FormatInt(int64(f), 10))
		}
		sl.Index(i).Set(reflect.ValueOf(f).Convert(t.Elem()))
	}
	return c10Val{"[]" + elem + "{" + strings.Join(src, ", ") + "}", sl.Interface(), "tslice-lit"}
}

func c10Class(v reflect.Value) string {
	if !v.IsValid() {
		return "nil"
	}
	switch v.Kind() {
	case reflect.Slice:
		if v.Type() == c10USliceT {
			return "untyped-slice"
		}
		return "typed-slice"
	case reflect.Map:
		if v.Type() == c10UMapT {
			return "untyped-map"
		}
		return "typed-map"
	case reflect.String:
		return "string"
	case reflect.Struct:
		return "struct"
	}
	return "scalar"
}

// c10Unwrap strips interface boxes; a pointer to a struct (the host's struct values are
// handed to the script by pointer) is followed to the struct.
func c10Unwrap(v reflect.Value) reflect.Value {
	for v.IsValid() && (v.Kind() == reflect.Interface || (v.Kind() == reflect.Ptr && v.Type().Elem().Kind() == reflect.Struct)) {
		if v.IsNil() {
			return reflect.Value{}
		}
		v = v.Elem()
	}
	return v
}

// ---- conversion on a typed store, "as Go would" ----

const (
	c10CvOK     = iota // must succeed with the returned value
	c10CvErr           // Go cannot convert: an error is required
	c10CvEither        // statement silent: error+unchanged or the returned value
	c10CvExcl          // outside the generator's domain
)

// c10Conv converts script value v for a slot of type t. fresh reports that a new
// slice was allocated (its capacity is adopted from the live object).
func c10Conv(v interface{}, t reflect.Type) (out reflect.Value, st int, fresh bool) {
	if t.Kind() == reflect.Interface {
		if v == nil {
			return reflect.Zero(t), c10CvOK, false
		}
		return reflect.ValueOf(v), c10CvOK, false
	}
	if v == nil {
		if t.Kind() == reflect.Slice || t.Kind() == reflect.Map {
			return reflect.Zero(t), c10CvOK, false // Go: `slot = nil` for a slice or map slot
		}
		return out, c10CvExcl, false // nil into int64/string slot: Go would not compile it
	}
	rv := reflect.ValueOf(v)
	if rv.Type() == t {
		return rv, c10CvOK, false
	}
	sk, tk := rv.Kind(), t.Kind()
	switch {
	case c10IsNumKind(sk) && c10IsNumKind(tk):
		switch {
		case c10IsFloatKind(sk) && !c10IsFloatKind(tk):
			// Go truncates towards zero; the conversion is specified exactly when the integer
			// type can represent the truncated value (uint64(1e19) is 10000000000000000000)
			// and implementation-defined beyond (not generated)
			iv, ok := c10FloatToInt(rv.Float(), t)
			if !ok {
				return out, c10CvExcl, false
			}
			return iv, c10CvOK, false
		case !c10IsFloatKind(sk) && !c10IsFloatKind(tk):
			// an integer the other integer type cannot represent: Go wraps a non-constant and
			// rejects a constant. Accepted: the wrapped value, or an error that changes nothing
			if !c10IntFits(rv, t) {
				return rv.Convert(t), c10CvEither, false
			}
		case c10IsFloatKind(sk) && tk == reflect.Float32:
			if math.Abs(rv.Float()) > math.MaxFloat32 {
				return out, c10CvExcl, false
			}
		}
		return rv.Convert(t), c10CvOK, false
	case (c10IsNumKind(sk) && !c10IsFloatKind(sk)) && tk == reflect.String:
		return out, c10CvExcl, false // Go: string(rune(i)); the statement hardly means that
	case sk == reflect.String && (tk == reflect.Uint8 || tk == reflect.Int32):
		return c10StrToChar(rv.String(), t) // c10_r6.go
	case tk == reflect.String && c10IsRunesOrBytes(v):
		return out, c10CvExcl, false // Go: string([]byte) / string([]rune)
	case sk == reflect.Slice && tk == reflect.Slice:
		// Go cannot convert between slice types; anko documents an element-wise copy. Both accepted.
		if rv.IsNil() {
			return reflect.Zero(t), c10CvEither, true // a nil slice converted element by element is the nil slice (Go: []T(nil) is nil)
		}
		n := rv.Len()
		res := reflect.MakeSlice(t, n, n)
		for i := 0; i < n; i++ {
			ev, est, _ := c10Conv(rv.Index(i).Interface(), t.Elem())
			if est == c10CvErr || est == c10CvExcl {
				return out, est, false
			}
			res.Index(i).Set(ev)
		}
		return res, c10CvEither, true
	case sk == reflect.Map && tk == reflect.Map:
		return c10ConvMap(rv, t) // c10_r7.go
	}
	return out, c10CvErr, false
}

func c10IsRunesOrBytes(v interface{}) bool {
	if v == nil {
		return false
	}
	t := reflect.TypeOf(v)
	return t.Kind() == reflect.Slice && (t.Elem().Kind() == reflect.Uint8 || t.Elem().Kind() == reflect.Int32)
}

func c10IsFloatKind(k reflect.Kind) bool { return k == reflect.Float32 || k == reflect.Float64 }
func c10IsUintKind(k reflect.Kind) bool {
	switch k {
	case reflect.Uint, reflect.Uint8, reflect.Uint16, reflect.Uint32, reflect.Uint64, reflect.Uintptr:
		return true
	}
	return false
}
func c10IsNumKind(k reflect.Kind) bool {
	switch k {
	case reflect.Int, reflect.Int8, reflect.Int16, reflect.Int32, reflect.Int64:
		return true
	}
	return c10IsUintKind(k) || c10IsFloatKind(k)
}

// c10IntFits: integer value v (any integer kind) is representable in integer type t.
func c10IntFits(v reflect.Value, t reflect.Type) bool {
	b := uint(t.Bits())
	if c10IsUintKind(v.Kind()) {
		u := v.Uint()
		if c10IsUintKind(t.Kind()) {
			return b >= 64 || u < uint64(1)<<b
		}
		return u < uint64(1)<<(b-1)
	}
	i := v.Int()
	if c10IsUintKind(t.Kind()) {
		return i >= 0 && (b >= 64 || uint64(i) < uint64(1)<<b)
	}
	return b >= 64 || (i >= -(int64(1)<<(b-1)) && i < int64(1)<<(b-1))
}

// c10FloatToInt: Go's conversion of a non-constant float to integer type t, computed here
// without the help of a float->integer conversion near the ends of the range: ok is false
// when t cannot represent the truncated value (NaN, infinities, beyond the range: the
// result of Go's conversion is implementation-defined then).
func c10FloatToInt(f float64, t reflect.Type) (reflect.Value, bool) {
	if math.IsNaN(f) || math.IsInf(f, 0) {
		return reflect.Value{}, false
	}
	tr := math.Trunc(f)
	b := t.Bits()
	out := reflect.New(t).Elem()
	if c10IsUintKind(t.Kind()) {
		if tr < 0 || tr >= math.Ldexp(1, b) {
			return reflect.Value{}, false
		}
		if tr >= 1<<63 {
			out.SetUint(uint64(tr-(1<<63)) + 1<<63) // tr - 2^63 is exact and below 2^63
		} else {
			out.SetUint(uint64(int64(tr)))
		}
		return out, true
	}
	if tr < -math.Ldexp(1, b-1) || tr >= math.Ldexp(1, b-1) {
		return reflect.Value{}, false
	}
	out.SetInt(int64(tr))
	return out, true
}

// ---- parallel walk of live object and model ----

type c10Cmp struct {
	l2m, m2l map[uintptr]uintptr
	seen     map[[3]uintptr]bool
	fail     string
	detail   string
	// round 8 (c10_r8.go): the storage of slices is linked by address RANGES instead of
	// element by element and scalar elements are compared without reflect - the same
	// relation, affordable on containers of 200000 elements after every operation
	fast bool
	regs []c10R8Region
}

func newC10Cmp() *c10Cmp {
	return &c10Cmp{l2m: map[uintptr]uintptr{}, m2l: map[uintptr]uintptr{}, seen: map[[3]uintptr]bool{}}
}

func (c *c10Cmp) clone() *c10Cmp {
	n := newC10Cmp()
	for k, v := range c.l2m {
		n.l2m[k] = v
	}
	for k, v := range c.m2l {
		n.m2l[k] = v
	}
	n.fast, n.regs = c.fast, append([]c10R8Region(nil), c.regs...)
	return n
}

func (c *c10Cmp) bad(class, path, msg string) bool {
	c.fail, c.detail = class, path+": "+msg
	return false
}

// link records that live address la plays the role of model address ma.
func (c *c10Cmp) link(la, ma uintptr, path string) bool {
	if pm, ok := c.l2m[la]; ok && pm != ma {
		return c.bad("alias-extra", path, "live storage is shared where the Go model has separate storage")
	}
	if pl, ok := c.m2l[ma]; ok && pl != la {
		return c.bad("alias-lost", path, "the Go model shares this storage with another slice/map, the live object does not")
	}
	c.l2m[la], c.m2l[ma] = ma, la
	return true
}

func (c *c10Cmp) cmp(l, m reflect.Value, path string) bool {
	l, m = c10Unwrap(l), c10Unwrap(m)
	if !l.IsValid() || !m.IsValid() {
		if l.IsValid() != m.IsValid() {
			return c.bad("value-mismatch", path, "got "+ank.RenderValue(l)+", model "+ank.RenderValue(m))
		}
		return true
	}
	if l.Type() != m.Type() && !(l.Kind() == reflect.Struct && l.Type().String() == m.Type().String()) {
		return c.bad("type-mismatch", path, "got "+ank.RenderValue(l)+", model "+ank.RenderValue(m))
	}
	switch l.Kind() {
	case reflect.Slice:
		if l.Len() != m.Len() {
			return c.bad("len-mismatch", path, fmt.Sprintf("len %d, model %d (got %s, model %s)", l.Len(), m.Len(), ank.RenderValue(l), ank.RenderValue(m)))
		}
		if l.Cap() != m.Cap() {
			return c.bad("cap-mismatch", path, fmt.Sprintf("cap %d, model %d (len %d)", l.Cap(), m.Cap(), l.Len()))
		}
		if c.fast {
			return c.fastSlice(l, m, path)
		}
		if l.Cap() > 0 {
			key := [3]uintptr{l.Pointer(), m.Pointer(), uintptr(l.Len())}
			if c.seen[key] {
				return true
			}
			c.seen[key] = true
			sz := l.Type().Elem().Size()
			for k := 0; k < l.Cap(); k++ {
				if !c.link(l.Pointer()+uintptr(k)*sz, m.Pointer()+uintptr(k)*sz, path+"["+strconv.Itoa(k)+"]") {
					return false
				}
			}
		}
		for k := 0; k < l.Len(); k++ {
			if !c.cmp(l.Index(k), m.Index(k), path+"["+strconv.Itoa(k)+"]") {
				return false
			}
		}
		return true
	case reflect.Map:
		if l.Len() != m.Len() {
			return c.bad("len-mismatch", path, fmt.Sprintf("len %d, model %d (got %s, model %s)", l.Len(), m.Len(), ank.RenderValue(l), ank.RenderValue(m)))
		}
		if !l.IsNil() && !m.IsNil() {
			key := [3]uintptr{l.Pointer(), m.Pointer(), 0}
			if c.seen[key] {
				return true
			}
			c.seen[key] = true
			if !c.link(l.Pointer(), m.Pointer(), path) {
				return false
			}
		}
		if c.fast {
			if done, ok := c.fastMap(l, m, path); done {
				return ok
			}
		}
		it := m.MapRange()
		for it.Next() {
			lv := l.MapIndex(it.Key())
			kp := path + "[" + ank.RenderValue(it.Key()) + "]"
			if !lv.IsValid() {
				return c.bad("value-mismatch", kp, "key missing (got "+ank.RenderValue(l)+", model "+ank.RenderValue(m)+")")
			}
			if !c.cmp(lv, it.Value(), kp) {
				return false
			}
		}
		return true
	case reflect.Struct:
		for i := 0; i < m.NumField(); i++ {
			if !c.cmp(l.Field(i), m.Field(i), path+"."+m.Type().Field(i).Name) {
				return false
			}
		}
		return true
	case reflect.Float64:
		if math.Float64bits(l.Float()) != math.Float64bits(m.Float()) {
			return c.bad("value-mismatch", path, "got "+ank.RenderValue(l)+", model "+ank.RenderValue(m))
		}
		return true
	case reflect.Float32:
		if math.Float32bits(float32(l.Float())) != math.Float32bits(float32(m.Float())) {
			return c.bad("value-mismatch", path, "got "+ank.RenderValue(l)+", model "+ank.RenderValue(m))
		}
		return true
	case reflect.Int64, reflect.String, reflect.Bool, reflect.Int, reflect.Int8, reflect.Int16, reflect.Int32,
		reflect.Uint, reflect.Uint8, reflect.Uint16, reflect.Uint32, reflect.Uint64:
		if l.Interface() != m.Interface() {
			return c.bad("value-mismatch", path, "got "+ank.RenderValue(l)+", model "+ank.RenderValue(m))
		}
		return true
	}
	return c.bad("type-mismatch", path, "unexpected kind "+l.Kind().String())
}

// ---- history: live environment + model ----

type c10Var struct {
	name string
	h    reflect.Value // addressable holder: interface{} slot, or the struct value itself
}

func (v *c10Var) cur() reflect.Value {
	if v.h.Kind() == reflect.Interface {
		return c10Unwrap(v.h)
	}
	return v.h
}

// c10Place designates a container: a variable, optionally one selector deep.
type c10Place struct {
	root string
	sel  byte // 0 none, 'i' slice element, 'f' struct field, 'k' map entry, 's' slice expression root[i:j] (a temporary header sharing root's storage)
	i    int
	j    int
	f    string
	k    c10Val
	// sf: the container is field sf of the struct VALUE that root[i] / root[k] holds (a struct
	// value inside an untyped list or map: `a[0].C`). The field can be read and the storage of
	// the slice / map in it can be written; the field itself cannot be assigned (c10_r5.go)
	sf string
}

func c10P(root string) c10Place { return c10Place{root: root} }

func (p c10Place) src() string {
	if p.sf != "" {
		q := p
		q.sf = ""
		return q.src() + "." + p.sf
	}
	switch p.sel {
	case 'i':
		return p.root + "[" + strconv.Itoa(p.i) + "]"
	case 'f':
		return p.root + "." + p.f
	case 'k':
		return p.root + "[" + p.k.src + "]"
	case 's':
		return p.root + "[" + strconv.Itoa(p.i) + ":" + strconv.Itoa(p.j) + "]"
	}
	return p.root
}

func (p c10Place) kind() string {
	if p.sf != "" {
		return "field-of-struct-element"
	}
	switch p.sel {
	case 'i', 'k':
		return "nested"
	case 'f':
		return "field"
	case 's':
		return "sliceexpr"
	}
	return "var"
}

type c10Hist struct {
	c     *wk.Case
	env   *env.Env
	vars  map[string]*c10Var
	names []string
	log   []string
	nOK   int // operations that succeeded and changed or read state
	nMut  int
	nErr  int
	dead  bool
	facts []c10Factory    // script functions returning a literal (c10_lit.go)
	fast  bool            // round 8: range-linking walker (c10_r8.go)
	ctx   context.Context // round 8: operations run under this context when set
	host  *c10R7Host      // what the host functions of c10_r7.go received
}

func newC10Hist(c *wk.Case) *c10Hist {
	h := &c10Hist{c: c, env: ank.NewCoreEnv(), vars: map[string]*c10Var{}}
	c10R6Bind(h.env) // host-typed numbers and the type names int8 / int16 / uint16 (c10_r6.go)
	c10R7Bind(h)     // host functions that receive / return containers (c10_r7.go)
	o := ank.Exec(h.env, c10Prelude)
	if o.Err != nil || o.Panicked {
		c.Inconclusive("prelude-failed", ank.ErrText(o.Err)+o.PanicVal, c10Prelude)
		h.dead = true
	}
	return h
}

// script functions that mutate / read their parameter
const c10Prelude = `func c10set(x, i, v) { x[i] = v }
func c10app(x, v) { x += v; return x }
func c10del(x, k) { delete(x, k) }
func c10get(x, i) { return x[i] }
func c10sl(x, i, j) { return x[i:j] }` + c10PreludeR5 + c10PreludeR7

func c10KeyValue(k interface{}, kt reflect.Type) reflect.Value {
	if k == nil {
		return reflect.Zero(kt)
	}
	return reflect.ValueOf(k)
}

func c10Select(cur reflect.Value, p c10Place) reflect.Value {
	if p.sf != "" {
		q := p
		q.sf = ""
		el := c10Unwrap(c10Select(cur, q))
		if !el.IsValid() || el.Kind() != reflect.Struct {
			return reflect.Value{}
		}
		return el.FieldByName(p.sf)
	}
	cur = c10Unwrap(cur)
	if !cur.IsValid() {
		return cur
	}
	switch p.sel {
	case 'i':
		if cur.Kind() != reflect.Slice || p.i < 0 || p.i >= cur.Len() {
			return reflect.Value{}
		}
		return cur.Index(p.i)
	case 'f':
		if cur.Kind() != reflect.Struct {
			return reflect.Value{}
		}
		return cur.FieldByName(p.f)
	case 's':
		if cur.Kind() != reflect.Slice || p.i < 0 || p.i > p.j || p.j > cur.Len() {
			return reflect.Value{}
		}
		return cur.Slice3(p.i, p.j, cur.Cap())
	case 'k':
		if cur.Kind() != reflect.Map {
			return reflect.Value{}
		}
		kv := c10KeyValue(p.k.v, cur.Type().Key())
		if !kv.Type().AssignableTo(cur.Type().Key()) {
			return reflect.Value{}
		}
		return cur.MapIndex(kv)
	}
	return cur
}

// mget returns the model container a place designates (unwrapped; invalid if none).
func (h *c10Hist) mget(p c10Place) reflect.Value {
	v := h.vars[p.root]
	if v == nil {
		return reflect.Value{}
	}
	return c10Unwrap(c10Select(v.cur(), p))
}

// mset rebinds the place in the model (what the Go assignment `place = nv` does).
func (h *c10Hist) mset(p c10Place, nv reflect.Value) {
	v := h.vars[p.root]
	if p.sf != "" {
		return // the field of a struct value inside a list / map is not assignable (never reached: the operations say so)
	}
	switch p.sel {
	case 0:
		v.h.Set(nv)
	case 'i':
		v.cur().Index(p.i).Set(nv)
	case 'f':
		v.h.FieldByName(p.f).Set(nv)
	case 'k':
		m := v.cur()
		m.SetMapIndex(c10KeyValue(p.k.v, m.Type().Key()), nv)
	}
}

// lget returns the live container a place designates.
func (h *c10Hist) lget(p c10Place) reflect.Value {
	lv, err := h.env.Get(p.root)
	if err != nil {
		return reflect.Value{}
	}
	return c10Unwrap(c10Select(reflect.ValueOf(lv), p))
}

// declare adds a model variable bound to v (struct values get their own addressable copy).
func (h *c10Hist) declare(name string, v reflect.Value) {
	var hold reflect.Value
	if v.Kind() == reflect.Struct {
		hold = reflect.New(v.Type()).Elem()
	} else {
		hold = reflect.New(c10IfaceT).Elem()
	}
	hold.Set(v)
	if _, ok := h.vars[name]; !ok {
		h.names = append(h.names, name)
		sort.Strings(h.names)
	}
	h.vars[name] = &c10Var{name: name, h: hold}
}

// c10Op is one operation: its source, the verdict the Go model demands, and the
// model-side effect applied when the live operation succeeded.
type c10Op struct {
	src     string
	opk     string // operation kind (signature part)
	ck      string // container kind (signature part)
	sigck   string // replaces ck in the signature when set (phase conv: slot kind <- value kind)
	pk      string // place kind (tag only)
	wantErr bool
	why     string // class of the demanded error
	either  bool   // statement silent: error+unchanged and success both accepted
	mut     bool
	commit  func(res reflect.Value) // apply the Go operation to the model; res = live result (capacity adoption only)
	hasVal  bool
	vals    func() []reflect.Value // acceptable results (evaluated after commit)
	itag    string
	pre     func() // host-side action run before the source (binding a host value)
	waits   bool   // the source starts a goroutine and waits for its signal
}

func (h *c10Hist) input(op *c10Op) map[string]interface{} {
	return map[string]interface{}{"history": h.log, "failing_op": op.src}
}

func (h *c10Hist) viol(op *c10Op, class, detail string) {
	ck := op.ck
	if op.sigck != "" {
		ck = op.sigck
	}
	sig := op.opk + ":" + ck + ":" + class
	if class == "error-but-mutated" {
		sig = "error-but-mutated:" + op.opk + ":" + ck
	}
	h.c.Violation(sig, "op `"+op.src+"`: "+detail, h.input(op))
	h.dead = true
}

// compareState walks every variable of the live environment against the model.
func (h *c10Hist) compareState() (*c10Cmp, bool) {
	cm := newC10Cmp()
	cm.fast = h.fast
	for _, name := range h.names {
		lv, err := h.env.Get(name)
		if err != nil {
			cm.bad("var-lost", name, err.Error())
			return cm, false
		}
		if !cm.cmp(reflect.ValueOf(lv), h.vars[name].cur(), name) {
			return cm, false
		}
	}
	return cm, true
}

// exec runs one operation on the live environment, judges it, and advances the model.
func (h *c10Hist) exec(op *c10Op) bool {
	if op == nil || h.dead {
		return !h.dead
	}
	c := h.c
	c.Begin(map[string]interface{}{"n": len(h.log), "src": op.src})
	if op.pre != nil {
		op.pre()
	}
	var o ank.Out
	if op.waits {
		// the source waits for a goroutine it started (c10_r7.go): a wait that never ends is
		// cut off and reported as inconclusive, never judged
		ctx, cancel := context.WithTimeout(context.Background(), c10GoWaitLimit)
		o = ank.ExecCtx(ctx, h.env, op.src)
		expired := ctx.Err() != nil
		cancel()
		if expired {
			h.log = append(h.log, c10R8Clip(op.src, 4000))
			c.Inconclusive("go-call-never-signalled", "op `"+op.src+"`: "+ank.ErrText(o.Err), h.input(op))
			h.dead = true
			return false
		}
	} else if h.ctx != nil {
		o = ank.ExecCtx(h.ctx, h.env, op.src)
	} else {
		o = ank.Exec(h.env, op.src)
	}
	h.log = append(h.log, c10R8Clip(op.src, 4000))
	c.Events(1)
	c.Tag("op:"+op.opk+":"+op.ck, "place:"+op.pk)
	if op.itag != "" {
		c.Tag(strings.Split("index:"+op.itag, "|")...)
	}
	if o.Panicked {
		h.viol(op, "panic", "panic "+o.PanicSig)
		return false
	}
	if op.wantErr || (op.either && o.Err != nil) {
		if o.Err == nil {
			h.viol(op, "noerror-"+op.why, "the Go operation fails ("+op.why+") but the script reported no error; result "+ank.Render(o.Val))
			return false
		}
		h.nErr++
		c.Tag("outcome:error:" + op.why)
		if cm, ok := h.compareState(); !ok {
			h.viol(op, "error-but-mutated", "error `"+o.Err.Error()+"` but a container changed ["+cm.fail+"]: "+cm.detail)
			return false
		}
		return true
	}
	if o.Err != nil {
		h.viol(op, "unexpected-error", "the Go operation succeeds but the script reported `"+o.Err.Error()+"`")
		return false
	}
	c.Tag("outcome:ok")
	h.nOK++
	if op.mut {
		h.nMut++
	}
	if op.commit != nil {
		op.commit(reflect.ValueOf(o.Val))
	}
	cm, ok := h.compareState()
	if !ok {
		h.viol(op, cm.fail, cm.detail)
		return false
	}
	if op.hasVal {
		alts := op.vals()
		if alts == nil {
			c.Tag("result:not-judged")
			return true
		}
		var first *c10Cmp
		for _, a := range alts {
			cc := cm.clone()
			if cc.cmp(reflect.ValueOf(o.Val), a, "result") {
				return true
			}
			if first == nil {
				first = cc
			}
		}
		h.viol(op, "result-"+first.fail, first.detail)
		return false
	}
	return true
}

func (h *c10Hist) finish() {
	src := strings.Join(h.log, "\n")
	h.c.Eval(src, len(h.log) >= 3 && h.nMut >= 1)
	if h.c.WantSample() {
		h.c.Sample(map[string]interface{}{"history": h.log, "ok": h.nOK, "errors": h.nErr})
	}
}

// ---- operations ----

// c10Idx is one value of the index universe for slices and strings.
type c10Idx struct {
	src   string
	isInt bool
	n     int64
	tag   string
	// a string holding a decimal numeral: the statement does not say whether it
	// is an index at all. Accepted: an error leaving everything unchanged, or
	// exactly what the integer it spells does - nothing else (never another element)
	numStr bool
}

func c10IdxNumStr(n int64) c10Idx {
	return c10Idx{src: strconv.Quote("0" + strconv.FormatInt(n, 10)), isInt: true, n: n, tag: "decimal-numeral-string", numStr: true}
}

func c10IdxInt(n int64, tag string) c10Idx {
	return c10Idx{src: strconv.FormatInt(n, 10), isInt: true, n: n, tag: tag}
}
func c10IdxBad(v c10Val, tag string) c10Idx { return c10Idx{src: v.src, tag: tag} }

func (h *c10Hist) bind(name string, v reflect.Value) {
	if mv, ok := h.vars[name]; ok && mv.h.Kind() == reflect.Interface {
		mv.h.Set(v)
		return
	}
	h.declare(name, v)
}

func (h *c10Hist) newOp(opk string, p c10Place, src string) (*c10Op, reflect.Value) {
	cont := h.mget(p)
	ck := c10Class(cont)
	if cont.IsValid() && (cont.Kind() == reflect.Slice || cont.Kind() == reflect.Map) && cont.IsNil() {
		ck = "nil-" + ck // a zero element of make([]map..) / make([][]T..), a field or name set to nil
	}
	if p.sel == 's' {
		opk = "sliceexpr-" + opk
	}
	if p.sf != "" {
		opk = "structelem-" + opk
	}
	return &c10Op{src: src, opk: opk, ck: ck, pk: p.kind()}, cont
}

// Defects of the unchanged tree reported in /tmp/strengthen/C10-genuine.md; the input
// class is kept out of the generator until /repo is repaired, then flip to false.
const (
	// `a[i:j][len] = v`: the statement fails ("slice cannot be assigned") after the
	// appended value was already written into the capacity a[i:j] shares with a
	c10PendingFix_SliceExprAppend = false
	// `ns += [ts]` on a typed slice of slices stores a COPY of ts (convertSliceElements
	// rebuilds inner slices), `ns[len(ns)] = ts` and Go's append(ns, ts) store the reference
	c10PendingFix_AppendCopiesInner = false
	// delete(m, k) with an unhashable / ill-typed key reports no error when m is a nil map
	// (runDeleteStmt returns before it looks at the key)
	c10PendingFix_DeleteNilMapBadKey = false
	// C10-r4-genuine.md: `x = l[0]` / `x = m[k]` where the element is a struct value binds x to a
	// struct that is not addressable: every `x.F = v` fails with "struct member 'F' cannot be
	// assigned" although the field accepts the value (fixed history 21)
	c10PendingFix_StructFromElement = false
)

// opInit: `name = <fresh value>`.
func (h *c10Hist) opInit(name string, v c10Val) *c10Op {
	mv := reflect.ValueOf(v.v)
	return &c10Op{src: name + " = " + v.src, opk: "init", ck: c10Class(mv), pk: "var", mut: true,
		commit: func(reflect.Value) { h.bind(name, mv) }}
}

// opInitStruct: `name = make(struct{...})`. The statement does not say what a made
// struct holds initially beyond Go's zero values; empty non-nil slice/map fields
// are equivalent to nil ones for every operation generated here (the walker
// compares len/cap/contents, not nil-ness).
func (h *c10Hist) opInitStruct(name string) *c10Op {
	sh := c10ShapeOf[name]
	if sh.host {
		// the host binds a pointer to a zero anonymous Go struct (nil slice / map fields on both sides)
		ptr := reflect.New(sh.t)
		return &c10Op{src: "# host: env.Define(\"" + name + "\", &" + sh.t.String() + "{})", opk: "init", ck: "host-struct", pk: "var", mut: true,
			pre:    func() { _ = h.env.Define(name, ptr.Interface()) },
			commit: func(reflect.Value) { h.declare(name, reflect.New(sh.t).Elem()) }}
	}
	return &c10Op{src: name + " = " + sh.src, opk: "init", ck: "struct", pk: "var", mut: true,
		commit: func(reflect.Value) {
			sv := reflect.New(sh.t).Elem()
			for i := 0; i < sh.t.NumField(); i++ {
				switch ft := sh.t.Field(i).Type; ft.Kind() {
				case reflect.Slice:
					sv.Field(i).Set(reflect.MakeSlice(ft, 0, 0))
				case reflect.Map:
					sv.Field(i).Set(reflect.MakeMap(ft))
				}
			}
			h.declare(name, sv)
		}}
}

func c10One(v reflect.Value) func() []reflect.Value {
	return func() []reflect.Value { return []reflect.Value{v} }
}

// opRead: `p[ix]` (or c10get(p, ix)) on a slice or string.
func (h *c10Hist) opRead(p c10Place, ix c10Idx, viaCall bool) *c10Op {
	src := p.src() + "[" + ix.src + "]"
	opk := "index-read"
	if viaCall {
		src, opk = "c10get("+p.src()+", "+ix.src+")", "call-index-read"
	}
	op, cont := h.newOp(opk, p, src)
	op.itag = ix.tag
	op.either = ix.numStr
	if !cont.IsValid() || (cont.Kind() != reflect.Slice && cont.Kind() != reflect.String) {
		return nil
	}
	switch {
	case !ix.isInt:
		op.wantErr, op.why = true, "nonnumeric-index"
	case ix.n < 0 || ix.n >= int64(cont.Len()):
		op.wantErr, op.why = true, "out-of-range"
	default:
		op.hasVal = true
		if cont.Kind() == reflect.String {
			b := cont.String()[ix.n]
			if b >= 0x80 {
				// Go yields a byte; how a non-ASCII byte is spelled as a script value is not stated
				op.vals = func() []reflect.Value { return nil }
			} else {
				op.vals = c10One(reflect.ValueOf(string([]byte{b})))
			}
		} else {
			el := cont.Index(int(ix.n))
			op.vals = c10One(reflect.ValueOf(el.Interface()))
		}
	}
	return op
}

// growTo builds append(base, items...) in the model. In capacity it writes into
// the shared array (Go's rule); otherwise it allocates, taking the capacity from
// the live result (Go leaves the new capacity unspecified).
func c10AppendModel(base reflect.Value, items []reflect.Value, live reflect.Value) reflect.Value {
	ol, n := base.Len(), base.Len()+len(items)
	var r reflect.Value
	if n <= base.Cap() {
		r = base.Slice3(0, n, base.Cap())
	} else {
		c := n
		if live.IsValid() && live.Kind() == reflect.Slice && live.Cap() >= n {
			c = live.Cap()
		}
		r = reflect.MakeSlice(base.Type(), n, c)
		reflect.Copy(r, base)
	}
	for i, it := range items {
		r.Index(ol + i).Set(it)
	}
	return r
}

// opWrite: `p[ix] = v` (or c10set(p, ix, v)) on a slice or string; ix == len appends.
func (h *c10Hist) opWrite(p c10Place, ix c10Idx, v c10Val, viaCall bool) *c10Op {
	src := p.src() + "[" + ix.src + "] = " + v.src
	opk := "index-write"
	if viaCall {
		src, opk = "c10set("+p.src()+", "+ix.src+", "+v.src+")", "call-index-write"
	}
	op, cont := h.newOp(opk, p, src)
	op.itag = ix.tag
	op.either = ix.numStr
	if !cont.IsValid() || (cont.Kind() != reflect.Slice && cont.Kind() != reflect.String) {
		return nil
	}
	atLen := ix.isInt && ix.n == int64(cont.Len())
	if atLen {
		op.opk = strings.Replace(op.opk, "index-write", "append-at-len", 1)
	}
	idxErr := ""
	switch {
	case !ix.isInt:
		idxErr = "nonnumeric-index"
	case ix.n < 0 || ix.n > int64(cont.Len()):
		idxErr = "out-of-range"
	}
	switch cont.Kind() {
	case reflect.String:
		if p.sf != "" {
			return nil // a store into a string rebuilds the string and assigns it to the (unassignable) field: kept out
		}
		s, isStr := v.v.(string)
		switch {
		case isStr && atLen:
		case isStr && len(s) == 1 && s[0] < 0x80:
		case isStr:
			return nil // multi-byte / empty store into a position: excluded
		case v.v == nil || v.tag == "int":
			return nil // nil / int -> string: excluded
		case c10IsRunesOrBytes(v.v):
			return nil // Go converts []byte / []rune to a string: excluded like the multi-byte stores
		default:
			op.wantErr, op.why = true, "unconvertible-value"
		}
		if idxErr != "" {
			op.wantErr, op.why = true, idxErr
		}
		if op.wantErr {
			return op
		}
		op.mut = true
		if viaCall {
			op.commit = nil // a string is a value: the callee changed its own copy
			return op
		}
		old := cont.String()
		nv := old + s
		if !atLen {
			nv = old[:ix.n] + s + old[ix.n+1:]
		}
		op.commit = func(reflect.Value) { h.mset(p, reflect.ValueOf(nv)) }
		return op
	case reflect.Slice:
		cv, st, fresh := c10Conv(v.v, cont.Type().Elem())
		if st == c10CvExcl || (st == c10CvEither && fresh && !c10FreshStorable(cv, atLen)) {
			return nil
		}
		if st == c10CvErr {
			op.wantErr, op.why = true, "unconvertible-value"
		}
		if idxErr != "" {
			op.wantErr, op.why = true, idxErr
		}
		if op.wantErr {
			return op
		}
		op.mut = true
		if st == c10CvEither {
			op.either, op.why = true, c10WhyLossy // a wrapping integer / a string read as a character: the value, or an error
			if fresh {
				op.why = c10WhyContainerConv // a map / slice of another type: the element-wise converted container, or an error (c10_r7.go)
			}
		}
		if !atLen {
			op.commit = func(reflect.Value) {
				if fresh && cv.Kind() == reflect.Slice {
					// the capacity of a converted copy is not specified: adopt the live one
					if l := h.lget(p); l.IsValid() && l.Kind() == reflect.Slice && int(ix.n) < l.Len() {
						cv = c10AdoptCap(cv, c10Unwrap(l.Index(int(ix.n))))
					}
				}
				cont.Index(int(ix.n)).Set(cv)
			}
			return op
		}
		if p.sel == 's' {
			// `a[i:j][len] = v` is `a[i:j] = append(a[i:j], v)`, and a slice expression cannot
			// be assigned. Accepted: an error leaving everything unchanged, or what Go's
			// `_ = append(a[i:j], v)` does (the value lands in shared spare capacity, if any)
			if c10PendingFix_SliceExprAppend {
				return nil
			}
			op.either, op.why = true, "append-to-slice-expression"
			op.commit = func(reflect.Value) {
				if cont.Len() < cont.Cap() {
					c10AppendModel(cont, []reflect.Value{cv}, reflect.Value{})
				}
			}
			return op
		}
		if p.sf != "" && !viaCall {
			// `a[0].C[len] = v` is `a[0].C = append(a[0].C, v)`, and the field of a struct VALUE held
			// by a list / map element cannot be assigned (Go rejects the assignment). Accepted like
			// the slice-expression target: an error leaving everything unchanged - also the spare
			// capacity a longer slice shares - or what Go's `_ = append(a[0].C, v)` does
			if c10PendingFix_AppendOntoOwnElement && c10SpareIsOwnElement(h.mget(c10P(p.root)), p, cont) {
				return nil // the appended value would land on the element that holds the struct (c10_r6.go)
			}
			op.either, op.why = true, "append-through-unassignable-field"
			op.commit = func(reflect.Value) {
				if cont.Len() < cont.Cap() {
					c10AppendModel(cont, []reflect.Value{cv}, reflect.Value{})
				}
			}
			return op
		}
		op.commit = func(reflect.Value) {
			if viaCall {
				// x = append(x, v) on the callee's copy of the header: visible only in shared capacity
				if cont.Len() < cont.Cap() {
					c10AppendModel(cont, []reflect.Value{cv}, reflect.Value{})
				}
				return
			}
			r := c10AppendModel(cont, []reflect.Value{cv}, h.lget(p))
			h.mset(p, r)
		}
		return op
	}
	return nil
}

// opAppend: form "+=" (`p += rhs`), "=+" (`p = p + rhs`), "d=" (`dst = p + rhs`),
// "expr" (`p + rhs`, result only), "call" (`dst = c10app(p, rhs)`).
// A slice rhs is concatenated, any other rhs is appended as one element.
func (h *c10Hist) opAppend(form, dst string, p c10Place, rhs c10Val) *c10Op {
	var src string
	destP := p
	switch form {
	case "+=":
		src = p.src() + " += " + rhs.src
	case "=+":
		src = p.src() + " = " + p.src() + " + " + rhs.src
	case "d=":
		src, destP = dst+" = "+p.src()+" + "+rhs.src, c10P(dst)
	case "expr":
		src = p.src() + " + " + rhs.src
	case "call":
		src, destP = dst+" = c10app("+p.src()+", "+rhs.src+")", c10P(dst)
	}
	if destP.sf != "" && (form == "+=" || form == "=+") {
		// `a[0].C += v`: the append may already have written into shared spare capacity when the
		// assignment to the unassignable field fails - error-and-unchanged and Go's append
		// expression pull in different directions: kept out
		return nil
	}
	op, cont := h.newOp("append", p, src)
	if form == "call" {
		op.opk = "call-append"
	}
	if !cont.IsValid() {
		return nil
	}
	if cont.Kind() == reflect.String {
		s, ok := rhs.v.(string)
		if !ok {
			return nil // string + non-string is the arithmetic tower's business (C05)
		}
		nv := reflect.ValueOf(cont.String() + s)
		op.mut = form != "expr"
		if form == "expr" {
			op.hasVal, op.vals = true, c10One(nv)
		} else {
			op.commit = func(reflect.Value) {
				if destP.sel == 0 {
					h.bind(destP.root, nv)
				} else {
					h.mset(destP, nv)
				}
			}
		}
		return op
	}
	if cont.Kind() != reflect.Slice {
		return nil
	}
	var raw []interface{}
	if rv := reflect.ValueOf(rhs.v); rhs.v != nil && rv.Kind() == reflect.Slice {
		et, rt := cont.Type().Elem(), rv.Type().Elem()
		isCont := func(k reflect.Kind) bool { return k == reflect.Slice || k == reflect.Map }
		if rv.Len() == 0 && et != rt && rt.Kind() != reflect.Interface && et.Kind() != reflect.Interface && (isCont(et.Kind()) || isCont(rt.Kind())) {
			// an EMPTY typed list whose elements are slices / maps of another type than the
			// left operand's elements (or not containers at all): whether the types or the
			// (absent) elements decide is not stated
			return nil
		}
		for i := 0; i < rv.Len(); i++ {
			x := rv.Index(i).Interface()
			if x == nil && et.Kind() != reflect.Interface {
				return nil // a nil inside a list appended to a typed slice: kept out (only `slot = nil` / `s += nil` are generated)
			}
			raw = append(raw, x)
		}
	} else {
		raw = []interface{}{rhs.v}
	}
	items := make([]reflect.Value, len(raw))
	firstBad := -1
	lossy := false
	for i, x := range raw {
		cv, st, fresh := c10Conv(x, cont.Type().Elem())
		switch st {
		case c10CvExcl:
			return nil
		case c10CvEither:
			if fresh && !c10FreshStorable(cv, true) {
				return nil
			}
			lossy = true
		case c10CvErr:
			op.wantErr, op.why = true, "unconvertible-value"
			if firstBad < 0 {
				firstBad = i
			}
		}
		items[i] = cv
	}
	// Signature refinement only (the oracle is the same): a slice operand of another
	// element type is appended by a converting loop; the situations in which a loop
	// that appends one element at a time can differ observably from one Go append get
	// their own operation kind so that a listed finding there cannot hide other appends.
	if rv := reflect.ValueOf(rhs.v); rhs.v != nil && rv.Kind() == reflect.Slice && rv.Type().Elem() != cont.Type().Elem() {
		if c10PendingFix_AppendCopiesInner && cont.Type().Elem().Kind() == reflect.Slice {
			for _, it := range items {
				if it.IsValid() && it.Kind() == reflect.Slice && it.Cap() > 0 {
					return nil // `ns += [ts]`: Go appends the reference, the live append copies ts
				}
			}
		}
		op.opk += "-converting"
		room := cont.Cap() - cont.Len()
		switch {
		case op.wantErr && firstBad > 0 && room > 0:
			op.opk += "-partial"
		case !op.wantErr && room > 0 && len(items) > room:
			op.opk += "-overflow"
		}
	}
	if op.wantErr {
		return op
	}
	op.mut = true
	if lossy {
		op.either, op.why = true, c10WhyLossy
	}
	var result reflect.Value
	op.commit = func(res reflect.Value) {
		live := res
		if form != "expr" {
			live = h.lget(destP)
		}
		result = c10AppendModel(cont, items, live)
		if form == "expr" {
			return
		}
		if destP.sel == 0 {
			h.bind(destP.root, result)
		} else {
			h.mset(destP, result)
		}
	}
	if form == "expr" {
		op.hasVal = true
		op.vals = func() []reflect.Value { return []reflect.Value{result} }
	}
	return op
}

// opSlice: `[dst =] p[lo:hi:mx]` (nil = omitted) or `dst = c10sl(p, lo, hi)`.
func (h *c10Hist) opSlice(dst string, p c10Place, lo, hi, mx *c10Idx, viaCall bool) *c10Op {
	part := func(x *c10Idx) string {
		if x == nil {
			return ""
		}
		return x.src
	}
	expr := p.src() + "[" + part(lo) + ":" + part(hi)
	if mx != nil {
		expr += ":" + mx.src
	}
	expr += "]"
	opk := "slice2"
	if mx != nil {
		opk = "slice3"
	}
	if viaCall {
		if lo == nil || hi == nil || mx != nil {
			return nil
		}
		expr, opk = "c10sl("+p.src()+", "+lo.src+", "+hi.src+")", "call-slice2"
	}
	if lo == nil && hi == nil {
		return nil // `a[:]` is not in the script grammar
	}
	src := expr
	if dst != "" {
		src = dst + " = " + expr
	}
	op, cont := h.newOp(opk, p, src)
	if !cont.IsValid() || (cont.Kind() != reflect.Slice && cont.Kind() != reflect.String) {
		return nil
	}
	n, cp := int64(cont.Len()), int64(cont.Len())
	if cont.Kind() == reflect.Slice {
		cp = int64(cont.Cap())
	}
	tags := []string{}
	for _, x := range []*c10Idx{lo, hi, mx} {
		if x == nil {
			tags = append(tags, "-")
		} else {
			tags = append(tags, x.tag)
		}
	}
	op.itag = "low:" + tags[0] + "|index:high:" + tags[1] + "|index:max:" + tags[2]
	l, hh, m := int64(0), n, cp
	nonnum := false
	for _, x := range []*c10Idx{lo, hi, mx} {
		if x != nil && !x.isInt {
			nonnum = true
		}
	}
	if lo != nil {
		l = lo.n
	}
	if hi != nil {
		hh = hi.n
	}
	if mx != nil {
		m = mx.n
	}
	if !nonnum && hi != nil && hh > n && hh <= cp {
		return nil // high bound in (len, cap]: excluded (statement ambiguous)
	}
	switch {
	case cont.Kind() == reflect.String && mx != nil:
		op.wantErr, op.why = true, "slice3-on-string"
	case nonnum:
		op.wantErr, op.why = true, "nonnumeric-index"
	case l < 0 || hh > cp || l > hh || (mx != nil && (m < hh || m > cp)):
		op.wantErr, op.why = true, "out-of-range"
	}
	if op.wantErr {
		return op
	}
	var res reflect.Value
	if cont.Kind() == reflect.String {
		res = reflect.ValueOf(cont.String()[l:hh])
	} else {
		res = cont.Slice3(int(l), int(hh), int(m))
	}
	if dst == "" {
		op.hasVal, op.vals = true, c10One(res)
	} else {
		op.mut = true
		op.commit = func(reflect.Value) { h.bind(dst, res) }
	}
	return op
}

// opLen: `len(p)`.
func (h *c10Hist) opLen(p c10Place) *c10Op {
	op, cont := h.newOp("len", p, "len("+p.src()+")")
	if !cont.IsValid() || (cont.Kind() != reflect.Slice && cont.Kind() != reflect.Map && cont.Kind() != reflect.String) {
		return nil
	}
	op.hasVal, op.vals = true, c10One(reflect.ValueOf(int64(cont.Len())))
	return op
}

// c10EqClass: 1 equal, 0 unequal, -1 not decidable from the statement (cross-kind
// scalar comparisons are C06's relation, not Go's ==). Two numbers of different Go
// types (a script literal against an element of a typed slice) are never Go-equal
// as interface values and are script-equal when they denote the same number: -1
// when they do, 0 when they do not - a needle that no element equals under either
// relation is not `in` the list.
func c10EqClass(needle, e interface{}) int {
	if needle == nil || e == nil {
		if needle == nil && e == nil {
			return 1
		}
		if x := reflect.ValueOf(e); x.IsValid() && (x.Kind() == reflect.Slice || x.Kind() == reflect.Map) && x.IsNil() {
			return -1 // nil against a nil typed slice / map: unequal as Go interface values, equal for the script's ==
		}
		if x := reflect.ValueOf(needle); x.IsValid() && (x.Kind() == reflect.Slice || x.Kind() == reflect.Map) && x.IsNil() {
			return -1
		}
		return 0
	}
	nt, et := reflect.TypeOf(needle), reflect.TypeOf(e)
	scalar := func(k reflect.Kind) bool {
		return c10IsNumKind(k) || k == reflect.String || k == reflect.Bool
	}
	if nt == et && scalar(nt.Kind()) {
		if needle == e {
			return 1
		}
		return 0
	}
	if c10IsNumKind(nt.Kind()) && c10IsNumKind(et.Kind()) {
		return c10NumEqClass(reflect.ValueOf(needle), reflect.ValueOf(e))
	}
	if scalar(et.Kind()) || nt.Kind() == reflect.Bool {
		return -1
	}
	return 0
}

// c10NumEqClass compares two numbers of different Go types by the number they denote:
// -1 the same number (or not decidable here), 0 different numbers.
func c10NumEqClass(a, b reflect.Value) int {
	af, bf := c10IsFloatKind(a.Kind()), c10IsFloatKind(b.Kind())
	mag := func(v reflect.Value) (neg bool, m uint64) {
		if c10IsUintKind(v.Kind()) {
			return false, v.Uint()
		}
		if v.Int() < 0 {
			return true, uint64(-v.Int())
		}
		return false, uint64(v.Int())
	}
	switch {
	case !af && !bf:
		an, am := mag(a)
		bn, bm := mag(b)
		if (am >= 1<<62 || bm >= 1<<62) && c10PendingFix_InUnsignedWraps {
			// how a 64-bit unsigned and a negative number compare is C06's relation; but -1 and
			// 18446744073709551615 are two numbers under every reading, and `-1 in a` answers true
			// today (C10-r6-genuine.md): judged like every other pair once that is repaired
			return -1
		}
		if an == bn && am == bm {
			return -1
		}
		return 0
	case af && bf:
		// float32 against float64: the same number, or the same number once the wider one
		// is rounded to float32 (the script may compare the two widths loosely) -> -1
		x, y := a.Float(), b.Float()
		if x == y || float32(x) == float32(y) {
			return -1
		}
		return 0
	}
	if af {
		a, b = b, a
	}
	// a integer, b float: exact while the integer fits a float64 mantissa
	_, am := mag(a)
	if am > 1<<53 {
		return -1
	}
	var x float64
	if c10IsUintKind(a.Kind()) {
		x = float64(a.Uint())
	} else {
		x = float64(a.Int())
	}
	if x == b.Float() {
		return -1
	}
	return 0
}

// opIn: `v in p` on a slice.
func (h *c10Hist) opIn(v c10Val, p c10Place) *c10Op {
	op, cont := h.newOp("in", p, v.src+" in "+p.src())
	if !cont.IsValid() || cont.Kind() != reflect.Slice {
		return nil
	}
	if rc := h.mget(c10P(p.root)); (p.sel == 'i' && !(rc.IsValid() && rc.Kind() == reflect.Slice && rc.Type().Elem().Kind() != reflect.Interface)) ||
		p.sel == 'k' || (p.sel == 'f' && p.f == "E") {
		// the right operand sits in an interface-typed slot: `in` does not see through it
		// today, which is C20's finding (a value behaves the same wherever it came from)
		return nil
	}
	if v.v != nil {
		if k := reflect.TypeOf(v.v).Kind(); k == reflect.Slice || k == reflect.Map {
			return nil
		}
	}
	found, amb := false, false
	for i := 0; i < cont.Len(); i++ {
		switch c10EqClass(v.v, cont.Index(i).Interface()) {
		case 1:
			found = true
		case -1:
			amb = true
		}
	}
	op.hasVal = true
	if !found && amb {
		op.vals = func() []reflect.Value { return nil }
	} else {
		op.vals = c10One(reflect.ValueOf(found))
	}
	return op
}

// opAssign: `dst = p` — slices and maps are reference values, strings are values.
func (h *c10Hist) opAssign(dst string, p c10Place) *c10Op {
	op, cont := h.newOp("assign", p, dst+" = "+p.src())
	if !cont.IsValid() || cont.Kind() == reflect.Struct {
		return nil // copying vs aliasing of struct values: excluded
	}
	op.mut = true
	op.commit = func(reflect.Value) { h.bind(dst, cont) }
	return op
}

// ---- map operations ----

func c10IsIdent(s string) bool {
	if s == "" {
		return false
	}
	for i, r := range s {
		if !(r == '_' || (r >= 'a' && r <= 'z') || (r >= 'A' && r <= 'Z') || (i > 0 && r >= '0' && r <= '9')) {
			return false
		}
	}
	return true
}

// c10Key classifies key k for a map with key type kt.
// st: c10CvOK usable key (kv), c10CvErr unusable (why), c10CvExcl out of domain.
func c10Key(k c10Val, kt reflect.Type, forRead bool) (kv reflect.Value, st int, why string) {
	if kt.Kind() == reflect.Interface {
		if k.v == nil {
			return reflect.Zero(kt), c10CvOK, ""
		}
		rv := reflect.ValueOf(k.v)
		if !rv.Comparable() {
			return rv, c10CvErr, "unhashable-key"
		}
		return rv, c10CvOK, ""
	}
	cv, cst, _ := c10Conv(k.v, kt)
	switch cst {
	case c10CvOK:
		if reflect.TypeOf(k.v) != kt {
			// a converting key (float -> int64): only integral values on stores; the
			// statement speaks of conversion for stores only
			f, isF := k.v.(float64)
			if forRead || !isF || f != math.Trunc(f) {
				return cv, c10CvExcl, ""
			}
		}
		return cv, c10CvOK, ""
	case c10CvErr:
		return cv, c10CvErr, "unconvertible-key"
	case c10CvEither:
		// a key the key type holds only wrapped / read as a character: stores only, the
		// converted key or an error (the statement speaks of conversion for stores only)
		if !forRead && cv.IsValid() && cv.Type() == kt {
			return cv, c10CvEither, ""
		}
	}
	return cv, c10CvExcl, ""
}

func c10MapSrc(p c10Place, k c10Val, member bool) (string, bool) {
	if member {
		s, ok := k.v.(string)
		if !ok || !c10IsIdent(s) {
			return "", false
		}
		return p.src() + "." + s, true
	}
	return p.src() + "[" + k.src + "]", true
}

// opMapRead: `p[k]`, `p.k`, c10get(p, k).
// boxKey supplies the key through a list element now and then (an
// interface-boxed key: same key value, other provenance)
func (h *c10Hist) boxKey(k c10Val, member bool) c10Val {
	if !member && h.c.Rng.Intn(3) == 0 {
		k.src = "[" + k.src + "][0]"
	}
	return k
}

func (h *c10Hist) opMapRead(p c10Place, k c10Val, member, viaCall bool) *c10Op {
	k = h.boxKey(k, member)
	src, ok := c10MapSrc(p, k, member)
	if !ok {
		return nil
	}
	opk := "map-read"
	if member {
		opk = "member-read"
	}
	if viaCall {
		src, opk = "c10get("+p.src()+", "+k.src+")", "call-map-read"
	}
	op, cont := h.newOp(opk, p, src)
	if !cont.IsValid() || cont.Kind() != reflect.Map {
		return nil
	}
	kv, st, why := c10Key(k, cont.Type().Key(), true)
	if st == c10CvExcl {
		return nil
	}
	op.itag = "key:" + k.tag
	op.hasVal = true
	if st == c10CvErr {
		if why == "unhashable-key" {
			op.vals = c10One(reflect.Value{}) // an unhashable key reads as nil
		} else {
			// a key the typed map cannot hold: "ill-typed operand => error" and "reads as nil" both defensible
			op.either, op.why = true, why
			op.vals = c10One(reflect.Value{})
		}
		return op
	}
	ev := cont.MapIndex(kv)
	if !ev.IsValid() {
		if cont.Type() == c10UMapT {
			op.vals = c10One(reflect.Value{}) // missing key reads nil
		} else {
			// typed map: the statement's nil rule is stated for script maps; Go would give the zero value
			z := reflect.Zero(cont.Type().Elem())
			op.vals = func() []reflect.Value { return []reflect.Value{{}, z} }
		}
		return op
	}
	op.vals = c10One(reflect.ValueOf(ev.Interface()))
	return op
}

// opMapWrite: `p[k] = v`, `p.k = v`, c10set(p, k, v).
func (h *c10Hist) opMapWrite(p c10Place, k, v c10Val, member, viaCall bool) *c10Op {
	k = h.boxKey(k, member)
	src, ok := c10MapSrc(p, k, member)
	if !ok {
		return nil
	}
	src += " = " + v.src
	opk := "map-write"
	if member {
		opk = "member-write"
	}
	if viaCall {
		src, opk = "c10set("+p.src()+", "+k.src+", "+v.src+")", "call-map-write"
	}
	op, cont := h.newOp(opk, p, src)
	if !cont.IsValid() || cont.Kind() != reflect.Map {
		return nil
	}
	kv, st, why := c10Key(k, cont.Type().Key(), false)
	if st == c10CvExcl {
		return nil
	}
	op.itag = "key:" + k.tag
	cv, vst, vfresh := c10Conv(v.v, cont.Type().Elem())
	if vst == c10CvExcl || (vst == c10CvEither && vfresh && !c10FreshStorable(cv, true)) {
		return nil
	}
	if vst == c10CvErr {
		op.wantErr, op.why = true, "unconvertible-value"
	}
	if st == c10CvErr {
		op.wantErr, op.why = true, why
	}
	if op.wantErr {
		return op
	}
	op.mut = true
	if st == c10CvEither || vst == c10CvEither {
		op.either, op.why = true, c10WhyLossy
		if vst == c10CvEither && vfresh {
			op.why = c10WhyContainerConv
		}
	}
	if cont.IsNil() && p.sf != "" {
		return nil // the new map would have to be assigned to an unassignable field: kept out
	}
	if cont.IsNil() {
		// Go panics on a store into a nil map, the script creates the map and binds it to
		// the place. "a store converts the value as Go would or fails with an error leaving
		// the old content": both accepted - never an unconverted value, never a host panic
		op.either, op.why = true, "store-into-nil-map"
		op.commit = func(reflect.Value) {
			if viaCall {
				return // the callee's parameter received the new map
			}
			nm := reflect.MakeMap(cont.Type())
			nm.SetMapIndex(kv, cv)
			h.mset(p, nm)
		}
		return op
	}
	op.commit = func(reflect.Value) { cont.SetMapIndex(kv, cv) }
	return op
}

// opDelete: `delete(p, k)` or c10del(p, k); on a slice it is an ill-typed operand.
func (h *c10Hist) opDelete(p c10Place, k c10Val, viaCall bool) *c10Op {
	k = h.boxKey(k, false)
	src, opk := "delete("+p.src()+", "+k.src+")", "delete"
	if viaCall {
		src, opk = "c10del("+p.src()+", "+k.src+")", "call-delete"
	}
	op, cont := h.newOp(opk, p, src)
	if !cont.IsValid() {
		return nil
	}
	if cont.Kind() == reflect.Slice {
		op.wantErr, op.why = true, "delete-on-slice"
		return op
	}
	if cont.Kind() != reflect.Map {
		return nil // delete("name") removes a variable: not a container operation
	}
	kv, st, why := c10Key(k, cont.Type().Key(), true)
	if st == c10CvExcl {
		return nil
	}
	op.itag = "key:" + k.tag
	if st == c10CvErr {
		if c10PendingFix_DeleteNilMapBadKey && cont.IsNil() {
			return nil
		}
		op.wantErr, op.why = true, why
		return op
	}
	op.mut = true
	op.commit = func(reflect.Value) {
		if !cont.IsNil() { // delete on a nil map is a no-op in Go
			cont.SetMapIndex(kv, reflect.Value{})
		}
	}
	return op
}

// ---- struct fields ----

func (h *c10Hist) opFieldRead(root, f string) *c10Op {
	p := c10P(root)
	op, cont := h.newOp("field-read", p, root+"."+f)
	if !cont.IsValid() || cont.Kind() != reflect.Struct {
		return nil
	}
	fv := cont.FieldByName(f)
	if !fv.IsValid() {
		op.wantErr, op.why = true, "unknown-field"
		return op
	}
	op.itag = "field:" + f
	op.hasVal, op.vals = true, c10One(reflect.ValueOf(fv.Interface()))
	return op
}

func (h *c10Hist) opFieldWrite(root, f string, v c10Val) *c10Op {
	p := c10P(root)
	op, cont := h.newOp("field-write", p, root+"."+f+" = "+v.src)
	if !cont.IsValid() || cont.Kind() != reflect.Struct {
		return nil
	}
	if v.v != nil && reflect.TypeOf(v.v).Kind() == reflect.Struct {
		return nil
	}
	fv := cont.FieldByName(f)
	if !fv.IsValid() {
		op.wantErr, op.why = true, "unknown-field"
		return op
	}
	op.itag = "field:" + f
	cv, st, fresh := c10Conv(v.v, fv.Type())
	switch st {
	case c10CvExcl:
		return nil
	case c10CvErr:
		op.wantErr, op.why = true, "unconvertible-value"
		return op
	case c10CvEither:
		op.either, op.why = true, "slice-to-slice-conversion"
		if !fresh {
			op.why = c10WhyLossy
		} else if cv.Kind() == reflect.Map {
			op.why = c10WhyContainerConv
		}
	}
	op.mut = true
	fp := c10Place{root: root, sel: 'f', f: f}
	op.commit = func(reflect.Value) {
		if fresh {
			// capacity of the converted copy is not specified: adopt the live one
			if l := h.lget(fp); l.IsValid() && l.Kind() == reflect.Slice && l.Cap() > cv.Len() && l.Len() == cv.Len() {
				n := reflect.MakeSlice(cv.Type(), cv.Len(), l.Cap())
				reflect.Copy(n, cv)
				cv = n
			}
		}
		h.mset(fp, cv)
	}
	return op
}

// ---- generator ----

var c10NameType = map[string]reflect.Type{
	"a": c10USliceT, "b": c10USliceT, "c": c10USliceT, "m": c10UMapT, "n": c10UMapT, "s": c10StrT, "t": c10StrT,
	"ts": c10I64SlT, "tt": c10I64SlT, "tf": c10F64SlT, "tl": c10StrSlT, "tm": c10MapSIT, "tn": c10MapSIT, "tk": c10MapISt,
	"st": c10StructT, "sq": c10StructQT, "sr": c10StructRT, "hp": c10StructHT, "hq": c10StructGT,
	"ti": c10I32SlT, "tb": c10U8SlT, "tg": c10F32SlT,
	"nm": c10MapSlT, "tp": c10MapSFT, "tq": c10MapSFT, "ns": c10SlSlT, "nu": c10USlSlT,
}

var c10Profiles = [][]string{
	{"a", "b", "c", "m", "n", "s", "t"},
	{"ts", "tt", "tf", "tl", "tm", "tn", "tk", "a"},
	{"st", "ts", "tt", "tf", "tm", "a", "m", "s"},
	{"a", "b", "m", "s", "ts", "tt", "tm", "st"},
	{"a", "b", "c"},
	{"ts", "tt", "a"},
	// typed numeric slices of several element types (membership with needles the element type cannot represent)
	{"ti", "tb", "tg", "ts", "tf", "a"},
	// slices whose zero elements are nil maps / nil slices, names and struct fields bound to them
	{"ns", "ts", "tt", "nm", "tp", "tq", "st"},
	{"nu", "a", "b", "ns", "ts", "nm", "tp"},
	// several struct shapes side by side: script-made (st; sq = permuted fields; sr = two fields)
	// and anonymous Go structs bound by the host through a pointer (hp, hq)
	{"st", "sq", "sr", "ts", "tm", "a"},
	{"hp", "hq", "st", "sr", "ts", "tm", "s"},
	{"sq", "hp", "sr", "tt", "tm", "m"},
}

type c10Gen struct {
	h     *c10Hist
	names []string
	lits  bool // the history evaluates literal nodes repeatedly (c10_lit.go)
}

func (g *c10Gen) rn(n int) int { return g.h.c.Rng.Intn(n) }

func (g *c10Gen) namesOf(t reflect.Type) []string {
	var out []string
	for _, n := range g.names {
		if c10NameType[n] == t {
			out = append(out, n)
		}
	}
	return out
}

func (g *c10Gen) pickName(t reflect.Type) string {
	ns := g.namesOf(t)
	if len(ns) == 0 {
		return ""
	}
	return ns[g.rn(len(ns))]
}

var c10IntPool = []int64{0, 1, 2, 3, -1, 7, 42, 100, 4095, 4096, 1 << 40, -5}
var c10FloatPool = []float64{1.5, -2.25, 3, 0.5, 1e10, 2.7}
var c10StrPool = []string{"x", "k1", "hé", "", "abc", "q r", "Z"}

func (g *c10Gen) scalar() c10Val {
	switch r := g.rn(100); {
	case r < 45:
		return c10Int(c10IntPool[g.rn(len(c10IntPool))])
	case r < 60:
		return c10Float(c10FloatPool[g.rn(len(c10FloatPool))])
	case r < 82:
		return c10Str(c10StrPool[g.rn(len(c10StrPool))])
	case r < 90:
		return c10Bool(g.rn(2) == 0)
	}
	return c10Nil()
}

// varRef: the current value of a variable (shares storage with it).
func (g *c10Gen) varRef(name string) (c10Val, bool) {
	v := g.h.mget(c10P(name))
	if !v.IsValid() || v.Kind() == reflect.Struct {
		return c10Val{}, false
	}
	return c10Val{name, v.Interface(), "var-" + c10Class(v)}, true
}

// reslice: `name[i:j]` of a slice variable with valid bounds (shares storage).
func (g *c10Gen) reslice(name string) (c10Val, bool) {
	v := g.h.mget(c10P(name))
	if !v.IsValid() || v.Kind() != reflect.Slice {
		return c10Val{}, false
	}
	i := g.rn(v.Len() + 1)
	j := i + g.rn(v.Len()-i+1)
	return c10Val{fmt.Sprintf("%s[%d:%d]", name, i, j), v.Slice3(i, j, v.Cap()).Interface(), "reslice-" + c10Class(v)}, true
}

func (g *c10Gen) containerVal() c10Val {
	for try := 0; try < 4; try++ {
		switch r := g.rn(100); {
		case r < 40:
			if v, ok := g.varRef(g.names[g.rn(len(g.names))]); ok {
				return v
			}
		case r < 55:
			if v, ok := g.reslice(g.names[g.rn(len(g.names))]); ok {
				return v
			}
		case r < 75:
			n := g.rn(4)
			var el []c10Val
			for i := 0; i < n; i++ {
				el = append(el, g.scalar())
			}
			return c10USlice(el...)
		case r < 88:
			return c10UMap(c10Str(c10StrPool[g.rn(len(c10StrPool))]), g.scalar())
		case r < 94:
			return c10I64Lit(int64(g.rn(9)), int64(g.rn(9)))
		default:
			return c10F64Lit(1.5, float64(g.rn(5)))
		}
	}
	return c10USlice()
}

func (g *c10Gen) anyVal() c10Val {
	if g.rn(100) < 72 {
		return g.scalar()
	}
	return g.containerVal()
}

// valFor: mostly values Go can store in a slot of type t, sometimes any value.
func (g *c10Gen) valFor(t reflect.Type) c10Val {
	if g.rn(100) < 28 {
		return g.anyVal()
	}
	if v, ok := g.r6Val(t); ok {
		return v // the ends of the numeric ranges, strings for byte / rune slots (c10_r6.go)
	}
	if v, ok := g.r7MapVal(t); ok {
		return v // a map of ANOTHER type for a typed map slot (c10_r7.go)
	}
	switch t {
	case c10I64T:
		if g.rn(3) == 0 {
			return c10Float(c10FloatPool[g.rn(len(c10FloatPool))])
		}
		return c10Int(c10IntPool[g.rn(len(c10IntPool))])
	case c10F64T:
		if g.rn(3) == 0 {
			return c10Int(c10IntPool[g.rn(len(c10IntPool))])
		}
		return c10Float(c10FloatPool[g.rn(len(c10FloatPool))])
	case c10StrT:
		return c10Str(c10StrPool[g.rn(len(c10StrPool))])
	case c10BoolT:
		return c10Bool(g.rn(2) == 0)
	case c10I64SlT:
		if g.rn(12) == 0 {
			return c10Nil()
		}
		switch r := g.rn(10); {
		case r < 4:
			if n := g.pickName(c10I64SlT); n != "" {
				if g.rn(2) == 0 {
					if v, ok := g.reslice(n); ok {
						return v
					}
				}
				if v, ok := g.varRef(n); ok {
					return v
				}
			}
		case r < 7:
			return c10I64Lit(int64(g.rn(9)), int64(g.rn(9)), int64(g.rn(9)))
		case r < 9:
			return c10USlice(c10Int(int64(g.rn(9))), c10Float(2.5))
		}
		return c10F64Lit(1.5, 4)
	case c10MapSIT:
		if g.rn(8) == 0 {
			return c10Nil()
		}
		if n := g.pickName(c10MapSIT); n != "" {
			if v, ok := g.varRef(n); ok {
				return v
			}
		}
	case c10I32T, c10U8T:
		if g.rn(3) == 0 {
			return c10Float([]float64{1.5, 3, 0.5, 2.7, 200.25}[g.rn(5)])
		}
		return c10Int([]int64{0, 1, 2, 3, 7, 42, 100, 255, 256, 300, -1, 1 << 40}[g.rn(12)])
	case c10F32T:
		if g.rn(3) == 0 {
			return c10Int([]int64{0, 1, 3, 16777216, 16777217}[g.rn(5)])
		}
		return c10Float([]float64{1.5, 1.1, -2.25, 0.5, 3}[g.rn(5)])
	default:
		if t.Kind() == reflect.Slice || t.Kind() == reflect.Map {
			// a nil, or the (shared) value of a variable of exactly this type
			if g.rn(6) == 0 {
				return c10Nil()
			}
			if n := g.pickName(t); n != "" {
				if t.Kind() == reflect.Slice && g.rn(3) == 0 {
					if v, ok := g.reslice(n); ok {
						return v
					}
				}
				if v, ok := g.varRef(n); ok {
					return v
				}
			}
		}
	}
	return g.anyVal()
}

// needle draws the left operand of `in` for a typed numeric slice: an element's own
// number spelled as an integer or a float, that number plus a fraction, and that
// number plus or minus 2^8 / 2^16 / 2^32 - what a conversion to the element type
// would truncate or wrap back onto the element.
func (g *c10Gen) needle(cont reflect.Value) c10Val {
	if v, ok := c10NeedleWrap(cont, g.rn(8)); ok && g.rn(3) == 0 {
		return v
	}
	base := float64(g.rn(4))
	if cont.Len() > 0 {
		e := cont.Index(g.rn(cont.Len()))
		switch {
		case c10IsFloatKind(e.Kind()):
			base = e.Float()
		case c10IsUintKind(e.Kind()):
			base = float64(e.Uint())
		default:
			base = float64(e.Int())
		}
	}
	if math.Abs(base) > 1<<40 || math.IsNaN(base) {
		base = 1
	}
	lit := func(f float64) c10Val {
		if f == math.Trunc(f) && g.rn(3) > 0 {
			return c10Int(int64(f))
		}
		return c10Float(f)
	}
	switch g.rn(10) {
	case 0, 1:
		return lit(base)
	case 2:
		return c10Float(math.Trunc(base) + 0.5)
	case 3:
		return c10Float(math.Trunc(base) + []float64{0.9, -0.5, 0.25, 0.999}[g.rn(4)])
	case 4:
		return lit(base + 256)
	case 5:
		return lit(base - 256)
	case 6:
		return lit(base + 4294967296)
	case 7:
		return lit(base - 4294967296)
	case 8:
		return lit(base + []float64{65536, -65536, 1, -1}[g.rn(4)])
	}
	if cont.Type().Elem().Kind() == reflect.Float32 {
		return c10Int(int64(base) + 1) // 16777216 + 1 rounds back onto the float32 element
	}
	return g.scalar()
}

// idx draws from the index universe for a container of length n.
func (g *c10Gen) idx(n int) c10Idx {
	r := g.rn(100)
	switch {
	case r < 48 && n > 0:
		return c10IdxInt(int64(g.rn(n)), "in-range")
	case r < 62:
		return c10IdxInt(int64(n), "len")
	case r < 68:
		return c10IdxInt(int64(n+1), "len+1")
	case r < 73:
		return c10IdxInt(-1, "negative")
	case r < 76:
		return c10IdxInt(int64(-2-g.rn(5)), "negative")
	case r < 80:
		return c10IdxInt(1<<40, "+2^40")
	case r < 83:
		return c10IdxInt(-(1 << 40), "-2^40")
	case r < 87:
		// "0<n>": n in range, at len, beyond; "010".."012" whatever the length
		switch q := g.rn(4); {
		case q == 0 && n > 0:
			return c10IdxNumStr(int64(g.rn(n)))
		case q == 1:
			return c10IdxNumStr(int64(n))
		case q == 2:
			return c10IdxNumStr(int64(n + 2))
		}
		return c10IdxNumStr(int64(10 + g.rn(3)))
	}
	return g.badIdx()
}

func (g *c10Gen) badIdx() c10Idx {
	switch g.rn(6) {
	case 0, 1:
		return c10IdxBad(c10Str([]string{"x", "abc", "k1", ""}[g.rn(4)]), "nonnumeric-string")
	case 2:
		return c10IdxBad(c10Nil(), "nil")
	case 3:
		if n := g.pickName(c10USliceT); n != "" {
			return c10IdxBad(c10Val{src: n}, "slice")
		}
		return c10IdxBad(c10USlice(c10Int(1)), "slice")
	case 4:
		return c10IdxBad(c10USlice(c10Int(0)), "slice")
	}
	if n := g.pickName(c10UMapT); n != "" && g.rn(2) == 0 {
		return c10IdxBad(c10Val{src: n}, "map")
	}
	return c10IdxBad(c10UMap(c10Str("k"), c10Int(1)), "map")
}

// bounds draws slice bounds; never a high bound in (len, cap].
func (g *c10Gen) bounds(n, cp int, three bool) (lo, hi, mx *c10Idx) {
	p := func(x c10Idx) *c10Idx { return &x }
	l := 0
	if g.rn(100) >= 15 {
		switch r := g.rn(100); {
		case r < 78:
			l = g.rn(n + 1)
			lo = p(c10IdxInt(int64(l), "valid"))
		case r < 84:
			lo = p(c10IdxInt(-1, "negative"))
		case r < 90:
			lo = p(c10IdxInt(int64(cp+1+g.rn(2)), "beyond-cap"))
		case r < 94:
			lo = p(c10IdxInt([]int64{1 << 40, -(1 << 40)}[g.rn(2)], "2^40"))
		default:
			lo = p(g.badIdx())
		}
	}
	if three || g.rn(100) >= 15 {
		switch r := g.rn(100); {
		case r < 76:
			hv := n
			if l <= n {
				hv = l + g.rn(n-l+1)
			}
			hi = p(c10IdxInt(int64(hv), "valid"))
		case r < 82:
			hi = p(c10IdxInt(int64(l-1), "below-low"))
		case r < 90:
			hi = p(c10IdxInt(int64(cp+1+g.rn(3)), "beyond-cap"))
		case r < 94:
			hi = p(c10IdxInt([]int64{1 << 40, -(1 << 40)}[g.rn(2)], "2^40"))
		default:
			hi = p(g.badIdx())
		}
	}
	if three {
		h := n
		if hi != nil && hi.isInt {
			h = int(hi.n)
		}
		switch r := g.rn(100); {
		case r < 70 && h >= 0 && h <= cp:
			mx = p(c10IdxInt(int64(h+g.rn(cp-h+1)), "valid"))
		case r < 80:
			mx = p(c10IdxInt(int64(h-1), "below-high"))
		case r < 90:
			mx = p(c10IdxInt(int64(cp+1), "beyond-cap"))
		case r < 94:
			mx = p(c10IdxInt(1<<40, "2^40"))
		default:
			mx = p(g.badIdx())
		}
	}
	return
}

func c10ValOf(x interface{}) (c10Val, bool) {
	switch v := x.(type) {
	case nil:
		return c10Nil(), true
	case int64:
		return c10Int(v), true
	case float64:
		return c10Float(v), true
	case string:
		return c10Str(v), true
	case bool:
		return c10Bool(v), true
	}
	return c10Val{}, false
}

var c10KeyStrs = []string{"k1", "k2", "k3", "x y", "", "zz"}

// key draws from the key universe; existing keys are favoured.
func (g *c10Gen) key(cont reflect.Value) c10Val {
	if v, ok := g.r6Key(cont); ok {
		return v
	}
	r := g.rn(100)
	if r < 35 && cont.Len() > 0 {
		ks := cont.MapKeys()
		sort.Slice(ks, func(i, j int) bool { return ank.RenderValue(ks[i]) < ank.RenderValue(ks[j]) })
		if v, ok := c10ValOf(ks[g.rn(len(ks))].Interface()); ok {
			return v
		}
	}
	switch {
	case r < 60:
		return c10Str(c10KeyStrs[g.rn(len(c10KeyStrs))])
	case r < 72:
		return c10Int(int64(g.rn(4)))
	case r < 77:
		return c10Float([]float64{1.5, 2, 3}[g.rn(3)])
	case r < 81:
		return c10Bool(g.rn(2) == 0)
	case r < 85:
		return c10Nil()
	}
	// unhashable
	switch g.rn(4) {
	case 0:
		if n := g.pickName(c10USliceT); n != "" {
			if v, ok := g.varRef(n); ok {
				return v
			}
		}
	case 1:
		if n := g.pickName(c10UMapT); n != "" {
			if v, ok := g.varRef(n); ok {
				return v
			}
		}
	case 2:
		return c10UMap(c10Str("k"), c10Int(1))
	}
	return c10USlice(c10Int(1))
}

// place picks a container: a variable, or one selector below it.
func (g *c10Gen) place() c10Place {
	h := g.h
	root := g.names[g.rn(len(g.names))]
	cur := h.mget(c10P(root))
	if !cur.IsValid() {
		return c10P(root)
	}
	switch cur.Kind() {
	case reflect.Struct:
		if g.rn(100) < 45 {
			return c10P(root)
		}
		var fs []string
		for _, f := range []string{"C", "D", "B"} {
			if _, ok := cur.Type().FieldByName(f); ok {
				fs = append(fs, f)
			}
		}
		if _, ok := cur.Type().FieldByName("E"); ok {
			if e := c10Unwrap(cur.FieldByName("E")); e.IsValid() && (e.Kind() == reflect.Slice || e.Kind() == reflect.Map || e.Kind() == reflect.String) {
				fs = append(fs, "E")
			}
		}
		if len(fs) == 0 {
			return c10P(root)
		}
		return c10Place{root: root, sel: 'f', f: fs[g.rn(len(fs))]}
	case reflect.Slice:
		if ek := cur.Type().Elem().Kind(); (ek == reflect.Slice || ek == reflect.Map) && cur.Len() > 0 && g.rn(100) < 65 {
			// an element of a typed slice of slices / maps: a nil slice or nil map until something is stored
			return c10Place{root: root, sel: 'i', i: g.rn(cur.Len())}
		}
		if g.rn(100) < 6 {
			// a slice expression as the container of a store / read: shares root's storage
			i := g.rn(cur.Len() + 1)
			return c10Place{root: root, sel: 's', i: i, j: i + g.rn(cur.Len()-i+1)}
		}
		if sp, ok := g.structElemPlace(root, cur); ok {
			return sp
		}
		if cur.Type() == c10USliceT && (g.rn(100) < 15 || (g.lits && g.rn(100) < 30)) {
			var idx []int
			for i := 0; i < cur.Len(); i++ {
				if e := c10Unwrap(cur.Index(i)); e.IsValid() && (e.Kind() == reflect.Slice || e.Kind() == reflect.Map || e.Kind() == reflect.String) {
					idx = append(idx, i)
				}
			}
			if len(idx) > 0 {
				return c10Place{root: root, sel: 'i', i: idx[g.rn(len(idx))]}
			}
		}
	case reflect.Map:
		if ep, ok := g.r7MapEntryPlace(root, cur); ok {
			return ep // an entry of a typed map of maps (c10_r7.go)
		}
		if sp, ok := g.structElemPlace(root, cur); ok {
			return sp
		}
		if cur.Type() == c10UMapT && (g.rn(100) < 15 || (g.lits && g.rn(100) < 30)) {
			var ks []c10Val
			it := cur.MapRange()
			for it.Next() {
				e := c10Unwrap(it.Value())
				if e.IsValid() && (e.Kind() == reflect.Slice || e.Kind() == reflect.Map || e.Kind() == reflect.String) {
					if kv, ok := c10ValOf(it.Key().Interface()); ok {
						ks = append(ks, kv)
					}
				}
			}
			if len(ks) > 0 {
				sort.Slice(ks, func(i, j int) bool { return ks[i].src < ks[j].src })
				return c10Place{root: root, sel: 'k', k: ks[g.rn(len(ks))]}
			}
		}
	}
	return c10P(root)
}

func (g *c10Gen) initVal(name string) c10Val {
	r := g.rn(6)
	switch c10NameType[name] {
	case c10USliceT:
		switch r {
		case 0:
			return c10USlice()
		case 1:
			return c10USlice(c10Int(1), c10Int(2), c10Int(3))
		case 2:
			return c10USlice(c10Int(1), c10Str("b"), c10Nil(), c10Float(2.5), c10Bool(true))
		case 3:
			return c10USlice(c10Int(0), c10Int(1), c10Int(2), c10Int(3), c10Int(4), c10Int(5), c10Int(6), c10Int(7))
		case 4:
			return c10USlice(c10USlice(c10Int(1), c10Int(2)), c10UMap(c10Str("k1"), c10Int(1)), c10Str("str"))
		}
		return c10Val{"make([]interface, 2, 6)", make([]interface{}, 2, 6), "make"}
	case c10I64SlT:
		n := g.rn(5)
		switch r % 3 {
		case 0:
			return c10Val{fmt.Sprintf("make([]int64, %d)", n), make([]int64, n), "make"}
		case 1:
			cp := n + g.rn(4)
			return c10Val{fmt.Sprintf("make([]int64, %d, %d)", n, cp), make([]int64, n, cp), "make"}
		}
		return c10I64Lit(10, 11, 12, 13)
	case c10F64SlT:
		if r%2 == 0 {
			return c10F64Lit(1.5, 2)
		}
		return c10Val{"make([]float64, 2, 4)", make([]float64, 2, 4), "make"}
	case c10StrSlT:
		if r%2 == 0 {
			return c10Val{`[]string{"a", "b"}`, []string{"a", "b"}, "tslice-lit"}
		}
		return c10Val{"make([]string, 1, 3)", make([]string, 1, 3), "make"}
	case c10UMapT:
		switch r % 4 {
		case 0:
			return c10Val{"{}", map[interface{}]interface{}{}, "umap-lit"}
		case 1:
			return c10Val{`{"k1": 1, "k2": "v"}`, map[interface{}]interface{}{"k1": int64(1), "k2": "v"}, "umap-lit"}
		case 2:
			return c10Val{`{1: "one", 2.5: nil, true: [1], "k3": {"k1": 2}}`, map[interface{}]interface{}{int64(1): "one", 2.5: nil, true: []interface{}{int64(1)},
				"k3": map[interface{}]interface{}{"k1": int64(2)}}, "umap-lit"}
		}
		return c10Val{"make(map[interface]interface)", map[interface{}]interface{}{}, "make"}
	case c10MapSIT:
		if r%2 == 0 {
			return c10Val{"make(map[string]int64)", map[string]int64{}, "make"}
		}
		return c10Val{`map[string]int64{"k1": 1, "k2": 2}`, map[string]int64{"k1": 1, "k2": 2}, "tmap-lit"}
	case c10MapISt:
		if r%2 == 0 {
			return c10Val{"make(map[int64]string)", map[int64]string{}, "make"}
		}
		return c10Val{`map[int64]string{1: "a", 2: "b"}`, map[int64]string{1: "a", 2: "b"}, "tmap-lit"}
	case c10StrT:
		return c10Str([]string{"", "abc", "hello world", "héllo", "a", "xyz"}[r])
	case c10I32SlT:
		if r%3 == 0 {
			return c10Val{"make([]int32, 2, 4)", make([]int32, 2, 4), "make"}
		}
		return c10NumLit("int32", c10I32SlT, 1, 2, 300, -7)
	case c10U8SlT:
		if r%3 == 0 {
			return c10Val{"make([]byte, 3)", make([]byte, 3), "make"}
		}
		return c10NumLit("byte", c10U8SlT, 1, 2, 255, 0)
	case c10F32SlT:
		if r%3 == 0 {
			return c10Val{"make([]float32, 2, 3)", make([]float32, 2, 3), "make"}
		}
		return c10NumLit("float32", c10F32SlT, 1.5, 1, 16777216, -2.25)
	case c10MapSlT:
		n := 1 + g.rn(3)
		return c10Val{fmt.Sprintf("make([]map[string]float64, %d)", n), make([]map[string]float64, n), "make"}
	case c10SlSlT:
		if r == 0 {
			return c10Val{"[][]int64{[]int64{1, 2}, []int64{3}}", [][]int64{{1, 2}, {3}}, "tslice-lit"}
		}
		n := 1 + g.rn(3)
		return c10Val{fmt.Sprintf("make([][]int64, %d)", n), make([][]int64, n), "make"}
	case c10USlSlT:
		n := 1 + g.rn(3)
		return c10Val{fmt.Sprintf("make([][]interface, %d)", n), make([][]interface{}, n), "make"}
	case c10MapSFT:
		if r%2 == 0 {
			return c10Val{"make(map[string]float64)", map[string]float64{}, "make"}
		}
		return c10Val{`map[string]float64{"k1": 1.5}`, map[string]float64{"k1": 1.5}, "tmap-lit"}
	}
	if v, ok := g.r7InitVal(name); ok {
		return v // a map of maps, a slice of maps (c10_r7.go)
	}
	return g.r6InitVal(name)
}

// dest picks a variable of the profile that may receive a value of type t.
func (g *c10Gen) dest(t reflect.Type) string { return g.pickName(t) }

// op draws one operation on the current state.
func (g *c10Gen) op() *c10Op {
	h := g.h
	if g.lits && g.rn(100) < 14 {
		return g.litOp()
	}
	if g.rn(100) < 14 {
		// statements executed more than once, struct values inside lists / maps (c10_r5.go)
		if op := g.r5Op(); op != nil {
			return op
		}
	}
	if g.rn(100) < 4 {
		// p[i] = p[i]; `+` with a map on the left (c10_r6.go)
		if op := g.r6Op(); op != nil {
			return op
		}
	}
	if g.rn(100) < 6 {
		// a container that travels (arguments of direct / deferred / go calls, values), stores on
		// both sides of a deferred / go call, nil-ness (c10_r7.go)
		if op := g.r7Op(); op != nil {
			return op
		}
	}
	p := g.place()
	cont := h.mget(p)
	if !cont.IsValid() {
		return nil
	}
	call := g.rn(100) < 12
	r := g.rn(100)
	switch cont.Kind() {
	case reflect.Struct:
		// a field of this shape; now and then a name no shape has, or a name only OTHER shapes have
		f := cont.Type().Field(g.rn(cont.NumField())).Name
		if g.rn(100) < 14 {
			f = []string{"Z", "a", "Cc", "b"}[g.rn(4)]
			if g.rn(2) == 0 {
				f = c10FieldNames[g.rn(len(c10FieldNames))]
			}
		}
		if r < 35 {
			return h.opFieldRead(p.root, f)
		}
		ft := c10IfaceT
		if sf, ok := cont.Type().FieldByName(f); ok {
			ft = sf.Type
		}
		return h.opFieldWrite(p.root, f, g.valFor(ft))
	case reflect.String:
		n := cont.Len()
		switch {
		case r < 15:
			return h.opRead(p, g.idx(n), call)
		case r < 42:
			v := c10Str(string(rune('a' + g.rn(26))))
			switch q := g.rn(100); {
			case q < 15:
				v = c10Str(c10StrPool[g.rn(len(c10StrPool))])
			case q < 30:
				v = g.anyVal()
			}
			return h.opWrite(p, g.idx(n), v, call)
		case r < 65:
			lo, hi, mx := g.bounds(n, n, g.rn(100) < 12)
			d := ""
			if g.rn(2) == 0 {
				d = g.dest(c10StrT)
			}
			return h.opSlice(d, p, lo, hi, mx, call && d != "")
		case r < 82:
			form := []string{"+=", "=+", "d=", "expr"}[g.rn(4)]
			d := g.dest(c10StrT)
			if d == "" && form == "d=" {
				form = "+="
			}
			rhs := c10Str(c10StrPool[g.rn(len(c10StrPool))])
			if n := g.pickName(c10StrT); n != "" && g.rn(3) == 0 {
				rhs, _ = g.varRef(n)
			}
			return h.opAppend(form, d, p, rhs)
		case r < 88:
			return h.opLen(p)
		default:
			if d := g.dest(c10StrT); d != "" {
				return h.opAssign(d, p)
			}
		}
		return h.opLen(p)
	case reflect.Slice:
		n, cp, et := cont.Len(), cont.Cap(), cont.Type().Elem()
		d := g.dest(cont.Type())
		if p.sel == 's' {
			if r < 25 {
				return h.opRead(p, g.idx(n), false)
			}
			return h.opWrite(p, g.idx(n), g.valFor(et), false)
		}
		switch {
		case r < 12:
			return h.opRead(p, g.idx(n), call)
		case r < 34:
			return h.opWrite(p, g.idx(n), g.valFor(et), call)
		case r < 52:
			form := []string{"+=", "+=", "=+", "d=", "d=", "expr", "call"}[g.rn(7)]
			if d == "" && (form == "d=" || form == "call") {
				form = "+="
			}
			var rhs c10Val
			sameT := ""
			if cont.Type() != c10USliceT || cont.IsNil() {
				sameT = g.pickName(cont.Type())
			}
			switch q := g.rn(100); {
			case sameT != "" && q < 30:
				// a variable (or a reslice of one) of exactly the left operand's type: the
				// result must not share storage with it beyond what Go's append shares
				var ok bool
				if g.rn(3) == 0 {
					rhs, ok = g.reslice(sameT)
				}
				if !ok {
					if rhs, ok = g.varRef(sameT); !ok {
						rhs = g.valFor(et)
					}
				}
			case q < 55:
				rhs = g.valFor(et)
			case q < 75:
				k := 1 + g.rn(3)
				var el []c10Val
				for i := 0; i < k; i++ {
					if et == c10IfaceT || g.rn(5) == 0 {
						el = append(el, g.scalar())
					} else {
						el = append(el, g.valFor(et))
					}
				}
				rhs = c10USlice(el...)
			default:
				rhs = g.containerVal()
			}
			return h.opAppend(form, d, p, rhs)
		case r < 76:
			lo, hi, mx := g.bounds(n, cp, g.rn(100) < 40)
			dd := d
			if g.rn(100) < 25 {
				dd = ""
			}
			return h.opSlice(dd, p, lo, hi, mx, call && dd != "")
		case r < 80:
			return h.opLen(p)
		case r < 86:
			v := g.scalar()
			if et != c10IfaceT && g.rn(4) > 0 {
				v = g.valFor(et)
			}
			if c10IsNumKind(et.Kind()) && g.rn(3) > 0 {
				v = g.needle(cont)
			}
			return h.opIn(v, p)
		case r < 97:
			if d != "" {
				return h.opAssign(d, p)
			}
			return h.opLen(p)
		default:
			return h.opDelete(p, c10Int(0), call)
		}
	case reflect.Map:
		k := g.key(cont)
		member := g.rn(100) < 30
		switch {
		case r < 25:
			return h.opMapRead(p, k, member && !call, call)
		case r < 62:
			return h.opMapWrite(p, k, g.valFor(cont.Type().Elem()), member && !call, call)
		case r < 80:
			return h.opDelete(p, k, call)
		case r < 86:
			return h.opLen(p)
		default:
			if d := g.dest(cont.Type()); d != "" {
				return h.opAssign(d, p)
			}
			return h.opLen(p)
		}
	}
	return nil
}

// c10RunRandom: one PRNG history.
func c10RunRandom(c *wk.Case) {
	h := newC10Hist(c)
	if h.dead {
		return
	}
	g := &c10Gen{h: h, names: c10Profiles[c.Rng.Intn(len(c10Profiles))]}
	c.Tag("profile:" + strings.Join(g.names, ","))
	for _, n := range g.names {
		var op *c10Op
		if _, isStruct := c10ShapeOf[n]; isStruct {
			op = h.opInitStruct(n)
		} else {
			op = h.opInit(n, g.initVal(n))
		}
		if !h.exec(op) {
			h.finish()
			return
		}
	}
	if g.pickName(c10USliceT) != "" && c.Rng.Intn(100) < 40 {
		// script functions returning a nested literal: every call evaluates the same literal node again
		g.lits = true
		c.Tag("literal-functions")
		for i, n := 0, 1+c.Rng.Intn(2); i < n; i++ {
			if !h.exec(h.opDefFactory(g.nestedLit(g.pickName(c10UMapT) != "" && c.Rng.Intn(3) == 0), c.Rng.Intn(3))) {
				h.finish()
				return
			}
		}
	}
	nops := 10 + c.Rng.Intn(31)
	for k, tries := 0, 0; k < nops && tries < nops*6; tries++ {
		op := g.op()
		if op == nil {
			c.Tag("generator:outside-domain")
			continue
		}
		k++
		if !h.exec(op) {
			break
		}
	}
	h.finish()
}

// ---- fixed histories (deterministic; the first ones exercise the listed findings) ----

// ref: the current value of a model variable as an operand (nil once the history is dead).
func (h *c10Hist) ref(n string) c10Val {
	v := h.mget(c10P(n))
	if !v.IsValid() {
		return c10Val{n, nil, "var"}
	}
	return c10Val{n, v.Interface(), "var"}
}

func c10IP(n int64) *c10Idx { x := c10IdxInt(n, "fixed"); return &x }

var c10Fixed = []func(h *c10Hist, do func(*c10Op)){
	// 0: member write on a map whose key type is not string (listed finding: panic)
	func(h *c10Hist, do func(*c10Op)) {
		do(h.opInit("tk", c10Val{`map[int64]string{1: "a"}`, map[int64]string{1: "a"}, "tmap-lit"}))
		do(h.opMapRead(c10P("tk"), c10Str("k1"), true, false))
		do(h.opMapWrite(c10P("tk"), c10Str("k1"), c10Str("v"), true, false))
	},
	// 1: failing converting append must not write into shared capacity (listed finding)
	func(h *c10Hist, do func(*c10Op)) {
		do(h.opInit("tt", c10Val{"make([]int64, 4)", make([]int64, 4), "make"}))
		do(h.opSlice("ts", c10P("tt"), c10IP(0), c10IP(2), nil, false))
		do(h.opAppend("+=", "", c10P("ts"), c10USlice(c10Int(7), c10Str("x"))))
	},
	// 2: converting append that outgrows the capacity must leave the old array alone (listed finding)
	func(h *c10Hist, do func(*c10Op)) {
		do(h.opInit("tt", c10Val{"make([]int64, 3)", make([]int64, 3), "make"}))
		do(h.opSlice("ts", c10P("tt"), c10IP(0), c10IP(2), nil, false))
		do(h.opAppend("=+", "", c10P("ts"), c10USlice(c10Int(7), c10Int(8))))
	},
	// 3: same through an untyped slice and a typed operand, and through a call
	func(h *c10Hist, do func(*c10Op)) {
		do(h.opInit("a", c10USlice(c10Int(1), c10Int(2), c10Int(3))))
		do(h.opSlice("b", c10P("a"), c10IP(0), c10IP(2), nil, false))
		do(h.opAppend("call", "c", c10P("b"), c10I64Lit(7, 8)))
	},
	// 4: append after slice: in capacity writes through, growth detaches
	func(h *c10Hist, do func(*c10Op)) {
		do(h.opInit("a", c10USlice(c10Int(1), c10Int(2), c10Int(3))))
		do(h.opSlice("b", c10P("a"), c10IP(0), c10IP(2), nil, false))
		do(h.opAppend("+=", "", c10P("b"), c10Int(9)))
		do(h.opRead(c10P("a"), c10IdxInt(2, "fixed"), false))
		do(h.opAppend("+=", "", c10P("b"), c10Int(10)))
		do(h.opWrite(c10P("b"), c10IdxInt(0, "fixed"), c10Str("w"), false))
		do(h.opRead(c10P("a"), c10IdxInt(0, "fixed"), false))
		do(h.opAppend("d=", "c", c10P("a"), c10USlice(c10Int(4), c10Int(5))))
		do(h.opWrite(c10P("a"), c10IdxInt(3, "fixed"), c10Nil(), false))
	},
	// 5: three-index slices limit what an append can see
	func(h *c10Hist, do func(*c10Op)) {
		do(h.opInit("a", c10USlice(c10Int(0), c10Int(1), c10Int(2), c10Int(3), c10Int(4))))
		do(h.opSlice("b", c10P("a"), c10IP(1), c10IP(2), c10IP(3), false))
		do(h.opAppend("+=", "", c10P("b"), c10Int(7)))
		do(h.opAppend("+=", "", c10P("b"), c10Int(8)))
		do(h.opSlice("c", c10P("a"), nil, c10IP(2), c10IP(2), false))
		do(h.opWrite(c10P("c"), c10IdxInt(2, "fixed"), c10Int(9), false))
		do(h.opSlice("", c10P("a"), c10IP(1), c10IP(2), c10IP(6), false))
		do(h.opSlice("", c10P("a"), c10IP(3), c10IP(2), nil, false))
	},
	// 6: maps are references; unhashable keys; nil key
	func(h *c10Hist, do func(*c10Op)) {
		do(h.opInit("m", c10Val{"{}", map[interface{}]interface{}{}, "umap-lit"}))
		do(h.opAssign("n", c10P("m")))
		do(h.opMapWrite(c10P("n"), c10Str("k1"), c10Int(1), true, false))
		do(h.opMapRead(c10P("m"), c10Str("k1"), false, false))
		do(h.opMapWrite(c10P("m"), c10USlice(c10Int(1)), c10Int(1), false, false))
		do(h.opMapRead(c10P("m"), c10USlice(c10Int(1)), false, false))
		do(h.opDelete(c10P("m"), c10UMap(c10Str("k"), c10Int(1)), false))
		do(h.opMapWrite(c10P("m"), c10Nil(), c10Int(3), false, false))
		do(h.opMapWrite(c10P("m"), c10Int(1), c10Str("i"), false, false))
		do(h.opMapWrite(c10P("m"), c10Float(1), c10Str("f"), false, false))
		do(h.opDelete(c10P("n"), c10Str("k1"), true))
		do(h.opMapRead(c10P("m"), c10Str("k1"), true, false))
		do(h.opLen(c10P("m")))
	},
	// 7: strings are values; stores rebuild the string
	func(h *c10Hist, do func(*c10Op)) {
		do(h.opInit("s", c10Str("abc")))
		do(h.opAssign("t", c10P("s")))
		do(h.opWrite(c10P("t"), c10IdxInt(0, "fixed"), c10Str("z"), false))
		do(h.opWrite(c10P("s"), c10IdxInt(3, "fixed"), c10Str("de"), false))
		do(h.opWrite(c10P("s"), c10IdxInt(1, "fixed"), c10Str("Q"), true))
		do(h.opWrite(c10P("s"), c10IdxInt(1, "fixed"), c10Float(1.5), false))
		do(h.opWrite(c10P("s"), c10IdxInt(9, "fixed"), c10Str("q"), false))
		do(h.opSlice("", c10P("s"), c10IP(1), c10IP(3), nil, false))
		do(h.opSlice("", c10P("s"), c10IP(1), c10IP(3), c10IP(3), false))
		do(h.opRead(c10P("s"), c10IdxInt(5, "fixed"), false))
	},
	// 8: struct fields of every type
	func(h *c10Hist, do func(*c10Op)) {
		do(h.opInitStruct("st"))
		do(h.opInit("ts", c10I64Lit(1, 2, 3)))
		do(h.opFieldWrite("st", "A", c10Int(5)))
		do(h.opFieldWrite("st", "A", c10Float(2.7)))
		do(h.opFieldWrite("st", "A", c10Str("x")))
		do(h.opFieldRead("st", "A"))
		do(h.opFieldWrite("st", "B", c10Str("hello")))
		do(h.opFieldWrite("st", "B", c10Float(1.5)))
		do(h.opFieldWrite("st", "C", h.ref("ts")))
		do(h.opWrite(c10Place{root: "st", sel: 'f', f: "C"}, c10IdxInt(0, "fixed"), c10Int(9), false))
		do(h.opRead(c10P("ts"), c10IdxInt(0, "fixed"), false))
		do(h.opWrite(c10Place{root: "st", sel: 'f', f: "C"}, c10IdxInt(3, "fixed"), c10Int(4), false))
		do(h.opWrite(c10Place{root: "st", sel: 'f', f: "C"}, c10IdxInt(0, "fixed"), c10Str("x"), false))
		do(h.opMapWrite(c10Place{root: "st", sel: 'f', f: "D"}, c10Str("k1"), c10Float(2.9), true, false))
		do(h.opMapWrite(c10Place{root: "st", sel: 'f', f: "D"}, c10Str("k2"), c10Str("s"), false, false))
		do(h.opFieldWrite("st", "E", c10USlice(c10Int(1))))
		do(h.opFieldWrite("st", "F", c10Int(3)))
		do(h.opFieldWrite("st", "G", c10Int(1)))
		do(h.opFieldWrite("st", "G", c10Bool(true)))
		do(h.opFieldWrite("st", "Z", c10Int(1)))
		do(h.opFieldRead("st", "Z"))
		do(h.opWrite(c10Place{root: "st", sel: 'f', f: "B"}, c10IdxInt(0, "fixed"), c10Str("J"), false))
		do(h.opFieldRead("st", "B"))
	},
	// 9: parameters are references
	func(h *c10Hist, do func(*c10Op)) {
		do(h.opInit("a", c10Val{"make([]interface, 2, 6)", make([]interface{}, 2, 6), "make"}))
		do(h.opWrite(c10P("a"), c10IdxInt(0, "fixed"), c10Int(5), true))
		do(h.opWrite(c10P("a"), c10IdxInt(2, "fixed"), c10Int(6), true))
		do(h.opLen(c10P("a")))
		do(h.opAppend("call", "b", c10P("a"), c10Int(7)))
		do(h.opRead(c10P("b"), c10IdxInt(2, "fixed"), true))
		do(h.opInit("m", c10Val{"{}", map[interface{}]interface{}{}, "umap-lit"}))
		do(h.opMapWrite(c10P("m"), c10Str("k"), h.ref("a"), false, true))
		do(h.opWrite(c10Place{root: "m", sel: 'k', k: c10Str("k")}, c10IdxInt(1, "fixed"), c10Str("via-m"), false))
		do(h.opRead(c10P("a"), c10IdxInt(1, "fixed"), false))
	},
	// 10/11: a name bound to an element of a slice of slices by `for` / by a
	// spreading `var` is a copy of the element's header: appending through it
	// (assignment at index len, +=) is Go's `x = append(x, v)` and never
	// lengthens the element of the outer slice; element stores write through
	func(h *c10Hist, do func(*c10Op)) { c10NestedHistory(h, do, true) },
	func(h *c10Hist, do func(*c10Op)) { c10NestedHistory(h, do, false) },
	// 12: a string spelling a decimal numeral with a leading zero is either no index
	// at all or the decimal number - never another element
	func(h *c10Hist, do func(*c10Op)) {
		do(h.opInit("a", c10USlice(c10Int(0), c10Int(1), c10Int(2), c10Int(3), c10Int(4), c10Int(5), c10Int(6), c10Int(7))))
		do(h.opWrite(c10P("a"), c10IdxNumStr(10), c10Int(9), false))
		do(h.opRead(c10P("a"), c10IdxNumStr(7), false))
		do(h.opWrite(c10P("a"), c10IdxNumStr(8), c10Int(8), false))
		do(h.opWrite(c10P("a"), c10IdxNumStr(9), c10Int(9), false))
		do(h.opWrite(c10P("a"), c10IdxNumStr(10), c10Int(10), false))
		do(h.opWrite(c10P("a"), c10IdxNumStr(11), c10Int(11), false))
		do(h.opWrite(c10P("a"), c10IdxNumStr(12), c10Int(12), false))
		do(h.opRead(c10P("a"), c10IdxNumStr(10), false))
		do(h.opWrite(c10P("a"), c10IdxNumStr(10), c10Str("ten"), false))
		do(h.opRead(c10P("a"), c10IdxInt(8, "fixed"), false))
		do(h.opInit("s", c10Str("abcdefghijk")))
		do(h.opRead(c10P("s"), c10IdxNumStr(10), false))
		do(h.opWrite(c10P("s"), c10IdxNumStr(10), c10Str("Z"), false))
	},
	// 13: membership on typed numeric slices of several element types: the element's own
	// number, the number plus a fraction, plus / minus 2^8, 2^16, 2^32 (what a conversion to
	// the element type truncates or wraps onto an element), and absent numbers
	func(h *c10Hist, do func(*c10Op)) {
		do(h.opInit("ts", c10I64Lit(1, 2, 300)))
		do(h.opInit("ti", c10NumLit("int32", c10I32SlT, 1, 2, 300, -7)))
		do(h.opInit("tb", c10NumLit("byte", c10U8SlT, 1, 2, 255)))
		do(h.opInit("tg", c10NumLit("float32", c10F32SlT, 1.5, 1, 16777216)))
		do(h.opInit("tf", c10F64Lit(1.5, 2)))
		for _, n := range []string{"ts", "ti", "tb", "tg", "tf"} {
			p := c10P(n)
			for _, v := range []c10Val{c10Int(1), c10Float(1), c10Float(1.5), c10Float(1.9), c10Float(0.5), c10Float(2.5), c10Float(-6.5),
				c10Int(257), c10Int(-255), c10Int(511), c10Int(-1), c10Int(65537), c10Int(4294967297), c10Int(4294967596), c10Int(-4294967303),
				c10Int(16777217), c10Float(16777217), c10Int(3), c10Float(299.5), c10Nil()} {
				do(h.opIn(v, p))
			}
		}
	},
	// 14: nil typed maps as the container of a store: zero elements of make([]map..),
	// a name bound to one, a struct map field set to nil, a parameter. A convertible value
	// is stored converted into a new map bound to the place (or the statement fails and
	// changes nothing); an ill-typed value or key is an error that changes nothing
	func(h *c10Hist, do func(*c10Op)) {
		el := func(i int) c10Place { return c10Place{root: "nm", sel: 'i', i: i} }
		do(h.opInit("nm", c10Val{"make([]map[string]float64, 4)", make([]map[string]float64, 4), "make"}))
		do(h.opInit("tp", c10Val{"make(map[string]float64)", map[string]float64{}, "make"}))
		do(h.opMapWrite(el(0), c10Str("k1"), c10Int(1), false, false))
		do(h.opMapWrite(el(0), c10Str("k2"), c10Int(2), false, false))
		do(h.opMapWrite(el(1), c10Str("k1"), c10Str("x"), false, false))
		do(h.opMapWrite(el(1), c10USlice(c10Int(1)), c10Int(1), false, false))
		do(h.opMapWrite(el(1), c10Str("k1"), c10USlice(c10Int(1)), false, false))
		do(h.opMapRead(el(1), c10Str("k1"), false, false))
		do(h.opLen(el(1)))
		do(h.opDelete(el(1), c10Str("k1"), false))
		do(h.opMapWrite(el(1), c10Str("k2"), c10Int(3), true, false))
		do(h.opMapWrite(el(2), c10Str("k"), c10Int(5), false, true))
		do(h.opLen(el(2)))
		do(h.opAssign("tp", el(2)))
		do(h.opMapWrite(c10P("tp"), c10Str("k"), c10Int(4), false, false))
		do(h.opLen(el(2)))
		do(h.opMapWrite(el(2), c10Str("k"), c10Float(2.5), false, false))
		do(h.opMapRead(c10P("tp"), c10Str("k"), false, false))
		do(h.opWrite(c10P("nm"), c10IdxInt(3, "fixed"), h.ref("tp"), false))
		do(h.opMapWrite(el(3), c10Str("z"), c10Int(9), false, false))
		do(h.opMapRead(c10P("tp"), c10Str("z"), false, false))
		do(h.opWrite(c10P("nm"), c10IdxInt(3, "fixed"), c10Nil(), false))
		do(h.opMapWrite(el(3), c10Str("z"), c10Bool(true), false, false))
		do(h.opMapWrite(el(3), c10Str("z"), c10Int(8), false, false))
		do(h.opInitStruct("st"))
		fd := c10Place{root: "st", sel: 'f', f: "D"}
		do(h.opFieldWrite("st", "D", c10Nil()))
		do(h.opMapWrite(fd, c10Str("k1"), c10Str("s"), false, false))
		do(h.opMapWrite(fd, c10Str("k1"), c10Float(2.9), false, false))
		do(h.opFieldRead("st", "D"))
		do(h.opFieldWrite("st", "D", c10Nil()))
		do(h.opMapWrite(fd, c10Str("k2"), c10Float(3.5), true, false))
	},
	// 15: nil typed slices as the left operand of every append form and of a store at
	// index 0 (= len): the result is a new array - it never shares storage with the
	// right operand (Go's append(nil, b...) allocates) - holding converted values
	func(h *c10Hist, do func(*c10Op)) {
		el := func(i int) c10Place { return c10Place{root: "ns", sel: 'i', i: i} }
		ref := h.ref
		do(h.opInit("ns", c10Val{"make([][]int64, 5)", make([][]int64, 5), "make"}))
		do(h.opInit("ts", c10I64Lit(1, 2)))
		do(h.opAppend("+=", "", el(0), ref("ts")))
		do(h.opWrite(el(0), c10IdxInt(0, "fixed"), c10Int(9), false))
		do(h.opRead(c10P("ts"), c10IdxInt(0, "fixed"), false))
		do(h.opAppend("=+", "", el(1), ref("ts")))
		do(h.opWrite(c10P("ts"), c10IdxInt(1, "fixed"), c10Int(7), false))
		do(h.opRead(el(1), c10IdxInt(1, "fixed"), false))
		do(h.opAppend("d=", "tt", el(2), ref("ts")))
		do(h.opWrite(c10P("tt"), c10IdxInt(0, "fixed"), c10Int(5), false))
		do(h.opAppend("call", "tt", el(2), ref("ts")))
		do(h.opWrite(c10P("tt"), c10IdxInt(1, "fixed"), c10Int(6), false))
		do(h.opAppend("expr", "", el(2), ref("ts")))
		do(h.opLen(el(2)))
		do(h.opWrite(el(2), c10IdxInt(0, "fixed"), c10Float(2.5), false))
		do(h.opWrite(el(2), c10IdxInt(5, "fixed"), c10Int(1), false))
		do(h.opWrite(el(3), c10IdxInt(0, "fixed"), c10Str("x"), false))
		do(h.opAppend("+=", "", el(3), c10Str("x")))
		do(h.opAppend("+=", "", el(3), c10USlice(c10Float(1.5), c10Str("x"))))
		do(h.opAppend("+=", "", el(3), c10USlice(c10Float(1.5), c10Int(2))))
		do(h.opAppend("+=", "", el(4), c10Float(2.5)))
		do(h.opAssign("tt", el(4)))
		do(h.opWrite(c10P("tt"), c10IdxInt(0, "fixed"), c10Int(3), false))
		do(h.opRead(el(4), c10IdxInt(0, "fixed"), false))
		do(h.opWrite(c10P("ns"), c10IdxInt(4, "fixed"), c10Nil(), false))
		do(h.opAssign("tt", el(4)))
		do(h.opAppend("+=", "", c10P("tt"), ref("ts")))
		do(h.opWrite(c10P("tt"), c10IdxInt(0, "fixed"), c10Int(8), false))
		do(h.opLen(el(4)))
		// a struct slice field set to nil
		do(h.opInitStruct("st"))
		fc := c10Place{root: "st", sel: 'f', f: "C"}
		do(h.opFieldWrite("st", "C", c10Nil()))
		do(h.opAppend("+=", "", fc, ref("ts")))
		do(h.opWrite(fc, c10IdxInt(0, "fixed"), c10Int(4), false))
		do(h.opRead(c10P("ts"), c10IdxInt(0, "fixed"), false))
		do(h.opFieldWrite("st", "C", c10Nil()))
		do(h.opWrite(fc, c10IdxInt(0, "fixed"), c10Float(7.9), false))
		do(h.opWrite(fc, c10IdxInt(2, "fixed"), c10Int(1), false))
		// untyped elements
		ul := func(i int) c10Place { return c10Place{root: "nu", sel: 'i', i: i} }
		do(h.opInit("nu", c10Val{"make([][]interface, 2)", make([][]interface{}, 2), "make"}))
		do(h.opInit("a", c10USlice(c10Int(1), c10Str("b"))))
		do(h.opAppend("+=", "", ul(0), ref("a")))
		do(h.opWrite(c10P("a"), c10IdxInt(0, "fixed"), c10Int(9), false))
		do(h.opRead(ul(0), c10IdxInt(0, "fixed"), false))
		do(h.opAppend("d=", "b", ul(1), ref("a")))
		do(h.opWrite(c10P("b"), c10IdxInt(1, "fixed"), c10Nil(), false))
		do(h.opWrite(ul(1), c10IdxInt(0, "fixed"), c10Str("x"), false))
	},
	// 16: a slice expression as the container of a store shares the source's storage;
	// failing stores through it change nothing
	func(h *c10Hist, do func(*c10Op)) {
		se := func(r string, i, j int) c10Place { return c10Place{root: r, sel: 's', i: i, j: j} }
		do(h.opInit("a", c10USlice(c10Int(1), c10Int(2), c10Int(3))))
		do(h.opInit("ts", c10I64Lit(1, 2, 3)))
		do(h.opWrite(se("a", 0, 1), c10IdxInt(0, "fixed"), c10Int(9), false))
		do(h.opWrite(se("a", 1, 3), c10IdxInt(1, "fixed"), c10Str("w"), false))
		do(h.opRead(se("a", 1, 3), c10IdxInt(1, "fixed"), false))
		do(h.opWrite(se("a", 0, 1), c10IdxInt(5, "fixed"), c10Int(9), false))
		do(h.opWrite(se("a", 0, 1), c10IdxInt(-1, "fixed"), c10Int(9), false))
		do(h.opWrite(se("a", 0, 1), c10IdxBad(c10Str("x"), "nonnumeric-string"), c10Int(9), false))
		do(h.opWrite(se("ts", 1, 3), c10IdxInt(0, "fixed"), c10Float(2.5), false))
		do(h.opWrite(se("ts", 0, 1), c10IdxInt(0, "fixed"), c10Str("x"), false))
		do(h.opWrite(se("ts", 0, 1), c10IdxInt(1, "fixed"), c10Str("x"), false))
		if !c10PendingFix_SliceExprAppend {
			do(h.opWrite(se("a", 0, 1), c10IdxInt(1, "fixed"), c10Int(7), false))
			do(h.opWrite(se("ts", 0, 2), c10IdxInt(2, "fixed"), c10Int(7), false))
			do(h.opWrite(se("a", 0, 3), c10IdxInt(3, "fixed"), c10Int(7), false))
		}
	},
	// 17: a slice appended as an ELEMENT of a typed slice of slices is a reference, by
	// every append form
	func(h *c10Hist, do func(*c10Op)) {
		ref := h.ref
		do(h.opInit("ns", c10Val{"make([][]int64, 0)", make([][]int64, 0), "make"}))
		do(h.opInit("ts", c10I64Lit(1, 2)))
		do(h.opWrite(c10P("ns"), c10IdxInt(0, "fixed"), ref("ts"), false))
		do(h.opWrite(c10P("ts"), c10IdxInt(0, "fixed"), c10Int(7), false))
		do(h.opRead(c10Place{root: "ns", sel: 'i', i: 0}, c10IdxInt(0, "fixed"), false))
		do(h.opAppend("+=", "", c10P("ns"), c10Nil()))
		if !c10PendingFix_AppendCopiesInner {
			do(h.opAppend("+=", "", c10P("ns"), c10USlice(ref("ts"))))
			do(h.opWrite(c10P("ts"), c10IdxInt(1, "fixed"), c10Int(8), false))
			do(h.opRead(c10Place{root: "ns", sel: 'i', i: 2}, c10IdxInt(1, "fixed"), false))
		}
	},
	// 18: a script function returning a nested literal is called again and again (one
	// literal node, many evaluations): every result is a value of its own at every level
	func(h *c10Hist, do func(*c10Op)) {
		el := func(r string, i int) c10Place { return c10Place{root: r, sel: 'i', i: i} }
		fx := func(n int64) c10Idx { return c10IdxInt(n, "fixed") }
		do(h.opDefFactory(c10LL(c10LL(c10LI(0), c10LI(0)), c10LL(c10LI(0), c10LI(0))), 0))
		do(h.opLitCall("a", 0))
		do(h.opWrite(el("a", 0), fx(0), c10Int(7), false))
		do(h.opWrite(el("a", 1), fx(1), c10Int(8), false))
		do(h.opLitCall("b", 0))
		do(h.opRead(el("b", 0), fx(0), false))
		do(h.opWrite(el("b", 1), fx(0), c10Str("w"), true))
		do(h.opLitCall("c", 0))
		do(h.opRead(el("a", 1), fx(0), false))
		do(h.opDefFactory(c10LM(c10Str("k"), c10LL(c10LI(1)), c10Str("m"), c10LM(c10Str("x"), c10LI(1))), 1))
		do(h.opLitCall("m", 1))
		do(h.opWrite(c10Place{root: "m", sel: 'k', k: c10Str("k")}, fx(0), c10Int(5), false))
		do(h.opMapWrite(c10Place{root: "m", sel: 'k', k: c10Str("m")}, c10Str("x"), c10Int(6), false, false))
		do(h.opLitCall("n", 1))
		do(h.opRead(c10Place{root: "n", sel: 'k', k: c10Str("k")}, fx(0), false))
		do(h.opMapRead(c10Place{root: "n", sel: 'k', k: c10Str("m")}, c10Str("x"), false, false))
		do(h.opDelete(c10Place{root: "n", sel: 'k', k: c10Str("m")}, c10Str("x"), false))
		do(h.opLitCall("m", 1))
		do(h.opDefFactory(c10LL(c10LS("r"), c10LT(1, 2), c10LTM("k1", 1), c10LL(c10LL(c10LI(3)))), 2))
		do(h.opLitCall("a", 2))
		do(h.opWrite(el("a", 1), fx(0), c10Int(9), false))
		do(h.opMapWrite(el("a", 2), c10Str("k1"), c10Int(4), false, false))
		do(h.opWrite(el("a", 3), fx(0), c10Int(2), false))
		do(h.opLitCall("b", 2))
		do(h.opRead(el("b", 1), fx(0), false))
		do(h.opLitCall("c", 0))
	},
	// 19: a literal in a loop body: every pass stores into a value of its own
	func(h *c10Hist, do func(*c10Op)) {
		ix := func(i int) c10LitSel { return c10LitSel{idx: i} }
		ky := func(k string) c10LitSel { return c10LitSel{key: c10Str(k), isKey: true} }
		do(h.opLitLoop("a", c10LL(c10LS("r"), c10LL(c10LI(0))), 3,
			[]c10LitStore{{path: []c10LitSel{ix(1)}, sel: ix(0), inc: true}}, false))
		do(h.opLitLoop("b", c10LL(c10LL(c10LI(0), c10LI(0)), c10LL(c10LI(0), c10LI(0))), 2,
			[]c10LitStore{{path: []c10LitSel{ix(0)}, sel: ix(0), v: c10Int(7)}, {path: []c10LitSel{ix(1)}, sel: ix(1), v: c10Str("x")}}, false))
		do(h.opLitLoop("c", c10LL(c10LL(c10LI(1), c10LI(2))), 3, nil, false))
		do(h.opWrite(c10Place{root: "c", sel: 'i', i: 0}, c10IdxInt(0, "fixed"), c10Int(5), false))
		do(h.opLitLoop("a", c10LM(c10Str("k"), c10LL(c10LI(1)), c10Str("m"), c10LM(c10Str("x"), c10LI(1))), 3,
			[]c10LitStore{{path: []c10LitSel{ky("m")}, sel: ky("x"), inc: true}, {path: []c10LitSel{ky("k")}, sel: ix(0), v: c10Nil()}}, false))
		do(h.opLitLoop("b", c10LL(c10LT(1, 2), c10LTM("k1", 1), c10LL(c10LL(c10LI(3)))), 2,
			[]c10LitStore{{path: []c10LitSel{ix(0)}, sel: ix(1), inc: true}, {path: []c10LitSel{ix(1)}, sel: ky("k1"), v: c10Int(4)},
				{path: []c10LitSel{ix(2), ix(0)}, sel: ix(0), v: c10Float(1.5)}}, false))
		do(h.opLitLoop("c", c10LL(c10LL(c10LI(0)), c10LI(1)), 3,
			[]c10LitStore{{path: []c10LitSel{ix(0)}, sel: ix(0), inc: true}, {sel: ix(1), inc: true}}, true))
	},
	// 20: struct shapes side by side: the same field names at other positions (sq), fewer
	// fields (sr), anonymous Go structs of the host (hp, hq). A field reads back what was
	// last stored in it, a name the shape does not have is an error - whatever the other
	// shapes look like
	func(h *c10Hist, do func(*c10Op)) {
		for _, n := range []string{"st", "sq", "sr", "hp", "hq"} {
			do(h.opInitStruct(n))
		}
		do(h.opInit("ts", c10I64Lit(1, 2, 3)))
		do(h.opFieldWrite("st", "A", c10Int(3)))
		do(h.opFieldWrite("st", "B", c10Str("q")))
		do(h.opFieldRead("st", "A"))
		do(h.opFieldRead("st", "C"))
		do(h.opFieldRead("st", "G"))
		for _, n := range []string{"sq", "sr", "hp", "hq", "st"} {
			do(h.opFieldWrite(n, "A", c10Int(4)))
			do(h.opFieldRead(n, "A"))
			do(h.opFieldRead(n, "B"))
			do(h.opFieldWrite(n, "B", c10Str("zz")))
			do(h.opFieldRead(n, "A"))
			do(h.opFieldWrite(n, "C", h.ref("ts")))
			do(h.opFieldRead(n, "C"))
			do(h.opFieldWrite(n, "F", c10Float(2.5)))
			do(h.opFieldRead(n, "F"))
			do(h.opFieldRead(n, "G"))
			do(h.opFieldWrite(n, "G", c10Bool(true)))
			do(h.opFieldRead(n, "D"))
			do(h.opFieldWrite(n, "E", c10Str("e")))
			do(h.opFieldRead(n, "E"))
			do(h.opFieldWrite(n, "A", c10Str("x")))
			do(h.opFieldRead(n, "A"))
		}
		do(h.opWrite(c10Place{root: "hq", sel: 'f', f: "C"}, c10IdxInt(0, "fixed"), c10Int(9), false))
		do(h.opRead(c10Place{root: "sq", sel: 'f', f: "C"}, c10IdxInt(0, "fixed"), false))
		do(h.opMapWrite(c10Place{root: "sq", sel: 'f', f: "D"}, c10Str("k1"), c10Int(1), false, false))
		do(h.opMapWrite(c10Place{root: "hq", sel: 'f', f: "D"}, c10Str("k1"), c10Int(1), false, false))
	},
	// 21: a struct value read out of an untyped list / map element and bound to a name:
	// its fields are stored and read back through that name (what happens to the element
	// is the excluded copy-or-alias question: the list is not part of the model)
	func(h *c10Hist, do func(*c10Op)) {
		if c10PendingFix_StructFromElement {
			do(h.opInit("a", c10USlice(c10Int(1))))
			return
		}
		for i, src := range []string{"c10l = [" + c10ShapeOf["sr"].src + "]\nsr = c10l[0]", "c10m = {\"k\": " + c10ShapeOf["sq"].src + "}\nsq = c10m[\"k\"]"} {
			n := []string{"sr", "sq"}[i]
			do(&c10Op{src: src, opk: "struct-from-element", ck: "struct", pk: "var", mut: true,
				commit: func(reflect.Value) { h.declare(n, reflect.New(c10ShapeOf[n].t).Elem()) }})
			do(h.opFieldWrite(n, "A", c10Int(2)))
			do(h.opFieldRead(n, "A"))
			do(h.opFieldWrite(n, "A", c10Str("x")))
			do(h.opFieldWrite(n, "Z", c10Int(1)))
			do(h.opFieldRead(n, "A"))
		}
	},
	// 22: one assignment statement with a nested (also parenthesised) target executed again and
	// again with other operands: prelude functions called repeatedly, loops (c10_r5.go)
	c10FixedSharedTree,
	// 23: struct values inside an untyped list / map: their slice / map fields are references,
	// a store at index len through the unassignable field changes nothing it shares
	c10FixedStructElem,
}

func c10NestedHistory(h *c10Hist, do func(*c10Op), typed bool) {
	raw := func(src, opk string, commit func()) *c10Op {
		op := &c10Op{src: src, opk: opk, ck: map[bool]string{true: "tslice-of-tslice", false: "uslice-of-uslice"}[typed], pk: "loopvar", mut: true}
		if commit != nil {
			op.commit = func(reflect.Value) { commit() }
		}
		return op
	}
	if typed {
		do(h.opInit("nn", c10Val{"[][]int64{[]int64{1, 2}, []int64{3}}", [][]int64{{1, 2}, {3}}, "tslice-lit"}))
	} else {
		do(h.opInit("nn", c10USlice(c10USlice(c10Int(1), c10Int(2)), c10USlice(c10Int(3)))))
	}
	elem := func(i int) reflect.Value { return c10Unwrap(h.vars["nn"].cur().Index(i)) }
	do(raw("for c10e in nn { c10e[len(c10e)] = 9 }", "loopvar-append-at-len", nil))
	do(raw("for c10e in nn { c10e += 8 }", "loopvar-append", nil))
	do(raw("for c10e in nn { c10e[0] = 7 }", "loopvar-element-store", func() {
		for i := 0; i < 2; i++ {
			elem(i).Index(0).Set(reflect.ValueOf(int64(7)).Convert(elem(i).Type().Elem()))
		}
	}))
	do(raw("var c10a, c10b = nn\nc10a[len(c10a)] = 5\nc10b += 6", "spreadvar-append", nil))
	do(raw("var c10a, c10b = nn\nc10b[0] = 4", "spreadvar-element-store", func() {
		elem(1).Index(0).Set(reflect.ValueOf(int64(4)).Convert(elem(1).Type().Elem()))
	}))
	do(raw("c10f = func(x) { x[len(x)] = 1\n return len(x) }\nc10f(nn[0])", "parameter-append-at-len", nil))
	do(raw("c10x = nn[1]\nc10x[len(c10x)] = 2", "copy-append-at-len", nil))
	lenOp := func(i int) *c10Op {
		op := raw(fmt.Sprintf("len(nn[%d])", i), "len-of-element", nil)
		op.mut, op.hasVal = false, true
		op.vals = c10One(reflect.ValueOf(int64(elem(i).Len())))
		return op
	}
	do(lenOp(0))
	do(lenOp(1))
	do(raw("nn[0][len(nn[0])] = 6", "element-append-at-len", func() {
		e := elem(0)
		v := reflect.ValueOf(int64(6)).Convert(e.Type().Elem())
		if !typed {
			v = reflect.ValueOf(interface{}(int64(6)))
		}
		r := c10AppendModel(e, []reflect.Value{v}, c10Unwrap(h.lget(c10P("nn")).Index(0)))
		h.vars["nn"].cur().Index(0).Set(r)
	}))
	do(lenOp(0))
}

func c10RunFixed(c *wk.Case) {
	h := newC10Hist(c)
	if h.dead {
		return
	}
	c.Tag("fixed-history")
	c10Fixed[c.Index](h, func(op *c10Op) {
		if op == nil {
			if !h.dead {
				c.Inconclusive("fixed-op-outside-domain", fmt.Sprintf("fixed history %d after %d ops", c.Index, len(h.log)), h.log)
				h.dead = true
			}
			return
		}
		h.exec(op)
	})
	h.finish()
}

// ---- exhaustive enumeration of the index universe on fresh containers ----

// c10Universe: negative, 0, in range, len (3), between len and cap, cap (5), beyond, +-2^40, and the non-integers.
func c10Universe() []c10Idx {
	u := []c10Idx{c10IdxInt(-(1 << 40), "-2^40"), c10IdxInt(-2, "negative"), c10IdxInt(-1, "negative"), c10IdxInt(0, "zero"),
		c10IdxInt(1, "in-range"), c10IdxInt(2, "in-range"), c10IdxInt(3, "len"), c10IdxInt(4, "len+1"), c10IdxInt(5, "cap"),
		c10IdxInt(6, "cap+1"), c10IdxInt(1<<40, "+2^40")}
	return append(u, c10IdxBad(c10Str("x"), "nonnumeric-string"), c10IdxBad(c10Nil(), "nil"),
		c10IdxBad(c10USlice(c10Int(1)), "slice"), c10IdxBad(c10UMap(c10Str("k"), c10Int(1)), "map"))
}

type c10Base struct {
	name  string
	p     c10Place
	dst   string
	setup func(h *c10Hist) []*c10Op
	good  c10Val // storable element
	bad   c10Val // unstorable element (typed) / another kind (untyped)
}

var c10Bases = []c10Base{
	{"untyped-slice", c10P("a"), "c", func(h *c10Hist) []*c10Op {
		return []*c10Op{h.opInit("b", c10USlice(c10Int(10), c10Int(11), c10Int(12), c10Int(13), c10Int(14)))}
	}, c10Int(7), c10Str("q")},
	{"typed-slice", c10P("a"), "c", func(h *c10Hist) []*c10Op {
		return []*c10Op{h.opInit("b", c10I64Lit(10, 11, 12, 13, 14))}
	}, c10Float(7.9), c10Str("q")},
	{"string", c10P("a"), "c", func(h *c10Hist) []*c10Op {
		return []*c10Op{h.opInit("b", c10Str("abcde"))}
	}, c10Str("Q"), c10Float(1.5)},
}

const c10EnumPerBase = 17 // 1 element-access case + one slicing case per low bound (omitted + 15)

type c10MapBase struct {
	name string
	init c10Val
	good c10Val
	bad  c10Val
}

var c10MapBases = []c10MapBase{
	{"untyped-map", c10Val{`{"k1": 1, 2: "two", nil: 0}`, nil, "umap-lit"}, c10Int(7), c10USlice(c10Int(1))},
	{"map[string]int64", c10Val{`map[string]int64{"k1": 1, "k2": 2}`, nil, "tmap-lit"}, c10Float(7.9), c10Str("q")},
	{"map[int64]string", c10Val{`map[int64]string{2: "two", 0: "zero"}`, nil, "tmap-lit"}, c10Str("v"), c10Float(1.5)},
}

func c10MapInit(i int) c10Val {
	b := c10MapBases[i].init
	switch i {
	case 0:
		b.v = map[interface{}]interface{}{"k1": int64(1), int64(2): "two", nil: int64(0)}
	case 1:
		b.v = map[string]int64{"k1": 1, "k2": 2}
	default:
		b.v = map[int64]string{2: "two", 0: "zero"}
	}
	return b
}

func c10EnumCases() int { return len(c10Bases)*c10EnumPerBase + len(c10MapBases) }

// c10Mini runs setup + one operation in a fresh environment.
func c10Mini(c *wk.Case, setup func(h *c10Hist) []*c10Op, mk func(h *c10Hist) *c10Op) {
	h := newC10Hist(c)
	if h.dead {
		return
	}
	for _, op := range setup(h) {
		if !h.exec(op) {
			h.finish()
			return
		}
	}
	if h.dead {
		h.finish()
		return
	}
	op := mk(h)
	if op == nil {
		c.Excluded("enum-outside-domain")
		return
	}
	h.exec(op)
	h.finish()
}

func c10RunEnum(c *wk.Case) {
	u := c10Universe()
	nb := len(c10Bases) * c10EnumPerBase
	if c.Index >= nb {
		mi := c.Index - nb
		mb := c10MapBases[mi]
		setup := func(h *c10Hist) []*c10Op {
			return []*c10Op{h.opInit("m", c10MapInit(mi)), h.opInit("a", c10USlice(c10Int(1)))}
		}
		keys := []c10Val{c10Str("k1"), c10Str("k2"), c10Str("zz"), c10Str(""), c10Str("x y"), c10Int(0), c10Int(1), c10Int(2), c10Float(1.5), c10Float(2),
			c10Bool(true), c10Bool(false), c10Nil(), c10USlice(c10Int(1)), c10UMap(c10Str("k"), c10Int(1)), {"a", []interface{}{int64(1)}, "var-slice"}}
		p := c10P("m")
		for _, k := range keys {
			k := k
			for _, call := range []bool{false, true} {
				call := call
				for _, member := range []bool{false, true} {
					member := member
					if member && call {
						continue
					}
					c10Mini(c, setup, func(h *c10Hist) *c10Op { return h.opMapRead(p, k, member, call) })
					for _, v := range []c10Val{mb.good, mb.bad} {
						v := v
						c10Mini(c, setup, func(h *c10Hist) *c10Op { return h.opMapWrite(p, k, v, member, call) })
					}
				}
				c10Mini(c, setup, func(h *c10Hist) *c10Op { return h.opDelete(p, k, call) })
			}
		}
		c10Mini(c, setup, func(h *c10Hist) *c10Op { return h.opLen(p) })
		c.Tag("enum:" + mb.name)
		return
	}
	b := c10Bases[c.Index/c10EnumPerBase]
	sub := c.Index % c10EnumPerBase
	// a = b[0:3]: len 3, cap 5 (string: len 3)
	mini := func(mk func(h *c10Hist) *c10Op) {
		c10Mini(c, func(h *c10Hist) []*c10Op {
			for _, op := range b.setup(h) {
				if !h.exec(op) {
					return nil
				}
			}
			return []*c10Op{h.opSlice("a", c10P("b"), c10IP(0), c10IP(3), nil, false)}
		}, mk)
	}
	c.Tag("enum:" + b.name)
	if sub == 0 {
		for _, ix := range u {
			ix := ix
			for _, call := range []bool{false, true} {
				call := call
				mini(func(h *c10Hist) *c10Op { return h.opRead(b.p, ix, call) })
				for _, v := range []c10Val{b.good, b.bad} {
					v := v
					mini(func(h *c10Hist) *c10Op { return h.opWrite(b.p, ix, v, call) })
				}
			}
		}
		mini(func(h *c10Hist) *c10Op { return h.opLen(b.p) })
		return
	}
	var lo *c10Idx
	if sub >= 2 {
		lo = &u[sub-2]
	}
	his := []*c10Idx{nil}
	for i := range u {
		his = append(his, &u[i])
	}
	for _, hi := range his {
		hi := hi
		for _, dst := range []string{"", b.dst} {
			dst := dst
			mini(func(h *c10Hist) *c10Op { return h.opSlice(dst, b.p, lo, hi, nil, false) })
		}
		mini(func(h *c10Hist) *c10Op { return h.opSlice(b.dst, b.p, lo, hi, nil, true) })
		if hi == nil {
			continue
		}
		for i := range u {
			mx := &u[i]
			dst := ""
			if i%2 == 1 {
				dst = b.dst
			}
			mini(func(h *c10Hist) *c10Op { return h.opSlice(dst, b.p, lo, hi, mx, false) })
		}
	}
}

func init() {
	wk.Register(&wk.Engine{
		ID: "C10",
		Plan: func(tier string) fw.Plan {
			nRand := 9000
			if tier == "thorough" {
				nRand = 600000
			}
			return fw.Plan{
				Level: "exploration",
				Rule:  "one evaluation = one history: a fresh environment, 3-8 container variables (one of 17 profiles) and 10-40 operations, each its own vm.Execute call; after every operation every variable is fetched with env.Get and walked against a native Go model (types, contents, len, cap, storage sharing through a live<->model element-address bijection); containers include typed numeric slices of eight element types (int64, float64, int32, byte, float32, uint64, uint, uint32), maps with byte / uint64 keys and uint64 values, a struct with a field of every numeric kind the script can name, nil typed maps / nil typed slices (zero elements of make([]map..) / make([][]T..), names and struct fields bound to nil) and slice expressions as the left operand of a store; struct values of five shapes side by side (the same field names at other positions, a two-field shape, anonymous Go structs bound by the host through a pointer; fields of other shapes are unknown fields); in 40% of the histories with an untyped slice 1-2 script functions returning a random nested literal (lists, maps, typed literals, depth <= 3) are defined once and called again and again, and loops evaluate a literal in their body 2-4 times with in-place stores (`=`, `+= 1`) into inner containers - the Go model builds fresh storage for every evaluation of a literal; about 5% of the operations execute ONE assignment statement with a nested target once more with other operands ((x[i])[j] = v, x[i][j] = v, (x[i]).k1 = v, (x[i])[j] += 1, (x[i])[j]++, with and without parentheses around the container): ten script functions of the prelude that every history calls again and again on the elements of its lists of lists / maps / strings, and loops of 2-4 passes over one such statement (four spellings) - the k-th execution stores into the container its operands designate at the k-th execution; struct values are put into untyped lists and maps (`a[i] = c10mkS(ts[i:j], e)`: the slice field shares storage, and often spare capacity, with a variable) and their slice / map fields are containers for every operation; an operation the Go model rejects must report an error and leave every container unchanged. Values stored into a numeric slot are drawn in 30-75% of the draws from the ends of the kinds' ranges (2^7..2^64 +- a little as integers and floats, floats in [2^63, 2^64), negative fractions, host-typed numbers no literal spells such as uint64 above MaxInt64 and MinInt64), byte / rune slots also get strings (ASCII, empty, several characters, one character of 2-3 bytes, single bytes >= 0x80 cut out of a string with s[i:i+1]); 4% of the operations are `p[i] = p[i]` (an in-range index changes nothing) or `+` / `+=` with a map as the left operand (an error). Phase conv is the full matrix: 14 slot kinds (uint64, uint, uint32, uint16, byte, int64, int, rune, int16, int8, float64, float32, string, bool) x 5 groups of values (28 integers, 42 floats, 19 strings, 10 host-typed numbers, 7 values of other kinds) x 13 ways of storing (index store plain / through a call / through a slice expression / below an untyped list and through the shared nested-target statements, store at index len with and without spare capacity, `+=`, `= +`, `+ [v, v]`, append as an expression and through a call, map value by index / member / call, map key, struct field, slice in a struct field, typed slice and map literals with the value as element, value and key), each on fresh containers followed by a read-back; the signature names slot kind and value kind. Containers that TRAVEL (c10_r7.go): phase pass = 17 container kinds (untyped list with and without spare capacity, typed slice, slice expressions, list / map held by a list element, untyped / empty / typed map, slice and map in a struct field, map in an element of a typed slice of maps - stored as it is and converted from {} -, nil typed map, slice in the field of a struct value held by a list element, string) x 38 ways of reaching another holder x 4 forms: as the argument of a call - script functions of 1, 3 and 5 parameters (direct-call path and reflect.Call path), variadic tail (first / second position) and `p...` spread, anonymous functions of one and two parameters, functions held by a list element / a map entry, Go functions of the host with an interface parameter, a parameter of exactly the container's type, a variadic tail and a spread - called directly, deferred (`defer f(p)` inside an anonymous function, a named function, a function value, an if block, a loop body) and started with go (the callee signals on a channel, the caller waits: no timing); and as a value - parentheses, multiple assignment (both positions), var, both arms of ?:, ??, list / map literal and out again (member and index), channel send / receive, for-in over a list / a map, result of a script function (one / two results), of a closure, of a closure over a parameter, assignment inside a closure / a deferred closure / a go-started closure / a switch case / an if block, a typed channel, result of a Go function. The receiver is bound to a name; the Go model binds that name to the SAME slice header / map, and the walker's address bijection shows at once whether storage is still shared; stores and reads through both holders follow. later-store operations (7 callee kinds x defer (3-5 wrappers) / go x 8 index pairs per container kind): the callee of a deferred / go call stores l[i] = v and reads l[j] when it runs, the caller stores p[j] = w AFTER the defer / go statement (for go: the goroutine waits on a channel for the caller's store, the caller for the goroutine's): both stores must be in the one container, the callee must read w. Phase slots = 12 kinds of typed MAP slot (element of make([]map[string]int64, n) stored by index / through a call / at index len / by += / through a slice expression, entry of a map of maps by member / index / call, map field of a script-made and of a host struct, inside a typed slice / map literal) x 17 sources (empty and non-empty untyped literal, a literal with converting values, names bound to an empty / non-empty / emptied untyped map, empty make / literal / names of another map type, names of the slot's own type, nil, a nil map of another type directly and through a name, two unconvertible maps) x 6 variants: store, `slot == nil` / `!= nil`, len, the slot's content bound to a name (14 of the ways above in rotation, every call form), a key stored through that name (index / member / through a call) and read through the slot, a second name, a store through the slot expression read through both names, delete through a name, a store into the source (a map of another type shares nothing with the slot, one of the slot's type IS the slot's map); the Go parameter map[string]int64 of a host function handed each literal source; slice slots (element of make([][]int64, n), slice field) x 9 sources (nil, [], lists, nil slices of another type directly and through a name, an empty []float64 with capacity, the slot's own type). In the random histories 6% of the operations are a pass (any way / form / place), a later-store or `p == nil` / `p != nil`; values drawn for a typed map slot are in 60% of the draws maps of ANOTHER type ({}; one-entry literals; make(map[string]interface); names bound to untyped / other-typed maps whatever they hold; nil elements of slices of maps of another type; an unconvertible map); maps of maps and slices of map[string]int64 are container variables (3 more profiles), entries of a typed map of maps are places. A history is non-trivial when >=3 operations ran and >=1 mutated a container; distinct = distinct operation text." + c10R8Rule,
				Assumptions: []string{
					"Go's own slice/map/string operations (through reflect) are the reference; capacity after a growing append is adopted from the live object",
					"numeric-string indices only as decimal numerals with a leading zero (accepted: error, or what the integer does); not generated: float/bool indices, reslice high bound in (len,cap], struct value copies, `in` on maps/strings, multi-byte string-position stores, int->string and nil->typed-slot stores",
					"accepted both ways: []interface{} / []float64 stored into a []int64 field (element-wise copy or error); missing key of a typed map reads nil or the zero value; a key a typed map cannot hold reads nil or errors; a store of a convertible value into a NIL typed map (error leaving everything unchanged, or a new map with the converted value bound to the place)",
					"typed slots: a number converts as Go's T(v) of a non-constant does - a float is truncated towards zero and must arrive exactly when the slot type can represent the truncated value (uint64(1e19), uint64(-0.5) = 0, int64(-2^63)); not generated: a float beyond the slot's range, NaN, a float64 beyond float32 (Go: implementation-defined), []byte/[]rune->string; an INTEGER the slot type cannot represent: the wrapped value (Go, non-constant) or an error that changes nothing (Go, constant) - nothing else",
					"a string offered to a byte / rune slot (Go has no such conversion; the library documents reading a one-character string as that character; the statement is silent): always accepted is an error that changes nothing; the only success accepted is the lossless one - a one-byte string is exactly that byte (whatever the byte: \"é\"[0:1] is 0xC3), one well-formed character of several bytes is that character if the slot can hold it (U+00E9 in a byte, any in a rune), the empty string is zero; a character above U+00FF into a byte slot and a string of several characters must fail; not generated: a single byte >= 0x80 into a rune slot (0xC3 and U+FFFD both defensible); converting map keys only on stores",
					"a MAP (or, for in-range index stores and field stores, a SLICE) of another type offered to a typed slot: Go has no conversion between map / slice types, so an error that changes nothing is always accepted; the only success accepted is the element-wise conversion the library documents: a NEW container (no storage shared with the source; capacity of a converted slice adopted from the live object) holding the entries converted as single stores would convert them, nil exactly when the source is nil (Go's conversions keep nil-ness) - afterwards an ordinary reference value for every name / parameter bound to the slot's content; not generated: sources whose keys need a lossy or excluded conversion (an int key for a string-keyed map) or collide after conversion, values that convert lossily, converted slices inside converted maps, converted slices appended / stored at index len / stored as map values; a map of another type handed to a Go parameter map[string]int64: an error, or the callee sees a non-nil map it can store into (what the caller's map shows afterwards is not judged: the conversion is a copy)",
					"`p == nil` / `p != nil` is Go's answer on maps everywhere (make and literals are non-nil, zero elements of make([]map.., n), fields of host structs and slots assigned nil are nil, a map the script creates on the first store into a nil map is non-nil) and on slices of length > 0; on a slice of length 0 only directly after the store in phase slots (the nil-ness of an empty slice that went through slicing / appending is Go's and not promised by the statement)",
					"containers that travel: the receiver holds the same slice header / map whatever the way and the call form; Go's `defer f(a)` / `go f(a)` evaluate the slice header at the statement, element stores made afterwards on either side are visible on the other; not judged: which list a deferred / go call sees when the NAME is rebound after the statement (argument evaluation time is not a container rule), a typed slice spread into a script function's variadic tail and any container handed to a Go parameter of another type (conversions Go does not have: the copy is legitimate), defer at the top level of a script, a defer statement inside an if block / loop body when the order of the deferred store and a later store of the caller matters, two unordered stores of a go-started Go callee and the caller into one map or one element; a go call that never signals is cut off after 120 s and reported inconclusive (never judged)",
					"`m + x` / `m += x` with a map as the LEFT operand is an ill-typed operand for every x (list, map, number, string, boolean, nil): an error, nothing rebound; `x + m` with a scalar on the left is C05's. A store through a field of a field of a struct VALUE held by a list element / map entry (a[0].F.G = v, m.k.F.H = s, += and ++ on such a target) is refused like a[0].X = v and changes nothing (fixed history c10FixedStructOfStruct)",
					"kept out until /repo is repaired (C10-r6-genuine.md): `in` between a negative needle and unsigned 64-bit elements above MaxInt64 (c10PendingFix_InUnsignedWraps), s[i] = s[i] on a byte >= 0x80 of a string (c10PendingFix_StringHighByteRoundTrip), `+` / `+=` between two maps (c10PendingFix_MapPlusMap; map + list is generated and must fail), a store at index len through the field of a struct element whose first spare slot is the list element holding that struct (c10PendingFix_AppendOntoOwnElement; fixed history c10FixedAppendOwnSlot holds the map form for after the repair)",
					"`in` with a numeric needle of another Go type than the elements is judged only when the needle denotes a number that no element denotes (then it must be false); nil against a nil typed slice/map element is not judged",
					"a store at index len through the field of a struct VALUE held by a list / map element (`a[0].C[len] = v`; Go cannot assign that field) is accepted as an error that leaves every container unchanged - including the spare capacity a longer slice shares - or as Go's `_ = append(a[0].C, v)`; not generated through such a field: `+=` / `= +` (append expression and failing assignment pull in different directions), stores into a string field, stores into a nil map field; struct values in TYPED maps and Go array values handed in by the host are not generated",
					"statement loops hold only passes that succeed in the Go model (in-range stores, map entries, appends within the capacity; `+= 1` / `++` only on int64 elements that exist); failing and growing stores through a shared statement run one call per operation",
					"a literal expression is Go's composite literal: every evaluation yields fresh storage at every nesting level; literal functions and loops are the only operations that evaluate one expression node more than once (stores below a loop's literal are in range or map entries, never at index len)",
					"struct shapes: script-made structs start with empty slice / map fields, host structs with nil ones; the struct type built by the model with reflect.StructOf is the type the script's make(struct{...}) yields; a random (non-fixed) history of a process-wide defect may need the earlier cases of its worker process to reproduce",
					"kept out until /repo is repaired (C10-r4-genuine.md, c10PendingFix_StructFromElement): fields of a struct value read out of an untyped list / map element and bound to a name (fixed history 21); " +
						"repaired in /repo and generated again (C10-genuine.md, the other c10PendingFix_* constants are false): a store at index len through a slice expression `a[i:j][len] = v`; `ns += [ts]` on a typed slice of slices; delete with an unusable key on a nil map; not generated: a nil inside a list appended to a typed slice, an empty list of an unappendable type",
					c10R8Assumptions[0], c10R8Assumptions[1],
				},
				Phases: append([]fw.Phase{
					{Name: "fixed", Cases: len(c10Fixed), Chunk: len(c10Fixed), TimeoutS: 300},
					{Name: "enum", Cases: c10EnumCases(), Chunk: 4, Exhaust: true, TimeoutS: 600},
					{Name: "slots", Cases: c10SlotCases(), Chunk: 4, TimeoutS: 600},
					{Name: "pass", Cases: c10PassCases(), Chunk: 6, TimeoutS: 600},
					{Name: "random", Cases: nRand, Chunk: 250, TimeoutS: 900},
					{Name: "conv", Cases: c10ConvCases(), Chunk: 5, TimeoutS: 600, MemMB: 3072, Jobs: 4},
				}, c10R8Phases(tier)...),
			}
		},
		Run: func(c *wk.Case) {
			if c10R8Run(c) {
				return // sizes, hot, stream: c10_r8.go
			}
			switch c.Phase {
			case "fixed":
				c10RunFixed(c)
			case "enum":
				c10RunEnum(c)
			case "conv":
				c10RunConv(c)
			case "slots":
				c10RunSlots(c)
			case "pass":
				c10RunPass(c)
			default:
				c10RunRandom(c)
			}
		},
	})
}
