package main

// C11, round-8 phases: volume and history.
//
// The statement speaks of EVERY call, read and conversion; nothing in it lets the
// outcome depend on how often the same call expression was evaluated before, on
// how many other functions / types / sources the process has seen, on the size of
// what is passed, or on what earlier programs left behind. The phases of the
// earlier rounds evaluate every node a few times, with small values, in short-lived
// processes. These phases drive the SAME absolute oracle (c11RefConvert /
// c11Call.expect: "arrives as the value Go's own conversion to T would produce ...
// or the call fails with an error", "called with exactly the supplied arguments",
// "all of their results come back") in the other regime:
//
//   hot     one call site / member expression / callback expression of ONE parsed
//           tree evaluated thousands of times (past 1000, 1024, 4096 and 4097; one
//           site per six cases past 65537) by three vehicles - a script loop, a
//           script function called again and again, one parsed tree re-run with
//           vm.Run - and judged at EVERY evaluation. The Go side judges what it
//           receives on entry (before it touches it) and then WORKS IN PLACE on its
//           slice and map parameters and keeps the last few it got, as Go code may:
//           the next evaluation must again receive the conversion of the script
//           value, and what an earlier call received must not change behind its
//           back. Operands are literals written at the site, names, and variables
//           whose value (and dynamic type, and convertibility) changes between
//           evaluations by five schedules (monomorphic, a late switch after 1100
//           evaluations, alternating, one odd evaluation in 257, blocks of 700);
//           the callee name is re-bound to another function of the same and of
//           another type, method holders change their type under the same method
//           name, refusals are mixed among valid calls.
//   stream  ONE process per case: >= 8000 pairwise distinct items (more than half
//           of them one source value headed for one target type, whatever the
//           verdict: a walk through the type-pair matrix; calls with
//           distinct manufactured signatures under fresh and under re-used names,
//           field reads / writes on manufactured struct types, round trips,
//           callbacks) stream through many environments (some kept alive, some
//           dropped, runtime.GC forced so that addresses are re-used; every run under
//           its own context, cancelled afterwards or leaked; a few goroutines left
//           parked) while twelve reference sites - each with its own kept function,
//           half of them with a kept parsed tree - are re-asked at distances of
//           exactly N-1, N, N+1 streamed items for N in 256, 1000, 1024, 4096. Every
//           item and every re-ask is judged by the absolute oracle.
//   sizes   lengths, counts and depths on and next to 256 / 1024 / 4096 / 65536 and
//           200000: lists, maps, strings (multi-byte characters at every alignment)
//           converted to typed parameters, calls with that many arguments, spread
//           lists, many parameters, big results, structs with that many fields,
//           sources whose call straddles the 4 KiB / 64 KiB offsets, calls nested
//           12000 deep, callbacks nested 4097 deep, 12000 deferred calls, a call
//           under 12000 nested blocks, thousands of parked goroutines started with
//           `go f(..)`.
//
// Nothing here knows a threshold of the code under test: the numbers are the
// generic ones above. UNSPECIFIED places are those of c11.go (the same oracle
// functions decide); in addition:
//   * what a Go function does to an argument passed BY IDENTITY (a []int64 for a
//     []int64 parameter) is visible to the script, as in Go: the model of such a
//     value is the live object itself, read when the next evaluation begins;
//   * "what an earlier call received does not change" is judged only for flat
//     containers the conversion had to build (element-wise, or string -> []byte /
//     []rune): nothing else can hold a reference to those;
//   * variadic/spreadN (a spread that has to fill fixed parameters of a variadic
//     function, a known finding) is not generated.

import (
	"context"
	"fmt"
	"math"
	"math/rand"
	"reflect"
	"runtime"
	"sort"
	"strconv"
	"strings"
	"sync"
	"time"

	"github.com/mattn/anko/ast"
	"github.com/mattn/anko/env"

	"verifharness/internal/ank"
	"verifharness/internal/fw"
	"verifharness/internal/wk"
)

// ---------------------------------------------------------------------------
// one evaluation, judged on the Go side at entry

type c11r8Eval struct {
	n       int
	ft      reflect.Type // nil: not a call site (finish decides)
	call    *c11Call
	ex      c11Expect
	shape   string
	results []reflect.Value
	discard bool // the results are discarded (deferred call)
	mutate  bool // the Go side works in place on its slice / map parameters
	recv    func(recv interface{}) string
	keep    *c11r8Keep
	combo   string // which variants this evaluation uses (for the distinct count)

	calls   int
	argFail string
	argDet  string
	gotArgs []string

	// sites that are no calls of a recorder: verdict on the evaluation's value
	finish func(val interface{}, failed bool) (string, string)
	want   func() string
}

var c11r8Cur *c11r8Eval

// c11r8Fn manufactures a Go function of type ft judged by the current evaluation.
func c11r8Fn(ft reflect.Type) reflect.Value {
	return reflect.MakeFunc(ft, func(in []reflect.Value) []reflect.Value {
		cp := make([]reflect.Value, len(in))
		copy(cp, in)
		res := c11r8Cur.enter(nil, cp)
		out := make([]reflect.Value, ft.NumOut())
		for i := range out {
			if i < len(res) && res[i].IsValid() && res[i].Type() == ft.Out(i) {
				out[i] = res[i]
			} else {
				out[i] = reflect.Zero(ft.Out(i))
			}
		}
		return out
	})
}

func (ev *c11r8Eval) enter(recv interface{}, in []reflect.Value) []reflect.Value {
	if ev == nil {
		return nil
	}
	ev.calls++
	if ev.calls > 1 {
		return ev.results
	}
	ev.judgeArgs(in)
	if ev.keep != nil && ev.argFail == "" {
		if d := ev.keep.check(); d != "" {
			ev.argFail, ev.argDet = "kept-argument-changed", d
		}
	}
	if ev.recv != nil && ev.argFail == "" {
		if d := ev.recv(recv); d != "" {
			ev.argFail, ev.argDet = "wrong-receiver", d
		}
	}
	if ev.mutate {
		for i := range in {
			c11r8Mutate(in[i], 0)
		}
		if ev.keep != nil && ev.ex.kind == c11OK && len(in) == len(ev.ex.args) {
			for i := range in {
				fresh := c11r8Fresh(ev.ex.args[i], in[i])
				if !fresh && ev.call != nil && ev.shape == "fixed/plain" && i < len(ev.call.pre) {
					// string -> []byte / []rune: Go's conversion builds a new slice
					src, got := c11Unwrap(ev.call.pre[i].v), c11Unwrap(in[i])
					fresh = src.IsValid() && src.Kind() == reflect.String && got.IsValid() && got.Kind() == reflect.Slice && got.Len() > 0
				}
				if fresh {
					ev.keep.add(ev.n, i, in[i])
				}
			}
		}
	}
	return ev.results
}

// judgeArgs: the received arguments against the statement's verdict (as c11Call.run does).
func (ev *c11r8Eval) judgeArgs(got []reflect.Value) {
	if ev.ex.kind != c11OK {
		if ev.ex.kind == c11None {
			ev.gotArgs = c11RenderArgs(got)
		}
		return
	}
	fail := func(d string) {
		if ev.argFail == "" {
			ev.argFail, ev.argDet = "wrong-args", d
			ev.gotArgs = c11RenderArgs(got)
		}
	}
	if len(got) != len(ev.ex.args) {
		fail(fmt.Sprintf("received %d arguments, want %d", len(got), len(ev.ex.args)))
		return
	}
	for i, w := range ev.ex.args {
		if w.adapter {
			g := c11Unwrap(got[i])
			if !g.IsValid() || g.Kind() != reflect.Func || g.IsNil() {
				fail(fmt.Sprintf("argument %d: want a non-nil func adapting the script function, got %s", i, ank.RenderValue(got[i])))
				return
			}
			continue
		}
		if d := c11Diff(got[i], w.v, w.mode, "argument "+strconv.Itoa(i), 0); d != "" {
			fail(d)
			return
		}
	}
}

// outcome: the verdict on one evaluation of a call site (the rules of c11Call.run).
func (ev *c11r8Eval) outcome(val interface{}, failed bool, errText string) (string, string) {
	if ev.ft == nil {
		if ev.finish == nil {
			return "", ""
		}
		return ev.finish(val, failed)
	}
	ex := ev.ex
	switch ex.kind {
	case c11Unspec:
		if ev.calls > 1 {
			return "invocations=" + strconv.Itoa(ev.calls), "the Go function was invoked more than once for one call"
		}
		return "excluded", ex.why
	case c11None:
		if ev.calls != 0 {
			what := "invoked-despite-unconvertible"
			if ex.arity {
				what = "invoked-despite-arity-mismatch"
			}
			return what, fmt.Sprintf("%s, yet the Go function was invoked %d time(s) with %v", ex.why, ev.calls, ev.gotArgs)
		}
		if !failed && !ex.arity {
			return "no-error", fmt.Sprintf("%s, yet the call yielded %s without an error", ex.why, ank.Render(val))
		}
		return "", ""
	}
	if ex.orError && failed && ev.calls == 0 {
		return "", ""
	}
	if failed {
		return "unexpected-error", fmt.Sprintf("a conversion exists for every argument, yet the call failed: %q (invocations: %d)", errText, ev.calls)
	}
	if ev.calls != 1 {
		return "invocations=" + strconv.Itoa(ev.calls), fmt.Sprintf("the Go function was invoked %d times for one call", ev.calls)
	}
	if ev.argFail != "" {
		return ev.argFail, ev.argDet
	}
	if ev.discard {
		return "", ""
	}
	switch nOut := ev.ft.NumOut(); {
	case nOut == 0:
		// UNSPECIFIED: the script value of a call without results
	case nOut == 1:
		if d := c11Diff(reflect.ValueOf(val), ev.results[0], c11NilExact, "result", 0); d != "" {
			return "wrong-result", d
		}
	default:
		lst, ok := val.([]interface{})
		if !ok || len(lst) != nOut {
			return "wrong-result", fmt.Sprintf("%d results must come back as a list of %d, got %s", nOut, nOut, ank.Render(val))
		}
		for i := range lst {
			if d := c11Diff(reflect.ValueOf(lst[i]), ev.results[i], c11NilExact, "result "+strconv.Itoa(i), 0); d != "" {
				return "wrong-result", d
			}
		}
	}
	return "", ""
}

// ---------------------------------------------------------------------------
// working in place, as Go code may: every toggle keeps the dynamic type, so
// convertibility never changes; applying it twice restores the value

func c11r8Toggle(e reflect.Value, depth int) {
	switch e.Kind() {
	case reflect.Bool:
		e.SetBool(!e.Bool())
	case reflect.Int, reflect.Int8, reflect.Int16, reflect.Int32, reflect.Int64:
		e.SetInt(e.Int() ^ 1)
	case reflect.Uint, reflect.Uint8, reflect.Uint16, reflect.Uint32, reflect.Uint64, reflect.Uintptr:
		e.SetUint(e.Uint() ^ 1)
	case reflect.Float64:
		e.SetFloat(math.Float64frombits(math.Float64bits(e.Float()) ^ 1))
	case reflect.Float32:
		e.SetFloat(float64(math.Float32frombits(math.Float32bits(float32(e.Float())) ^ 1)))
	case reflect.String:
		if s := e.String(); strings.HasSuffix(s, "~") {
			e.SetString(s[:len(s)-1])
		} else {
			e.SetString(s + "~")
		}
	case reflect.Interface:
		if e.IsNil() {
			return
		}
		in := e.Elem()
		switch in.Kind() {
		case reflect.Slice, reflect.Map:
			if depth < 2 {
				c11r8Mutate(in, depth+1)
			}
		case reflect.Bool, reflect.Int, reflect.Int8, reflect.Int16, reflect.Int32, reflect.Int64,
			reflect.Uint, reflect.Uint8, reflect.Uint16, reflect.Uint32, reflect.Uint64, reflect.Uintptr,
			reflect.Float32, reflect.Float64, reflect.String:
			nv := reflect.New(in.Type()).Elem()
			nv.Set(in)
			c11r8Toggle(nv, depth)
			e.Set(nv)
		}
	case reflect.Slice, reflect.Map:
		if depth < 2 {
			c11r8Mutate(e, depth+1)
		}
	}
}

func c11r8Mutate(v reflect.Value, depth int) {
	v = c11Unwrap(v)
	if !v.IsValid() {
		return
	}
	switch v.Kind() {
	case reflect.Slice:
		n := v.Len()
		if n <= 64 {
			for i := 0; i < n; i++ {
				c11r8Toggle(v.Index(i), depth)
			}
			return
		}
		for _, i := range []int{0, 1, n / 2, n - 2, n - 1} {
			c11r8Toggle(v.Index(i), depth)
		}
	case reflect.Map:
		if v.IsNil() {
			return
		}
		var keys []reflect.Value
		for it := v.MapRange(); it.Next() && len(keys) < 64; { // a big map: some of its entries
			keys = append(keys, it.Key())
		}
		for _, k := range keys {
			old := v.MapIndex(k)
			if !old.IsValid() {
				continue // a NaN key
			}
			nv := reflect.New(v.Type().Elem()).Elem()
			nv.Set(old)
			c11r8Toggle(nv, depth)
			v.SetMapIndex(k, nv)
		}
		if v.Type().Key().Kind() == reflect.String {
			k := reflect.ValueOf("~").Convert(v.Type().Key())
			if v.MapIndex(k).IsValid() {
				v.SetMapIndex(k, reflect.Value{})
			} else {
				v.SetMapIndex(k, reflect.Zero(v.Type().Elem()))
			}
		}
	}
}

func c11r8Flat(t reflect.Type) bool {
	switch t.Kind() {
	case reflect.Bool, reflect.Int, reflect.Int8, reflect.Int16, reflect.Int32, reflect.Int64,
		reflect.Uint, reflect.Uint8, reflect.Uint16, reflect.Uint32, reflect.Uint64, reflect.Uintptr,
		reflect.Float32, reflect.Float64, reflect.String:
		return true
	}
	return false
}

// c11r8Fresh: a flat container the conversion had to build - nobody but the
// callee can hold a reference to it.
func c11r8Fresh(w c11Conv, got reflect.Value) bool {
	if w.adapter || !w.v.IsValid() || w.mode != c11NilConv {
		return false
	}
	got = c11Unwrap(got)
	if !got.IsValid() {
		return false
	}
	switch got.Kind() {
	case reflect.Slice:
		return !got.IsNil() && got.Len() > 0 && got.Len() <= 1<<21 && c11r8Flat(got.Type().Elem())
	case reflect.Map:
		return !got.IsNil() && got.Len() > 0 && got.Len() <= 1<<21 && c11r8Flat(got.Type().Elem()) && c11r8Flat(got.Type().Key())
	}
	return false
}

func c11r8Clone(v reflect.Value) reflect.Value {
	switch v.Kind() {
	case reflect.Slice:
		c := reflect.MakeSlice(v.Type(), v.Len(), v.Len())
		reflect.Copy(c, v)
		return c
	case reflect.Map:
		c := reflect.MakeMap(v.Type())
		it := v.MapRange()
		for it.Next() {
			c.SetMapIndex(it.Key(), it.Value())
		}
		return c
	}
	return v
}

// c11r8Keep: the last few built containers a site's Go function received (and
// worked on); they are its own.
type c11r8Keep struct {
	ring []c11r8Kept
	seen int
}

type c11r8Kept struct {
	n, arg    int
	val, snap reflect.Value
}

func (k *c11r8Keep) add(n, arg int, v reflect.Value) {
	v = c11Unwrap(v)
	k.seen++
	k.ring = append(k.ring, c11r8Kept{n: n, arg: arg, val: v, snap: c11r8Clone(v)})
	if len(k.ring) > 3 {
		k.ring = k.ring[1:]
	}
}

func (k *c11r8Keep) check() string {
	for _, x := range k.ring {
		if d := c11Diff(x.val, x.snap, c11NilExact, fmt.Sprintf("argument %d kept since evaluation %d", x.arg, x.n), 0); d != "" {
			return "a container built for an earlier call changed after that call had it: " + d
		}
	}
	return ""
}

// ---------------------------------------------------------------------------
// Go types with methods and fields for the member sites: two types with the
// SAME method and field names, other signatures, other field order and types

type C11R8Box struct {
	N int64
	S string
	L []int64
	M map[string]int64
	F float64
	I interface{}
	B []byte
}

type C11R8Alt struct {
	F []float64
	M map[string]string
	L []string
	S float64
	N string
	I interface{}
	X int64
	B string
}

func c11r8Res(r []reflect.Value, i int) interface{} {
	if i < len(r) && r[i].IsValid() && r[i].CanInterface() {
		return r[i].Interface()
	}
	return nil
}

func (b *C11R8Box) Sort(xs []int64, m map[string]int64) (int64, []int64) {
	r := c11r8Cur.enter(b, []reflect.Value{reflect.ValueOf(&xs).Elem(), reflect.ValueOf(&m).Elem()})
	a, _ := c11r8Res(r, 0).(int64)
	l, _ := c11r8Res(r, 1).([]int64)
	return a, l
}

func (b *C11R8Box) Take(v interface{}, n int8) interface{} {
	r := c11r8Cur.enter(b, []reflect.Value{reflect.ValueOf(&v).Elem(), reflect.ValueOf(&n).Elem()})
	return c11r8Res(r, 0)
}

func (b C11R8Box) Up(p []byte, fs ...[]float64) string {
	r := c11r8Cur.enter(b, []reflect.Value{reflect.ValueOf(&p).Elem(), reflect.ValueOf(&fs).Elem()})
	s, _ := c11r8Res(r, 0).(string)
	return s
}

func (a *C11R8Alt) Sort(xs []float64, m map[string]string) (int64, []int64) {
	r := c11r8Cur.enter(a, []reflect.Value{reflect.ValueOf(&xs).Elem(), reflect.ValueOf(&m).Elem()})
	x, _ := c11r8Res(r, 0).(int64)
	l, _ := c11r8Res(r, 1).([]int64)
	return x, l
}

func (a *C11R8Alt) Up(p string, fs ...[]int64) string {
	r := c11r8Cur.enter(a, []reflect.Value{reflect.ValueOf(&p).Elem(), reflect.ValueOf(&fs).Elem()})
	s, _ := c11r8Res(r, 0).(string)
	return s
}

// Aux and Peek shift the positions of Sort / Take / Up in the method sets of
// C11R8Alt against those of C11R8Box (methods are looked up by name, never by position)
func (a *C11R8Alt) Aux() int64  { return a.X }
func (a C11R8Alt) Peek() string { return a.N }

func (a C11R8Alt) Take(v string, n int64) interface{} {
	r := c11r8Cur.enter(a, []reflect.Value{reflect.ValueOf(&v).Elem(), reflect.ValueOf(&n).Elem()})
	return c11r8Res(r, 0)
}

// ---------------------------------------------------------------------------
// schedules: which variant evaluation n uses

const (
	c11r8Mono = iota
	c11r8Late
	c11r8Alter
	c11r8Rare
	c11r8Block
	c11r8NSched
)

var c11r8SchedNames = []string{"mono", "late-switch", "alternate", "one-in-257", "blocks-of-700"}

func c11r8Sched(kind, n, k int) int {
	if k <= 1 {
		return 0
	}
	switch kind {
	case c11r8Late:
		if n < 1100 {
			return 0
		}
		if n < 2300 {
			return 1
		}
		return n % k
	case c11r8Alter:
		return n % k
	case c11r8Rare:
		if n%257 == 256 {
			return 1 + (n/257)%(k-1)
		}
		return 0
	case c11r8Block:
		return (n / 700) % k
	}
	return 0
}

// ---------------------------------------------------------------------------
// a site: one expression of one parsed tree, evaluated again and again

type c11r8Site struct {
	kind   string // signature component: call, method, field-read ...
	expr   string
	stmt   bool // a statement without a value
	setup  string
	prep   func(n int) *c11r8Eval
	useTry bool
	hash   string
	forms  string // how the operands are written: literal / name / poly
	end    func() string
	keep   *c11r8Keep
}

// c11r8Run: the context shared by the three phases (reporting, counting)
type c11r8Run struct {
	c      *wk.Case
	prefix string // hot | stream | sizes
	e      *env.Env
}

func (h *c11r8Run) report(s *c11r8Site, ev *c11r8Eval, vehicle, failure, detail string, o *ank.Out, script string) {
	shape := "-"
	if ev != nil && ev.ft != nil {
		shape = ev.shape
	}
	sig := h.prefix + ":" + s.kind + ":" + shape + ":" + failure
	if c11Reported[sig] >= 3 && !h.c.W.Replay {
		c11Reported[sig]++
		h.c.Tag("viol-repeat:" + sig)
		return
	}
	site := s.expr
	if rs := []rune(site); len(rs) > 400 {
		site = string(rs[:200]) + " … " + string(rs[len(rs)-180:])
	}
	in := map[string]interface{}{"phase": h.c.Phase, "case": h.c.Index, "seed": h.c.W.Seed, "site": site, "vehicle": vehicle, "operands": s.forms,
		"note": "history-dependent: `vcheck replay` re-runs this case (seed, phase, case index) from its first evaluation"}
	if script != "" {
		if len(script) > 3000 {
			script = script[:3000] + " …"
		}
		in["script"] = script
	}
	n := -1
	if ev != nil {
		n = ev.n
		in["evaluation"] = ev.n
		in["variants"] = ev.combo
		if ev.call != nil {
			k := ev.call
			in["go_func"], in["shape"] = k.ft.String(), ev.shape
			var as []string
			for _, a := range k.pre {
				as = append(as, a.text+" = "+ank.RenderValue(a.v))
			}
			if k.spread != nil {
				as = append(as, k.spread.text+"... = "+ank.RenderValue(k.spread.v))
			}
			in["args"] = as
			switch ev.ex.kind {
			case c11OK:
				var w []string
				for _, a := range ev.ex.args {
					if a.adapter {
						w = append(w, "func adapter")
					} else {
						w = append(w, ank.RenderValue(a.v))
					}
				}
				in["want"] = map[string]interface{}{"invocations": 1, "args": w}
			case c11None:
				in["want"] = "error and zero invocations: " + ev.ex.why
			}
		}
		if ev.want != nil {
			in["want"] = ev.want()
		}
		obs := map[string]interface{}{"invocations": ev.calls}
		if ev.gotArgs != nil {
			obs["args"] = ev.gotArgs
		}
		if o != nil {
			obs["err"], obs["value"], obs["panic"] = ank.ErrText(o.Err), ank.Render(o.Val), o.PanicVal
		}
		in["observed"] = obs
	}
	c11Report(h.c, sig, fmt.Sprintf("evaluation %d (counting from 0) of the site `%s` [%s]: %s", n, site, vehicle, detail), in)
}

const (
	c11r8Loop = iota
	c11r8Func
	c11r8Rerun
)

var c11r8VehicleNames = []string{"script-loop", "script-function-called-again", "one-tree-re-run"}

// drive evaluates the site N times with the given vehicle; every evaluation is judged.
func (h *c11r8Run) drive(s *c11r8Site, vehicle, N int) int {
	c, e := h.c, h.e
	vname := c11r8VehicleNames[vehicle]
	n, open := 0, false
	var cur *c11r8Eval
	var prevRes []reflect.Value
	script := ""
	bad := 0
	begin := func() {
		cur = s.prep(n)
		cur.n = n
		c11r8Cur = cur
		open = true
	}
	finish := func(val interface{}, failed bool, msg string, o *ank.Out) {
		open = false
		f, d := cur.outcome(val, failed, msg)
		c.Events(1 + cur.calls)
		if f == "excluded" {
			c.Excluded(d)
			c.EvalN(1)
		} else {
			c.Eval(s.hash+"|"+cur.combo, true)
			if cur.ft != nil {
				switch cur.ex.kind {
				case c11OK:
					c.Tag(h.prefix + ":expect:invoked-once")
				case c11None:
					c.Tag(h.prefix + ":expect:error")
				}
			}
			if f != "" {
				bad++
				h.report(s, cur, vname, f, d, o, script)
			}
		}
		if cur.ft != nil && cur.ex.kind == c11OK && !cur.discard && f == "" && cur.ft.NumOut() > 0 {
			prevRes = cur.results
		} else {
			prevRes = nil
		}
		n++
	}
	if s.setup != "" {
		if o := ank.Exec(e, s.setup); o.Err != nil || o.Panicked {
			c.Inconclusive("r8-site-setup-failed", s.setup+": "+ank.ErrText(o.Err)+o.PanicVal, s.setup)
			return 0
		}
	}
	switch vehicle {
	case c11r8Loop:
		e.Define("tick", func() { begin() })
		e.Define("chk", func(r interface{}, failed bool, msg interface{}, prev interface{}) {
			if !open {
				return
			}
			// what the previous evaluation returned is the script's own: it must still be what came back then
			if prevRes != nil && bad == 0 {
				want := prevRes[0]
				if len(prevRes) > 1 {
					want = reflectValueList(prevRes)
				}
				if d := c11Diff(reflect.ValueOf(prev), want, c11NilExact, "result of the previous evaluation", 0); d != "" {
					bad++
					h.report(s, cur, vname, "earlier-result-changed", "the value the previous evaluation returned changed afterwards: "+d, nil, script)
				}
			}
			finish(r, failed, ank.Render(msg), nil)
		})
		body := "r = " + s.expr
		if s.stmt {
			body = s.expr
		}
		if s.useTry {
			body = "try { " + body + " } catch e { bad = true; msg = e }"
		}
		script = "prev = nil\nfor i = 0; i < " + strconv.Itoa(N) + "; i++ {\n tick()\n bad = false\n msg = \"\"\n r = nil\n " + body + "\n chk(r, bad, msg, prev)\n prev = r\n}"
		c.Begin(map[string]interface{}{"site": s.expr, "script": script})
		o := ank.Exec(e, script)
		switch {
		case o.Panicked:
			if cur == nil {
				cur = &c11r8Eval{}
			}
			bad++
			h.report(s, cur, vname, "panic", "panic escaped vm.Execute: "+o.PanicVal+" ["+o.PanicSig+"]", &o, script)
		case o.Err != nil && open:
			finish(nil, true, o.Err.Error(), &o) // without try the first failing evaluation ends the loop
		case o.Err != nil:
			c.Inconclusive("r8-loop-failed", ank.ErrText(o.Err), script)
		}
	case c11r8Func, c11r8Rerun:
		var stmt ast.Stmt
		runSrc := s.expr
		if vehicle == c11r8Func {
			def := "func c11g() { return " + s.expr + " }"
			if s.stmt {
				def = "func c11g() { " + s.expr + "; return nil }"
			}
			if o := ank.Exec(e, def); o.Err != nil || o.Panicked {
				c.Inconclusive("r8-site-setup-failed", def+": "+ank.ErrText(o.Err)+o.PanicVal, def)
				return 0
			}
			runSrc = "c11g()"
			script = def + "\n" + runSrc + "   # run " + strconv.Itoa(N) + " times by the host"
		} else {
			var err error
			var po ank.Out
			stmt, err, po = ank.Parse(s.expr)
			if err != nil || po.Panicked {
				c.Inconclusive("r8-site-setup-failed", s.expr+": "+ank.ErrText(err)+po.PanicVal, s.expr)
				return 0
			}
			script = s.expr + "   # parsed once, run " + strconv.Itoa(N) + " times with vm.Run"
		}
		for n < N {
			if n%64 == 0 {
				c.Begin(map[string]interface{}{"site": s.expr, "script": script, "evaluation_from": n})
			}
			begin()
			var o ank.Out
			// every run under a context of its own, cancelled when the run is over (a host with per-request contexts)
			ctx, cancel := context.WithCancel(context.Background())
			if vehicle == c11r8Func {
				o = ank.ExecCtx(ctx, e, runSrc)
			} else {
				o = ank.RunCtx(ctx, e, stmt)
			}
			cancel()
			if o.Panicked {
				bad++
				h.report(s, cur, vname, "panic", "panic escaped: "+o.PanicVal+" ["+o.PanicSig+"]", &o, script)
				n++
				break
			}
			finish(o.Val, o.Err != nil, ank.ErrText(o.Err), &o)
		}
	}
	c11r8Cur = nil
	if s.end != nil {
		if d := s.end(); d != "" && bad == 0 {
			h.report(s, cur, vname, "kept-argument-changed", d, nil, script)
		}
	}
	return n
}

func reflectValueList(vs []reflect.Value) reflect.Value {
	lst := make([]interface{}, len(vs))
	for i, v := range vs {
		if u := c11Unwrap(v); u.IsValid() && u.CanInterface() {
			lst[i] = u.Interface()
		}
	}
	return reflect.ValueOf(lst)
}

var _ = []interface{}{rand.Int, runtime.GC, sort.Strings, sync.NewCond, time.Now, fw.Hash64}

// ---------------------------------------------------------------------------
// generator of sites

type c11r8Arg struct {
	text  string
	form  string               // literal | name | poly | list
	model func() reflect.Value // the value the script holds NOW
}

type c11r8Poly struct {
	name     string
	variants []int // source indices
	sched    int
	cur      int
}

type c11r8Callee struct {
	define func(e *env.Env)
	ft     reflect.Type
	recv   func(recv interface{}) string
}

type c11r8Gen struct {
	c    *wk.Case
	r    *rand.Rand
	ce   *c11Env // live sources: by name, and the values of polymorphic variables
	ce2  *c11Env // pristine twins, never passed to Go: the model of literals written at the site
	wide bool    // stream: widened type universe, fresh callee names
	seq  int
	// grid sites: the LAST operand is written in this form (literal | name | poly) and,
	// where the sources allow it, needs a conversion that builds a new container
	force string
}

var c11r8Mutables = []reflect.Type{
	reflect.TypeOf([]int64(nil)), reflect.TypeOf([]int(nil)), reflect.TypeOf([]int8(nil)), reflect.TypeOf([]uint8(nil)), reflect.TypeOf([]int32(nil)),
	reflect.TypeOf([]float64(nil)), reflect.TypeOf([]float32(nil)), reflect.TypeOf([]string(nil)), reflect.TypeOf([]bool(nil)), reflect.TypeOf([]interface{}(nil)),
	reflect.TypeOf([][]int64(nil)), reflect.TypeOf([]C11MyInt(nil)), reflect.TypeOf([]uint64(nil)), reflect.TypeOf([]uint16(nil)),
	reflect.TypeOf(map[string]int64(nil)), reflect.TypeOf(map[string]int(nil)), reflect.TypeOf(map[string]interface{}(nil)), reflect.TypeOf(map[int64]string(nil)),
	reflect.TypeOf(map[interface{}]interface{}(nil)), reflect.TypeOf(map[string][]int64(nil)), reflect.TypeOf(map[C11MyStr]float64(nil)), reflect.TypeOf(map[string]float64(nil)),
	reflect.TypeOf(map[bool]int64(nil)), reflect.TypeOf(map[string]uint64(nil)), reflect.TypeOf(map[string]string(nil)),
}

var c11r8Extra = func() []reflect.Type {
	var ts []reflect.Type
	seen := map[reflect.Type]bool{}
	for _, f := range c11r7Fams {
		for _, t := range f.types {
			if !seen[t] && t.Kind() != reflect.Func {
				seen[t] = true
				ts = append(ts, t)
			}
		}
	}
	return ts
}()

var c11r8Keys = []reflect.Type{c11TString, c11TInt64, reflect.TypeOf(C11MyStr("")), reflect.TypeOf(true), reflect.TypeOf(int8(0)), reflect.TypeOf(uint16(0))}

func (g *c11r8Gen) ptype(mutableBias bool) reflect.Type {
	r := g.r
	if mutableBias && r.Intn(100) < 55 {
		return c11r8Mutables[r.Intn(len(c11r8Mutables))]
	}
	t := c11PickType(r)
	if !g.wide {
		return t
	}
	if r.Intn(100) < 30 {
		t = c11r8Extra[r.Intn(len(c11r8Extra))]
	}
	if k := t.Kind(); k == reflect.Func || k == reflect.Chan {
		return t
	}
	switch x := r.Intn(100); {
	case x < 15:
		t = reflect.SliceOf(t)
	case x < 27:
		t = reflect.MapOf(c11r8Keys[r.Intn(len(c11r8Keys))], t)
	case x < 32:
		t = reflect.SliceOf(reflect.SliceOf(t))
	case x < 36:
		t = reflect.MapOf(c11TString, reflect.SliceOf(t))
	}
	return t
}

func (g *c11r8Gen) byName(i int) c11r8Arg {
	ce := g.ce
	return c11r8Arg{text: "s" + strconv.Itoa(i), form: "name", model: func() reflect.Value { return ce.vals[i].v }}
}

func c11r8IsList(v reflect.Value) bool {
	v = c11Unwrap(v)
	return v.IsValid() && (v.Kind() == reflect.Slice || v.Kind() == reflect.Array)
}

// arg: an operand headed for type t - mostly one that has a conversion. A
// polymorphic variable changes its value between evaluations; one in three has a
// variant WITHOUT a conversion (the statement then demands an error and no invocation).
func (g *c11r8Gen) arg(t reflect.Type, polys *[]*c11r8Poly, allowPoly, noList bool, prefix string) c11r8Arg {
	r := g.r
	cl := g.ce.cells(t)
	var ok, lits []int
	for _, i := range cl.ok {
		if noList && c11r8IsList(g.ce.vals[i].v) {
			continue
		}
		ok = append(ok, i)
		if c11Srcs[i].inline {
			lits = append(lits, i)
		}
	}
	if len(ok) == 0 {
		return g.byName(r.Intn(len(g.ce.vals)))
	}
	x := r.Intn(100)
	if g.force != "" {
		var conv, convLits []int
		for _, i := range ok {
			if u := c11Unwrap(g.ce.vals[i].v); u.IsValid() && !u.Type().AssignableTo(t) && !u.Type().ConvertibleTo(t) {
				conv = append(conv, i)
				if c11Srcs[i].inline {
					convLits = append(convLits, i)
				}
			}
		}
		if len(conv) > 0 && (g.force != "literal" || len(convLits) > 0) {
			ok, lits = conv, convLits
		}
		x = map[string]int{"literal": 0, "name": 50, "poly": 99}[g.force]
	}
	switch {
	case x < 40 && len(lits) > 0:
		i := lits[r.Intn(len(lits))]
		ce2 := g.ce2
		return c11r8Arg{text: c11Srcs[i].expr, form: "literal", model: func() reflect.Value { return ce2.vals[i].v }}
	case x < 62 || !allowPoly || polys == nil || (len(*polys) >= 2 && g.force != "poly"):
		return g.byName(ok[r.Intn(len(ok))])
	}
	p := &c11r8Poly{name: prefix + strconv.Itoa(len(*polys)), sched: 1 + r.Intn(c11r8NSched-1), cur: -1}
	nv := 2 + r.Intn(3)
	seen := map[string]bool{}
	for try := 0; try < 12 && len(p.variants) < nv; try++ {
		i := ok[r.Intn(len(ok))]
		if seen[g.ce.vals[i].label] && try < 8 {
			continue
		}
		seen[g.ce.vals[i].label] = true
		p.variants = append(p.variants, i)
	}
	if r.Intn(3) == 0 && len(cl.none) > 0 {
		var none []int
		for _, i := range cl.none {
			if !(noList && c11r8IsList(g.ce.vals[i].v)) {
				none = append(none, i)
			}
		}
		if len(none) > 0 {
			p.variants = append(p.variants, none[r.Intn(len(none))])
		}
	}
	*polys = append(*polys, p)
	ce := g.ce
	return c11r8Arg{text: p.name, form: "poly", model: func() reflect.Value {
		if p.cur < 0 {
			return ce.vals[p.variants[0]].v
		}
		return ce.vals[p.variants[p.cur]].v
	}}
}

func c11r8ListArg(elems []c11r8Arg) c11r8Arg {
	var parts []string
	for _, a := range elems {
		parts = append(parts, a.text)
	}
	return c11r8Arg{text: "[" + strings.Join(parts, ", ") + "]", form: "list", model: func() reflect.Value {
		vals := make([]c11Val, len(elems))
		for i, a := range elems {
			vals[i] = c11Val{text: a.text, v: a.model()}
		}
		return c11ListOf(vals).v
	}}
}

// bindPolys: the variables of evaluation n (bound by the host: "a Go value bound
// into the environment and read back")
func c11r8BindPolys(e *env.Env, ce *c11Env, polys []*c11r8Poly, n int) string {
	combo := ""
	for _, p := range polys {
		vi := c11r8Sched(p.sched, n, len(p.variants))
		if vi != p.cur {
			p.cur = vi
			var gi interface{}
			if u := c11Unwrap(ce.vals[p.variants[vi]].v); u.IsValid() {
				gi = u.Interface()
			}
			e.Define(p.name, gi)
		}
		combo += p.name + "=" + strconv.Itoa(p.variants[vi]) + ";"
	}
	return combo
}

const (
	c11r8FixedPlain = iota
	c11r8VariadicPlain
	c11r8FixedSpread1
	c11r8FixedSpreadN
	c11r8VariadicSpread
	c11r8NShapes
)

// callArgs: operands for a function of type ft in the given shape
func (g *c11r8Gen) callArgs(ft reflect.Type, shape int, polys *[]*c11r8Poly) (pre []c11r8Arg, spread *c11r8Arg) {
	r := g.r
	n := ft.NumIn()
	force := g.force
	g.force = ""
	// last: the operand the grid sites force into a form
	last := func(t reflect.Type) c11r8Arg {
		g.force = force
		a := g.arg(t, polys, true, false, "x")
		g.force = ""
		return a
	}
	switch shape {
	case c11r8FixedPlain:
		for i := 0; i < n-1; i++ {
			pre = append(pre, g.arg(ft.In(i), polys, true, false, "x"))
		}
		pre = append(pre, last(ft.In(n-1)))
	case c11r8FixedSpread1, c11r8FixedSpreadN:
		cut := n - 1
		if shape == c11r8FixedSpreadN && n >= 2 {
			cut = r.Intn(n - 1)
		}
		for i := 0; i < cut; i++ {
			pre = append(pre, g.arg(ft.In(i), polys, true, false, "x"))
		}
		var rest []c11r8Arg
		for i := cut; i < n-1; i++ {
			rest = append(rest, g.arg(ft.In(i), polys, true, false, "x"))
		}
		rest = append(rest, last(ft.In(n-1)))
		l := c11r8ListArg(rest)
		spread = &l
	case c11r8VariadicPlain, c11r8VariadicSpread:
		m := n - 1
		et := ft.In(m).Elem()
		for i := 0; i < m; i++ {
			pre = append(pre, g.arg(ft.In(i), polys, true, false, "x"))
		}
		if shape == c11r8VariadicPlain {
			for j := r.Intn(3); j > 0; j-- {
				pre = append(pre, g.arg(et, polys, true, false, "x"))
			}
			if force != "" || r.Intn(4) != 0 {
				pre = append(pre, last(et))
			}
			return
		}
		if force != "" {
			a := last(ft.In(m))
			spread = &a
			return
		}
		if r.Intn(2) == 0 {
			var rest []c11r8Arg
			for j := r.Intn(4); j > 0; j-- {
				rest = append(rest, g.arg(et, polys, true, false, "x"))
			}
			l := c11r8ListArg(rest)
			spread = &l
		} else {
			a := g.arg(ft.In(m), polys, true, false, "x")
			spread = &a
		}
	}
	return
}

func c11r8CallText(callee string, pre []c11r8Arg, spread *c11r8Arg) (string, string) {
	var parts, forms []string
	for _, a := range pre {
		parts = append(parts, a.text)
		forms = append(forms, a.form)
	}
	if spread != nil {
		parts = append(parts, spread.text+"...")
		forms = append(forms, spread.form+"...")
	}
	return callee + "(" + strings.Join(parts, ", ") + ")", strings.Join(forms, ",")
}

// callSiteOf assembles a call-like site from its callee variants and operands.
func (g *c11r8Gen) callSiteOf(e *env.Env, kind, calleeText string, callees []c11r8Callee, cSched int, pre []c11r8Arg, spread *c11r8Arg, polys []*c11r8Poly, wrap string) *c11r8Site {
	r := g.r
	keep := &c11r8Keep{}
	mutate := r.Intn(4) != 0 || kind == "call-grid"
	cCur := -1
	call, forms := c11r8CallText(calleeText, pre, spread)
	s := &c11r8Site{kind: kind, expr: call, forms: forms, keep: keep}
	discard := false
	switch wrap {
	case "deferred":
		s.expr, discard = "func() { defer "+call+"; return 0 }()", true
	case "anon":
		var names []string
		for _, p := range polys {
			names = append(names, p.name)
		}
		s.expr = "func(" + strings.Join(names, ", ") + ") { return " + call + " }(" + strings.Join(names, ", ") + ")"
	}
	ce := g.ce
	s.prep = func(n int) *c11r8Eval {
		ci := c11r8Sched(cSched, n, len(callees))
		if ci != cCur {
			callees[ci].define(e)
			cCur = ci
		}
		combo := "callee=" + strconv.Itoa(ci) + ";" + c11r8BindPolys(e, ce, polys, n)
		k := &c11Call{callee: calleeText, ft: callees[ci].ft}
		for _, a := range pre {
			k.pre = append(k.pre, c11Val{text: a.text, v: a.model()})
		}
		if spread != nil {
			k.spread = &c11Val{text: spread.text, v: spread.model()}
		}
		return &c11r8Eval{ft: k.ft, call: k, ex: k.expect(), shape: k.shape(), results: c11GenResults(r, k.ft), mutate: mutate, discard: discard,
			recv: callees[ci].recv, keep: keep, combo: combo}
	}
	s.end = keep.check
	// can an evaluation be refused? then the loop needs a try around the call
	s.useTry = len(callees) > 1 || r.Intn(2) == 0
	for _, p := range polys {
		if len(p.variants) > 0 {
			s.useTry = true
		}
	}
	var hb strings.Builder
	hb.WriteString(kind + "|" + s.expr)
	for _, cl := range callees {
		hb.WriteString("|" + cl.ft.String())
	}
	for _, a := range pre {
		hb.WriteString("|" + ank.RenderValue(a.model()))
	}
	if spread != nil {
		hb.WriteString("|..." + ank.RenderValue(spread.model()))
	}
	s.hash = hb.String()
	return s
}

func (g *c11r8Gen) funcType(shape int) reflect.Type {
	r := g.r
	nP := 1 + r.Intn(3)
	if shape == c11r8FixedSpreadN {
		nP = 2 + r.Intn(2)
	}
	in := make([]reflect.Type, nP)
	for i := range in {
		in[i] = g.ptype(true)
	}
	if g.force != "" {
		in[nP-1] = c11r8Mutables[r.Intn(len(c11r8Mutables))]
	}
	variadic := shape == c11r8VariadicPlain || shape == c11r8VariadicSpread
	if variadic {
		in[nP-1] = reflect.SliceOf(in[nP-1])
	}
	out := make([]reflect.Type, r.Intn(3))
	for i := range out {
		out[i] = g.ptype(false)
	}
	return reflect.FuncOf(in, out, variadic)
}

// callSite: a call by name of a manufactured Go function. The name is sometimes
// bound to ANOTHER function later on: one of the same type, one whose parameter
// types differ.
func (g *c11r8Gen) callSite(e *env.Env, shape int, wrap string) *c11r8Site {
	r := g.r
	forced := g.force != ""
	ft := g.funcType(shape)
	name := "f"
	if g.wide && r.Intn(2) == 0 {
		g.seq++
		name = "f" + strconv.Itoa(g.seq)
	}
	mk := func(t reflect.Type) c11r8Callee {
		fn := c11r8Fn(t).Interface()
		return c11r8Callee{ft: t, define: func(e *env.Env) { e.Define(name, fn) }}
	}
	callees := []c11r8Callee{mk(ft)}
	if r.Intn(2) == 0 {
		callees = append(callees, mk(ft))
		if r.Intn(2) == 0 {
			in := make([]reflect.Type, ft.NumIn())
			for i := range in {
				in[i] = ft.In(i)
			}
			out := make([]reflect.Type, ft.NumOut())
			for i := range out {
				out[i] = ft.Out(i)
			}
			j := r.Intn(len(in))
			if ft.IsVariadic() && j == len(in)-1 {
				in[j] = reflect.SliceOf(g.ptype(true))
			} else {
				in[j] = g.ptype(true)
			}
			callees = append(callees, mk(reflect.FuncOf(in, out, ft.IsVariadic())))
		}
	}
	var polys []*c11r8Poly
	pre, spread := g.callArgs(ft, shape, &polys)
	kind := "call"
	if wrap != "" {
		kind = "call-" + wrap
	}
	if forced {
		kind = "call-grid"
	}
	return g.callSiteOf(e, kind, name, callees, 1+r.Intn(c11r8NSched-1), pre, spread, polys, wrap)
}

var c11r8MethodNames = []string{"Sort", "Take", "Up"}

// methodSite: a method reached with member syntax; the holder changes its TYPE
// under the same method name (other parameter types) on polymorphic sites.
func (g *c11r8Gen) methodSite(e *env.Env, methodValue bool) *c11r8Site {
	r := g.r
	name := c11r8MethodNames[r.Intn(len(c11r8MethodNames))]
	box := &C11R8Box{N: int64(r.Intn(1000)), S: "b"}
	alt := &C11R8Alt{N: "a", X: int64(r.Intn(1000))}
	type holder struct {
		v    interface{}
		recv func(recv interface{}) string
	}
	ptrCheck := func(want interface{}) func(interface{}) string {
		return func(got interface{}) string {
			if reflect.ValueOf(got).Kind() == reflect.Ptr && reflect.ValueOf(want).Kind() == reflect.Ptr {
				if reflect.ValueOf(got).Pointer() != reflect.ValueOf(want).Pointer() {
					return "the pointer-receiver method did not get the Go value itself as receiver"
				}
				return ""
			}
			return c11Diff(reflect.ValueOf(got), reflect.Indirect(reflect.ValueOf(want)), c11NilExact, "receiver", 0)
		}
	}
	hs := []holder{{box, ptrCheck(box)}, {alt, ptrCheck(alt)}, {&C11R8Box{N: 5, L: []int64{1}}, nil}}
	hs[2].recv = ptrCheck(hs[2].v)
	if r.Intn(2) == 0 {
		hs[0], hs[1] = hs[1], hs[0]
	}
	nH := 1 + r.Intn(3)
	hs = hs[:nH]
	hname, callee := "h", "h."+name
	if methodValue {
		// a method value taken once; the site calls it by name
		hs = hs[:1]
		callee = "mv"
	}
	var callees []c11r8Callee
	for _, h := range hs {
		h := h
		ft := reflect.ValueOf(h.v).MethodByName(name).Type()
		def := func(e *env.Env) { e.Define(hname, h.v) }
		if methodValue {
			def = func(e *env.Env) {
				e.Define(hname, h.v)
				ank.Exec(e, "mv = h."+name)
			}
		}
		callees = append(callees, c11r8Callee{ft: ft, define: def, recv: h.recv})
	}
	ft := callees[0].ft
	shape := c11r8FixedPlain
	if ft.IsVariadic() {
		shape = []int{c11r8VariadicPlain, c11r8VariadicSpread}[r.Intn(2)]
	} else if r.Intn(3) == 0 {
		shape = c11r8FixedSpread1
	}
	var polys []*c11r8Poly
	pre, spread := g.callArgs(ft, shape, &polys)
	kind := "method"
	if methodValue {
		kind = "method-value"
	}
	return g.callSiteOf(e, kind, callee, callees, 1+r.Intn(c11r8NSched-1), pre, spread, polys, "")
}

// fieldSite: member syntax on a Go struct reads (and, through a pointer, writes)
// the Go value's own exported fields. holders are pointers to structs that all
// have a field of this name (at other positions, of other types).
func (g *c11r8Gen) fieldSite(e *env.Env, holders []reflect.Value, name string, write bool) *c11r8Site {
	r := g.r
	hSched := 1 + r.Intn(c11r8NSched-1)
	cur := -1
	ce := g.ce
	var polys []*c11r8Poly
	s := &c11r8Site{kind: "field-read", expr: "h." + name, useTry: true}
	var a c11r8Arg
	if write {
		a = g.arg(holders[0].Elem().FieldByName(name).Type(), &polys, true, false, "x")
		s.kind, s.expr, s.stmt, s.forms = "field-write", "h."+name+" = "+a.text, true, a.form
	}
	var hb strings.Builder
	hb.WriteString(s.kind + "|" + s.expr)
	for _, h := range holders {
		hb.WriteString("|" + h.Type().String())
	}
	s.hash = hb.String()
	s.prep = func(n int) *c11r8Eval {
		hi := c11r8Sched(hSched, n, len(holders))
		if hi != cur {
			cur = hi
			e.Define("h", holders[hi].Interface())
		}
		combo := "holder=" + strconv.Itoa(hi) + ";" + c11r8BindPolys(e, ce, polys, n)
		fld := holders[hi].Elem().FieldByName(name)
		ev := &c11r8Eval{combo: combo}
		if !write {
			if n%3 == 1 {
				fld.Set(c11GenGo(r, fld.Type(), 1, false)) // the Go side changed its field
			}
			ev.want = func() string { return ank.RenderValue(fld) }
			ev.finish = func(val interface{}, failed bool) (string, string) {
				if failed {
					return "error", "reading an exported field of a Go struct through a pointer failed"
				}
				if d := c11Diff(reflect.ValueOf(val), fld, c11NilExact, "field "+name+" of "+holders[hi].Type().String(), 0); d != "" {
					return "wrong-value", "member syntax did not read the Go value's own field: " + d
				}
				return "", ""
			}
			return ev
		}
		// write: the rule of phases member / history. An assignable value must be
		// stored; a value without a conversion must leave the field alone;
		// UNSPECIFIED whether a write that needs a conversion is refused (field
		// unchanged) or stores Go's conversion.
		if n%5 == 2 {
			fld.Set(c11GenGo(r, fld.Type(), 1, false))
		}
		before := reflect.New(fld.Type()).Elem()
		before.Set(fld)
		av := a.model()
		cv := c11RefConvert(av, fld.Type())
		ev.want = func() string {
			switch cv.st {
			case c11OK:
				if cv.adapter {
					return "a func adapting the script function"
				}
				return "field holds " + ank.RenderValue(cv.v) + " (or, for a value that needs a conversion, error and field unchanged)"
			case c11None:
				return "field unchanged: " + cv.why
			}
			return "not judged"
		}
		ev.finish = func(val interface{}, failed bool) (string, string) {
			if cv.st == c11Unspec || cv.adapter {
				return "excluded", "field write: " + cv.why
			}
			// `before` shares its slices and maps with the field: "unchanged" means the field still is that object with that content
			unchanged := c11Diff(fld, before, c11NilExact, "", 0) == ""
			u := c11Unwrap(av)
			switch {
			case cv.st == c11None:
				if !unchanged {
					return "wrote-unconvertible", "a value without a conversion to the field type changed the field: now " + ank.RenderValue(fld)
				}
			case !u.IsValid() || u.Type().AssignableTo(fld.Type()):
				if failed {
					return "error", "writing an assignable value through a pointer failed"
				}
				if d := c11Diff(fld, cv.v, c11NilExact, "field "+name, 0); d != "" {
					return "wrong-value", "after the write the Go field does not hold the value: " + d
				}
			default:
				if failed {
					if !unchanged {
						return "failed-but-changed", "the write failed yet the field changed"
					}
				} else if d := c11Diff(fld, cv.v, cv.mode, "field "+name, 0); d != "" {
					return "wrong-value", "after the converting write: " + d
				} else if c11r8Fresh(cv, fld) {
					c11r8Mutate(fld, 0) // the Go side works on its field in place
				}
			}
			return "", ""
		}
		return ev
	}
	return s
}

func (g *c11r8Gen) boxFieldSite(e *env.Env, write bool) *c11r8Site {
	r := g.r
	names := []string{"N", "S", "L", "M", "F", "I", "B"}
	name := names[r.Intn(len(names))]
	box := c11GenGo(r, reflect.TypeOf(C11R8Box{}), 1, false)
	alt := c11GenGo(r, reflect.TypeOf(C11R8Alt{}), 1, false)
	pb, pa := reflect.New(box.Type()), reflect.New(alt.Type())
	pb.Elem().Set(box)
	pa.Elem().Set(alt)
	hs := []reflect.Value{pb, pa}
	if r.Intn(2) == 0 {
		hs[0], hs[1] = hs[1], hs[0]
	}
	if r.Intn(3) == 0 {
		hs = hs[:1]
	}
	return g.fieldSite(e, hs, name, write)
}

var c11r8Routes = []struct{ name, src string }{
	{"read", "g"}, {"list-literal", "[g][0]"}, {"map-literal", `{"k": g}["k"]`}, {"go-identity", "id(g)"}, {"script-function", "func(a){ return a }(g)"},
	{"script-variadic", "func(a...){ return a[0] }(g)"}, {"list-middle", `[1, g, "z"][1]`}, {"go-identity-variadic", "idv(1, g)"}, {"return-pair", "func(a){ return 1, a }(g)[1]"},
}

// roundtripSite: a Go value bound into the environment and read back, stored in a
// container, passed through a Go identity function is the same value with the
// same dynamic type - the variable g holds Go values of several types in turn.
func (g *c11r8Gen) roundtripSite(e *env.Env) *c11r8Site {
	r := g.r
	rt := c11r8Routes[r.Intn(len(c11r8Routes))]
	all := append(append([]reflect.Type{}, c11Types...), c11TravelTypes...)
	var vals []reflect.Value
	var hb strings.Builder
	hb.WriteString("roundtrip|" + rt.src)
	for i := 2 + r.Intn(3); i > 0; i-- {
		v := c11GenGo(r, all[r.Intn(len(all))], 0, false)
		vals = append(vals, v)
		hb.WriteString("|" + ank.RenderValue(v))
	}
	sched := 1 + r.Intn(c11r8NSched-1)
	cur := -1
	e.Define("id", func(a interface{}) interface{} { return a })
	e.Define("idv", func(n int64, a ...interface{}) interface{} { return a[0] })
	s := &c11r8Site{kind: "roundtrip:" + rt.name, expr: rt.src, hash: hb.String(), useTry: r.Intn(2) == 0}
	s.prep = func(n int) *c11r8Eval {
		vi := c11r8Sched(sched, n, len(vals))
		var gi interface{}
		if v := vals[vi]; v.IsValid() && !(v.Kind() == reflect.Interface && v.IsNil()) {
			gi = v.Interface()
		}
		if vi != cur {
			cur = vi
			e.Define("g", gi)
		}
		ev := &c11r8Eval{combo: "g=" + strconv.Itoa(vi)}
		ev.want = func() string { return ank.Render(gi) }
		ev.finish = func(val interface{}, failed bool) (string, string) {
			if failed {
				return "error", "the value did not come back"
			}
			if d := c11Diff(reflect.ValueOf(val), reflect.ValueOf(gi), c11NilExact, "value", 0); d != "" {
				return "changed", d
			}
			return "", ""
		}
		return ev
	}
	return s
}

// callbackSite: a script function handed to Go as a callback of a func type is
// invoked with the arguments Go passes, its result is converted to the declared
// return types; an error inside surfaces as an error of the enclosing call. Go
// works in place on the slices / maps it got back.
func (g *c11r8Gen) callbackSite(e *env.Env) *c11r8Site {
	r := g.r
	var ft reflect.Type
	for {
		ft = c11CbTypes[r.Intn(len(c11CbTypes))]
		if ft.NumOut() > 0 {
			break
		}
	}
	nIn, nOut := ft.NumIn(), ft.NumOut()
	var polys []*c11r8Poly
	var rets []c11r8Arg
	var retTexts, forms []string
	for j := 0; j < nOut; j++ {
		a := g.arg(ft.Out(j), &polys, true, nOut > 1, "y")
		rets = append(rets, a)
		retTexts = append(retTexts, a.text)
		forms = append(forms, a.form)
	}
	var params []string
	for i := 0; i < nIn; i++ {
		params = append(params, "a"+strconv.Itoa(i))
	}
	fn := "func(" + strings.Join(params, ", ") + ") { seen(" + strings.Join(params, ", ") + "); return " + strings.Join(retTexts, ", ") + " }"
	s := &c11r8Site{kind: "callback", expr: "host(" + fn + ")", forms: strings.Join(forms, ","), useTry: true}
	if r.Intn(3) == 0 {
		s.setup, s.expr = "c11cb = "+fn, "host(c11cb)"
	}
	s.hash = "callback|" + ft.String() + "|" + s.setup + s.expr
	for _, a := range rets {
		s.hash += "|" + ank.RenderValue(a.model())
	}
	reps := 1 + r.Intn(2)
	var plan [][]reflect.Value
	var outs [][]reflect.Value
	var entered, seenN int
	var seenFail, outFail string
	var wants []c11Conv
	e.Define("host", reflect.MakeFunc(reflect.FuncOf([]reflect.Type{ft}, []reflect.Type{c11TInt64}, false), func(in []reflect.Value) []reflect.Value {
		for k := range plan {
			entered++
			out := in[0].Call(plan[k]) // a failing callback panics through here, as in ordinary Go code
			outs = append(outs, out)
			for j := range out {
				if j < len(wants) && wants[j].st == c11OK && !wants[j].adapter && outFail == "" {
					if d := c11Diff(out[j], wants[j].v, wants[j].mode, fmt.Sprintf("invocation %d result %d", k, j), 0); d != "" {
						outFail = d
					}
				}
				c11r8Mutate(out[j], 0)
			}
		}
		return []reflect.Value{reflect.ValueOf(int64(len(outs)))}
	}).Interface())
	e.Define("seen", func(args ...interface{}) {
		k := seenN
		seenN++
		if k >= len(plan) || seenFail != "" {
			return
		}
		lst := make([]interface{}, nIn)
		for i, a := range plan[k] {
			if u := c11Unwrap(a); u.IsValid() {
				lst[i] = u.Interface()
			}
		}
		if d := c11Diff(reflect.ValueOf(args), reflect.ValueOf(lst), c11NilEither, fmt.Sprintf("invocation %d arguments", k), 0); d != "" {
			seenFail = d
		}
	})
	ce := g.ce
	s.prep = func(n int) *c11r8Eval {
		combo := c11r8BindPolys(e, ce, polys, n)
		plan, outs, entered, seenN, seenFail, outFail = nil, nil, 0, 0, "", ""
		for k := 0; k < reps; k++ {
			args := make([]reflect.Value, nIn)
			for i := range args {
				args[i] = c11GenGo(r, ft.In(i), 0, false)
			}
			plan = append(plan, args)
		}
		wants = wants[:0]
		st := c11OK
		why := ""
		for j, a := range rets {
			cv := c11RefConvert(a.model(), ft.Out(j))
			if cv.adapter {
				cv = c11Conv{st: c11Unspec, why: "script function as callback result"}
			}
			wants = append(wants, cv)
			if cv.st == c11None && st != c11None {
				st, why = c11None, cv.why
			} else if cv.st == c11Unspec && st == c11OK {
				st, why = c11Unspec, cv.why
			}
		}
		ev := &c11r8Eval{combo: combo}
		ev.want = func() string {
			switch st {
			case c11OK:
				var w []string
				for _, x := range wants {
					w = append(w, ank.RenderValue(x.v))
				}
				return fmt.Sprintf("%d invocations, each returning %v to Go", reps, w)
			case c11None:
				return "the enclosing call fails: " + why
			}
			return "not judged"
		}
		ev.finish = func(val interface{}, failed bool) (string, string) {
			if st == c11Unspec {
				return "excluded", "callback: " + why
			}
			wantInv := reps
			if st == c11None {
				wantInv = 1
			}
			if seenN != wantInv || entered != wantInv {
				return "invocations", fmt.Sprintf("Go called the callback %d times (wanted to: %d), the script function ran %d times", entered, wantInv, seenN)
			}
			if seenFail != "" {
				return "args-differ", "the script function did not receive the arguments Go passed: " + seenFail
			}
			if st == c11None {
				if len(outs) != 0 {
					return "bad-result-accepted", why + ", yet the callback returned normally to Go"
				}
				if !failed {
					return "inner-failure-lost", why + ", yet the enclosing call reported no error"
				}
				return "", ""
			}
			if failed || len(outs) != reps {
				return "good-result-refused", fmt.Sprintf("Go's conversion of every result exists, yet the callback returned to Go %d times of %d / the enclosing call failed", len(outs), reps)
			}
			if outFail != "" {
				return "result-not-converted", "Go did not get the script result converted to the declared type: " + outFail
			}
			return "", ""
		}
		return ev
	}
	return s
}

var c11r8Kinds = []string{"call", "call", "call-spread", "call-variadic", "method", "method-value", "deferred", "anon", "field-read", "field-write", "roundtrip", "callback"}

// site makes a site of the named kind in environment e
func (g *c11r8Gen) site(e *env.Env, kind string) *c11r8Site {
	r := g.r
	switch kind {
	case "call":
		return g.callSite(e, c11r8FixedPlain, "")
	case "call-spread":
		return g.callSite(e, []int{c11r8FixedSpread1, c11r8FixedSpreadN, c11r8VariadicSpread}[r.Intn(3)], "")
	case "call-variadic":
		return g.callSite(e, c11r8VariadicPlain, "")
	case "deferred":
		return g.callSite(e, r.Intn(c11r8NShapes), "deferred")
	case "anon":
		return g.callSite(e, r.Intn(c11r8NShapes), "anon")
	case "method":
		return g.methodSite(e, false)
	case "method-value":
		return g.methodSite(e, true)
	case "field-read":
		return g.boxFieldSite(e, false)
	case "field-write":
		return g.boxFieldSite(e, true)
	case "roundtrip":
		return g.roundtripSite(e)
	}
	return g.callbackSite(e)
}

// ---------------------------------------------------------------------------
// phase hot

const c11r8HotN = 4200 // past 1000, 1024, 4096, 4097

func c11PhaseR8Hot(c *wk.Case) {
	ce, ce2 := c11NewEnv(c), c11NewEnv(c)
	g := &c11r8Gen{c: c, r: c.Rng, ce: ce, ce2: ce2}
	h := &c11r8Run{c: c, prefix: "hot", e: ce.e}
	nK := len(c11r8Kinds)
	// every kind once per case, in an order that depends on the case; vehicles rotate
	for j := 0; j < nK; j++ {
		kind := c11r8Kinds[(j+c.Index)%nK]
		vehicle := (j + c.Index/nK + c.Index) % 3
		N := c11r8HotN
		if j == 0 && c.Index%6 == 5 {
			N = 66000 // past 65535, 65536, 65537
		}
		if c.Tier == "thorough" && j == 1 {
			N = 20000
		}
		s := g.site(ce.e, kind)
		done := h.drive(s, vehicle, N)
		c.Tag("hot:kind:"+kind, "hot:vehicle:"+c11r8VehicleNames[vehicle], "hot:sites")
		c.Tag(fmt.Sprintf("hot:sites-evaluated-%d-times", done))
		c.Count("hot:evaluations", done)
		if done > 1001 {
			c.Count("hot:evaluations-after-the-1000th-of-their-site", done-1000)
		}
		if done > 4097 {
			c.Count("hot:evaluations-after-the-4097th-of-their-site", done-4097)
		}
		if s.keep != nil {
			c.Count("hot:built-containers-kept-and-rechecked", s.keep.seen)
		}
		for _, f := range strings.Split(s.forms, ",") {
			if f != "" {
				c.Tag("hot:operand:" + strings.TrimSuffix(f, "..."))
			}
		}
	}
	// the grid: every call shape once more per case, the last operand (the spread operand
	// of variadic/spread) in a form that rotates with the case - literal, name, variable -
	// headed for a slice / map parameter it has to be converted for; always worked on in place
	for shape := 0; shape < c11r8NShapes; shape++ {
		form := []string{"literal", "name", "poly"}[(c.Index+shape)%3]
		g.force = form
		s := g.callSite(ce.e, shape, "")
		g.force = ""
		vehicle := (c.Index/3 + shape) % 3
		done := h.drive(s, vehicle, c11r8HotN)
		c.Tag("hot:kind:call-grid", "hot:vehicle:"+c11r8VehicleNames[vehicle], "hot:sites", "hot:grid:"+[]string{"fixed/plain", "variadic/plain", "fixed/spread1", "fixed/spreadN", "variadic/spread"}[shape]+":last-operand-"+form)
		c.Tag(fmt.Sprintf("hot:sites-evaluated-%d-times", done))
		c.Count("hot:evaluations", done)
		if done > 1001 {
			c.Count("hot:evaluations-after-the-1000th-of-their-site", done-1000)
		}
		if done > 4097 {
			c.Count("hot:evaluations-after-the-4097th-of-their-site", done-4097)
		}
		c.Count("hot:built-containers-kept-and-rechecked", s.keep.seen)
	}
	c11r8HotAdapter(h, g)
}

// c11r8HotAdapter: ONE adapted callback invoked thousands of times by Go within
// one enclosing call; what the script function returns changes its type between
// invocations (a Go function hands it the next value), the last one may have no
// conversion: then the enclosing call must fail.
func c11r8HotAdapter(h *c11r8Run, g *c11r8Gen) {
	c, r, e := h.c, g.r, h.e
	outs := []reflect.Type{reflect.TypeOf([]int64(nil)), c11TInt64, c11TString, reflect.TypeOf(float64(0)), c11TIface, reflect.TypeOf(map[string]int64(nil)), reflect.TypeOf([]string(nil)), reflect.TypeOf(C11MyInt(0)), reflect.TypeOf(uint8(0))}
	outT := outs[c.Index%len(outs)]
	inT := c11Types[r.Intn(19)]
	ft := reflect.FuncOf([]reflect.Type{inT, c11TInt64}, []reflect.Type{outT}, false)
	cl := g.ce.cells(outT)
	var variants []int
	for i := 0; i < 4 && len(cl.ok) > 0; i++ {
		variants = append(variants, cl.ok[r.Intn(len(cl.ok))])
	}
	if len(variants) == 0 {
		return
	}
	endBad := c.Index%2 == 1 && len(cl.none) > 0
	sched := 1 + r.Intn(c11r8NSched-1)
	N := c11r8HotN
	var fail, failSig string
	inv, seenN, nextN := 0, 0, 0
	var passed reflect.Value
	e.Define("nextv", func() interface{} {
		i := variants[c11r8Sched(sched, nextN, len(variants))]
		if endBad && nextN == N-1 {
			i = cl.none[0]
		}
		nextN++
		if u := c11Unwrap(g.ce.vals[i].v); u.IsValid() {
			return u.Interface()
		}
		return nil
	})
	e.Define("seenv", func(a interface{}, k int64) {
		if fail == "" {
			var want interface{}
			if u := c11Unwrap(passed); u.IsValid() {
				want = u.Interface()
			}
			if d := c11Diff(reflect.ValueOf([]interface{}{a, k}), reflect.ValueOf([]interface{}{want, int64(seenN)}), c11NilEither, fmt.Sprintf("invocation %d arguments", seenN), 0); d != "" {
				fail, failSig = "the script function did not receive the arguments Go passed: "+d, "args-differ"
			}
		}
		seenN++
	})
	returned := 0
	e.Define("hostn", reflect.MakeFunc(reflect.FuncOf([]reflect.Type{ft}, []reflect.Type{c11TInt64}, false), func(in []reflect.Value) []reflect.Value {
		for k := 0; k < N; k++ {
			passed = c11GenGo(r, inT, 0, false)
			i := variants[c11r8Sched(sched, k, len(variants))]
			inv++
			out := in[0].Call([]reflect.Value{passed, reflect.ValueOf(int64(k))}) // a failing callback panics through here
			returned++
			if cv := c11RefConvert(g.ce.vals[i].v, outT); cv.st == c11OK && !cv.adapter && fail == "" {
				if d := c11Diff(out[0], cv.v, cv.mode, fmt.Sprintf("invocation %d result", k), 0); d != "" {
					fail, failSig = "Go did not get the script result converted to the declared type: "+d, "result-not-converted"
				}
			}
			c11r8Mutate(out[0], 0)
		}
		return []reflect.Value{reflect.ValueOf(int64(returned))}
	}).Interface())
	src := "hostn(func(a, k) { seenv(a, k); return nextv() })"
	c.Begin(src)
	o := ank.Exec(e, src)
	c.Events(1 + inv + seenN)
	c.Eval("hot-adapter|"+ft.String()+"|"+fmt.Sprint(variants, endBad, sched), true)
	c.Count("hot:invocations-of-one-adapted-callback", inv)
	s := &c11r8Site{kind: "callback-repeated", expr: src, forms: fmt.Sprintf("callback type %v, result variants %v by schedule %s, last result without conversion: %v", ft, variants, c11r8SchedNames[sched], endBad)}
	ev := &c11r8Eval{n: returned}
	wantRet := N
	if endBad {
		wantRet = N - 1
	}
	switch {
	case o.Panicked:
		h.report(s, ev, "one-enclosing-call", "panic", "panic escaped: "+o.PanicVal+" ["+o.PanicSig+"]", &o, src)
	case fail != "":
		h.report(s, ev, "one-enclosing-call", failSig, fail, &o, src)
	case returned != wantRet || seenN != N:
		h.report(s, ev, "one-enclosing-call", "invocations", fmt.Sprintf("Go called the callback %d times, the script function ran %d times, it returned to Go %d times (want %d, %d, %d); err %q", inv, seenN, returned, N, N, wantRet, ank.ErrText(o.Err)), &o, src)
	case endBad && o.Err == nil:
		h.report(s, ev, "one-enclosing-call", "inner-failure-lost", "the last result has no conversion, yet the enclosing call reported no error", &o, src)
	case !endBad && o.Err != nil:
		h.report(s, ev, "one-enclosing-call", "good-result-refused", "every result has a conversion, yet the enclosing call failed: "+o.Err.Error(), &o, src)
	}
}

// ---------------------------------------------------------------------------
// phase stream

var c11r8Periods = []int{255, 256, 257, 999, 1000, 1001, 1023, 1024, 1025, 4095, 4096, 4097}

var c11r8FieldTypes = []reflect.Type{c11TInt64, c11TString, reflect.TypeOf(float64(0)), reflect.TypeOf(true), reflect.TypeOf(int8(0)), reflect.TypeOf(uint16(0)),
	reflect.TypeOf([]int64(nil)), reflect.TypeOf([]string(nil)), reflect.TypeOf(map[string]int64(nil)), c11TIface, reflect.TypeOf(C11MyInt(0)), reflect.TypeOf([]float64(nil)),
	reflect.TypeOf(C11Pair{}), reflect.TypeOf((*int64)(nil)), reflect.TypeOf([]interface{}(nil)), reflect.TypeOf(map[string]interface{}(nil))}

// structItem: a manufactured struct type (a new one per item: field names from a
// pool of 48, PRNG order and types), one of its fields read or written
func (g *c11r8Gen) structItem(e *env.Env, write bool) *c11r8Site {
	r := g.r
	nF := 2 + r.Intn(7)
	used := map[int]bool{}
	var fs []reflect.StructField
	for len(fs) < nF {
		k := r.Intn(48)
		if used[k] {
			continue
		}
		used[k] = true
		fs = append(fs, reflect.StructField{Name: "F" + string(rune('A'+k%24)) + strconv.Itoa(k/24), Type: c11r8FieldTypes[r.Intn(len(c11r8FieldTypes))]})
	}
	st := reflect.StructOf(fs)
	p := reflect.New(st)
	p.Elem().Set(c11GenGo(r, st, 1, false))
	return g.fieldSite(e, []reflect.Value{p}, fs[r.Intn(nF)].Name, write)
}

// pairItem: ONE source value headed for ONE target type - a walk through the
// (dynamic type of the source) x (target type) matrix over the widened universe,
// whatever the verdict (most pairs have no conversion), by one of five routes.
func (g *c11r8Gen) pairItem(e *env.Env) (*c11r8Site, string) {
	r := g.r
	t := g.ptype(r.Intn(3) == 0)
	if k := t.Kind(); r.Intn(2) == 0 && k != reflect.Func && k != reflect.Chan {
		// one more level: the matrix has no end in this direction
		switch r.Intn(3) {
		case 0:
			t = reflect.SliceOf(t)
		case 1:
			t = reflect.MapOf(c11r8Keys[r.Intn(len(c11r8Keys))], t)
		default:
			t = reflect.PtrTo(t)
		}
	}
	i := r.Intn(len(g.ce.vals))
	if r.Intn(3) == 0 {
		i = g.ce.pick(r, t, 0.9)
	}
	a := g.byName(i)
	if c11Srcs[i].inline && r.Intn(3) == 0 {
		ce2 := g.ce2
		a = c11r8Arg{text: c11Srcs[i].expr, form: "literal", model: func() reflect.Value { return ce2.vals[i].v }}
	}
	one := c11r8Arg{text: "1", form: "literal", model: func() reflect.Value { return reflect.ValueOf(int64(1)) }}
	var ft reflect.Type
	var pre []c11r8Arg
	var spread *c11r8Arg
	out := []reflect.Type{c11TInt64}
	switch r.Intn(5) {
	case 0:
		ft, pre = reflect.FuncOf([]reflect.Type{t}, out, false), []c11r8Arg{a}
	case 1:
		ft, pre = reflect.FuncOf([]reflect.Type{c11TInt64, t}, nil, false), []c11r8Arg{one, a}
	case 2:
		ft, pre = reflect.FuncOf([]reflect.Type{reflect.SliceOf(t)}, out, true), []c11r8Arg{a}
	case 3:
		l := c11r8ListArg([]c11r8Arg{a})
		ft, spread = reflect.FuncOf([]reflect.Type{t}, out, false), &l
	default:
		l := c11r8ListArg([]c11r8Arg{a, a})
		ft, spread = reflect.FuncOf([]reflect.Type{reflect.SliceOf(t)}, out, true), &l
	}
	name := "f"
	if r.Intn(2) == 0 {
		g.seq++
		name = "f" + strconv.Itoa(g.seq)
	}
	fn := c11r8Fn(ft).Interface()
	callees := []c11r8Callee{{ft: ft, define: func(e *env.Env) { e.Define(name, fn) }}}
	s := g.callSiteOf(e, "pair", name, callees, c11r8Mono, pre, spread, nil, "")
	return s, g.ce.vals[i].label + "->" + t.String()
}

func c11PhaseR8Stream(c *wk.Case) {
	M := 8000
	if c.Tier == "thorough" {
		M = 40000
	}
	r := c.Rng
	ce2 := c11NewEnv(c)
	refEnv := c11NewEnv(c)
	rg := &c11r8Gen{c: c, r: r, ce: refEnv, ce2: ce2}
	h := &c11r8Run{c: c, prefix: "stream", e: refEnv.e}
	// the reference sites: fixed for the whole history, each with its own names
	type ref struct {
		s      *c11r8Site
		e      *env.Env
		stmt   ast.Stmt
		asks   int
		last   int
		period int
	}
	var refs []*ref
	refKinds := []string{"call", "call", "call-spread", "call-variadic", "method", "call", "field-read", "field-write", "roundtrip", "callback", "call", "method-value"}
	for i, p := range c11r8Periods {
		// every reference site lives in an environment of its own (kept for the whole
		// history), so that its names are never re-bound by another site
		re := c11NewEnv(c)
		rg.ce = re
		s := rg.site(re.e, refKinds[i%len(refKinds)])
		rf := &ref{s: s, e: re.e, period: p}
		if s.setup != "" {
			ank.Exec(re.e, s.setup)
		}
		if i%2 == 0 {
			if stmt, err, po := ank.Parse(s.expr); err == nil && !po.Panicked {
				rf.stmt = stmt
			}
		}
		refs = append(refs, rf)
	}
	judge := func(s *c11r8Site, ev *c11r8Eval, o ank.Out, what string) {
		f, d := ev.outcome(o.Val, o.Err != nil, ank.ErrText(o.Err))
		if o.Panicked {
			f, d = "panic", "panic escaped: "+o.PanicVal+" ["+o.PanicSig+"]"
		}
		c.Events(1 + ev.calls)
		if f == "excluded" {
			c.Excluded(d)
			c.EvalN(1)
			return
		}
		c.Eval(s.hash+"|"+ev.combo, true)
		if ev.ft != nil {
			switch ev.ex.kind {
			case c11OK:
				c.Tag("stream:expect:invoked-once")
			case c11None:
				c.Tag("stream:expect:error")
			}
		}
		if f != "" {
			h.report(s, ev, what, f, d, &o, "")
		}
	}
	ask := func(rf *ref, j int) {
		ev := rf.s.prep(rf.asks)
		ev.n = rf.asks
		c11r8Cur = ev
		c.Begin(map[string]interface{}{"reference_site": rf.s.expr, "ask": rf.asks, "streamed": j})
		var o ank.Out
		ctx, cancel := context.WithCancel(context.Background())
		if rf.stmt != nil {
			o = ank.RunCtx(ctx, rf.e, rf.stmt)
		} else {
			o = ank.ExecCtx(ctx, rf.e, rf.s.expr)
		}
		cancel()
		c11r8Cur = nil
		judge(rf.s, ev, o, fmt.Sprintf("reference site re-asked every %d streamed items; ask %d after %d items", rf.period, rf.asks, j))
		rf.asks++
		rf.last = j
		c.Count("stream:re-asks", 1)
		c.Tag(fmt.Sprintf("stream:re-asks-at-distance-%d", rf.period))
	}
	for _, rf := range refs {
		ask(rf, 0)
	}
	// the reference matrix: every source value x 26 target types (all scalar, interface and
	// named ones of the pool, a few containers) through one kept function per target in
	// one kept environment; the whole matrix is asked again after every 1000 streamed items
	var mTypes []reflect.Type
	mTypes = append(mTypes, c11Types[:19]...)
	mTypes = append(mTypes, c11r7TStringer, reflect.TypeOf([]int64(nil)), reflect.TypeOf([]interface{}(nil)), reflect.TypeOf([]string(nil)), reflect.TypeOf(map[string]int64(nil)),
		reflect.TypeOf(map[string]interface{}(nil)), reflect.TypeOf([]uint8(nil)))
	mSite := &c11r8Site{kind: "matrix", forms: "name"}
	for k, t := range mTypes {
		refEnv.e.Define("m"+strconv.Itoa(k), c11r8Fn(reflect.FuncOf([]reflect.Type{t}, []reflect.Type{c11TInt64}, false)).Interface())
	}
	sweep := func(j int) {
		c.Begin(map[string]interface{}{"matrix_sweep_after": j})
		for k, t := range mTypes {
			ft := reflect.FuncOf([]reflect.Type{t}, []reflect.Type{c11TInt64}, false)
			for i := range refEnv.vals {
				call := &c11Call{callee: "m" + strconv.Itoa(k), ft: ft, pre: []c11Val{refEnv.vals[i]}}
				ev := &c11r8Eval{n: j, ft: ft, call: call, ex: call.expect(), shape: "fixed/plain", results: []reflect.Value{reflect.ValueOf(int64(i))}, mutate: true, combo: "cell"}
				c11r8Cur = ev
				mSite.expr = call.src()
				mSite.hash = "matrix|" + mSite.expr
				ctx, cancel := context.WithCancel(context.Background())
				o := ank.ExecCtx(ctx, refEnv.e, mSite.expr)
				cancel()
				c11r8Cur = nil
				judge(mSite, ev, o, fmt.Sprintf("cell of the reference matrix, asked again after %d streamed items", j))
			}
		}
		c.Count("stream:matrix-sweeps", 1)
		c.Count("stream:matrix-cells-asked", len(mTypes)*len(refEnv.vals))
	}
	sweep(0)
	// the stream
	var kept []*c11Env
	var cur *c11Env
	g := &c11r8Gen{c: c, r: r, ce2: ce2, wide: true}
	distinct := map[uint64]bool{}
	pairs := map[string]bool{}
	park := make(chan struct{})
	parked := 0
	var leaked []context.CancelFunc
	itemKinds := []string{"call", "call", "call", "call-spread", "call-variadic", "struct-read", "struct-write", "struct-read", "roundtrip", "callback", "method", "deferred", "anon", "call"}
	for j := 1; j <= M; j++ {
		if cur == nil || j%89 == 0 {
			if cur != nil && (j/89)%4 == 0 {
				kept = append(kept, cur) // every fourth environment stays alive
				c.Tag("stream:environments-kept-alive")
			}
			cur = c11NewEnv(c)
			g.ce = cur
			h.e = cur.e
			cur.e.Define("park", func(n int64) { <-park })
			c.Tag("stream:environments")
		}
		if j%512 == 0 {
			runtime.GC() // what the dropped environments, trees and functions occupied is free for re-use
			c.Tag("stream:forced-gc")
		}
		var s *c11r8Site
		for try := 0; try < 6; try++ {
			kind := itemKinds[r.Intn(len(itemKinds))]
			if r.Intn(100) < 55 {
				kind = "pair"
			}
			switch kind {
			case "pair":
				var pair string
				s, pair = g.pairItem(cur.e)
				pairs[pair] = true
			case "struct-read":
				s = g.structItem(cur.e, false)
			case "struct-write":
				s = g.structItem(cur.e, true)
			default:
				s = g.site(cur.e, kind)
			}
			if hh := fw.Hash64(s.hash); !distinct[hh] {
				distinct[hh] = true
				break
			}
			c.Tag("stream:duplicate-item-regenerated")
		}
		c.Tag("stream:item:" + s.kind)
		if s.setup != "" {
			ank.Exec(cur.e, s.setup)
		}
		// one to three evaluations of the item (its own variants in turn), each under a context of its own
		for n := 0; n < 1+j%3; n++ {
			ev := s.prep(n)
			ev.n = n
			c11r8Cur = ev
			ctx, cancel := context.WithCancel(context.Background())
			src := s.expr
			if j%256 == 0 && n == 0 {
				src = "go park(" + strconv.Itoa(j) + ")\n" + src // a goroutine that never ends is left behind
				parked++
			}
			c.Begin(map[string]interface{}{"item": j, "src": src})
			o := ank.ExecCtx(ctx, cur.e, src)
			c11r8Cur = nil
			if j%64 == 0 {
				leaked = append(leaked, cancel) // never cancelled
				c.Tag("stream:contexts-left-uncancelled")
			} else {
				cancel()
			}
			judge(s, ev, o, fmt.Sprintf("item %d of the stream, evaluation %d", j, n))
		}
		for _, rf := range refs {
			if j-rf.last == rf.period {
				ask(rf, j)
			}
		}
		if j%1000 == 0 {
			sweep(j)
		}
	}
	c.Count("stream:histories", 1)
	c.Count("stream:distinct-items-streamed", len(distinct))
	c.Count("stream:distinct-(source type, target type)-pairs-of-the-pair-items", len(pairs))
	c.Count("stream:goroutines-left-parked", parked)
	c.Count("stream:environments-alive-at-the-end", len(kept)+len(refs)+2)
	runtime.KeepAlive(kept)
	runtime.KeepAlive(leaked)
}

// ---------------------------------------------------------------------------
// plan and dispatch (hooked into the engine of c11.go)

const c11r8Rule = " Round 8 (volume and history), every evaluation judged by the same absolute oracle: " +
	"hot: per case 18 sites (12 kinds: call by name fixed / spread / variadic, deferred, inside an anonymous function, method and method value, field read and write through a pointer, round trip, callback; a grid of the five call shapes whose last operand is written as literal / name / variable in turn and needs a built conversion; one adapted callback invoked 4200 times within one enclosing call), each ONE expression of one parsed tree evaluated 4200 times (one site in six cases 66000 times) by a script loop, a script function called again and again, or one tree re-run with vm.Run; operands are literals written at the site, names, and variables whose value and type change by five schedules (some variants have no conversion); the callee name is re-bound to functions of the same and of another type, method holders change their type under the same method name; the Go side judges what it receives ON ENTRY, then works in place on its slice / map parameters and keeps the last three containers that were built for it. " +
	"stream: one process per case streams >= 8000 pairwise distinct items (more than half of them one source value headed for one target type: a walk through the (source type) x (target type) matrix over a widened universe, most pairs without a conversion; calls with manufactured signatures over a widened type universe under fresh and re-used names, reads / writes of fields of a new manufactured struct type per item, round trips, callbacks, methods) through ~80 environments (one in four kept alive, the others dropped, runtime.GC every 512 items, every run under its own context - cancelled afterwards, one in 64 leaked -, a parked goroutine left behind every 256 items) while 12 reference sites with their own kept functions (half with a kept parsed tree) are re-asked at distances of exactly 255, 256, 257, 999, 1000, 1001, 1023, 1024, 1025, 4095, 4096, 4097 streamed items, and a reference matrix (every source value x 26 target types through kept functions) is asked again in full after every 1000 items. " +
	"sizes: lengths / counts / depths 255-257, 1023-1025, 4095-4097, 65535-65537, 200000 for lists, maps, strings (multi-byte at every alignment) converted to typed parameters, argument counts, spread lists, parameter counts, results, struct fields, source offsets of the call (4 KiB / 64 KiB), call nesting to 12000, callback nesting to 4097, 12000 defers, 12000 nested blocks, 3000 parked goroutines started by go statements."

func c11r8Phases(tier string) []fw.Phase {
	nHot, nStream := 12, 6
	if tier == "thorough" {
		nHot, nStream = 180, 16
	}
	return []fw.Phase{
		{Name: "hot", Cases: nHot, Chunk: 1, TimeoutS: 600},
		{Name: "stream", Cases: nStream, Chunk: 1, TimeoutS: 900},
		{Name: "sizes", Cases: c11r8NSizes, Chunk: 1, Exhaust: true, TimeoutS: 600},
	}
}

func c11r8Dispatch(c *wk.Case) {
	switch c.Phase {
	case "hot":
		c11PhaseR8Hot(c)
	case "stream":
		c11PhaseR8Stream(c)
	case "sizes":
		c11PhaseR8Sizes(c)
	}
}

// ---------------------------------------------------------------------------
// phase sizes

var c11r8Sizes = []int{255, 256, 257, 1023, 1024, 1025, 4095, 4096, 4097, 65535, 65536, 65537, 200000}

func c11r8SizesUpTo(max int, tier string) []int {
	var out []int
	for _, n := range c11r8Sizes {
		if n <= max {
			out = append(out, n)
		}
	}
	if tier == "thorough" && max >= c11r8Big {
		out = append(out, 1<<20-1, 1<<20, 1<<20+1)
	}
	return out
}

// c11r8Big: the families that go up to 200000 in the quick tier go past 2^20 in the thorough tier
const c11r8Big = 200000

type c11r8Sz struct {
	c   *wk.Case
	h   *c11r8Run
	e   *env.Env
	fam string
}

// call: one call site with given operands (models are live objects), evaluated
// `evals` times; the Go side works in place on what it receives.
func (z *c11r8Sz) call(n int, src string, k *c11Call, vehicle, evals int) {
	fn := c11r8Fn(k.ft).Interface()
	name := k.callee
	z.e.Define(name, fn)
	keep := &c11r8Keep{}
	expr := k.src()
	if src != "" {
		expr = src
	}
	s := &c11r8Site{kind: z.fam, expr: expr, keep: keep, hash: z.fam + "|" + k.ft.String() + "|" + strconv.Itoa(n) + "|" + strconv.Itoa(len(expr)) + "|" + fmt.Sprint(fw.Hash64(expr)), useTry: true, forms: "size=" + strconv.Itoa(n)}
	s.prep = func(i int) *c11r8Eval {
		return &c11r8Eval{ft: k.ft, call: k, ex: k.expect(), shape: k.shape(), results: c11GenResults(z.c.Rng, k.ft), mutate: true, keep: keep, combo: strconv.Itoa(n)}
	}
	s.end = keep.check
	z.h.drive(s, vehicle, evals)
	z.c.Tag(fmt.Sprintf("sizes:%s:size-%d", z.fam, n))
}

func c11r8Bound(e *env.Env, name string, v interface{}) c11Val {
	e.Define(name, v)
	rv := reflect.ValueOf(v)
	return c11Val{text: name, v: rv, label: c11Label(rv)}
}

func c11r8Lit(text string, v interface{}) c11Val {
	return c11Val{text: text, v: reflect.ValueOf(v), label: c11Label(reflect.ValueOf(v))}
}

func c11r8FT(in []reflect.Type, variadic bool, out ...reflect.Type) reflect.Type {
	return reflect.FuncOf(in, out, variadic)
}

// c11r8Text: n bytes with multi-byte characters (2, 3 and 4 bytes) at every
// alignment: `shift` one-byte characters first, padded with 'z' to n bytes
func c11r8Text(n, shift int) string {
	var b strings.Builder
	b.WriteString(strings.Repeat("a", shift%4))
	unit := "é日𝄞x" // 2 + 3 + 4 + 1 bytes
	for b.Len()+len(unit) <= n {
		b.WriteString(unit)
	}
	for b.Len() < n {
		b.WriteByte('z')
	}
	return b.String()[:n]
}

func c11r8IntList(n int) ([]interface{}, string) {
	lst := make([]interface{}, n)
	var b strings.Builder
	b.WriteString("[")
	for i := range lst {
		lst[i] = int64(i % 251)
		if n <= 4097 {
			if i > 0 {
				b.WriteString(", ")
			}
			b.WriteString(strconv.Itoa(i % 251))
		}
	}
	b.WriteString("]")
	return lst, b.String()
}

const c11r8NSizes = 13

func c11PhaseR8Sizes(c *wk.Case) {
	ce := c11NewEnv(c)
	e := ce.e
	h := &c11r8Run{c: c, prefix: "sizes", e: e}
	fams := []string{"list", "map", "string", "source-offset", "argument-count", "spread", "results", "fields", "nested-calls", "nested-callbacks", "defers-and-blocks", "goroutines", "callback-big"}
	z := &c11r8Sz{c: c, h: h, e: e, fam: fams[c.Index]}
	tI64, tF64, tStr := c11TInt64, reflect.TypeOf(float64(0)), c11TString
	sl := reflect.SliceOf
	one := []reflect.Type{c11TInt64}
	switch z.fam {
	case "list":
		for _, n := range c11r8SizesUpTo(200000, c.Tier) {
			lst, text := c11r8IntList(n)
			strs := make([]interface{}, n)
			nested := make([]interface{}, n)
			i32 := make([]int32, n)
			for i := range strs {
				strs[i] = "s" + strconv.Itoa(i%97)
				nested[i] = []interface{}{int64(i), int64(1)}
				i32[i] = int32(i)
			}
			big, bigS, bigN, big32 := c11r8Bound(e, "big", lst), c11r8Bound(e, "bigs", strs), c11r8Bound(e, "bign", nested), c11r8Bound(e, "big32", i32)
			v := 0
			if n > 4097 && c.Tier != "thorough" {
				// the big sizes: three conversions (list -> []int64, typed slice -> []int64, list -> []string at one size)
				z.call(n, "", &c11Call{callee: "f", ft: c11r8FT([]reflect.Type{sl(tI64), tStr}, false, tI64), pre: []c11Val{big, c11r8Lit(`"x"`, "x")}}, n%3, 2)
				if n != 200000 {
					z.call(n, "", &c11Call{callee: "f", ft: c11r8FT([]reflect.Type{sl(tF64)}, false, tI64), pre: []c11Val{big32}}, (n+1)%3, 2)
				}
				if n == 65536 {
					z.call(n, "", &c11Call{callee: "f", ft: c11r8FT([]reflect.Type{sl(tStr)}, false), pre: []c11Val{bigS}}, c11r8Loop, 2)
				}
				continue
			}
			for _, t := range []reflect.Type{sl(tI64), sl(tF64), sl(reflect.TypeOf(int8(0))), sl(c11TIface), sl(reflect.TypeOf(uint16(0)))} {
				z.call(n, "", &c11Call{callee: "f", ft: c11r8FT([]reflect.Type{t, tStr}, false, tI64), pre: []c11Val{big, c11r8Lit(`"x"`, "x")}}, v%3, 2)
				v++
			}
			z.call(n, "", &c11Call{callee: "f", ft: c11r8FT([]reflect.Type{sl(tStr)}, false), pre: []c11Val{bigS}}, c11r8Loop, 2)
			z.call(n, "", &c11Call{callee: "f", ft: c11r8FT([]reflect.Type{tI64, sl(sl(tI64))}, false, tStr), pre: []c11Val{c11r8Lit("1", int64(1)), bigN}}, c11r8Rerun, 2)
			z.call(n, "", &c11Call{callee: "f", ft: c11r8FT([]reflect.Type{sl(tI64)}, false, tI64), pre: []c11Val{big32}}, c11r8Func, 2)
			z.call(n, "", &c11Call{callee: "f", ft: c11r8FT([]reflect.Type{sl(reflect.TypeOf(int32(0)))}, false, tI64), pre: []c11Val{big32}}, c11r8Rerun, 2)
			if n <= 4097 {
				// the list written out at the site
				pristine, _ := c11r8IntList(n) // never handed to Go: the model of the literal
				z.call(n, "", &c11Call{callee: "f", ft: c11r8FT([]reflect.Type{sl(tI64)}, false, sl(tI64)), pre: []c11Val{c11r8Lit(text, pristine)}}, c11r8Loop, 3)
				z.call(n, "", &c11Call{callee: "f", ft: c11r8FT([]reflect.Type{sl(tF64), tI64}, false), pre: []c11Val{c11r8Lit(text, pristine), c11r8Lit("2", int64(2))}}, c11r8Rerun, 3)
			}
		}
	case "map":
		sizes := c11r8SizesUpTo(65537, c.Tier)
		if c.Tier == "thorough" {
			sizes = append(sizes, 200000)
		}
		for _, n := range sizes {
			m := make(map[interface{}]interface{}, n)
			m32 := make(map[string]int32, n)
			mi := make(map[interface{}]interface{}, n)
			for i := 0; i < n; i++ {
				m["k"+strconv.Itoa(i)] = int64(i)
				m32["k"+strconv.Itoa(i)] = int32(i)
				mi[int64(i)] = "v" + strconv.Itoa(i%13)
			}
			bm, bm32, bmi := c11r8Bound(e, "bm", m), c11r8Bound(e, "bm32", m32), c11r8Bound(e, "bmi", mi)
			if n > 4097 && c.Tier != "thorough" {
				if n == 65536 {
					z.call(n, "", &c11Call{callee: "f", ft: c11r8FT([]reflect.Type{reflect.TypeOf(map[string]int64(nil))}, false, tI64), pre: []c11Val{bm}}, c11r8Loop, 2)
				} else {
					z.call(n, "", &c11Call{callee: "f", ft: c11r8FT([]reflect.Type{tStr, reflect.TypeOf(map[string]int64(nil))}, false), pre: []c11Val{c11r8Lit(`"x"`, "x"), bm32}}, n%3, 2)
				}
				continue
			}
			for v, t := range []reflect.Type{reflect.TypeOf(map[string]int64(nil)), reflect.TypeOf(map[string]interface{}(nil)), reflect.TypeOf(map[string]float64(nil)), reflect.TypeOf(map[C11MyStr]int16(nil))} {
				z.call(n, "", &c11Call{callee: "f", ft: c11r8FT([]reflect.Type{t}, false, tI64), pre: []c11Val{bm}}, v%3, 2)
			}
			z.call(n, "", &c11Call{callee: "f", ft: c11r8FT([]reflect.Type{tStr, reflect.TypeOf(map[string]int64(nil))}, false), pre: []c11Val{c11r8Lit(`"x"`, "x"), bm32}}, c11r8Loop, 2)
			z.call(n, "", &c11Call{callee: "f", ft: c11r8FT([]reflect.Type{reflect.TypeOf(map[int64]string(nil))}, false, tStr), pre: []c11Val{bmi}}, c11r8Rerun, 2)
			z.call(n, "", &c11Call{callee: "f", ft: c11r8FT([]reflect.Type{reflect.TypeOf(map[uint16]string(nil))}, false, tStr), pre: []c11Val{bmi}}, c11r8Func, 2) // keys collide beyond 65536: not judged
		}
	case "string":
		for i, n := range c11r8SizesUpTo(200000, c.Tier) {
			for d := 0; d < 2; d++ {
				if d == 1 && n > 4097 && c.Tier != "thorough" {
					continue
				}
				txt := c11r8Text(n, i+2*d)
				bs := c11r8Bound(e, "bstr", txt)
				lit := c11r8Lit(`"`+txt+`"`, txt)
				for v, t := range []reflect.Type{sl(reflect.TypeOf(uint8(0))), sl(reflect.TypeOf(int32(0))), tStr, c11TIface, reflect.TypeOf(C11MyStr(""))} {
					a := bs
					if v%2 == d && n <= 65537 {
						a = lit // written out at the site: the source is that long, too
					}
					if n > 4097 && c.Tier != "thorough" && v != i%3 && v != 2 {
						continue // the big sizes: one of []byte / []rune / string in turn, and string
					}
					z.call(n, "", &c11Call{callee: "f", ft: c11r8FT([]reflect.Type{t}, false, tStr), pre: []c11Val{a}}, (v+d)%3, 2)
				}
				if n > 4097 && c.Tier != "thorough" {
					continue
				}
				z.call(n, "", &c11Call{callee: "f", ft: c11r8FT([]reflect.Type{tI64, sl(sl(reflect.TypeOf(uint8(0))))}, true), pre: []c11Val{c11r8Lit("1", int64(1)), bs, bs}}, c11r8Rerun, 2)
			}
		}
	case "source-offset":
		// the call sits right at / across the 4 KiB and 64 KiB offsets of its source, after
		// comment lines full of multi-byte characters
		for _, base := range []int{4096, 65536} {
			for off := base - 6; off <= base+5; off++ {
				var b strings.Builder
				line := "# " + strings.Repeat("é日𝄞", 7) + "\n"
				for b.Len()+len(line)+3 <= off {
					b.WriteString(line)
				}
				if rest := off - b.Len(); rest >= 3 {
					b.WriteString("# " + strings.Repeat("x", rest-3) + "\n")
				} else {
					b.WriteString(strings.Repeat(" ", rest))
				}
				k := &c11Call{callee: "f", ft: c11r8FT([]reflect.Type{sl(reflect.TypeOf(int32(0))), sl(tI64), reflect.TypeOf(map[string]float64(nil))}, false, tStr, tI64),
					pre: []c11Val{c11r8Lit(`"hé日𝄞llo日本"`, "hé日𝄞llo日本"), c11r8Lit("[3, 1, 2]", []interface{}{int64(3), int64(1), int64(2)}), c11r8Lit(`{"é": 1}`, map[interface{}]interface{}{"é": int64(1)})}}
				z.call(off, b.String()+k.src()+"\n# 日本\n", k, c11r8Rerun, 2)
			}
		}
	case "argument-count":
		for _, n := range c11r8SizesUpTo(65537, c.Tier) {
			var pre, preI []c11Val
			for i := 0; i < n; i++ {
				pre = append(pre, c11r8Lit(strconv.Itoa(i%300), int64(i%300)))
				switch i % 3 {
				case 0:
					preI = append(preI, c11r8Lit(strconv.Itoa(i), int64(i)))
				case 1:
					preI = append(preI, c11r8Lit(`"s`+strconv.Itoa(i%7)+`"`, "s"+strconv.Itoa(i%7)))
				default:
					preI = append(preI, c11r8Lit("1.5", float64(1.5)))
				}
			}
			z.call(n, "", &c11Call{callee: "f", ft: c11r8FT([]reflect.Type{sl(tI64)}, true, tI64), pre: pre}, c11r8Rerun, 2)
			if n > 4097 && c.Tier != "thorough" && n != 65536 {
				continue
			}
			z.call(n, "", &c11Call{callee: "f", ft: c11r8FT([]reflect.Type{tStr, sl(reflect.TypeOf(uint16(0)))}, true, tI64), pre: append([]c11Val{c11r8Lit(`"p"`, "p")}, pre...)}, c11r8Loop, 2)
			z.call(n, "", &c11Call{callee: "f", ft: c11r8FT([]reflect.Type{sl(c11TIface)}, true), pre: preI}, c11r8Func, 2)
		}
		for _, m := range []int{31, 32, 33, 63, 64, 65, 100, 126} {
			in := make([]reflect.Type, m)
			var pre []c11Val
			for i := range in {
				in[i] = []reflect.Type{tI64, tF64, tStr, sl(tI64), reflect.TypeOf(int8(0))}[i%5]
				if i%5 == 3 {
					pre = append(pre, c11r8Lit("["+strconv.Itoa(i)+", 2]", []interface{}{int64(i), int64(2)}))
				} else {
					pre = append(pre, c11r8Lit(strconv.Itoa(i), int64(i)))
				}
			}
			z.call(m, "", &c11Call{callee: "f", ft: c11r8FT(in, false, tI64), pre: pre}, c11r8Loop, 3)
			lst := c11ListOf(pre[1:])
			z.call(m, "", &c11Call{callee: "f", ft: c11r8FT(in, false, tI64), pre: pre[:1], spread: &lst}, c11r8Rerun, 3)
		}
	case "spread":
		for _, n := range c11r8SizesUpTo(200000, c.Tier) {
			lst, _ := c11r8IntList(n)
			big := c11r8Bound(e, "big", lst)
			i64s := make([]int64, n)
			for i := range i64s {
				i64s[i] = int64(i)
			}
			bt := c11r8Bound(e, "bigt", i64s)
			z.call(n, "", &c11Call{callee: "f", ft: c11r8FT([]reflect.Type{sl(tI64)}, true, tI64), spread: &big}, c11r8Loop, 2)
			if n > 4097 && c.Tier != "thorough" {
				if n != 200000 {
					z.call(n, "", &c11Call{callee: "f", ft: c11r8FT([]reflect.Type{sl(reflect.TypeOf(int16(0)))}, true, tI64), spread: &bt}, c11r8Rerun, 2)
				}
				continue
			}
			z.call(n, "", &c11Call{callee: "f", ft: c11r8FT([]reflect.Type{tStr, sl(tF64)}, true), pre: []c11Val{c11r8Lit(`"p"`, "p")}, spread: &big}, c11r8Rerun, 2)
			z.call(n, "", &c11Call{callee: "f", ft: c11r8FT([]reflect.Type{sl(c11TIface)}, true, tI64), spread: &big}, c11r8Func, 2)
			z.call(n, "", &c11Call{callee: "f", ft: c11r8FT([]reflect.Type{sl(tI64)}, true, tI64), spread: &bt}, c11r8Rerun, 2)
			z.call(n, "", &c11Call{callee: "f", ft: c11r8FT([]reflect.Type{sl(reflect.TypeOf(int16(0)))}, true, tI64), spread: &bt}, c11r8Loop, 2)
		}
	case "results":
		c11r8SizesResults(z)
	case "fields":
		c11r8SizesFields(z, ce)
	case "nested-calls":
		c11r8SizesNestedCalls(z)
	case "nested-callbacks":
		c11r8SizesNestedCallbacks(z)
	case "defers-and-blocks":
		c11r8SizesDefers(z)
	case "goroutines":
		c11r8SizesGoroutines(z)
	case "callback-big":
		c11r8SizesCallbackBig(z)
	}
	_ = one
}

// custom: a site that is no call of the recorder; judge returns (failure, detail)
func (z *c11r8Sz) custom(n int, expr string, vehicle, evals int, before func(), judge func(val interface{}, failed bool) (string, string)) {
	s := &c11r8Site{kind: z.fam, expr: expr, hash: z.fam + "|" + strconv.Itoa(n) + "|" + fmt.Sprint(fw.Hash64(expr)), useTry: true, forms: "size=" + strconv.Itoa(n)}
	s.prep = func(i int) *c11r8Eval {
		if before != nil {
			before()
		}
		return &c11r8Eval{combo: strconv.Itoa(n), finish: judge}
	}
	z.h.drive(s, vehicle, evals)
	z.c.Tag(fmt.Sprintf("sizes:%s:size-%d", z.fam, n))
}

// results: "all of their results come back (several as a list)"
func c11r8SizesResults(z *c11r8Sz) {
	c, e := z.c, z.e
	for _, n := range c11r8SizesUpTo(200000, c.Tier) {
		i64s := make([]int64, n)
		m := make(map[string]int64, n)
		for i := range i64s {
			i64s[i] = int64(i)
			if n <= 65537 {
				m["k"+strconv.Itoa(i)] = int64(i)
			}
		}
		txt := c11r8Text(n, n%4)
		var want []interface{}
		e.Define("res", func(k int64) (interface{}, []int64, map[string]int64, string) {
			return want[0], i64s, m, txt
		})
		want = []interface{}{int64(n), i64s, m, txt}
		for v := 0; v < 3; v++ {
			if n > 4097 && c.Tier != "thorough" && v != n%3 {
				continue
			}
			z.custom(n, "res(1)", v, 2, nil, func(val interface{}, failed bool) (string, string) {
				if failed {
					return "unexpected-error", "a Go function without parameters that need a conversion failed"
				}
				if d := c11Diff(reflect.ValueOf(val), reflect.ValueOf(want), c11NilExact, "results", 0); d != "" {
					return "wrong-result", d
				}
				return "", ""
			})
		}
	}
	// many results
	for _, k := range []int{2, 15, 16, 17, 63, 64, 65, 127} {
		out := make([]reflect.Type, k)
		for i := range out {
			out[i] = []reflect.Type{c11TInt64, c11TString, reflect.TypeOf([]int64(nil)), c11TIface, c11TError, reflect.TypeOf(float32(0))}[i%6]
		}
		z.call(k, "", &c11Call{callee: "f", ft: c11r8FT([]reflect.Type{c11TInt64}, false, out...), pre: []c11Val{c11r8Lit("1", int64(1))}}, k%3, 3)
	}
}

// fields: a struct type with n exported fields
func c11r8SizesFields(z *c11r8Sz, ce *c11Env) {
	c := z.c
	g := &c11r8Gen{c: c, r: c.Rng, ce: ce, ce2: c11NewEnv(c)}
	for _, n := range c11r8SizesUpTo(4097, c.Tier) {
		fs := make([]reflect.StructField, n)
		for i := range fs {
			fs[i] = reflect.StructField{Name: "F" + strconv.Itoa(i), Type: c11r8FieldTypes[(i*7+n)%len(c11r8FieldTypes)]}
		}
		var st reflect.Type
		func() {
			defer func() {
				if r := recover(); r != nil {
					c.Inconclusive("r8-structof-refused", fmt.Sprint(r), n)
				}
			}()
			st = reflect.StructOf(fs)
		}()
		if st == nil {
			continue
		}
		p := reflect.New(st)
		p.Elem().Set(c11GenGo(c.Rng, st, 2, false))
		for v, i := range []int{0, 1, n / 2, n - 2, n - 1} {
			for _, write := range []bool{false, true} {
				s := g.fieldSite(z.e, []reflect.Value{p}, fs[i].Name, write)
				s.kind = z.fam + ":" + s.kind
				z.h.drive(s, (v+i)%3, 3)
			}
		}
		c.Tag(fmt.Sprintf("sizes:fields:size-%d", n))
	}
}

var c11r8Depths = []int{255, 256, 257, 1023, 1024, 1025, 4095, 4096, 4097, 9999, 10000, 10001, 12000}

// nested calls: nid(nid(...nid([3, 1, 2])...)), d deep. The innermost call gets the
// conversion of the list, every outer one the very slice the inner one returned
// (identity); each works in place on it and hands it on.
func c11r8SizesNestedCalls(z *c11r8Sz) {
	e := z.e
	for _, d := range c11r8Depths {
		for _, iface := range []bool{false, true} {
			calls, fail := 0, ""
			var cur []int64
			body := func(xs []int64) {
				calls++
				want := []int64{3, 1, 2}
				for i := range want {
					want[i] ^= int64((calls - 1) % 2)
				}
				if fail == "" {
					if d := c11Diff(reflect.ValueOf(xs), reflect.ValueOf(want), c11NilConv, fmt.Sprintf("argument of call %d (from the inside)", calls), 0); d != "" {
						fail = d
					} else if calls > 1 && (len(cur) == 0 || &cur[0] != &xs[0]) {
						fail = fmt.Sprintf("call %d (from the inside) did not receive the slice the inner call returned", calls)
					}
				}
				for i := range xs {
					xs[i] ^= 1
				}
				cur = xs
			}
			if iface {
				e.Define("nid", func(a interface{}) interface{} {
					xs, ok := a.([]int64)
					if !ok {
						if calls == 0 {
							// the innermost call: the list itself (identity for interface{})
							calls++
							if d := c11Diff(reflect.ValueOf(a), reflect.ValueOf([]interface{}{int64(3), int64(1), int64(2)}), c11NilExact, "argument of the innermost call", 0); d != "" {
								fail = d
							}
							cur = []int64{2, 0, 3}
							return cur
						}
						fail = "an outer call did not receive the []int64 the inner call returned: " + ank.Render(a)
						return a
					}
					body(xs)
					return xs
				})
			} else {
				e.Define("nid", func(xs []int64) []int64 { body(xs); return xs })
			}
			expr := strings.Repeat("nid(", d) + "[3, 1, 2]" + strings.Repeat(")", d)
			z.custom(d, expr, d%3, 2, func() { calls, fail, cur = 0, "", nil }, func(val interface{}, failed bool) (string, string) {
				if failed {
					return "unexpected-error", "a conversion exists for every argument, yet the nested call failed"
				}
				if calls != d {
					return "invocations", fmt.Sprintf("%d nested calls were written, the Go function was invoked %d times", d, calls)
				}
				if fail != "" {
					return "wrong-args", fail
				}
				if d := c11Diff(reflect.ValueOf(val), reflect.ValueOf(cur), c11NilExact, "result", 0); d != "" {
					return "wrong-result", d
				}
				return "", ""
			})
		}
	}
}

// nested callbacks: func rec(n) { if n == 0 { return [7, 8] }; return apply(rec, n - 1) }
func c11r8SizesNestedCallbacks(z *c11r8Sz) {
	e := z.e
	for _, d := range c11r8SizesUpTo(4097, z.c.Tier) {
		var got []int64
		fail := ""
		e.Define("apply", func(cb func(int64) []int64, n int64) []int64 {
			got = append(got, n)
			out := cb(n)
			if dd := c11Diff(reflect.ValueOf(out), reflect.ValueOf([]int64{7, 8}), c11NilConv, fmt.Sprintf("result of the callback at depth %d", len(got)), 0); dd != "" && fail == "" {
				fail = dd
			}
			return out
		})
		e.Define("seenn", func(n int64, want int64) {
			if n != want && fail == "" {
				fail = fmt.Sprintf("the script function received %d, Go passed %d", n, want)
			}
		})
		if o := ank.Exec(e, "func rec(n) { if n == 0 { return [7, 8] }; return apply(rec, n - 1) }"); o.Err != nil || o.Panicked {
			z.c.Inconclusive("r8-site-setup-failed", ank.ErrText(o.Err)+o.PanicVal, "func rec")
			return
		}
		z.custom(d, "rec("+strconv.Itoa(d)+")", d%3, 2, func() { got, fail = nil, "" },
			func(val interface{}, failed bool) (string, string) {
				if failed {
					return "unexpected-error", "nested callbacks failed although every result has a conversion"
				}
				if len(got) != d {
					return "invocations", fmt.Sprintf("Go was to be called %d times, was called %d times", d, len(got))
				}
				for i, n := range got {
					if n != int64(d-1-i) {
						return "wrong-args", fmt.Sprintf("call %d: Go received %d, the script passed %d", i, n, d-1-i)
					}
				}
				if fail != "" {
					return "result-not-converted", fail
				}
				if dd := c11Diff(reflect.ValueOf(val), reflect.ValueOf([]int64{7, 8}), c11NilExact, "result", 0); dd != "" {
					return "wrong-result", dd
				}
				return "", ""
			})
	}
}

// defers: d deferred calls of one function, each with its own arguments; a call under d nested blocks
func c11r8SizesDefers(z *c11r8Sz) {
	e := z.e
	for _, d := range c11r8Depths {
		seen := map[int64]int{}
		fail := ""
		e.Define("df", func(n int64, xs []int64, s string) {
			seen[n]++
			if dd := c11Diff(reflect.ValueOf(xs), reflect.ValueOf([]int64{n, 1}), c11NilConv, fmt.Sprintf("deferred call %d argument 1", n), 0); dd != "" && fail == "" {
				fail = dd
			}
			if s != "é" && fail == "" {
				fail = fmt.Sprintf("deferred call %d argument 2: got %q", n, s)
			}
			for i := range xs {
				xs[i] = -1
			}
		})
		z.custom(d, "func() { for i = 0; i < "+strconv.Itoa(d)+"; i++ { defer df(i, [i, 1], \"é\") }; return 0 }()", d%3, 2, func() { seen, fail = map[int64]int{}, "" },
			func(val interface{}, failed bool) (string, string) {
				if failed {
					return "unexpected-error", "deferred calls failed although every argument has a conversion"
				}
				for i := int64(0); i < int64(d); i++ {
					if seen[i] != 1 {
						return "invocations", fmt.Sprintf("deferred call %d of %d was made %d times", i, d, seen[i])
					}
				}
				if len(seen) != d {
					return "invocations", fmt.Sprintf("%d distinct deferred calls arrived, %d were written", len(seen), d)
				}
				if fail != "" {
					return "wrong-args", fail
				}
				return "", ""
			})
	}
	for _, d := range []int{1023, 1024, 1025, 4095, 4096, 4097, 12000} {
		k := &c11Call{callee: "f", ft: c11r8FT([]reflect.Type{reflect.TypeOf([]float64(nil)), reflect.TypeOf(map[string]int64(nil))}, false, c11TInt64, c11TString),
			pre: []c11Val{c11r8Lit("[3, 1, 2]", []interface{}{int64(3), int64(1), int64(2)}), c11r8Lit(`{"a": 1}`, map[interface{}]interface{}{"a": int64(1)})}}
		src := "r = nil\n" + strings.Repeat("if true {\n", d) + "r = " + k.src() + "\n" + strings.Repeat("}\n", d) + "r"
		z.fam = "defers-and-blocks:blocks"
		z.call(d, src, k, c11r8Rerun, 2)
		z.fam = "defers-and-blocks"
	}
}

// goroutines: G calls started with `go f(i, [i, 2], "s")`, all parked inside f at
// the same time; each must have received exactly its own arguments.
func c11r8SizesGoroutines(z *c11r8Sz) {
	c, e := z.c, z.e
	G := 3000
	if c.Tier == "thorough" {
		G = 20000
	}
	var mu sync.Mutex
	seen := map[int64]int{}
	fail := ""
	arrivals := 0
	release := make(chan struct{})
	e.Define("gf", func(n int64, xs []int64, s string) {
		mu.Lock()
		arrivals++
		seen[n]++
		if dd := c11Diff(reflect.ValueOf(xs), reflect.ValueOf([]int64{n, 2}), c11NilConv, fmt.Sprintf("go call %d argument 1", n), 0); dd != "" && fail == "" {
			fail = dd
		}
		if s != "s"+strconv.FormatInt(n%10, 10) && fail == "" {
			fail = fmt.Sprintf("go call %d argument 2: got %q", n, s)
		}
		for i := range xs {
			xs[i] = -1
		}
		mu.Unlock()
		<-release
	})
	src := "for i = 0; i < " + strconv.Itoa(G) + "; i++ { go gf(i, [i, 2], \"s\" + (i % 10)) }"
	c.Begin(src)
	g0 := runtime.NumGoroutine()
	o := ank.Exec(e, src)
	c.Events(1)
	c.Eval("goroutines|"+src, true)
	s := &c11r8Site{kind: z.fam, expr: src}
	ev := &c11r8Eval{}
	if o.Panicked || o.Err != nil {
		z.h.report(s, ev, "go-statements", "unexpected-error", "starting the calls failed: "+ank.ErrText(o.Err)+o.PanicVal, &o, src)
		close(release)
		return
	}
	// WHEN a started call arrives is not judged: wait until all have arrived, or until
	// every goroutine the script started has either arrived (and is parked) or ended -
	// a call that has not arrived by then was never made; 30 s at most
	deadline := time.Now().Add(30 * time.Second)
	quiet := 0
	for {
		mu.Lock()
		n, parked := len(seen), arrivals
		mu.Unlock()
		if runtime.NumGoroutine()-g0 <= parked {
			quiet++
		} else {
			quiet = 0
		}
		if n >= G || quiet >= 25 || time.Now().After(deadline) {
			break
		}
		time.Sleep(2 * time.Millisecond)
	}
	mu.Lock()
	defer mu.Unlock()
	c.Count("sizes:goroutines-parked-at-once", len(seen))
	c.Events(len(seen))
	switch {
	case len(seen) < G && quiet < 25:
		c.Inconclusive("r8-go-calls-not-arrived-in-30s", fmt.Sprintf("%d of %d", len(seen), G), src)
	case fail != "":
		z.h.report(s, ev, "go-statements", "wrong-args", fail, &o, src)
	default:
		for i := int64(0); i < int64(G); i++ {
			if seen[i] != 1 {
				z.h.report(s, ev, "go-statements", "invocations", fmt.Sprintf("go call %d was made %d times (%d of %d calls arrived, every goroutine the script started has arrived or ended)", i, seen[i], len(seen), G), &o, src)
				break
			}
		}
	}
	close(release)
}

// callback-big: Go passes big values to a script callback, the script function
// returns a big list for a []int64 / a big map / a big string result
func c11r8SizesCallbackBig(z *c11r8Sz) {
	e := z.e
	for _, n := range c11r8SizesUpTo(65537, z.c.Tier) {
		i64s := make([]int64, n)
		for i := range i64s {
			i64s[i] = int64(i)
		}
		txt := c11r8Text(n, n%4)
		lst, _ := c11r8IntList(n)
		e.Define("ret", lst)
		want := make([]int64, n)
		for i := range want {
			want[i] = int64(i % 251)
		}
		var fail string
		calls, seenCalls := 0, 0
		e.Define("hostb", func(cb func([]int64, string) []int64) int64 {
			for k := 0; k < 2; k++ {
				calls++
				out := cb(i64s, txt)
				if d := c11Diff(reflect.ValueOf(out), reflect.ValueOf(want), c11NilConv, "callback result", 0); d != "" && fail == "" {
					fail = "result-not-converted: " + d
				}
				c11r8Mutate(reflect.ValueOf(out), 0) // Go works in place on what it got back
			}
			return int64(calls)
		})
		e.Define("seenb", func(a interface{}, s interface{}) {
			seenCalls++
			if d := c11Diff(reflect.ValueOf(a), reflect.ValueOf(i64s), c11NilExact, "callback argument 0", 0); d != "" && fail == "" {
				fail = "args-differ: " + d
			}
			if d := c11Diff(reflect.ValueOf(s), reflect.ValueOf(txt), c11NilExact, "callback argument 1", 0); d != "" && fail == "" {
				fail = "args-differ: " + d
			}
		})
		z.custom(n, "hostb(func(a, s) { seenb(a, s); return ret })", n%3, 2, func() { fail, calls, seenCalls = "", 0, 0 }, func(val interface{}, failed bool) (string, string) {
			if failed {
				return "unexpected-error", "the callback's result has a conversion, yet the enclosing call failed"
			}
			if calls != 2 || seenCalls != 2 {
				return "invocations", fmt.Sprintf("Go called the callback %d times, the script function ran %d times (want 2)", calls, seenCalls)
			}
			if fail != "" {
				i := strings.Index(fail, ": ")
				return fail[:i], fail[i+2:]
			}
			return "", ""
		})
	}
}
