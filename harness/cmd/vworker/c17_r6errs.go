package main

// C17, the error the callback stops a walk with (round 6).
//
// Last sentence of the statement: "When the callback returns an error the walk stops
// at once and returns that error." It speaks of "an error" - any value of Go's error
// interface that is not the nil interface - and of "that error": the value the
// callback returned, not a copy of it, not another error with the same text or with
// more information, whatever its dynamic type. Until round 6 the callback of the
// abort sweep only ever returned errors.New values; a walker that treats one kind of
// error differently (gives a parse error the position of the node, gives a sentinel
// such as io.EOF or filepath.SkipDir a meaning of its own, unwraps, retries
// "temporary" errors, looks into the error through a typed nil pointer) was never
// asked to return such an error.
//
// c17ErrKinds is the list of error kinds. Two workloads use it:
//
//   - the abort sweep of c17Check (every phase): the kind of the error returned at
//     call k rotates over the list (start derived from the source text, so that a
//     program is replayable on its own);
//   - phase errkinds (deterministic): every pinned program and every template on its
//     own, the callback failing at every call position with every kind in turn; its
//     last case demands that every node type of the ast package was a failing
//     position (no-coverage:errkinds:<Type> otherwise).
//
// Oracle, from the statement only, for a callback that returns error e at call k:
// exactly k calls (stops at once), Walk returns e itself (c17SameErr: identity, ==
// on the interface values; for an error type that cannot be compared with ==, the
// same dynamic type and the same backing array), Walk does not panic, and e still is
// what it was (an error whose fields were rewritten by the walk is no longer the
// error the callback returned: abort-error-modified). When a violation is seen with
// a kind other than errors.New the same position is tried again with errors.New: if
// that fails the same way the plain signature of the earlier rounds is reported,
// otherwise the signature names the kind (abort-error-replaced:<Type>/<kind>).

import (
	"context"
	"errors"
	"fmt"
	"io"
	"io/fs"
	"path/filepath"
	"reflect"
	"strconv"
	"sync"

	"github.com/mattn/anko/ast"
	"github.com/mattn/anko/parser"
	"github.com/mattn/anko/vm"

	"verifharness/internal/ank"
	"verifharness/internal/astx"
	"verifharness/internal/wk"
)

// error types of the host (what an embedding program would define)

type c17PtrErr struct {
	msg string
	k   int
}

func (e *c17PtrErr) Error() string { return e.msg }

type c17ValErr struct {
	msg string
	k   int
}

func (e c17ValErr) Error() string { return e.msg }

type c17StrErr string

func (e c17StrErr) Error() string { return string(e) }

// c17SliceErr cannot be compared with == (comparing two interface values holding it panics)
type c17SliceErr []string

func (e c17SliceErr) Error() string {
	if len(e) == 0 {
		return "c17 slice error"
	}
	return e[0]
}

// c17NilSafeErr: a pointer type whose Error method works on the nil pointer. A nil
// *c17NilSafeErr stored in an error interface is not the nil interface: the callback
// that returns it "returns an error" (err != nil holds for every caller).
type c17NilSafeErr struct{ msg string }

func (e *c17NilSafeErr) Error() string {
	if e == nil {
		return "c17 nil-safe error (nil pointer)"
	}
	return e.msg
}

// c17IsAnyErr claims to be every error (errors.Is(e, x) is true for every x)
type c17IsAnyErr struct{ msg string }

func (e *c17IsAnyErr) Error() string   { return e.msg }
func (e *c17IsAnyErr) Is(error) bool   { return true }
func (e *c17IsAnyErr) Temporary() bool { return true }
func (e *c17IsAnyErr) Timeout() bool   { return true }

// c17PosErr: an error of the host that has a position of its own kind
type c17PosErr struct {
	Message string
	Pos     ast.Position
}

func (e *c17PosErr) Error() string          { return e.Message }
func (e *c17PosErr) Position() ast.Position { return e.Pos }

type c17ErrKind struct {
	name string
	mk   func(k int) error
}

const c17DefaultKind = "errors.New"

func c17StopMsg(k int) string { return "c17 stop at call " + strconv.Itoa(k) }

var (
	c17ParserMadeOnce sync.Once
	c17ParserMade     error
)

// c17ParserMadeErr: an error made by the parser itself (one per process)
func c17ParserMadeErr() error {
	c17ParserMadeOnce.Do(func() {
		_, err, _ := ank.Parse("a = ")
		if err == nil {
			err = &parser.Error{Message: "syntax error", Pos: ast.Position{Line: 1, Column: 4}, Fatal: true}
		}
		c17ParserMade = err
	})
	return c17ParserMade
}

// The first entry is the kind of the earlier rounds (same text, plain signatures).
var c17ErrKinds = []c17ErrKind{
	{c17DefaultKind, func(k int) error { return errors.New(c17StopMsg(k)) }},
	{"errors.New-empty-text", func(k int) error { return errors.New("") }},
	{"fmt.Errorf-wrap", func(k int) error { return fmt.Errorf("%s: %w", c17StopMsg(k), errors.New("inner")) }},
	{"fmt.Errorf-wrap-parser.Error", func(k int) error {
		return fmt.Errorf("%s: %w", c17StopMsg(k), &parser.Error{Message: "inner parse error"})
	}},
	{"errors.Join", func(k int) error {
		return errors.Join(errors.New(c17StopMsg(k)), &parser.Error{Message: "joined parse error"}, io.EOF)
	}},
	{"custom-pointer", func(k int) error { return &c17PtrErr{msg: c17StopMsg(k), k: k} }},
	{"custom-value", func(k int) error { return c17ValErr{msg: c17StopMsg(k), k: k} }},
	{"custom-string", func(k int) error { return c17StrErr(c17StopMsg(k)) }},
	{"custom-slice-uncomparable", func(k int) error { return c17SliceErr{c17StopMsg(k), "second"} }},
	{"custom-is-anything", func(k int) error { return &c17IsAnyErr{msg: c17StopMsg(k)} }},
	{"custom-with-position", func(k int) error { return &c17PosErr{Message: c17StopMsg(k)} }},
	{"parser.Error-no-pos", func(k int) error { return &parser.Error{Message: c17StopMsg(k)} }},
	{"parser.Error-pos", func(k int) error {
		return &parser.Error{Message: c17StopMsg(k), Pos: ast.Position{Line: 7, Column: 7}}
	}},
	{"parser.Error-no-pos-file-fatal", func(k int) error {
		return &parser.Error{Message: c17StopMsg(k), Filename: "host.ank", Fatal: true}
	}},
	{"parser.Error-line-only", func(k int) error { return &parser.Error{Message: c17StopMsg(k), Pos: ast.Position{Line: 3}} }},
	{"parser.Error-zero-value", func(k int) error { return &parser.Error{} }},
	{"parser.Error-made-by-parser", func(k int) error { return c17ParserMadeErr() }},
	{"vm.Error-no-pos", func(k int) error { return &vm.Error{Message: c17StopMsg(k)} }},
	{"vm.Error-pos", func(k int) error {
		return &vm.Error{Message: c17StopMsg(k), Pos: ast.Position{Line: 2, Column: 5}}
	}},
	// typed nil pointers in a non-nil error interface. Only the first has an Error
	// method that works on the nil pointer; the oracle never calls Error on any of them
	// and the statement gives Walk no reason to (it has to hand the value back).
	{"typed-nil-pointer", func(k int) error { return (*c17NilSafeErr)(nil) }},
	{"typed-nil-parser.Error", func(k int) error { return (*parser.Error)(nil) }},
	{"typed-nil-vm.Error", func(k int) error { return (*vm.Error)(nil) }},
	// sentinels to which other walkers of the Go world give a meaning of their own
	{"io.EOF", func(k int) error { return io.EOF }},
	{"filepath.SkipDir", func(k int) error { return filepath.SkipDir }},
	{"fs.SkipAll", func(k int) error { return fs.SkipAll }},
	{"context.Canceled", func(k int) error { return context.Canceled }},
	{"context.DeadlineExceeded", func(k int) error { return context.DeadlineExceeded }},
	{"vm.ErrBreak", func(k int) error { return vm.ErrBreak }},
	{"vm.ErrContinue", func(k int) error { return vm.ErrContinue }},
	{"vm.ErrReturn", func(k int) error { return vm.ErrReturn }},
	{"vm.ErrInterrupt", func(k int) error { return vm.ErrInterrupt }},
}

// c17KindFor: the kind of the error returned at call k of a walk of src (abort sweep).
func c17KindFor(src string, k int) c17ErrKind {
	h := uint32(2166136261)
	for i := 0; i < len(src); i++ {
		h = (h ^ uint32(src[i])) * 16777619
	}
	return c17ErrKinds[(int(h%uint32(len(c17ErrKinds)))+k)%len(c17ErrKinds)]
}

// c17SameErr: is got the very error value want? Never panics, never calls a method
// of either value.
func c17SameErr(got, want error) (same bool) {
	if got == nil || want == nil {
		return got == nil && want == nil
	}
	tg, tw := reflect.TypeOf(got), reflect.TypeOf(want)
	if tg != tw {
		return false
	}
	if tw.Comparable() {
		defer func() {
			if recover() != nil { // a comparable struct holding an uncomparable value in an interface field
				same = false
			}
		}()
		return got == want
	}
	vg, vw := reflect.ValueOf(got), reflect.ValueOf(want)
	if vw.Kind() == reflect.Slice {
		return vg.Len() == vw.Len() && vg.Pointer() == vw.Pointer()
	}
	return false
}

// c17ErrSnap copies what an error value points to (the struct behind a non-nil
// pointer, the members of a slice), so that a later reflect.DeepEqual tells whether
// the walk wrote to it. nil for values that hold no memory of their own.
func c17ErrSnap(err error) interface{} {
	if err == nil {
		return nil
	}
	v := reflect.ValueOf(err)
	switch v.Kind() {
	case reflect.Ptr:
		if v.IsNil() || v.Elem().Kind() != reflect.Struct {
			return nil
		}
		cp := reflect.New(v.Type().Elem()).Elem()
		cp.Set(v.Elem())
		return cp.Interface()
	case reflect.Slice:
		if v.IsNil() {
			return nil
		}
		cp := reflect.MakeSlice(v.Type(), v.Len(), v.Len())
		reflect.Copy(cp, v)
		return cp.Interface()
	}
	return nil
}

// c17ErrDesc describes an error value for a detail text; an Error method that panics
// (nil pointer receiver) is reported as such.
func c17ErrDesc(err error) (s string) {
	if err == nil {
		return "nil"
	}
	v := reflect.ValueOf(err)
	if v.Kind() == reflect.Ptr && v.IsNil() {
		return fmt.Sprintf("(%T)(nil)", err)
	}
	defer func() {
		if r := recover(); r != nil {
			s = fmt.Sprintf("%T (its Error method panics: %v)", err, r)
		}
	}()
	text := err.Error()
	if v.Kind() == reflect.Ptr && v.Elem().Kind() == reflect.Struct && v.Type().Elem().PkgPath() != "errors" && v.Type().Elem().PkgPath() != "fmt" {
		return fmt.Sprintf("%T %q %+v", err, text, v.Elem().Interface())
	}
	if v.Kind() == reflect.Ptr {
		return fmt.Sprintf("%T %q", err, text)
	}
	return fmt.Sprintf("%T %q", err, text)
}

type c17AbortOut struct {
	cat    string // "" (as the statement says), panic, not-repeatable, continued, lost, replaced, modified
	tail   string // what follows the category in the signature
	detail string
	calls  int
}

// c17AbortOnce walks root with a callback that returns an error of the given kind at
// call k and judges that walk by the last sentence of the statement. seq is what the
// complete walk presented (for naming the node of call k only).
func c17AbortOnce(c *wk.Case, src string, root ast.Stmt, k, total int, kind c17ErrKind, seq []interface{}, slotOf map[interface{}]string, enclosing func() string) c17AbortOut {
	stop := kind.mk(k)
	before := c17ErrSnap(stop)
	r2 := &c17Rec{failAt: k, stop: stop}
	c.Begin(map[string]interface{}{"src": src, "op": "walk-abort", "k": k, "error_kind": kind.name})
	o2 := c17Walk(root, r2.cb)
	c.Events(r2.calls)
	c.Tag("abort-kind:" + kind.name)
	at := c17TypeName(seq[k-1])
	what := func() string { return "an error (" + kind.name + ": " + c17ErrDesc(stop) + ")" } // violations only
	switch {
	case o2.panicked:
		return c17AbortOut{cat: "panic", tail: o2.psig, calls: r2.calls,
			detail: fmt.Sprintf("astutil.Walk panicked after the callback returned %s at call %d (%s): %s", what(), k, at, o2.pval)}
	case r2.calls < k:
		return c17AbortOut{cat: "not-repeatable", calls: r2.calls, detail: fmt.Sprintf("second walk made %d calls, first %d", r2.calls, total)}
	case r2.calls > k:
		where := "synthetic:" + c17TypeName(r2.after)
		if c17Comparable(r2.after) {
			if s, ok := slotOf[r2.after]; ok {
				where = s
			}
		}
		return c17AbortOut{cat: "continued", tail: where, calls: r2.calls,
			detail: fmt.Sprintf("callback returned %s at call %d (%s) but was invoked %d more times; the walk went on with %s in %s; Walk returned %s",
				what(), k, at, r2.calls-k, c17TypeName(r2.after), where, c17ErrDesc(o2.err))}
	case o2.err == nil:
		return c17AbortOut{cat: "lost", tail: at, calls: r2.calls,
			detail: fmt.Sprintf("callback returned %s at call %d (%s); Walk stopped but returned nil", what(), k, at)}
	case !c17SameErr(o2.err, stop):
		// "returns that error": the very error value the callback returned, not another
		// error that mentions, copies or wraps it (a caller comparing err == itsSentinel,
		// as one does with io.EOF-style sentinels, must see it).
		how := "a different error"
		if c17IsNoPanic(o2.err, stop) {
			how = "a new error that wraps it"
		} else if reflect.TypeOf(o2.err) == reflect.TypeOf(stop) {
			how = "another value of the same type (a copy or a new error)"
		}
		return c17AbortOut{cat: "replaced", tail: at, calls: r2.calls,
			detail: fmt.Sprintf("callback returned %s at call %d (%s); Walk returned %s: %s%s", what(), k, at, how, c17ErrDesc(o2.err), enclosing())}
	}
	if after := c17ErrSnap(stop); !reflect.DeepEqual(before, after) {
		return c17AbortOut{cat: "modified", tail: at, calls: r2.calls,
			detail: fmt.Sprintf("callback returned an error (%s) at call %d (%s); Walk returned the same value but wrote to it: it held %+v when the callback returned it and holds %+v now%s",
				kind.name, k, at, before, after, enclosing())}
	}
	return c17AbortOut{calls: r2.calls}
}

func c17IsNoPanic(err, target error) (is bool) {
	defer func() {
		if recover() != nil {
			is = false
		}
	}()
	return errors.Is(err, target)
}

// c17AbortJudge runs one stopped walk and reports what it finds. A violation seen with
// a kind other than errors.New is tried again with errors.New at the same call: the
// same outcome is reported under the plain signature (the defect does not depend on
// the kind of error), another one under "<plain signature>/<kind>".
func c17AbortJudge(c *wk.Case, src string, root ast.Stmt, k, total int, kind c17ErrKind, seq []interface{}, slotOf map[interface{}]string, enclosing func() string) {
	out := c17AbortOnce(c, src, root, k, total, kind, seq, slotOf, enclosing)
	if out.cat == "" {
		return
	}
	suffix := ""
	if kind.name != c17DefaultKind && out.cat != "not-repeatable" {
		if o0 := c17AbortOnce(c, src, root, k, total, c17ErrKinds[0], seq, slotOf, enclosing); o0.cat == out.cat && o0.tail == out.tail {
			out, kind = o0, c17ErrKinds[0]
		} else {
			suffix = "/" + kind.name
			if o0.cat == "" {
				out.detail += "; with an errors.New value returned at the same call the walk stops and returns that value"
			} else {
				out.detail += "; with an errors.New value returned at the same call: " + o0.detail
			}
		}
	}
	extra := map[string]interface{}{"k": k, "error_kind": kind.name}
	switch out.cat {
	case "panic":
		c17ViolX(c, "walk-panic:"+out.tail, out.detail, src, extra)
	case "not-repeatable":
		c.Inconclusive("walk-not-repeatable", out.detail, map[string]interface{}{"src": src, "k": k})
	case "continued":
		c17ViolX(c, "abort-continued:"+out.tail+suffix, out.detail, src, extra)
	case "lost":
		c17ViolX(c, "abort-error-lost:"+out.tail+suffix, out.detail, src, extra)
	case "replaced":
		c17ViolX(c, "abort-error-replaced:"+out.tail+suffix, out.detail, src, extra)
	case "modified":
		c17ViolX(c, "abort-error-modified:"+out.tail+suffix, out.detail, src, extra)
	}
}

// ---------------------------------------------------------------------------
// phase errkinds

const c17ErrKindsPerCase = 16

var (
	c17ErrProgOnce sync.Once
	c17ErrProgs    []string
)

// c17ErrKindPrograms: the pinned programs and every template on its own (statement
// templates with a one-statement block, expression templates as a statement of their
// own, as a right-hand side and as an argument). Depends on the template tables only.
func c17ErrKindPrograms() []string {
	c17ErrProgOnce.Do(func() {
		seen := map[string]bool{}
		add := func(s string) {
			if !seen[s] {
				seen[s] = true
				c17ErrProgs = append(c17ErrProgs, s)
			}
		}
		for _, s := range c17Pinned {
			add(s)
		}
		for _, t := range c17StmtTpls {
			e, b := c17Defaults(t, "z")
			add(c17Fill(t, e, b))
		}
		for _, t := range c17ExprTpls {
			e, b := c17Defaults(t, "z")
			s := c17Fill(t, e, b)
			add(s)
			add("r = " + s)
			add("f(" + s + ")")
		}
	})
	return c17ErrProgs
}

func c17ErrKindCases() int {
	return (len(c17ErrKindPrograms())+c17ErrKindsPerCase-1)/c17ErrKindsPerCase + 1
}

func c17RunErrKinds(c *wk.Case) {
	list := c17ErrKindPrograms()
	n := (len(list) + c17ErrKindsPerCase - 1) / c17ErrKindsPerCase
	if c.Index >= n {
		c17ErrKindCoverage(c)
		return
	}
	hi := (c.Index + 1) * c17ErrKindsPerCase
	if hi > len(list) {
		hi = len(list)
	}
	for _, src := range list[c.Index*c17ErrKindsPerCase : hi] {
		c.Begin(map[string]interface{}{"src": src, "op": "parse"})
		tree, err, po := ank.Parse(src)
		if po.Panicked || err != nil || tree == nil {
			c.Excluded("errkinds-does-not-parse")
			continue
		}
		if rv := reflect.ValueOf(tree); rv.Kind() == reflect.Ptr && rv.IsNil() {
			c.Excluded("errkinds-empty-program")
			continue
		}
		nodes := astx.Nodes(tree)
		slotOf := map[interface{}]string{}
		parents := map[interface{}][]int{}
		for i, nd := range nodes {
			if _, ok := slotOf[nd.Node]; !ok {
				slotOf[nd.Node] = nd.Slot
			}
			parents[nd.Node] = append(parents[nd.Node], i)
		}
		rec := &c17Rec{record: true, first: map[interface{}]int{}}
		c.Begin(map[string]interface{}{"src": src, "op": "walk"})
		o := c17Walk(tree, rec.cb)
		c.Events(rec.calls)
		if o.panicked || o.err != nil || rec.calls == 0 {
			// judged (and reported) by phase matrix, which holds the same program
			c.Excluded("errkinds-complete-walk-fails")
			continue
		}
		c.Eval("errkinds:"+src, len(nodes) >= 3)
		c.Tag("programs:errkinds")
		for k := 1; k <= rec.calls; k++ {
			k := k
			enclosing := func() string { return c17Enclosing(nodes, parents, rec.seq[k-1]) }
			for _, kind := range c17ErrKinds {
				c17AbortJudge(c, src, tree, k, rec.calls, kind, rec.seq, slotOf, enclosing)
			}
			c.Tag("errkinds-at:" + c17TypeName(rec.seq[k-1]))
		}
		c.Count("abort_points_checked", rec.calls*len(c17ErrKinds))
	}
}

// c17ErrKindCoverage demands that every node type was a position at which the
// callback failed (with every kind: the cases above use every kind at every position).
func c17ErrKindCoverage(c *wk.Case) {
	seen := map[string]bool{}
	for _, src := range c17ErrKindPrograms() {
		tree, err, po := ank.Parse(src)
		if po.Panicked || err != nil || tree == nil {
			continue
		}
		if rv := reflect.ValueOf(tree); rv.Kind() == reflect.Ptr && rv.IsNil() {
			continue
		}
		// (by reflection, not by what Walk presents: a node Walk never presents is
		// reported as missed by the other phases; here only the workload is judged)
		for _, nd := range astx.Nodes(tree) {
			seen[c17TypeName(nd.Node)] = true
		}
		c.Events(1)
	}
	want, how := c17NodeTypes()
	c.Tag("errkinds-coverage:type-list-from-" + how)
	for _, t := range want {
		c.Eval("errkinds-coverage:"+t, true)
		if !seen[t] {
			c.Violation("no-coverage:errkinds:"+t, "no program of phase errkinds holds a "+t+": the callback never failed at a node of that type with every kind of error", nil)
		}
	}
	c.Count("errkinds_error_kinds", len(c17ErrKinds))
	c.Count("errkinds_programs", len(c17ErrKindPrograms()))
}
