package main

// C14, round 9 additions (phase r9 and four feature programs):
//
//	overlap   G = 4..16 host goroutines, released together by a barrier, run a tree of their own
//	          (separately parsed) in an environment of their own; every round uses things the
//	          process has NEVER met before: a make(struct{...}) spelling with 1..150 new field
//	          names, a new host struct type (reflect.StructOf) with new field names bound as a
//	          pointer, an import of a bundled package not imported before (while they last), a
//	          script function of a new name and 1..9 parameters. Oracle: the value computed in Go;
//	          the same source is run alone afterwards against the same value.
//	pkgvars   for every member of every bundled package that is not a function: environment A
//	          stores another value of the member's type through &pkg.Member, by plain assignment,
//	          by op-assignment and inside a script function handed the address; environment B (imported before) and C
//	          (imported afterwards) and the registry entry itself must read as before.
//	feature programs: a host function cancels the run's context WHILE an operand of a ready
//	          channel expression is evaluated (c <- hcv(7) with room, <-hcv(c) with a message
//	          pending): run k of one tree must equal run 1 (phases seq, hist, conc, r8).

import (
	"context"
	"fmt"
	"reflect"
	"sort"
	"strings"
	"sync"

	"github.com/mattn/anko/ast"
	"github.com/mattn/anko/env"

	"verifharness/internal/ank"
	"verifharness/internal/fw"
	"verifharness/internal/wk"
)

const c14R9Rule = " Round 9 (c14_r9.go): feature programs in which the host function hcv cancels the run's context and returns its argument while it is evaluated as an operand of a READY channel expression (send with room in the buffer, receive with a message pending; as last expression, inside a list, an assignment, try/catch) join the feature list of phases seq, hist, conc and r8 (run k vs run 1, vs the run alone). Phase r9: (overlap) 60 (thorough 400) rounds per case; in every round 4..16 host goroutines parse the round's source separately, wait at a barrier and run their tree at the same time in environments of their own; the source makes a script struct of 1..150 fields whose names no earlier round used, stores and reads fields of it, stores and reads fields of a host struct type made for the round with reflect.StructOf (1..150 fields, bound through a pointer, one instance per environment), imports a bundled package no earlier round imported (while they last) and defines and calls a function of a new name with 1..9 parameters; every concurrent run must yield the value computed in Go from the source (the same source run alone afterwards is held against the same value); (pkgvars) every non-function member of every bundled package: environment A imports the package and stores another value of the member's type (made by the host: number+1, string+\"x\", empty or nil container, nil pointer, zero struct) through p = &pkg.Member; *p = v, by pkg.Member = v, by op-assignment and through a script function that is handed &pkg.Member; environment B that imported before, environment C that imports afterwards and the entry of env.Packages must read exactly as before (pointers, channels and functions compared by identity); the Go variables behind settable entries are put back afterwards."

var c14R9Assumptions = []string{
	"round 9 overlap: whether the process has met a type, a field name, a package or a function shape before is not an input of a run; the runs of a round share nothing but the process (separate trees, separate environments, one host struct instance each)",
	"round 9 pkgvars: an element store into an imported slice or map (net.IPv6loopback[0] = 1) writes to the array or table the Go variable itself refers to, as in Go; import copies bindings, not the data behind reference values (the same rule as for Env.Copy in phase iso), so element stores are not in the domain; a store that the interpreter refuses (type mismatch, unassignable member) is a legitimate outcome; only what OTHER environments and the registry read afterwards is judged"}

// the context is cancelled while an operand of a ready channel expression is evaluated
var c14R9CancelOperandPrograms = []string{
	"# env: cancelops\nc = make(chan int64, 2)\nc <- hcv(7)",
	"# env: cancelops\nc = make(chan int64, 2)\nc <- 3\n<-hcv(c)",
	"# env: cancelops\nc = make(chan int64, 2)\nc <- 3\nrd(\"r\", [1, <-hcv(c), 2])",
	"# env: cancelops\nc = make(chan string, 2)\ntry { x = (c <- hcv(\"m\"))\n rd(\"x\", x) } catch e { pc(e) }\nrd(\"len\", len(c))",
}

func c14R9Layout(tier string) (nOverlap, nPkg int) {
	if tier == "thorough" {
		return 24, 2
	}
	return 6, 1
}

func c14R9Phases(tier string) []fw.Phase {
	a, b := c14R9Layout(tier)
	return []fw.Phase{{Name: "r9", Cases: a + b, Chunk: 1, TimeoutS: 1200, MemMB: 6144}}
}

func c14R9Run(c *wk.Case) bool {
	if c.Phase != "r9" {
		return false
	}
	nOverlap, _ := c14R9Layout(c.Tier)
	if c.Index < nOverlap {
		c14R9Overlap(c)
	} else {
		c14R9PkgVars(c)
	}
	return true
}

// ---------------------------------------------------------------------------
// overlap

func c14R9Overlap(c *wk.Case) {
	rep := newC14R8Rep(c, "overlap")
	rounds := 60
	if c.Tier == "thorough" {
		rounds = 400
	}
	c.Begin(map[string]interface{}{"phase": "r9", "kind": "overlap", "rounds": rounds})
	var pkgs []string
	for name := range env.Packages {
		pkgs = append(pkgs, name)
	}
	sort.Strings(pkgs)
	c.Rng.Shuffle(len(pkgs), func(i, j int) { pkgs[i], pkgs[j] = pkgs[j], pkgs[i] })
	size := func() int {
		if c.Rng.Intn(3) == 0 {
			return 100 + c.Rng.Intn(51)
		}
		return 1 + c.Rng.Intn(40)
	}
	bg := context.Background()
	runsTotal := 0
	for r := 0; r < rounds && !rep.failed(); r++ {
		tag := fmt.Sprintf("%dx%d", c.Index, r)
		// the script-made struct
		n := size()
		fields := make([]string, n)
		for i := range fields {
			fields[i] = fmt.Sprintf("F%sx%d int64", tag, i)
		}
		fname := func(i int) string { return fmt.Sprintf("F%sx%d", tag, i) }
		k, last := c.Rng.Intn(n), n-1
		// the host struct type of the round
		m := size()
		hf := make([]reflect.StructField, m)
		for i := range hf {
			hf[i] = reflect.StructField{Name: fmt.Sprintf("H%sx%d", tag, i), Type: reflect.TypeOf(int64(0))}
		}
		ht := reflect.StructOf(hf)
		hj, hq := c.Rng.Intn(m), c.Rng.Intn(m)
		np := 1 + c.Rng.Intn(9)
		var params, args []string
		for i := 0; i < np; i++ {
			params, args = append(params, fmt.Sprintf("a%d", i)), append(args, fmt.Sprint(i+1))
		}
		var b strings.Builder
		fmt.Fprintf(&b, "s = make(struct{%s})\n", strings.Join(fields, ", "))
		fmt.Fprintf(&b, "s.%s = id + 1\n", fname(k))
		fmt.Fprintf(&b, "h.H%sx%d = id + 2\n", tag, hj)
		imported := ""
		if r < len(pkgs) {
			imported = pkgs[r]
			fmt.Fprintf(&b, "p%s = import(%q)\n", tag, imported)
		}
		fmt.Fprintf(&b, "func fn%s(%s) { return a0 + a%d + id }\n", tag, strings.Join(params, ", "), np-1)
		fmt.Fprintf(&b, "[s.%s, s.%s, h.H%sx%d, h.H%sx%d, fn%s(%s)]\n", fname(k), fname(last), tag, hj, tag, hq, tag, strings.Join(args, ", "))
		src := b.String()
		want := func(id int64) string {
			w := []interface{}{id + 1, int64(0), id + 2, int64(hq) * 3, 1 + int64(np) + id}
			if last == k {
				w[1] = id + 1
			}
			if hq == hj {
				w[3] = id + 2
			}
			return ank.Render(w)
		}
		mkEnv := func(id int64) *env.Env {
			e := ank.NewCoreEnv()
			h := reflect.New(ht)
			for i := 0; i < m; i++ {
				h.Elem().Field(i).SetInt(int64(i) * 3)
			}
			e.Define("id", id)
			e.Define("h", h.Interface())
			return e
		}
		G := 4 + c.Rng.Intn(13)
		trees := make([]ast.Stmt, G)
		envs := make([]*env.Env, G)
		for g := range trees {
			if trees[g] = c14R8Parse(rep, src); trees[g] == nil {
				return
			}
			envs[g] = mkEnv(int64(g) * 10)
		}
		outs := make([]ank.Out, G)
		start := make(chan struct{})
		var ready, done sync.WaitGroup
		for g := 0; g < G; g++ {
			ready.Add(1)
			done.Add(1)
			go func(g int) {
				defer done.Done()
				ready.Done()
				<-start
				outs[g] = ank.RunCtx(bg, envs[g], trees[g])
			}(g)
		}
		ready.Wait()
		close(start)
		done.Wait()
		runsTotal += G
		c.Events(G)
		// the same source alone, afterwards
		alone := ank.RunCtx(bg, mkEnv(990), c14R8Parse(rep, src))
		if got := ank.Render(alone.Val); alone.Err != nil || alone.Panicked || got != want(990) {
			rep.viol("r9:overlap:alone-differs-from-model", fmt.Sprintf("the source of round %d run alone yields %s %s %s, the Go model %s", r, clipStr(got, 300), ank.ErrText(alone.Err), alone.PanicSig, want(990)), map[string]interface{}{"source": clipStr(src, 3000)})
			return
		}
		for g := 0; g < G; g++ {
			o := outs[g]
			if got, exp := ank.Render(o.Val), want(int64(g)*10); o.Err != nil || o.Panicked || got != exp {
				rep.viol("r9:overlap:concurrent-run-differs-from-alone", fmt.Sprintf("round %d: %d runs of separately parsed trees of one new source in separate environments at the same time (script struct of %d new fields, host struct type of %d new fields, import %q, function of %d parameters): run %d yields %s %s %s; alone it yields %s", r, G, n, m, imported, np, g, clipStr(got, 300), ank.ErrText(o.Err), o.PanicSig, exp),
					map[string]interface{}{"source": clipStr(src, 3000), "goroutines": G, "run": g, "script_struct_fields": n, "host_struct_fields": m})
			}
		}
		c.Tag(fmt.Sprintf("r9:overlap:goroutines=%d", G))
		if r == 0 && c.WantSample() {
			c.Sample(map[string]interface{}{"phase": "r9", "kind": "overlap", "source": clipStr(src, 1500), "goroutines": G})
		}
	}
	c.Eval(fmt.Sprintf("r9-overlap-%d", c.Index), true)
	c.Count("r9_overlap_rounds", rounds)
	c.Count("r9_overlap_concurrent_runs", runsTotal)
	c.Tag("r9:kind:overlap")
}

// ---------------------------------------------------------------------------
// pkgvars

// c14R9Ident renders a value; pointers, channels, functions and maps/slices also by identity
func c14R9Ident(v reflect.Value) string {
	if !v.IsValid() {
		return "<invalid>"
	}
	for v.Kind() == reflect.Interface && !v.IsNil() {
		v = v.Elem()
	}
	s := v.Type().String() + ":" + ank.RenderValue(v)
	switch v.Kind() {
	case reflect.Ptr, reflect.Chan, reflect.Func, reflect.UnsafePointer, reflect.Map, reflect.Slice:
		s += fmt.Sprintf("@%x", v.Pointer())
		if v.Kind() == reflect.Slice {
			s += fmt.Sprintf("/%d", v.Len())
		}
	}
	return s
}

// c14R9Other makes a value of v's type that differs from v where the type allows
func c14R9Other(v reflect.Value) reflect.Value {
	t := v.Type()
	o := reflect.New(t).Elem()
	switch t.Kind() {
	case reflect.Int, reflect.Int8, reflect.Int16, reflect.Int32, reflect.Int64:
		o.SetInt(v.Int() + 1)
	case reflect.Uint, reflect.Uint8, reflect.Uint16, reflect.Uint32, reflect.Uint64, reflect.Uintptr:
		o.SetUint(v.Uint() + 1)
	case reflect.Float32, reflect.Float64:
		o.SetFloat(v.Float() + 1)
	case reflect.String:
		o.SetString(v.String() + "x")
	case reflect.Bool:
		o.SetBool(!v.Bool())
	case reflect.Slice:
		o.Set(reflect.MakeSlice(t, 1, 1))
	case reflect.Map:
		o.Set(reflect.MakeMap(t))
	}
	// pointers, interfaces, channels, functions, structs: the zero value
	return o
}

func c14R9PkgVars(c *wk.Case) {
	rep := newC14R8Rep(c, "pkgvars")
	c.Begin(map[string]interface{}{"phase": "r9", "kind": "pkgvars"})
	var pkgs []string
	for name := range env.Packages {
		pkgs = append(pkgs, name)
	}
	sort.Strings(pkgs)
	bg := context.Background()
	members := 0
	// settable registry entries are Go variables of the process: put them back at the end
	type saved struct{ cell, val reflect.Value }
	var restore []saved
	defer func() {
		for _, s := range restore {
			s.cell.Set(s.val)
		}
	}()
	for _, pkg := range pkgs {
		var names []string
		for name, v := range env.Packages[pkg] {
			if v.IsValid() && v.Kind() != reflect.Func {
				names = append(names, name)
			}
		}
		sort.Strings(names)
		for _, name := range names {
			entry := env.Packages[pkg][name]
			if entry.CanSet() {
				cp := reflect.New(entry.Type()).Elem()
				cp.Set(entry)
				restore = append(restore, saved{entry, cp})
			}
			forms := []string{"p = &m." + name + "\n*p = other", "m." + name + " = other", "m." + name + " += other", "f = func(q) { *q = other }\nf(&m." + name + ")"}
			for fi, form := range forms {
				members++
				mk := func() (*env.Env, bool) {
					e := ank.NewCoreEnv()
					o := ank.ExecCtx(bg, e, fmt.Sprintf("m = import(%q)", pkg))
					return e, o.Err == nil && !o.Panicked
				}
				view := func(e *env.Env) string {
					mv, err := e.Get("m")
					if err != nil {
						return "no-module"
					}
					me, ok := mv.(*env.Env)
					if !ok {
						return "no-module"
					}
					v, err := me.GetValue(name)
					if err != nil {
						return "undefined"
					}
					return c14R9Ident(v)
				}
				A, okA := mk()
				B, okB := mk()
				if !okA || !okB {
					continue
				}
				before, regBefore := view(B), c14R9Ident(env.Packages[pkg][name])
				other := c14R9Other(entry)
				A.DefineValue("other", other)
				if (other.Kind() == reflect.Slice || other.Kind() == reflect.Array) && other.Len() > 0 {
					A.DefineValue("other0", other.Index(0))
				} else {
					A.Define("other0", int64(1))
				}
				src := form + "\n"
				o := ank.ExecCtx(bg, A, src)
				c.Events(1)
				C, okC := mk()
				input := map[string]interface{}{"package": pkg, "member": name, "source": "m = import(\"" + pkg + "\")\n" + src, "store_error": ank.ErrText(o.Err), "form": fi}
				if after := view(B); after != before {
					rep.viol("r9:pkgvars:other-importer-sees-store", fmt.Sprintf("%s.%s: after environment A ran `%s` (%s) environment B, which imported before, reads %s; before %s", pkg, name, strings.ReplaceAll(form, "\n", "; "), ank.ErrText(o.Err), clipStr(after, 200), clipStr(before, 200)), input)
				}
				if okC {
					if after := view(C); after != before {
						rep.viol("r9:pkgvars:later-importer-sees-store", fmt.Sprintf("%s.%s: after environment A ran `%s` (%s) a NEW importer reads %s; an importer before read %s", pkg, name, strings.ReplaceAll(form, "\n", "; "), ank.ErrText(o.Err), clipStr(after, 200), clipStr(before, 200)), input)
					}
				}
				if after := c14R9Ident(env.Packages[pkg][name]); after != regBefore {
					rep.viol("r9:pkgvars:package-table-changed", fmt.Sprintf("%s.%s: after environment A ran `%s` (%s) the entry of env.Packages reads %s; before %s", pkg, name, strings.ReplaceAll(form, "\n", "; "), ank.ErrText(o.Err), clipStr(after, 200), clipStr(regBefore, 200)), input)
				}
				// put a settable entry back at once: the next form starts from the same state
				if entry.CanSet() {
					for _, s := range restore {
						if s.cell == entry {
							s.cell.Set(s.val)
						}
					}
				}
			}
			c.Tag("r9:pkgvars:member-kind=" + entry.Kind().String())
		}
	}
	c.Eval(fmt.Sprintf("r9-pkgvars-%d", c.Index), true)
	c.Count("r9_pkgvars_member_stores", members)
	c.Tag("r9:kind:pkgvars")
}
