package main

// C13 — an environment is safe to share between goroutines.
// Two monitors (see DESIGN.md): phase "sched" runs in cmd/c13sched, built
// against a scratch copy of the repository whose env mutexes are scheduling
// points of a cooperative scheduler (schedule enumeration + porcupine);
// phase "race" below stresses the real package under the Go race detector.

import (
	"fmt"
	"reflect"
	"runtime"
	"sort"
	"strings"
	"sync"
	"time"

	"github.com/mattn/anko/env"

	"verifharness/internal/fw"
	"verifharness/internal/wk"
)

type c13Blocked struct {
	workers, blocked int
	where            string
}

// c13EnvBlocked counts the stress goroutines (those with a frame of this file's
// worker closure) and how many of them are parked in sync.(*RWMutex) under env frames.
func c13EnvBlocked() c13Blocked {
	buf := make([]byte, 4<<20)
	dump := string(buf[:runtime.Stack(buf, true)])
	var r c13Blocked
	sites := map[string]bool{}
	for _, g := range strings.Split(dump, "\n\n") {
		if !strings.Contains(g, "main.init.") || !strings.Contains(g, "c13.go") || !strings.Contains(g, "github.com/mattn/anko/env.") {
			continue
		}
		r.workers++
		if strings.Contains(g, "sync.(*RWMutex)") || strings.Contains(g, "sync.runtime_Semacquire") {
			r.blocked++
			for _, ln := range strings.Split(g, "\n") {
				if strings.HasPrefix(ln, "github.com/mattn/anko/env.") {
					fn := ln
					if i := strings.LastIndex(fn, "("); i > 0 {
						fn = fn[:i]
					}
					sites[strings.TrimPrefix(fn, "github.com/mattn/anko/")] = true
					break
				}
			}
		}
	}
	var names []string
	for k := range sites {
		names = append(names, k)
	}
	sort.Strings(names)
	r.where = strings.Join(names, ",")
	return r
}

// c13ExtLookup: an immutable external lookup that knows one name
type c13ExtLookup struct{}

func (c13ExtLookup) Get(s string) (reflect.Value, error) {
	if s == "kx" {
		return reflect.ValueOf("X"), nil
	}
	return reflect.Value{}, fmt.Errorf("undefined symbol '%s'", s)
}
func (c13ExtLookup) Type(s string) (reflect.Type, error) {
	return nil, fmt.Errorf("undefined type '%s'", s)
}

var c13Lookup = c13ExtLookup{}

func init() {
	wk.Register(&wk.Engine{
		ID: "C13",
		Plan: func(tier string) fw.Plan {
			nSched, nRace := 160, 24
			if tier == "thorough" {
				nSched, nRace = 8000, 400
			}
			return fw.Plan{
				Level: "exploration",
				Rule:  "phase sched: PRNG configurations of 2-3 goroutines x 2-4 operations from {Define, Set, Get, Delete, DeleteGlobal, Copy(+read of the copy), GetValueSymbols, DefineType, Type, GetTypeSymbols, String} on one shared child scope with a read-only parent, unique values per write; the env package of a scratch copy of the repository is rewritten so that every Lock/RLock/Unlock/RUnlock is a scheduling point of a cooperative scheduler (one runnable goroutine, simulated writer-preferring RW lock, deadlock = nothing enabled); every schedule with at most 2 preemptions is enumerated depth-first (up to a cap per configuration; configurations completed under the cap are tagged exhaustive) plus random schedules; each execution's call/return history on the scheduler's logical clock, closed by a read of the final state, is checked by porcupine against a sequential dictionary model. phase race: 8-32 goroutines x hundreds of mixed operations incl. DeepCopy, NewModule, GetEnvFromPath, Addr, DefineGlobal, SetExternalLookup on shared scopes under the Go race detector at GOMAXPROCS 2 and 16. Non-trivial = an execution with at least two goroutines interleaved; distinct = distinct (initial state, history).",
				Assumptions: []string{"scheduling points at lock operations and operation boundaries suffice: code between a release and the same goroutine's next acquisition touches shared state only if it is unsynchronised, which the race phase covers",
					"the rewrite (sync.RWMutex/sync.Mutex -> verifsync types in env/*.go) preserves the code otherwise; a tree whose env package has no such mutex fails the build of this check rather than passing",
					"SetExternalLookup (an immutable lookup object) and DefineGlobal take part in the race phase only"},
				Phases: []fw.Phase{
					{Name: "sched", Cases: nSched, Chunk: 10, Builder: "c13sched", TimeoutS: 900},
					{Name: "race", Race: true, Cases: nRace, Chunk: 3, TimeoutS: 900, Jobs: 8},
				},
			}
		},
		Run: func(c *wk.Case) {
			if c.Phase != "race" {
				return
			}
			procs := []int{2, 16}[c.Index%2]
			old := runtime.GOMAXPROCS(procs)
			defer runtime.GOMAXPROCS(old)
			root := env.NewEnv()
			root.Define("kp", "P")
			shared := root.NewEnv()
			shared2 := root.NewEnv()
			ng := 8 + c.Rng.Intn(25)
			nops := 200 + c.Rng.Intn(400)
			seeds := make([]int64, ng)
			for i := range seeds {
				seeds[i] = c.Rng.Int63()
			}
			c.Begin(map[string]interface{}{"goroutines": ng, "ops": nops, "gomaxprocs": procs})
			var wg sync.WaitGroup
			var mu sync.Mutex
			counts := map[string]int{}
			panics := []string{}
			start := make(chan struct{})
			for g := 0; g < ng; g++ {
				wg.Add(1)
				go func(g int) {
					defer wg.Done()
					defer func() {
						if r := recover(); r != nil {
							mu.Lock()
							panics = append(panics, fmt.Sprint(r))
							mu.Unlock()
						}
					}()
					x := uint64(seeds[g])
					next := func(n int) int {
						x ^= x << 13
						x ^= x >> 7
						x ^= x << 17
						return int(x % uint64(n))
					}
					local := map[string]int{}
					<-start
					for i := 0; i < nops; i++ {
						e := shared
						if next(4) == 0 {
							e = shared2
						}
						k := []string{"k1", "k2", "k3", "kp"}[next(4)]
						var name string
						switch next(19) {
						case 17:
							// the lookup object itself is immutable: only the scope's field is contended
							e.SetExternalLookup(c13Lookup)
							name = "SetExternalLookup"
						case 18:
							e.DefineGlobal("g"+k, i)
							name = "DefineGlobal"
						case 0, 1:
							e.Define(k, i)
							name = "Define"
						case 2:
							e.Set(k, i)
							name = "Set"
						case 3, 4:
							e.Get(k)
							name = "Get"
						case 5:
							if k != "kp" {
								e.Delete(k)
							}
							name = "Delete"
						case 6:
							if k != "kp" {
								e.DeleteGlobal(k)
							}
							name = "DeleteGlobal"
						case 7:
							cp := e.Copy()
							cp.GetValueSymbols()
							cp.Define("own", 1)
							name = "Copy"
						case 8:
							e.DeepCopy().Get(k)
							name = "DeepCopy"
						case 9:
							e.GetValueSymbols()
							name = "GetValueSymbols"
						case 10:
							e.DefineType("t"+k, int64(0))
							name = "DefineType"
						case 11:
							e.Type("t" + k)
							name = "Type"
						case 12:
							e.GetTypeSymbols()
							name = "GetTypeSymbols"
						case 13:
							_ = e.String()
							name = "String"
						case 14:
							e.NewModule("m" + k)
							name = "NewModule"
						case 15:
							e.GetEnvFromPath([]string{"m" + k})
							name = "GetEnvFromPath"
						default:
							e.Addr(k)
							name = "Addr"
						}
						local[name]++
						if next(16) == 0 {
							runtime.Gosched()
						} else if next(200) == 0 {
							time.Sleep(time.Duration(next(50)) * time.Microsecond)
						}
					}
					mu.Lock()
					for k, v := range local {
						counts[k] += v
					}
					mu.Unlock()
				}(g)
			}
			close(start)
			finished := make(chan struct{})
			go func() { wg.Wait(); close(finished) }()
			select {
			case <-finished:
			case <-time.After(45 * time.Second):
				// the operations normally take well under a second: decide from goroutine states,
				// not from the clock — every worker parked on the environment's mutex in two
				// samples means none of them can ever make progress
				s1 := c13EnvBlocked()
				time.Sleep(500 * time.Millisecond)
				s2 := c13EnvBlocked()
				input := map[string]interface{}{"goroutines": ng, "ops": nops, "gomaxprocs": procs}
				if s1.blocked > 0 && s1.blocked == s1.workers && s2.blocked == s2.workers && s1.where == s2.where {
					c.Violation("deadlock-in-env:"+s1.where, fmt.Sprintf("all %d unfinished worker goroutines are parked on the environment's mutex in two samples (%s)", s1.workers, s1.where), input)
				} else {
					c.Inconclusive("race-stress-watchdog", fmt.Sprintf("workers=%d blocked=%d / workers=%d blocked=%d", s1.workers, s1.blocked, s2.workers, s2.blocked), input)
				}
				c.Bail()
			}
			total := 0
			for k, v := range counts {
				c.Count("race_ops:"+k, v)
				total += v
			}
			c.Events(total)
			c.Eval(fmt.Sprintf("race-stress g=%d ops=%d procs=%d seed0=%d", ng, nops, procs, seeds[0]), true)
			c.Tag(fmt.Sprintf("race-gomaxprocs:%d", procs))
			_ = reflect.TypeOf
			if len(panics) > 0 {
				c.Violation("panic-in-concurrent-env-operation", panics[0], map[string]interface{}{"goroutines": ng, "ops": nops})
			}
			if c.WantSample() {
				c.Sample(map[string]interface{}{"phase": "race", "goroutines": ng, "ops_per_goroutine": nops, "gomaxprocs": procs, "operation_counts": counts})
			}
		},
	})
}
