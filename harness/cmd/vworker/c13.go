package main

// C13 — an environment is safe to share between goroutines.
// Two monitors (see DESIGN.md): phase "sched" runs in cmd/c13sched, built
// against a scratch copy of the repository whose env mutexes are scheduling
// points of a cooperative scheduler (schedule enumeration + porcupine);
// phase "race" below stresses the real package under the Go race detector.
// Phase "scopes" is in c13_r5.go, phase "snapshots" (copies are snapshots) in c13_r6.go,
// phase "cells" in c13_r7.go, phase "lifecycles" (copies of scopes in unusual states) in c13_r7_lifecycles.go,
// phase "trees" (operations walking a tree of related scopes in opposite directions) in c13_r7_trees.go.

import (
	"fmt"
	"reflect"
	"runtime"
	"sort"
	"strings"
	"sync"
	"time"

	"github.com/mattn/anko/env"

	"verifharness/internal/fw"
	"verifharness/internal/wk"
)

type c13Blocked struct {
	workers, blocked int
	where            string
}

// c13EnvBlocked counts the stress goroutines (those with a frame of this file's
// worker closure) and how many of them are parked in sync.(*RWMutex) under env frames.
func c13EnvBlocked() c13Blocked {
	buf := make([]byte, 4<<20)
	dump := string(buf[:runtime.Stack(buf, true)])
	var r c13Blocked
	sites := map[string]bool{}
	for _, g := range strings.Split(dump, "\n\n") {
		if !(strings.Contains(g, "main.init.") || strings.Contains(g, "main.c13Owners") || strings.Contains(g, "main.c13r5") || strings.Contains(g, "main.c13r6") || strings.Contains(g, "main.c13r7") || strings.Contains(g, "main.c13r8") || strings.Contains(g, "main.c13r9") || strings.Contains(g, "main.(*c13r7")) || !(strings.Contains(g, "c13.go") || strings.Contains(g, "c13_r5.go") || strings.Contains(g, "c13_r6.go") || strings.Contains(g, "c13_r7") || strings.Contains(g, "c13_r8") || strings.Contains(g, "c13_r9")) || !strings.Contains(g, "github.com/mattn/anko/env.") {
			continue
		}
		r.workers++
		if strings.Contains(g, "sync.(*RWMutex)") || strings.Contains(g, "sync.runtime_Semacquire") {
			r.blocked++
			for _, ln := range strings.Split(g, "\n") {
				if strings.HasPrefix(ln, "github.com/mattn/anko/env.") {
					fn := ln
					if i := strings.LastIndex(fn, "("); i > 0 {
						fn = fn[:i]
					}
					sites[strings.TrimPrefix(fn, "github.com/mattn/anko/")] = true
					break
				}
			}
		}
	}
	var names []string
	for k := range sites {
		names = append(names, k)
	}
	sort.Strings(names)
	r.where = strings.Join(names, ",")
	return r
}

// c13ExtLookup: an immutable external lookup that knows one name
type c13ExtLookup struct{}

func (c13ExtLookup) Get(s string) (reflect.Value, error) {
	if s == "kx" {
		return reflect.ValueOf("X"), nil
	}
	return reflect.Value{}, fmt.Errorf("undefined symbol '%s'", s)
}
func (c13ExtLookup) Type(s string) (reflect.Type, error) {
	return nil, fmt.Errorf("undefined type '%s'", s)
}

var c13Lookup = c13ExtLookup{}

func init() {
	wk.Register(&wk.Engine{
		ID: "C13",
		Plan: func(tier string) fw.Plan {
			// one sched case in eight is a long-history configuration; the numbers keep the
			// count of short configurations at 161 / 8001
			nSched, nRace, nOwn := 184, 24, 9
			if tier == "thorough" {
				nSched, nRace, nOwn = 9144, 400, 200
			}
			// the sched cases behind these are lookup configurations (cmd/c13sched reads the same numbers)
			nLookup := 16
			if tier == "thorough" {
				nLookup = 456
			}
			// ... and the cases behind those are kept-copy configurations
			nKept := 24
			if tier == "thorough" {
				nKept = 600
			}
			// ... and the last ones are tree configurations
			nTree := 40
			if tier == "thorough" {
				nTree = 1200
			}
			return fw.Plan{
				Level: "exploration",
				Rule:  "phase sched: PRNG configurations of 2-3 goroutines x 2-4 operations from {Define, Set, Get, Delete, DeleteGlobal, Copy(+read of the copy), GetValueSymbols, DefineType, Type, GetTypeSymbols, String} on one shared child scope with a read-only parent, unique values per write; the env package of a scratch copy of the repository is rewritten so that every Lock/RLock/Unlock/RUnlock is a scheduling point of a cooperative scheduler (one runnable goroutine, simulated writer-preferring RW lock, deadlock = nothing enabled); every schedule with at most 2 preemptions is enumerated depth-first (up to a cap per configuration; configurations completed under the cap are tagged exhaustive) plus random schedules; each execution's call/return history on the scheduler's logical clock, closed by a read of the final state, is checked by porcupine against a sequential dictionary model. One sched case in eight is a long-history configuration: the scope has already seen 0-300 Define/Delete cycles, and 2-3 goroutines run 32-85 operations each (twice that in the thorough tier), mostly on symbols only that goroutine writes (one it sets and reads back, short-lived ones it defines and deletes, ones it defines for good) plus reads of the others' symbols, a contended symbol, listings and copies; the unpreempted schedules and 36 (120) random schedules with a per-schedule switch probability between 1/2 and 1/64 are run and each history is checked by porcupine in full (the signature names the anomaly by the single-writer symbols). The last 16 (456) sched cases are lookup configurations: the scope has an immutable lookup object that reads the scope itself (al_<name> = value of <name>, AL_<name> = type), and 2-3 goroutines x 2-4 operations from {Addr of plain values / addressable cells / the parent's symbol / through the lookup, Get and Type through the lookup, Define, DefineCell, Set, Delete, DefineType, GetValueSymbols} are enumerated and judged in the same way (Addr of a defined symbol may answer a pointer to its value or an error, of an undefined one only an error). The 24 (600) sched cases behind those are kept-copy configurations: the shared scope starts never used, emptied again after 1-300 Define/Delete cycles, or holding a symbol, and 2-3 goroutines x 2-4 operations from {CopyKeep (Copy or DeepCopy of the shared scope, KEPT by the goroutine), C.Define, C.Set, C.Get, C.Delete, C.Symbols on the goroutine's kept copy (same names as in the shared scope), Define, Set, Get, Delete, Symbols on the shared scope} are enumerated in the same way against a model with one dictionary per kept copy, the final read covering the shared scope and every kept copy (signature nonlinearizable:kept-copies). The last 40 (1200) sched cases are tree configurations: the operations are started in the scopes of a tree root{gr, type tr, m} <- module m{gm, n} <- module n{gn, o} <- module o, c = child of n, cc = child of c (a third of them with the extra bindings n.up = m and root.alias = n, half of them after 0-39 Define/Delete cycles on m, n, c), 2-3 goroutines x 2-4 operations, a third each from {DeleteGlobal, Set, Get, Type, DefineGlobal, DeepCopy started in m/n/o/c/cc for symbols bound one, two or three scopes further out or nowhere}, {GetEnvFromPath of m, m.n, m.n.o, n.o, n, m.n.up.n.o, alias.o ... started in root/m/o/c/cc} and {Define, Delete, String, Copy, GetValueSymbols, DefineType, NewModule on root/m/n/c}; judged are the scheduler's deadlock verdict (signature deadlock:related-scopes:<the operations the blocked goroutines are in>), panics, and the answer of every path, which is fixed because the module bindings are never written; values are not judged there (an operation that walks the chain takes one scope at a time, and the statement orders the operations of one scope). phase race: 8-32 goroutines x hundreds of mixed operations incl. DeepCopy, NewModule, GetEnvFromPath, Addr (also of symbols bound to nil), DefineGlobal, DefineGlobalType, SetExternalLookup on shared scopes and Type/Get/Addr started in a child made for the call under the Go race detector at GOMAXPROCS 2 and 16. phase owners: 4-12 goroutines x 1000-2500 operations on one shared scope under the race detector; every goroutine writes only its own symbols (a counter symbol, seven short-lived symbols it defines and deletes, symbols defined for good), so that each one-at-a-time ordering consistent with its own order fixes what it reads back from them in Get, GetValueSymbols and Copy, what the others may read of its counter (never an older value than before) and what is left at the end." + c13r5Rule + c13r6Rule + c13r7Rule + c13r7LifeRule + c13r7TreeRule + c13r8Rule + c13r9Rule + " Non-trivial = an execution with at least two goroutines interleaved; distinct = distinct (initial state, history).",
				Assumptions: []string{"scheduling points at lock operations and operation boundaries suffice: code between a release and the same goroutine's next acquisition touches shared state only if it is unsynchronised, which the race phase covers",
					"the rewrite (sync.RWMutex/sync.Mutex -> verifsync types in env/*.go) preserves the code otherwise; a tree whose env package has no such mutex fails the build of this check rather than passing",
					"SetExternalLookup (immutable lookup objects) and DefineGlobal are called concurrently in the race-detector phases only; the lookup configurations of phase sched install their lookup before the goroutines start",
					"phases race and owners run on the schedules the Go runtime happens to produce; the single-writer oracle of phase owners judges only results that every ordering consistent with the goroutines' own orders determines",
					c13r5Assumption, c13r6Assumption, c13r7Assumption, c13r7LifeAssumption, c13r7TreeAssumption, c13r8Assumptions[0], c13r8Assumptions[1], c13r9Assumption},
				Phases: append([]fw.Phase{
					{Name: "sched", Cases: nSched + nLookup + nKept + nTree, Chunk: 10, Builder: "c13sched", TimeoutS: 900},
					{Name: "race", Race: true, Cases: nRace, Chunk: 3, TimeoutS: 900, Jobs: 8},
					{Name: "owners", Race: true, Cases: nOwn, Chunk: 3, TimeoutS: 900, Jobs: 8},
					c13r5Phase(tier),
					c13r6Phase(tier),
					c13r7Phase(tier),
					c13r7LifePhase(tier),
					c13r7TreePhase(tier),
				}, append(c13r8Phases(tier), c13r9Phases(tier)...)...),
			}
		},
		Run: func(c *wk.Case) {
			if c13r8Run(c) || c13r9Run(c) {
				return
			}
			if c.Phase == "owners" {
				c13Owners(c)
				return
			}
			if c.Phase == "cells" {
				c13r7Cells(c)
				return
			}
			if c.Phase == "lifecycles" {
				c13r7Lifecycles(c)
				return
			}
			if c.Phase == "trees" {
				c13r7Trees(c)
				return
			}
			if c.Phase == "snapshots" {
				c13r6Snapshots(c)
				return
			}
			if c.Phase == "scopes" {
				c13r5Scopes(c)
				return
			}
			if c.Phase != "race" {
				return
			}
			procs := []int{2, 16}[c.Index%2]
			old := runtime.GOMAXPROCS(procs)
			defer runtime.GOMAXPROCS(old)
			root := env.NewEnv()
			root.Define("kp", "P")
			shared := root.NewEnv()
			shared2 := root.NewEnv()
			ng := 8 + c.Rng.Intn(25)
			nops := 200 + c.Rng.Intn(400)
			seeds := make([]int64, ng)
			for i := range seeds {
				seeds[i] = c.Rng.Int63()
			}
			c.Begin(map[string]interface{}{"goroutines": ng, "ops": nops, "gomaxprocs": procs})
			var wg sync.WaitGroup
			var mu sync.Mutex
			counts := map[string]int{}
			panics := []string{}
			start := make(chan struct{})
			for g := 0; g < ng; g++ {
				wg.Add(1)
				go func(g int) {
					defer wg.Done()
					defer func() {
						if r := recover(); r != nil {
							mu.Lock()
							panics = append(panics, fmt.Sprint(r))
							mu.Unlock()
						}
					}()
					x := uint64(seeds[g])
					next := func(n int) int {
						x ^= x << 13
						x ^= x >> 7
						x ^= x << 17
						return int(x % uint64(n))
					}
					local := map[string]int{}
					<-start
					for i := 0; i < nops; i++ {
						e := shared
						if next(4) == 0 {
							e = shared2
						}
						k := []string{"k1", "k2", "k3", "kp"}[next(4)]
						var name string
						switch next(22) {
						case 19:
							// a nil binding: the Addr below then meets one
							e.Define(k, nil)
							name = "Define"
						case 20:
							// lookups started in a child of the shared scope
							ch := e.NewEnv()
							ch.Type("t" + k)
							ch.Get(k)
							ch.Addr(k)
							name = "child-lookups"
						case 21:
							e.DefineGlobalType("t"+k, i)
							name = "DefineGlobalType"
						case 17:
							// the lookup object itself is immutable: only the scope's field is contended
							e.SetExternalLookup(c13Lookup)
							name = "SetExternalLookup"
						case 18:
							e.DefineGlobal("g"+k, i)
							name = "DefineGlobal"
						case 0, 1:
							e.Define(k, i)
							name = "Define"
						case 2:
							e.Set(k, i)
							name = "Set"
						case 3, 4:
							e.Get(k)
							name = "Get"
						case 5:
							if k != "kp" {
								e.Delete(k)
							}
							name = "Delete"
						case 6:
							if k != "kp" {
								e.DeleteGlobal(k)
							}
							name = "DeleteGlobal"
						case 7:
							cp := e.Copy()
							cp.GetValueSymbols()
							cp.Define("own", 1)
							name = "Copy"
						case 8:
							e.DeepCopy().Get(k)
							name = "DeepCopy"
						case 9:
							e.GetValueSymbols()
							name = "GetValueSymbols"
						case 10:
							e.DefineType("t"+k, int64(0))
							name = "DefineType"
						case 11:
							e.Type("t" + k)
							name = "Type"
						case 12:
							e.GetTypeSymbols()
							name = "GetTypeSymbols"
						case 13:
							_ = e.String()
							name = "String"
						case 14:
							e.NewModule("m" + k)
							name = "NewModule"
						case 15:
							e.GetEnvFromPath([]string{"m" + k})
							name = "GetEnvFromPath"
						default:
							e.Addr(k)
							name = "Addr"
						}
						local[name]++
						if next(16) == 0 {
							runtime.Gosched()
						} else if next(200) == 0 {
							time.Sleep(time.Duration(next(50)) * time.Microsecond)
						}
					}
					mu.Lock()
					for k, v := range local {
						counts[k] += v
					}
					mu.Unlock()
				}(g)
			}
			close(start)
			finished := make(chan struct{})
			go func() { wg.Wait(); close(finished) }()
			select {
			case <-finished:
			case <-time.After(45 * time.Second):
				// the operations normally take well under a second: decide from goroutine states,
				// not from the clock — every worker parked on the environment's mutex in two
				// samples means none of them can ever make progress
				s1 := c13EnvBlocked()
				time.Sleep(500 * time.Millisecond)
				s2 := c13EnvBlocked()
				input := map[string]interface{}{"goroutines": ng, "ops": nops, "gomaxprocs": procs}
				if s1.blocked > 0 && s1.blocked == s1.workers && s2.blocked == s2.workers && s1.where == s2.where {
					c.Violation("deadlock-in-env:"+s1.where, fmt.Sprintf("all %d unfinished worker goroutines are parked on the environment's mutex in two samples (%s)", s1.workers, s1.where), input)
				} else {
					c.Inconclusive("race-stress-watchdog", fmt.Sprintf("workers=%d blocked=%d / workers=%d blocked=%d", s1.workers, s1.blocked, s2.workers, s2.blocked), input)
				}
				c.Bail()
			}
			total := 0
			for k, v := range counts {
				c.Count("race_ops:"+k, v)
				total += v
			}
			c.Events(total)
			c.Eval(fmt.Sprintf("race-stress g=%d ops=%d procs=%d seed0=%d", ng, nops, procs, seeds[0]), true)
			c.Tag(fmt.Sprintf("race-gomaxprocs:%d", procs))
			_ = reflect.TypeOf
			if len(panics) > 0 {
				c.Violation("panic-in-concurrent-env-operation", panics[0], map[string]interface{}{"goroutines": ng, "ops": nops})
			}
			if c.WantSample() {
				c.Sample(map[string]interface{}{"phase": "race", "goroutines": ng, "ops_per_goroutine": nops, "gomaxprocs": procs, "operation_counts": counts})
			}
		},
	})
}

// c13Owners: stress with single-writer symbols. Goroutine g is the only one that ever writes
// (Define/Set/Delete) the symbols w<g>, t<g>_<j> and f<g>_<n> of the shared scope; none of them
// exists in the parent. In every one-at-a-time ordering that respects g's own order
//   - a Get by g of one of its symbols returns what g wrote last (an error after a Delete),
//   - a GetValueSymbols / Copy by g shows g's symbols exactly as g left them,
//   - the values another goroutine reads of w<g> (g only ever writes growing numbers and never
//     deletes it) never go back,
//   - at the end every symbol is as its owner left it.
//
// Everything else (what is read of foreign short-lived symbols, how the goroutines interleave) is
// left open. The race detector runs alongside.
func c13Owners(c *wk.Case) {
	procs := []int{2, 16, 4}[c.Index%3]
	old := runtime.GOMAXPROCS(procs)
	defer runtime.GOMAXPROCS(old)
	root := env.NewEnv()
	root.Define("kp", "P")
	shared := root.NewEnv()
	ng := 4 + c.Rng.Intn(9)
	nops := 1000 + c.Rng.Intn(1501)
	seeds := make([]int64, ng)
	for i := range seeds {
		seeds[i] = c.Rng.Int63()
	}
	for g := 0; g < ng; g++ {
		shared.Define(fmt.Sprintf("w%d", g), 0)
	}
	input := map[string]interface{}{"phase": "owners", "goroutines": ng, "ops": nops, "gomaxprocs": procs}
	c.Begin(input)

	type state struct {
		w     int            // last value written to w<g>
		temp  map[string]int // short-lived symbols currently defined by g
		fresh map[string]int // symbols defined for good
		gone  map[string]bool
	}
	var mu sync.Mutex
	viol := map[string]string{}
	report := func(sig, detail string) {
		mu.Lock()
		if _, ok := viol[sig]; !ok {
			viol[sig] = detail
		}
		mu.Unlock()
	}
	counts := map[string]int{}
	panics := []string{}
	states := make([]*state, ng)
	var wg sync.WaitGroup
	start := make(chan struct{})
	for g := 0; g < ng; g++ {
		wg.Add(1)
		st := &state{temp: map[string]int{}, fresh: map[string]int{}, gone: map[string]bool{}}
		states[g] = st
		go func(g int) {
			defer wg.Done()
			defer func() {
				if r := recover(); r != nil {
					mu.Lock()
					panics = append(panics, fmt.Sprint(r))
					mu.Unlock()
				}
			}()
			x := uint64(seeds[g]) | 1
			next := func(n int) int {
				x ^= x << 13
				x ^= x >> 7
				x ^= x << 17
				return int(x % uint64(n))
			}
			me := fmt.Sprintf("w%d", g)
			seen := make([]int, ng) // last value read of w<h>
			local := map[string]int{}
			// checkOwn compares what a lookup function shows of g's symbols with what g left
			checkOwn := func(what string, get func(string) (interface{}, error)) {
				if v, err := get(me); err != nil || v != st.w {
					report("owned-symbol:"+what+":own-write-not-read-back", fmt.Sprintf("goroutine %d wrote %s=%d last and nobody else writes it, but %s shows %v (error %v)", g, me, st.w, what, v, err))
				}
				for k, want := range st.temp {
					if v, err := get(k); err != nil || v != want {
						report("owned-symbol:"+what+":own-write-not-read-back", fmt.Sprintf("goroutine %d wrote %s=%d last and nobody else writes it, but %s shows %v (error %v)", g, k, want, what, v, err))
					}
				}
				for k, want := range st.fresh {
					if v, err := get(k); err != nil || v != want {
						report("owned-symbol:"+what+":own-define-lost", fmt.Sprintf("goroutine %d defined %s=%d, nobody deletes or writes it, but %s shows %v (error %v)", g, k, want, what, v, err))
					}
				}
				for k := range st.gone {
					if v, err := get(k); err == nil {
						report("owned-symbol:"+what+":own-deleted-symbol-visible", fmt.Sprintf("goroutine %d deleted %s last and nobody else defines it, but %s shows %v", g, k, what, v))
					}
				}
			}
			<-start
			for i := 1; i <= nops; i++ {
				var name string
				switch r := next(32); {
				case r < 8:
					k := fmt.Sprintf("t%d_%d", g, next(7))
					if err := shared.Define(k, i); err != nil {
						report("owned-symbol:define-fails", fmt.Sprintf("Define(%s): %v", k, err))
					}
					st.temp[k] = i
					delete(st.gone, k)
					name = "Define"
				case r < 15:
					k := fmt.Sprintf("t%d_%d", g, next(7))
					if next(5) == 0 {
						shared.DeleteGlobal(k)
						name = "DeleteGlobal"
					} else {
						shared.Delete(k)
						name = "Delete"
					}
					delete(st.temp, k)
					st.gone[k] = true
				case r < 19:
					var err error
					if next(4) == 0 {
						err = shared.Define(me, i)
						name = "Define"
					} else {
						err = shared.Set(me, i)
						name = "Set"
					}
					if err != nil {
						report("owned-symbol:"+name+":own-symbol-gone", fmt.Sprintf("goroutine %d: %s(%s, %d) fails though the symbol was defined before the start and nobody deletes it: %v", g, name, me, i, err))
					}
					st.w = i
				case r < 22:
					v, err := shared.Get(me)
					if err != nil || v != st.w {
						report("owned-symbol:Get:own-write-not-read-back", fmt.Sprintf("goroutine %d wrote %s=%d last and nobody else writes it, but Get returns %v (error %v)", g, me, st.w, v, err))
					}
					name = "Get"
				case r < 24:
					k := fmt.Sprintf("t%d_%d", g, next(7))
					v, err := shared.Get(k)
					if want, ok := st.temp[k]; ok && (err != nil || v != want) {
						report("owned-symbol:Get:own-write-not-read-back", fmt.Sprintf("goroutine %d wrote %s=%d last and nobody else writes it, but Get returns %v (error %v)", g, k, want, v, err))
					} else if !ok && err == nil {
						report("owned-symbol:Get:own-deleted-symbol-visible", fmt.Sprintf("goroutine %d deleted %s last (or never defined it) and nobody else defines it, but Get returns %v", g, k, v))
					}
					name = "Get"
				case r < 27:
					h := next(ng)
					v, err := shared.Get(fmt.Sprintf("w%d", h))
					n, isInt := v.(int)
					if err != nil || !isInt {
						report("owned-symbol:Get:foreign-symbol-gone", fmt.Sprintf("goroutine %d: Get(w%d) = %v, %v though the symbol was defined before the start and nobody deletes it", g, h, v, err))
					} else if n < seen[h] {
						report("owned-symbol:Get:foreign-read-went-back", fmt.Sprintf("goroutine %d read w%d=%d and later w%d=%d; its only writer writes growing numbers", g, h, seen[h], h, n))
					} else {
						seen[h] = n
					}
					name = "Get"
				case r == 27:
					if len(st.fresh) < 24 {
						k := fmt.Sprintf("f%d_%d", g, len(st.fresh))
						if err := shared.Define(k, i); err != nil {
							report("owned-symbol:define-fails", fmt.Sprintf("Define(%s): %v", k, err))
						}
						st.fresh[k] = i
					}
					name = "Define"
				case r == 28:
					k := fmt.Sprintf("f%d_%d", g, next(24))
					v, err := shared.Get(k)
					if want, ok := st.fresh[k]; ok && (err != nil || v != want) {
						report("owned-symbol:Get:own-define-lost", fmt.Sprintf("goroutine %d defined %s=%d, nobody deletes or writes it, but Get returns %v (error %v)", g, k, want, v, err))
					}
					name = "Get"
				case r == 29:
					listed := map[string]bool{}
					for _, k := range shared.GetValueSymbols() {
						listed[k] = true
					}
					checkOwn("GetValueSymbols", func(k string) (interface{}, error) {
						if !listed[k] {
							return nil, fmt.Errorf("not listed")
						}
						// listed: the value is not part of a listing, hand back the expected one
						if k == me {
							return st.w, nil
						}
						if v, ok := st.temp[k]; ok {
							return v, nil
						}
						return st.fresh[k], nil
					})
					name = "GetValueSymbols"
				case r == 30:
					// the copy is private to this goroutine
					var cp *env.Env
					if next(2) == 0 {
						cp, name = shared.Copy(), "Copy"
					} else {
						cp, name = shared.DeepCopy(), "DeepCopy"
					}
					checkOwn(name, cp.Get)
				default:
					_ = shared.String()
					name = "String"
				}
				local[name]++
				if next(16) == 0 {
					runtime.Gosched()
				}
			}
			mu.Lock()
			for k, v := range local {
				counts[k] += v
			}
			mu.Unlock()
		}(g)
	}
	close(start)
	finished := make(chan struct{})
	go func() { wg.Wait(); close(finished) }()
	select {
	case <-finished:
	case <-time.After(120 * time.Second):
		// as in phase race: decided from goroutine states, not from the clock
		s1 := c13EnvBlocked()
		time.Sleep(500 * time.Millisecond)
		s2 := c13EnvBlocked()
		if s1.blocked > 0 && s1.blocked == s1.workers && s2.blocked == s2.workers && s1.where == s2.where {
			c.Violation("deadlock-in-env:"+s1.where, fmt.Sprintf("all %d unfinished worker goroutines are parked on the environment's mutex in two samples (%s)", s1.workers, s1.where), input)
		} else {
			c.Inconclusive("owners-stress-watchdog", fmt.Sprintf("workers=%d blocked=%d / workers=%d blocked=%d", s1.workers, s1.blocked, s2.workers, s2.blocked), input)
		}
		c.Bail()
	}
	// the final state: every symbol as its owner left it
	if len(panics) == 0 {
		listed := map[string]bool{}
		for _, k := range shared.GetValueSymbols() {
			listed[k] = true
		}
		for g, st := range states {
			exp := map[string]int{fmt.Sprintf("w%d", g): st.w}
			for k, v := range st.temp {
				exp[k] = v
			}
			for k, v := range st.fresh {
				exp[k] = v
			}
			for k, want := range exp {
				if v, err := shared.Get(k); err != nil || v != want || !listed[k] {
					report("owned-symbol:final-state:own-write-missing", fmt.Sprintf("goroutine %d left %s=%d and nobody else writes it, but at the end Get returns %v (error %v), listed=%v", g, k, want, v, err, listed[k]))
				}
			}
			for k := range st.gone {
				if v, err := shared.Get(k); err == nil || listed[k] {
					report("owned-symbol:final-state:own-deleted-symbol-visible", fmt.Sprintf("goroutine %d deleted %s last and nobody else defines it, but at the end Get returns %v, listed=%v", g, k, v, listed[k]))
				}
			}
		}
	}
	total := 0
	for k, v := range counts {
		c.Count("owners_ops:"+k, v)
		total += v
	}
	c.Events(total)
	c.Eval(fmt.Sprintf("owners-stress g=%d ops=%d procs=%d seed0=%d", ng, nops, procs, seeds[0]), true)
	c.Tag(fmt.Sprintf("owners-gomaxprocs:%d", procs))
	if len(panics) > 0 {
		c.Violation("panic-in-concurrent-env-operation", panics[0], input)
	}
	var sigs []string
	for sig := range viol {
		sigs = append(sigs, sig)
	}
	sort.Strings(sigs)
	for _, sig := range sigs {
		c.Violation(sig, viol[sig], input)
	}
	if c.WantSample() {
		c.Sample(map[string]interface{}{"phase": "owners", "goroutines": ng, "ops_per_goroutine": nops, "gomaxprocs": procs, "operation_counts": counts})
	}
}
