package main

// C02 — cancelling the context always stops a running script.
// Workload: programs that never terminate by construction (a spinning or
// blocked core under 0-3 wrapping constructs). Monitor: after cancel() has
// returned, (1) the call must return with the error text "execution
// interrupted", (2) at most a small logical budget of probe events may follow
// the cancel, (3) a call that does not return is classified from goroutine
// states and process CPU time, never from the wall clock alone.

import (
	"context"
	"fmt"
	"runtime"
	"strings"
	"sync"
	"sync/atomic"
	"syscall"
	"time"

	"github.com/mattn/anko/env"

	"verifharness/internal/ank"
	"verifharness/internal/fw"
	"verifharness/internal/wk"
)

type c02Core struct {
	selfCancel bool // the program calls hcancel(), a host function that cancels the context and returns
	name       string
	src        string // statements; never terminates
	blocked    bool   // blocks in a channel operation instead of spinning
	ticks      int    // tick() calls per cycle
	setup      string // top-level statements needed before
	// announces: the core calls entered() when it has reached the part that never terminates (the
	// bottom of a deep recursion); an asynchronous cancel waits for that call
	announces bool
}

var c02Cores = []c02Core{
	{name: "loop-forever", src: "for { tick() }", ticks: 1},
	{name: "loop-cond", src: "for cnd { tick() }", ticks: 1, setup: "cnd = true"},
	{name: "loop-cond-tick", src: "for tickT() { }", ticks: 1},
	{name: "loop-cfor", src: "for i = 0; true; i++ { tick() }", ticks: 1},
	{name: "loop-cfor-post", src: "for i = 0; true; tick() { }", ticks: 1},
	{name: "loop-forin-nested", src: "for { for x in [1, 2, 3] { tick() } }", ticks: 3},
	{name: "loop-forin-map", src: "for { for k, v in {\"a\": 1} { tick() } }", ticks: 1},
	{name: "loop-tickless", src: "for { }", ticks: 0},
	{name: "loop-tickless-expr", src: "for { x = 1 + 2 }", ticks: 0},
	{name: "recursion-0", src: "func rec() { tick(); rec() }\nrec()", ticks: 1},
	{name: "recursion-1", src: "func rec(a) { tick(); rec(a) }\nrec(1)", ticks: 1},
	{name: "recursion-3", src: "func rec(a, b, c) { tick(); return rec(a, b, c) }\nrec(1, 2, 3)", ticks: 1},
	{name: "recursion-6", src: "func rec(a, b, c, d, e, f) { tick(); rec(a, b, c, d, e, f) }\nrec(1, 2, 3, 4, 5, 6)", ticks: 1},
	{name: "recursion-variadic", src: "func rec(a...) { tick(); rec(a...) }\nrec(1, 2)", ticks: 1},
	{name: "recursion-mutual", src: "func ra(a) { tick(); rb(a) }\nfunc rb(a) { ra(a) }\nra(1)", ticks: 1},
	{name: "spin-in-callee", src: "func body() { tick(); return 1 }\nfor { body() }", ticks: 1},
	{name: "spin-switch", src: "for { switch tickI() { case 0: x = 1\ndefault: x = 2 } }", ticks: 1},
	{name: "spin-try-inside", src: "for { try { tick(); throw 1 } catch e { } }", ticks: 1},
	{name: "spin-coalesce-inside", src: "for { x = undefinedName ?? tickI() }", ticks: 1},
	// the cancellation lands inside one host call; the statements after it are plain calls
	{name: "host-call-cancels-then-host-calls", src: "hcancel()\ntick()\ntick()\ntick()\ntick()\ntick()\ntick()\ntick()\ntick()\ntick()\ntick()\ntick()\ntick()\nfor { tick() }", ticks: 1, selfCancel: true},
	{name: "host-call-cancels-then-script-calls", src: "func sc() { tick(); return 1 }\nhcancel()\nsc()\nsc()\nsc()\nsc()\nsc()\nsc()\nsc()\nsc()\nsc()\nsc()\nfor { tick() }", ticks: 1, selfCancel: true},
	{name: "host-call-cancels-in-expression", src: "x = [hcancel(), tickI(), tickI(), tickI()]\ny = tickI() + tickI() + tickI() + tickI() + tickI() + tickI() + tickI() + tickI()\ntick()\ntick()\ntick()\ntick()\nfor { tick() }", ticks: 1, selfCancel: true},
	{name: "recv-expr", src: "<- ch", blocked: true, setup: "ch = make(chan int64)"},
	{name: "recv-stmt", src: "v = <- ch", blocked: true, setup: "ch = make(chan int64)"},
	{name: "recv-stmt-ok", src: "v, ok = <- ch", blocked: true, setup: "ch = make(chan interface)"},
	{name: "send-unbuffered", src: "ch <- 1", blocked: true, setup: "ch = make(chan int64)"},
	{name: "send-full-buffer", src: "ch <- 1\nch <- 2", blocked: true, setup: "ch = make(chan interface, 1)"},
	{name: "range-chan", src: "for v in ch { tick() }", blocked: true, setup: "ch = make(chan int64)"},
	{name: "recv-send-forward", src: "out <- <- ch", blocked: true, setup: "ch = make(chan int64)\nout = make(chan int64)"},
	// channel-to-channel forwarding `dst <- src` (receive from src, then send to dst): blocked in its
	// SENDING half (a value is ready in src, dst is unbuffered without a receiver or its buffer is
	// full), blocked in its receiving half, as a pipeline stage in a loop / function / goroutine
	{name: "forward-send-unbuffered", src: "fdst <- fsrc", blocked: true, setup: "fsrc = make(chan int64, 1)\nfdst = make(chan int64)\nfsrc <- 1"},
	{name: "forward-send-full-buffer", src: "fdst <- fsrc\nfdst <- fsrc", blocked: true, setup: "fsrc = make(chan interface, 2)\nfdst = make(chan interface, 1)\nfsrc <- 1\nfsrc <- 2"},
	{name: "forward-recv-half", src: "fdst <- fsrc", blocked: true, setup: "fsrc = make(chan int64, 1)\nfdst = make(chan int64)"},
	{name: "forward-stage-loop", src: "for { fdst <- fsrc }", blocked: true, setup: "fsrc = make(chan int64, 4)\nfdst = make(chan int64, 1)\nfor fi = 0; fi < 4; fi++ { fsrc <- fi }"},
	{name: "forward-stage-func", src: "func stage(a, b) { for { tick(); b <- a } }\nstage(fsrc, fdst)", blocked: true, ticks: 1, setup: "fsrc = make(chan int64, 4)\nfdst = make(chan int64, 1)\nfor fi = 0; fi < 4; fi++ { fsrc <- fi }"},
	{name: "forward-pipeline-go", src: "go func() { for { fmid <- fsrc } }()\nfor { fdst <- fmid }", blocked: true, setup: "fsrc = make(chan int64, 4)\nfmid = make(chan int64)\nfdst = make(chan int64)\nfor fi = 0; fi < 4; fi++ { fsrc <- fi }"},
	{name: "forward-host-chans", src: "hdst <- hsrc", blocked: true, setup: "hsrc <- 1"},
	// recursion that does not end for practical purposes (2^64 calls, depth 64) through functions
	// whose body is exactly one `return <expr>`: no loop and no other statement anywhere in the
	// cycle; every arity / call path (direct-call fast path, 6 parameters = reflect path, variadic,
	// lambda in a variable, map member, zero-parameter closures, mutual recursion, through a host
	// callback). The leaf-tick variants let the k-th probe cancel synchronously.
	{name: "recursion-expr-1-tickless", src: "func fx(n) { return n == 0 ? 0 : fx(n - 1) + fx(n - 1) }\nfx(64)", ticks: 0},
	{name: "recursion-expr-1", src: "func fx(n) { return n == 0 ? tickI() : fx(n - 1) + fx(n - 1) }\nfx(64)", ticks: 1},
	{name: "recursion-expr-lambda", src: "fl = func(n) { return n == 0 ? tickI() : fl(n - 1) + fl(n - 1) }\nfl(64)", ticks: 1},
	{name: "recursion-expr-6", src: "func fx(a, b, c, d, e, n) { return n == 0 ? tickI() : fx(a, b, c, d, e, n - 1) + fx(a, b, c, d, e, n - 1) }\nfx(1, 2, 3, 4, 5, 64)", ticks: 1},
	{name: "recursion-expr-variadic", src: "func fx(a...) { return a[0] == 0 ? tickI() : fx(a[0] - 1) + fx(a[0] - 1) }\nfx(64)", ticks: 1},
	{name: "recursion-expr-mutual-0-1-6", src: "func rdown(a, b, c, d, e, n) { return n == 0 ? tickI() : rup(n - 1) + rup(n - 1) }\nfunc rup(n) { return rdown(0, 0, 0, 0, 0, n) }\nfunc rstart() { return rup(64) }\nrstart()", ticks: 1},
	{name: "recursion-expr-mutual-tickless", src: "func rdown(a, b, c, d, e, n) { return n == 0 ? 0 : rup(n - 1) + rup(n - 1) }\nfunc rup(n) { return rdown(0, 0, 0, 0, 0, n) }\nfunc rstart() { return rup(64) }\nrstart()", ticks: 0},
	{name: "recursion-expr-closure-0", src: "func mk(n) { return func() { return n == 0 ? tickI() : mk(n - 1)() + mk(n - 1)() } }\nmk(64)()", ticks: 1},
	{name: "recursion-expr-member", src: "rm = {}\nrm.f = func(n) { return n == 0 ? tickI() : rm.f(n - 1) + rm.f(n - 1) }\nrm.f(64)", ticks: 1},
	{name: "recursion-expr-logical", src: "func fb(n) { return n == 0 ? !tickT() : (fb(n - 1) || fb(n - 1)) }\nfb(64)", ticks: 1},
	{name: "recursion-expr-in-arguments", src: "func fa(n) { return n == 0 ? tickI() : ident(fa(n - 1)) + len([fa(n - 1)]) }\nfa(64)", ticks: 1},
	{name: "recursion-expr-through-callback", src: "func fc(n) { return n == 0 ? tickI() : applyV(fc, n - 1) + applyV(fc, n - 1) }\nfc(64)", ticks: 1},
}

type c02Wrapper struct {
	name string
	// wrap returns statements that run core (statements) under the construct
	wrap func(core string, id int) string
	// pre, when set, returns statements run by an EARLIER vm.Execute call (under
	// context.Background()) on the same environment: library code loaded first,
	// called later under the cancellable context
	pre func(core string, id int) string
	// hostCancels: the host function of the wrapper cancels the context itself while it is
	// between two invocations of the script callback (a stop request handled on the Go side)
	hostCancels bool
	// waitsForCancel: the host function of the wrapper pauses between two invocations of the script
	// callback until the (asynchronous) cancellation has landed (a backoff wait)
	waitsForCancel bool
	// onePosition: phase enum runs the wrapper with every core in ONE position (last statement /
	// followed by further statements, alternating with core and wrapper) instead of both; the
	// random phase draws the position freely
	onePosition bool
	// mayEnd: whether the construct reaches the core at all is left open by the statement (a finally
	// block after a catch block that returned or threw): the wrapper puts a call of entered() in
	// front of the core. A program that ends without that call has ended by itself (not running at
	// the cancel, trivial); after that call only the interruption can end it.
	mayEnd bool
}

// c02Holder: a host struct with a func-typed field a script assigns to
type c02Holder struct {
	F       func()
	between func() // Go-side work between the two invocations of RunTwice
}

func (h *c02Holder) Run() { h.F() }

// RunTwice invokes the stored function, does its Go-side work, invokes it again
func (h *c02Holder) RunTwice() {
	h.F()
	h.between()
	h.F()
}

// c02PendingFix_chanOkTarget: `v, <target> = <- ch` ignores an interruption that happens while
// the assignment to the ok target is evaluated (runChanStmt drops the error of that assignment,
// invokeLetExpr then clears runInfo.err when v is a new name): as the last statement the run
// returns (value, nil) instead of "execution interrupted". Reported in
// /tmp/strengthen/C02-r4-genuine.md; the wrapper chan-recv-ok-target is left out of the
// generated domain until /repo is repaired — then set this to false.
const c02PendingFix_chanOkTarget = false

// c02PendingFix_storedFuncSlot: a script function stored in a Go func-typed slot by an EARLIER
// run keeps the context of that run: called by a script of a later run (`hold.F()`), the
// cancellation of the later run's context does not stop it. Reported in
// /tmp/strengthen/C02-r4-genuine.md; the wrapper library-func-slot-script-call is left out of
// the generated domain until /repo is repaired — then set this to false.
const c02PendingFix_storedFuncSlot = true

func ind(s string) string { return "  " + strings.ReplaceAll(s, "\n", "\n  ") }

var c02Wrappers = []c02Wrapper{
	{name: "func0", wrap: func(c string, id int) string { return fmt.Sprintf("func w%d() {\n%s\n}\nw%d()", id, ind(c), id) }},
	{name: "func1", wrap: func(c string, id int) string { return fmt.Sprintf("func w%d(a) {\n%s\n}\nw%d(1)", id, ind(c), id) }},
	{name: "func4", wrap: func(c string, id int) string {
		return fmt.Sprintf("func w%d(a, b, c, d) {\n%s\n}\nw%d(1, 2, 3, 4)", id, ind(c), id)
	}},
	{name: "func6", wrap: func(c string, id int) string {
		return fmt.Sprintf("func w%d(a, b, c, d, e, f) {\n%s\n}\nw%d(1, 2, 3, 4, 5, 6)", id, ind(c), id)
	}},
	{name: "func-variadic", wrap: func(c string, id int) string {
		return fmt.Sprintf("func w%d(a...) {\n%s\n}\nw%d(1, 2)", id, ind(c), id)
	}},
	{name: "func-spread-call", wrap: func(c string, id int) string {
		return fmt.Sprintf("func w%d(a, b) {\n%s\n}\nw%d([1, 2]...)", id, ind(c), id)
	}},
	{name: "anon-call", wrap: func(c string, id int) string { return fmt.Sprintf("func() {\n%s\n}()", ind(c)) }},
	{name: "member-call", wrap: func(c string, id int) string {
		return fmt.Sprintf("mm%d = {\"f\": func() {\n%s\n}}\nmm%d.f()", id, ind(c), id)
	}},
	{name: "module-func", wrap: func(c string, id int) string {
		return fmt.Sprintf("module M%d {\n  func f() {\n%s\n  }\n}\nM%d.f()", id, ind(ind(c)), id)
	}},
	{name: "module-body", wrap: func(c string, id int) string { return fmt.Sprintf("module B%d {\n%s\n}", id, ind(c)) }},
	{name: "go-parent-blocked", wrap: func(c string, id int) string {
		return fmt.Sprintf("dn%d = make(chan int64)\ngo func() {\n%s\n}()\n<- dn%d", id, ind(c), id)
	}},
	{name: "try-body", wrap: func(c string, id int) string { return fmt.Sprintf("try {\n%s\n} catch e {\n  tick()\n}", ind(c)) }},
	{name: "try-body-finally", wrap: func(c string, id int) string {
		return fmt.Sprintf("try {\n%s\n} catch e {\n  tick()\n} finally {\n  tick()\n}", ind(c))
	}},
	{name: "catch-body", wrap: func(c string, id int) string { return fmt.Sprintf("try {\n  throw 1\n} catch e {\n%s\n}", ind(c)) }},
	{name: "finally-body", wrap: func(c string, id int) string {
		return fmt.Sprintf("try {\n  x = 1\n} catch e {\n  x = 2\n} finally {\n%s\n}", ind(c))
	}},
	{name: "coalesce-left", wrap: func(c string, id int) string { return fmt.Sprintf("x = (func() {\n%s\n}() ?? 1)", ind(c)) }},
	{name: "coalesce-left-stmt", wrap: func(c string, id int) string { return fmt.Sprintf("func() {\n%s\n}() ?? 1", ind(c)) }},
	{name: "coalesce-left-map-index", wrap: func(c string, id int) string {
		return fmt.Sprintf("cm%d = {}\nx = (cm%d[func() {\n%s\n}()] ?? 1)", id, id, ind(c))
	}},
	{name: "coalesce-left-map-index-member", wrap: func(c string, id int) string {
		return fmt.Sprintf("cm%d = {}\nx = (cm%d[func() {\n%s\n}()].a ?? 1)", id, id, ind(c))
	}},
	{name: "coalesce-left-list-index", wrap: func(c string, id int) string {
		return fmt.Sprintf("x = ([1, 2][func() {\n%s\n}()] ?? 1)", ind(c))
	}},
	{name: "coalesce-left-index-of-call", wrap: func(c string, id int) string {
		return fmt.Sprintf("x = (func() {\n%s\n}()[0] ?? 1)", ind(c))
	}},
	{name: "coalesce-left-member-of-call", wrap: func(c string, id int) string {
		return fmt.Sprintf("x = (func() {\n%s\n}().a ?? 1)", ind(c))
	}},
	{name: "coalesce-left-paren", wrap: func(c string, id int) string {
		return fmt.Sprintf("x = ((func() {\n%s\n}()) ?? 1)", ind(c))
	}},
	{name: "coalesce-left-operator", wrap: func(c string, id int) string {
		return fmt.Sprintf("x = ((func() {\n%s\n}() + 1) ?? 1)", ind(c))
	}},
	{name: "coalesce-left-slice-bound", wrap: func(c string, id int) string {
		return fmt.Sprintf("x = ([1, 2][func() {\n%s\n}():] ?? 1)", ind(c))
	}},
	{name: "coalesce-right", wrap: func(c string, id int) string { return fmt.Sprintf("x = (nil ?? func() {\n%s\n}())", ind(c)) }},
	{name: "ternary-arm", wrap: func(c string, id int) string { return fmt.Sprintf("x = true ? func() {\n%s\n}() : 0", ind(c)) }},
	{name: "call-argument", wrap: func(c string, id int) string { return fmt.Sprintf("ident(func() {\n%s\n}())", ind(c)) }},
	{name: "deferred-callee", wrap: func(c string, id int) string {
		return fmt.Sprintf("func d%d() {\n  defer func() {\n%s\n  }()\n  return 1\n}\nd%d()", id, ind(ind(c)), id)
	}},
	{name: "deferred-callee-after-error", wrap: func(c string, id int) string {
		return fmt.Sprintf("func d%d() {\n  defer func() {\n%s\n  }()\n  throw 1\n}\nd%d()", id, ind(ind(c)), id)
	}},
	{name: "deferred-callee-after-failing-defer", wrap: func(c string, id int) string {
		return fmt.Sprintf("func d%d() {\n  defer func() {\n%s\n  }()\n  defer func() { throw 1 }()\n  return 1\n}\nd%d()", id, ind(ind(c)), id)
	}},
	{name: "deferred-callee-before-failing-defer", wrap: func(c string, id int) string {
		return fmt.Sprintf("func d%d() {\n  defer func() { throw 1 }()\n  defer func() {\n%s\n  }()\n  return 1\n}\nd%d()", id, ind(ind(c)), id)
	}},
	{name: "deferred-toplevel-after-failing-defer", wrap: func(c string, id int) string {
		return fmt.Sprintf("defer func() {\n%s\n}()\ndefer nosuchfn%d()", ind(c), id)
	}},
	{name: "deferred-toplevel", wrap: func(c string, id int) string { return fmt.Sprintf("defer func() {\n%s\n}()", ind(c)) }},
	{name: "switch-case", wrap: func(c string, id int) string { return fmt.Sprintf("switch 1 {\ncase 1:\n%s\n}", ind(c)) }},
	{name: "if-then", wrap: func(c string, id int) string { return fmt.Sprintf("if true {\n%s\n}", ind(c)) }},
	{name: "else-branch", wrap: func(c string, id int) string { return fmt.Sprintf("if false {\n  x = 1\n} else {\n%s\n}", ind(c)) }},
	{name: "forin-once", wrap: func(c string, id int) string { return fmt.Sprintf("for it%d in [1] {\n%s\n}", id, ind(c)) }},
	{name: "try-body-empty-catch", wrap: func(c string, id int) string { return fmt.Sprintf("try {\n%s\n} catch {\n}", ind(c)) }},
	{name: "try-call-empty-catch", wrap: func(c string, id int) string {
		return fmt.Sprintf("func tw%d() {\n%s\n}\ntry {\n  tw%d()\n} catch e {\n}", id, ind(c), id)
	}},
	{name: "try-call-empty-catch-in-list", wrap: func(c string, id int) string {
		return fmt.Sprintf("func tw%d() {\n%s\n}\nfunc tg%d() {\n  try {\n    tw%d()\n  } catch {\n  }\n}\nx = [tg%d(), tickI()]", id, ind(c), id, id, id)
	}},
	{name: "try-call-empty-finally", wrap: func(c string, id int) string {
		return fmt.Sprintf("func tw%d() {\n%s\n}\ntry {\n  tw%d()\n} catch {\n} finally {\n}", id, ind(c), id)
	}},
	{name: "if-empty-else", wrap: func(c string, id int) string { return fmt.Sprintf("if true {\n%s\n} else {\n}", ind(c)) }},
	{name: "library-func0", wrap: func(c string, id int) string { return fmt.Sprintf("lib%d()", id) },
		pre: func(c string, id int) string { return fmt.Sprintf("func lib%d() {\n%s\n}", id, ind(c)) }},
	{name: "library-func1", wrap: func(c string, id int) string { return fmt.Sprintf("lib%d(1)", id) },
		pre: func(c string, id int) string { return fmt.Sprintf("func lib%d(a) {\n%s\n}", id, ind(c)) }},
	{name: "library-func5", wrap: func(c string, id int) string { return fmt.Sprintf("lib%d(1, 2, 3, 4, 5)", id) },
		pre: func(c string, id int) string { return fmt.Sprintf("func lib%d(a, b, c, d, e) {\n%s\n}", id, ind(c)) }},
	{name: "library-func-variadic", wrap: func(c string, id int) string { return fmt.Sprintf("lib%d(1, 2)", id) },
		pre: func(c string, id int) string { return fmt.Sprintf("func lib%d(a...) {\n%s\n}", id, ind(c)) }},
	{name: "library-closure-in-map", wrap: func(c string, id int) string { return fmt.Sprintf("libm%d.run(1, 2, 3, 4, 5, 6)", id) },
		pre: func(c string, id int) string {
			return fmt.Sprintf("libm%d = {\"run\": func(a, b, c, d, e, f) {\n%s\n}}", id, ind(c))
		}},
	{name: "callback-boxed-element", wrap: func(c string, id int) string {
		return fmt.Sprintf("fs%d = [func() {\n%s\n}]\napply(fs%d[0])", id, ind(c), id)
	}},
	{name: "callback-from-ident-call", wrap: func(c string, id int) string {
		return fmt.Sprintf("apply(ident(func() {\n%s\n}))", ind(c))
	}},
	{name: "callback-from-chan", wrap: func(c string, id int) string {
		return fmt.Sprintf("cb%d = make(chan interface, 1)\ncb%d <- func() {\n%s\n}\napply(<- cb%d)", id, id, ind(c), id)
	}},
	{name: "callback-func-type", wrap: func(c string, id int) string { return fmt.Sprintf("apply(func() {\n%s\n})", ind(c)) }},
	{name: "callback-error-result", wrap: func(c string, id int) string { return fmt.Sprintf("applyE(func() {\n%s\n})", ind(c)) }},
	{name: "callback-error-result-ignored", wrap: func(c string, id int) string { return fmt.Sprintf("applyEI(func() {\n%s\n})", ind(c)) }},
	{name: "callback-value-error-result", wrap: func(c string, id int) string {
		return fmt.Sprintf("x = applyVE(func(a) {\n%s\n  return a, nil\n}, 1)", ind(c))
	}},
	{name: "callback-struct-field-script-call", wrap: func(c string, id int) string {
		return fmt.Sprintf("hold.F = func() {\n%s\n}\nhold.F()", ind(c))
	}},
	{name: "callback-struct-field-host-call", wrap: func(c string, id int) string {
		return fmt.Sprintf("hold.F = func() {\n%s\n}\nhold.Run()", ind(c))
	}},
	{name: "callback-variadic-spread", wrap: func(c string, id int) string {
		return fmt.Sprintf("fs%d = [func() {\n%s\n}]\napplyAll(fs%d...)", id, ind(c), id)
	}},
	{name: "callback-variadic-plain", wrap: func(c string, id int) string {
		return fmt.Sprintf("applyAll(func() { }, func() {\n%s\n})", ind(c))
	}},
	{name: "callback-typed-chan", wrap: func(c string, id int) string {
		return fmt.Sprintf("fch <- func() {\n%s\n}\nrecvAndCall()", ind(c))
	}},
	{name: "callback-typed-slice-literal", wrap: func(c string, id int) string {
		return fmt.Sprintf("make(type FN, hold.F)\nfl%d = []FN{func() {\n%s\n}}\napplyAll(fl%d...)", id, ind(c), id)
	}},
	{name: "callback-map-of-funcs", wrap: func(c string, id int) string {
		return fmt.Sprintf("applyMap({\"k\": func() {\n%s\n}})", ind(c))
	}},
	{name: "callback-returned-by-callback", wrap: func(c string, id int) string {
		return fmt.Sprintf("applyMaker(func() { return func() {\n%s\n} })", ind(c))
	}},
	{name: "callback-less", wrap: func(c string, id int) string {
		return fmt.Sprintf("sortLike([2, 1], func(a, b) {\n%s\n  return true\n})", ind(c))
	}},
	// a host function that invokes the script callback several times, or only after Go-side work:
	// the cancellation lands INSIDE the host call but OUTSIDE the callback (before the first or
	// between two invocations); the invocation that follows runs the never-terminating core. The
	// callback is script code, so the bound applies to it (only the host's own waiting is exempt,
	// and that ends with the cancellation).
	{name: "callback-retry-host-cancels-between", hostCancels: true, wrap: func(c string, id int) string {
		return fmt.Sprintf("at%d = 0\nretryC(func() {\n  at%d++\n  if at%d == 1 {\n    return false\n  }\n%s\n  return true\n})", id, id, id, ind(c))
	}},
	{name: "callback-retry-cancel-during-backoff", waitsForCancel: true, wrap: func(c string, id int) string {
		return fmt.Sprintf("at%d = 0\nretryW(func() {\n  at%d++\n  if at%d == 1 {\n    return false\n  }\n%s\n  return true\n})", id, id, id, ind(c))
	}},
	{name: "callback-each-host-cancels-between", hostCancels: true, wrap: func(c string, id int) string {
		return fmt.Sprintf("eachC([1, 2, 3], func(x) {\n  if x >= 2 {\n%s\n  }\n})", ind(ind(c)))
	}},
	{name: "callback-each-cancel-during-step", waitsForCancel: true, wrap: func(c string, id int) string {
		return fmt.Sprintf("eachW([1, 2, 3], func(x) {\n  if x >= 2 {\n%s\n  }\n})", ind(ind(c)))
	}},
	{name: "callback-after-host-work-host-cancels", hostCancels: true, wrap: func(c string, id int) string {
		return fmt.Sprintf("afterWorkC(func() {\n%s\n})", ind(c))
	}},
	{name: "callback-after-host-work-cancel-during-work", waitsForCancel: true, wrap: func(c string, id int) string {
		return fmt.Sprintf("afterWorkW(func() {\n%s\n})", ind(c))
	}},
	{name: "callback-less-host-cancels-between", hostCancels: true, wrap: func(c string, id int) string {
		return fmt.Sprintf("sn%d = 0\nsortLikeC([3, 1, 2], func(a, b) {\n  sn%d++\n  if sn%d > 1 {\n%s\n  }\n  return a < b\n})", id, id, id, ind(ind(c)))
	}},
	{name: "callback-value-error-host-cancels-between", hostCancels: true, wrap: func(c string, id int) string {
		return fmt.Sprintf("x = applyTwiceVE(func(a) {\n  if a == 2 {\n%s\n  }\n  return a, nil\n})", ind(ind(c)))
	}},
	{name: "callback-struct-field-host-cancels-between", hostCancels: true, wrap: func(c string, id int) string {
		return fmt.Sprintf("hn%d = 0\nhold.F = func() {\n  hn%d++\n  if hn%d > 1 {\n%s\n  }\n}\nhold.RunTwice()", id, id, id, ind(ind(c)))
	}},
	// the targets of a receive statement are evaluated after the value has been received
	{name: "chan-recv-value-target", wrap: func(c string, id int) string {
		return fmt.Sprintf("cr%d = make(chan int64, 1)\ncr%d <- 1\ncm%d = {}\ncm%d[func() {\n%s\n}()], cok%d = <- cr%d", id, id, id, id, ind(c), id, id)
	}},
}

func init() {
	if !c02PendingFix_chanOkTarget {
		c02Wrappers = append(c02Wrappers, c02Wrapper{name: "chan-recv-ok-target", wrap: func(c string, id int) string {
			return fmt.Sprintf("cr%d = make(chan int64, 1)\ncr%d <- 1\ncm%d = {}\ncv%d, cm%d[func() {\n%s\n}()] = <- cr%d", id, id, id, id, id, ind(c), id)
		}})
	}
	if !c02PendingFix_storedFuncSlot {
		c02Wrappers = append(c02Wrappers, c02Wrapper{name: "library-func-slot-script-call",
			wrap: func(c string, id int) string { return "hold.F()" },
			pre:  func(c string, id int) string { return fmt.Sprintf("hold.F = func() {\n%s\n}", ind(c)) }})
	}
}

type c02Case struct {
	core     int
	wrappers []int
	trailing bool // followed by more statements
	sync     bool
	k        int // sync: the k-th tick cancels
	procs    int
	custom   *c02Core // phase deep: a generated core instead of c02Cores[core]
	deep     string   // phase deep: shape and depth, for the case description
}

func (cc c02Case) coreDef() c02Core {
	if cc.custom != nil {
		return *cc.custom
	}
	return c02Cores[cc.core]
}

func (cc c02Case) describe() string {
	var ws []string
	for _, w := range cc.wrappers {
		ws = append(ws, c02Wrappers[w].name)
	}
	mode := "async"
	if cc.sync {
		mode = fmt.Sprintf("sync-k%d", cc.k)
	}
	return fmt.Sprintf("%s<%s>%s:%s", cc.coreDef().name+cc.deep, strings.Join(ws, "<"), map[bool]string{true: ":trailing", false: ""}[cc.trailing], mode)
}

func (cc c02Case) source() string {
	_, main := cc.sources()
	return main
}

// sources returns (prelude, main): the prelude, if any, is executed first by a
// separate vm.Execute call on the same environment.
func (cc c02Case) sources() (string, string) {
	core := cc.coreDef()
	body := core.src
	prelude := ""
	for i, w := range cc.wrappers {
		wr := c02Wrappers[w]
		if wr.pre != nil {
			// everything wrapped so far becomes library code
			prelude += wr.pre(body, i) + "\n"
			body = wr.wrap(body, i)
			continue
		}
		body = wr.wrap(body, i)
	}
	src := ""
	if core.setup != "" {
		if prelude != "" {
			prelude = core.setup + "\n" + prelude
		} else {
			src = core.setup + "\n"
		}
	}
	src += body
	if cc.trailing {
		src += "\ntick()\ntick()\ntick()\nx = 1"
	}
	return prelude, src
}

// the fixed cases at the head of the list: the inputs of the known defects
func c02FixedCases() []c02Case {
	wi := func(name string) int {
		for i, w := range c02Wrappers {
			if w.name == name {
				return i
			}
		}
		panic(name)
	}
	return []c02Case{
		{core: 0, wrappers: []int{wi("coalesce-left")}, sync: true, k: 3},
		{core: 0, wrappers: []int{wi("coalesce-left-stmt")}, sync: true, k: 3},
		{core: 0, wrappers: []int{wi("callback-func-type")}, sync: true, k: 3},
		{core: 0, wrappers: []int{wi("callback-less")}, sync: true, k: 3},
		{core: 0, wrappers: []int{wi("coalesce-left")}, trailing: true, sync: true, k: 2},
	}
}

func init() {
	fixed := c02FixedCases()
	// complete enumeration of (core x single wrapper) and (core x no wrapper) in both positions
	var enum []c02Case
	for ci := range c02Cores {
		for _, tr := range []bool{false, true} {
			enum = append(enum, c02Case{core: ci, trailing: tr})
			for wi := range c02Wrappers {
				if c02Wrappers[wi].onePosition && tr != ((ci+wi)%2 == 1) {
					continue
				}
				enum = append(enum, c02Case{core: ci, wrappers: []int{wi}, trailing: tr})
			}
		}
	}
	wk.Register(&wk.Engine{
		ID: "C02",
		Plan: func(tier string) fw.Plan {
			nRand, nCont := 400, 40
			nDeep := len(c02DeepShapes) + len(c02DeepDescending) // every call path once
			if tier == "thorough" {
				nRand, nCont = 150000, 2500
				nDeep *= 20
			}
			return fw.Plan{
				Level: "exploration",
				Rule:  "programs that never terminate by construction: a core (spinning: every loop form, for-in nested in a loop, unbounded recursion through 0/1/3/6-parameter, variadic and mutually recursive functions, tick-less loops; blocked: receive expression/statement with and without ok, send on unbuffered and full channels, range over an open channel, forwarding `out <- <- ch`, and the channel-to-channel form `dst <- src` blocked in its sending half (value ready in src; dst unbuffered or full; script-made and host-made channels), in its receiving half, and as a pipeline stage in a loop / function / goroutine; practically endless recursion (2^64 calls, depth 64) through functions whose body is exactly one `return <expr>`: 1 and 6 parameters, variadic, lambda variable, map member, zero-parameter closures, mutual recursion 0/1/6, through a host callback, with a probe at the leaves or probe-less) under 0-3 wrappers (script function of arity 0/1/4/6/variadic/spread call, anonymous/member/module call, module body, go + blocked parent, try/catch/finally bodies, either side of ??, ternary arm, call argument, deferred callee (after return / after error / top level), switch, if/else, for-in, callbacks handed to Go func types with and without an error result; host functions that invoke the callback several times (retry, each, sort-like, value+error, stored struct field) or only after Go-side work, where the host cancels the context itself between two invocations or waits there until the asynchronous cancellation has landed, so that the never-terminating invocation STARTS under a cancelled context; the target expressions of a receive statement; round 5 (c02_r5.go): callbacks of Go types that take a context.Context (first/last/only parameter, with value, error and multiple results, script function variadic, stored in a struct field and called by host or script, appended to a host slice, returned by another callback, retried with a host cancel between / a wait for the cancel) which the host invokes with context.Background(), a context of its own not derived from the run's, or nil; script functions converted by every store/append into a container with a Go func element type (+ and += of one value on host-owned, make()-made, literal and member slices, index store, index append, typed map index/member store, typed map literal, host-owned map, store through a pointer, send on a script-made typed channel, list and nested list given to []func() / [][]func() parameters) and then invoked by the script or by a host function; script functions returned in result positions of Go callback types (func with error / bool / in second / middle-of-three position, with parameter and result, the result list as one list value, slices and maps of funcs as single or one of several results, func() error as result, factory of factory, host cancels between two invocations of the returned function); a callback the host runs on a goroutine of its own while the script is blocked; round 6 (c02_r6.go): try statements whose catch block is left by return / throw / rethrow / a runtime error / break / continue and whose finally block holds the core, at top level, nested in another try, in loops, in script functions of 0/1/6 parameters whose last statement it is, and in a callback - each calls entered() in front of the core, and a run that ends without that call never reached the core (whether such a finally block runs is not this property's business) and is trivial), last or followed by further statements. phase contended = a script consuming a buffered channel (range / receive statement / receive with ok, at top level or in a function) while host goroutines take values from the same channel and a host producer feeds it; when the feed has stopped and the buffer is empty the context is cancelled (150 trials per case; only the last values fed matter, so feeds are short; channel capacity, number of competing consumers and feed length from the PRNG). Cancellation instant: synchronous (the k-th probe cancels, k swept) or asynchronous (a harness goroutine cancels after 0-3 ms at GOMAXPROCS 1/2/16). phase deep = the cancellation lands underneath 20000-100000 pending script calls (depth from the PRNG, capped at 60000 for the call paths that need the most Go stack): a recursion that counts down through 1/3/6-parameter, variadic, lambda-variable, map-member, closure, mutually recursive functions, through a host callback, in operand / statement / host-call-argument position, with a defer or a try statement at every level, or along a linked structure, and then spins (with and without probe, in a callee) or blocks (receive, send) at its bottom, which it announces by entered(); and the unbounded recursions of the main table cancelled synchronously by their D-th probe; under 0-1 wrappers; every call path once per round of cases. phase enum = every core x every single wrapper x both positions (complete), except that each round-5 wrapper is run with every core in ONE of the two positions (alternating with core and wrapper; the random phase draws the position freely); phase random = PRNG wrapper chains of length 0-3. Non-trivial = the program was running (>= 1 probe event or a blocked core) when the cancel landed; distinct = (program, mode, k)." + c02R8Rule + c02R9Rule + c02R10Rule,
				Assumptions: []string{"the error must carry the text \"execution interrupted\" (vm.ErrInterrupt or a *vm.Error wrapping it)",
					"after cancel() returned, at most 2*(ticks per cycle)+goroutines+2 further probe events are tolerated (the expression in progress may finish)",
					"a call that has not returned is judged from two goroutine-state samples and the process CPU time consumed since the cancel; a wall-clock expiry alone is inconclusive",
					"time inside one single host Go call is outside the bound (the callback wrappers are NOT host calls: the script function they invoke is script code; a host function that waits for the cancellation between two invocations of its callback returns from that wait when the cancellation lands, the invocation that follows is script code again)",
					"a context.Context that the host passes to a callback as an argument is a plain value for the script function; the statement names only the context given to ExecuteContext/RunContext, so that one has to stop the callback whatever context (background, the host's own, nil) arrives as argument; the harness never cancels the contexts it passes as arguments",
					"a host goroutine that runs a callback recovers the panic by which the adapter reports the callback's interruption; only that the callback stops (probe events after the cancel) and that the call returns the error are judged",
					"a program that may end by itself before it reaches its core (round-6 finally wrappers) or that needs time to get there (phase deep) calls the host function entered() at that point; an asynchronous cancel is scheduled after that call (or after the program has ended, or after a grace period - which of the three is irrelevant for the verdict); an outcome other than \"execution interrupted\" is a violation only if entered() was called, because only then the program could not have ended by itself",
					"phase deep: a call that has not returned 4 s after the cancel is waited for until the process has consumed 3 s of CPU since the cancel (the unchanged tree needs 0.02-0.3 s to unwind 100000 pending calls; the CPU budget instead of more wall clock keeps the verdict independent of how busy the machine is) and is then classified like any other call that does not return: goroutine states + CPU time, signature not-stopped:<kind>:...:deep-recursion",
					"excluded for now (constants c02PendingFix_*, reported for repair): an interruption while the ok target of `v, target = <- ch` is evaluated; a script function stored in a Go func-typed slot by an earlier run and called by a later one",
					c02R8Assumptions[0], c02R8Assumptions[1], c02R8Assumptions[2], c02R9Assumptions[0], c02R9Assumptions[1], c02R10Assumptions[0]},
				Phases: append([]fw.Phase{
					{Name: "enum", Cases: len(fixed) + len(enum), Chunk: 40, Exhaust: true, TimeoutS: 900, Jobs: 8},
					{Name: "random", Cases: nRand, Chunk: 40, TimeoutS: 900, Jobs: 8},
					{Name: "contended", Cases: nCont, Chunk: 5, TimeoutS: 900, Jobs: 4},
					{Name: "deep", Cases: nDeep, Chunk: 2, TimeoutS: 900, Jobs: 4, MemMB: 3072},
				}, append(append(c02R8Phases(tier), c02R9Phases(tier)...), c02R10Phases(tier)...)...),
			}
		},
		Run: func(c *wk.Case) {
			var cc c02Case
			if c02R8Run(c) || c02R9Run(c) || c02R10Run(c) {
				return
			}
			if c.Phase == "contended" {
				c02Contended(c)
				return
			}
			if c.Phase == "deep" {
				cc = c02DeepCase(c)
			} else if c.Phase == "enum" {
				if c.Index < len(fixed) {
					cc = fixed[c.Index]
				} else {
					cc = enum[c.Index-len(fixed)]
					cc.sync = c.Rng.Intn(3) != 0
					cc.k = 1 + c.Rng.Intn(5)
				}
			} else {
				cc.core = c.Rng.Intn(len(c02Cores))
				for n := c.Rng.Intn(4); n > 0; n-- {
					cc.wrappers = append(cc.wrappers, c.Rng.Intn(len(c02Wrappers)))
				}
				cc.trailing = c.Rng.Intn(2) == 0
				cc.sync = c.Rng.Intn(3) != 0
				cc.k = 1 + c.Rng.Intn(8)
			}
			core := cc.coreDef()
			if core.blocked || core.ticks == 0 {
				cc.sync = false
			}
			hostCancels, waits := core.selfCancel, false
			for _, w := range cc.wrappers {
				hostCancels = hostCancels || c02Wrappers[w].hostCancels
				waits = waits || c02Wrappers[w].waitsForCancel
			}
			if hostCancels {
				// the program cancels itself from inside a host call: no other cancel
				cc.sync, cc.k = true, 1<<30
			}
			if waits {
				// a host function of the program waits for the cancellation: it has to come from outside
				cc.sync = false
			}
			cc.procs = []int{1, 2, 16}[c.Rng.Intn(3)]
			c02Run(c, cc, time.Duration(c.Rng.Intn(3000))*time.Microsecond)
		},
	})
}

func procCPU() float64 {
	var ru syscall.Rusage
	syscall.Getrusage(syscall.RUSAGE_SELF, &ru)
	return float64(ru.Utime.Sec+ru.Stime.Sec) + float64(ru.Utime.Usec+ru.Stime.Usec)/1e6
}

func c02Run(c *wk.Case, cc c02Case, delay time.Duration) {
	prelude, src := cc.sources()
	desc := cc.describe()
	core := cc.coreDef()
	input := map[string]interface{}{"program": src, "library_loaded_by_an_earlier_execute": prelude, "case": desc}
	c.Begin(input)
	old := runtime.GOMAXPROCS(cc.procs)
	defer runtime.GOMAXPROCS(old)

	ctx, cancel := context.WithCancel(context.Background())
	defer cancel()
	var ticks, after int64
	var cancelled int32
	doCancel := func() {
		cancel()
		atomic.StoreInt32(&cancelled, 1)
	}
	tick := func() {
		n := atomic.AddInt64(&ticks, 1)
		if atomic.LoadInt32(&cancelled) == 1 {
			atomic.AddInt64(&after, 1)
		}
		if cc.sync && n == int64(cc.k) {
			doCancel()
		}
	}
	e := ank.NewCoreEnv()
	e.Define("tick", func() { tick() })
	e.Define("tickT", func() bool { tick(); return true })
	e.Define("tickI", func() int64 { tick(); return 0 })
	e.Define("hcancel", func() { doCancel() })
	// entered(): the program announces that it has reached its never-terminating part (wrappers
	// with mayEnd, cores with announces)
	guarded, waits := core.announces, false
	for _, w := range cc.wrappers {
		guarded = guarded || c02Wrappers[w].mayEnd
		waits = waits || c02Wrappers[w].waitsForCancel
	}
	var enteredFlag int32
	enteredCh := make(chan struct{})
	var enteredOnce sync.Once
	e.Define("entered", func() {
		atomic.StoreInt32(&enteredFlag, 1)
		enteredOnce.Do(func() { close(enteredCh) })
	})
	e.Define("ident", func(a interface{}) interface{} { return a })
	e.Define("apply", func(f func()) { f() })
	e.Define("applyE", func(f func() error) error { return f() })
	e.Define("applyEI", func(f func() error) { _ = f() })
	e.Define("applyVE", func(f func(int64) (interface{}, error), n int64) interface{} { v, _ := f(n); return v })
	hold := &c02Holder{}
	e.Define("hold", hold)
	e.Define("applyAll", func(fs ...func()) {
		for _, f := range fs {
			f()
		}
	})
	fch := make(chan func(), 1)
	e.Define("fch", fch)
	e.Define("recvAndCall", func() { f := <-fch; f() })
	e.Define("applyMap", func(m map[string]func()) {
		for _, f := range m {
			f()
		}
	})
	e.Define("applyMaker", func(mk func() func()) { mk()() })
	e.Define("sortLike", func(l []interface{}, less func(a, b interface{}) bool) {
		if len(l) >= 2 {
			less(l[0], l[1])
		}
	})
	e.Define("applyV", func(f func(int64) int64, n int64) int64 { return f(n) })
	e.Define("hsrc", make(chan int64, 1))
	e.Define("hdst", make(chan int64))
	// host functions that invoke the callback more than once / after Go-side work. The ...C forms
	// cancel the context themselves between two invocations, the ...W forms wait there until the
	// asynchronous cancellation has landed; either way every invocation after that point starts
	// with the context already cancelled.
	e.Define("retryC", func(f func() bool) {
		for i := 0; i < 3; i++ {
			if f() {
				return
			}
			if i == 0 {
				doCancel()
			}
		}
	})
	e.Define("retryW", func(f func() bool) {
		for i := 0; i < 3; i++ {
			if f() {
				return
			}
			if i == 0 {
				<-ctx.Done()
			}
		}
	})
	e.Define("eachC", func(l []interface{}, f func(interface{})) {
		for i, x := range l {
			if i == 1 {
				doCancel()
			}
			f(x)
		}
	})
	e.Define("eachW", func(l []interface{}, f func(interface{})) {
		for i, x := range l {
			if i == 1 {
				<-ctx.Done()
			}
			f(x)
		}
	})
	e.Define("afterWorkC", func(f func()) { doCancel(); f() })
	e.Define("afterWorkW", func(f func()) { <-ctx.Done(); f() })
	e.Define("sortLikeC", func(l []interface{}, less func(a, b interface{}) bool) {
		for i := 0; i+1 < len(l); i++ {
			less(l[i], l[i+1])
			if i == 0 {
				doCancel()
			}
		}
	})
	e.Define("applyTwiceVE", func(f func(int64) (interface{}, error)) interface{} {
		f(1)
		doCancel()
		v, _ := f(2)
		return v
	})
	hold.between = doCancel
	c02DefineR5(e, ctx, doCancel)

	if prelude != "" {
		if po := ank.Exec(e, prelude); po.Err != nil || po.Panicked {
			c.Inconclusive("prelude-failed", ank.ErrText(po.Err)+po.PanicVal, input)
			return
		}
	}
	var o ank.Out
	done := make(chan struct{})
	var wg sync.WaitGroup
	wg.Add(1)
	go func() {
		defer wg.Done()
		o = c02Exec(ctx, e, src)
		close(done)
	}()
	if !cc.sync {
		if guarded && !waits {
			// let the program reach the part that never terminates (or end by itself) first. The
			// expiry only schedules the cancel: a program cancelled earlier than hoped is still a
			// running program, and no verdict depends on which of the three happened
			enterWait := 100 * time.Millisecond
			if core.announces {
				enterWait = 30 * time.Second
			}
			select {
			case <-done:
			case <-enteredCh:
			case <-time.After(enterWait):
			}
		}
		time.Sleep(delay)
		doCancel()
	}
	// wait for the cancel (sync mode) — bounded; the programs tick within microseconds
	for i := 0; atomic.LoadInt32(&cancelled) == 0 && i < 20000; i++ {
		select {
		case <-done:
			i = 20000
		default:
			time.Sleep(100 * time.Microsecond)
		}
	}
	if atomic.LoadInt32(&cancelled) == 0 {
		// the k-th tick never happened: the program ended (or failed) before the cancel
		select {
		case <-done:
			c.Eval(desc, false)
			c.Tag("not-running-at-cancel")
			if o.Err != nil && !strings.Contains(src, "callback") {
				c.Tag("ended-early:" + ank.AbstractMsg(o.Err.Error()))
			}
			return
		default:
		}
		doCancel()
	}
	cpu0 := procCPU()
	cancelledAt := time.Now() // for the text of a report only
	returned := false
	select {
	case <-done:
		returned = true
	case <-time.After(4 * time.Second):
	}
	if !returned && cc.deep != "" {
		// phase deep runs four workers with large stacks side by side: on a busy machine 4 s of
		// wall clock can be a fraction of a second of CPU. Keep waiting until this process has
		// consumed 3 s of CPU since the cancel (the unchanged tree unwinds 100000 pending calls in
		// 0.02-0.3 s) - or, as a backstop that yields "inconclusive" below, for a minute.
		for i := 0; i < 560 && !returned && procCPU()-cpu0 < 3.0; i++ {
			select {
			case <-done:
				returned = true
			case <-time.After(100 * time.Millisecond):
			}
		}
	}
	nontrivial := atomic.LoadInt64(&ticks) > 0 || core.blocked || core.ticks == 0
	if guarded && atomic.LoadInt32(&enteredFlag) == 0 {
		nontrivial = false
	}
	c.Eval(desc, nontrivial)
	c.Events(int(atomic.LoadInt64(&ticks)))
	c.Tag("core:"+core.name, "mode:"+map[bool]string{true: "sync", false: "async"}[cc.sync])
	for _, w := range cc.wrappers {
		c.Tag("wrapper:" + c02Wrappers[w].name)
	}
	wsig := "none"
	if len(cc.wrappers) > 0 {
		wsig = c02Wrappers[cc.wrappers[len(cc.wrappers)-1]].name
		// the construct that matters for a swallowed interrupt is the outermost one that can swallow
		for _, w := range cc.wrappers {
			n := c02Wrappers[w].name
			if strings.HasPrefix(n, "coalesce") || strings.HasPrefix(n, "callback") || strings.HasPrefix(n, "chan-recv") || strings.HasPrefix(n, "finally-after-") {
				wsig = n
			}
		}
	}
	kind := "spin"
	if core.blocked {
		kind = "blocked"
	}
	if !returned {
		if cc.deep != "" {
			// the interruption has to travel out of tens of thousands of pending calls: one signature
			// for "that takes for ever", whatever is wrapped around
			wsig = "deep-recursion"
		}
		// classify from goroutine states (two samples) and CPU time since the cancel
		waited := "4 s"
		if cc.deep != "" {
			waited = fmt.Sprintf("%.0f s", time.Since(cancelledAt).Seconds())
		}
		s1 := c02Stacks()
		time.Sleep(300 * time.Millisecond)
		s2 := c02Stacks()
		burn := procCPU() - cpu0
		st1, st2 := c02Classify(s1), c02Classify(s2)
		detail := fmt.Sprintf("the call had not returned "+waited+" after cancel() returned; interpreter goroutine state: %s / %s; process CPU since cancel: %.2f s; probe events after cancel: %d", st1, st2, burn, atomic.LoadInt64(&after))
		switch {
		case st1 == "host-call" && st2 == "host-call":
			c.Excluded("parked-inside-one-host-call")
		case st1 == "parked-in-vm" && st2 == "parked-in-vm":
			c.Violation("not-stopped:"+kind+":parked-in-vm:"+wsig, detail, input)
		case burn >= 1.5 || atomic.LoadInt64(&after) > 1000:
			c.Violation("not-stopped:"+kind+":still-running:"+wsig, detail, input)
		default:
			c.Inconclusive("no-return-unclassified", detail, input)
		}
		// the stuck goroutine would poison later cases: end this worker
		c.Bail()
		return
	}
	wg.Wait()
	// let script goroutines notice the cancellation before the post-cancel count is read
	for i := 0; i < 200 && runtime.NumGoroutine() > 3; i++ {
		time.Sleep(200 * time.Microsecond)
	}
	if o.Panicked {
		c.Violation(o.PanicSig, "panic: "+o.PanicVal, input)
		return
	}
	errText := ank.ErrText(o.Err)
	if guarded && atomic.LoadInt32(&enteredFlag) == 0 && errText != "execution interrupted" {
		// the program never reached its never-terminating part: it ended by itself (the statement
		// leaves open whether, say, a finally block runs after a catch block that returned), at an
		// instant unrelated to the cancel. Had it called entered(), only the interruption could
		// have ended it, and any other outcome is judged below.
		c.Tag("not-running-at-cancel", "ended-before-core")
		return
	}
	if errText != "execution interrupted" {
		c.Violation("swallowed:"+kind+":"+wsig, fmt.Sprintf("after the cancel the call returned (%s, error %q) instead of the error \"execution interrupted\"", ank.Render(o.Val), errText), input)
		return
	}
	budget := int64(2*core.ticks + 2 + len(cc.wrappers))
	if a := atomic.LoadInt64(&after); a > budget {
		c.Violation("ran-on:"+kind+":"+wsig, fmt.Sprintf("%d probe events were executed after cancel() had returned (budget %d): the script carried on", a, budget), input)
		return
	}
	c.Count("post_cancel_events", int(atomic.LoadInt64(&after)))
	if c.WantSample() {
		c.Sample(map[string]interface{}{"case": desc, "program": src, "ticks": ticks, "ticks_after_cancel": after, "error": errText})
	}
}

//go:noinline
func c02Exec(ctx context.Context, e *env.Env, src string) ank.Out {
	return ank.ExecCtx(ctx, e, src)
}

func c02Stacks() string {
	buf := make([]byte, 1<<20)
	return string(buf[:runtime.Stack(buf, true)])
}

// c02Classify finds the goroutine executing the script (the one with c02Exec
// in its stack) and reports where it is.
func c02Classify(dump string) string {
	for _, g := range strings.Split(dump, "\n\n") {
		if !strings.Contains(g, "main.c02Exec") {
			continue
		}
		head := g
		if i := strings.Index(g, "\n"); i > 0 {
			head = g[:i]
		}
		parked := strings.Contains(head, "[select") || strings.Contains(head, "[chan ") || strings.Contains(head, "[semacquire") || strings.Contains(head, "[sync.") || strings.Contains(head, "[sleep")
		// innermost non-runtime, non-reflect frame
		lines := strings.Split(g, "\n")
		inner := ""
		for _, ln := range lines[1:] {
			if strings.HasPrefix(ln, "\t") {
				continue
			}
			if strings.HasPrefix(ln, "runtime.") || strings.HasPrefix(ln, "reflect.") || strings.HasPrefix(ln, "internal/") || strings.HasPrefix(ln, "sync.") || strings.HasPrefix(ln, "time.") {
				continue
			}
			inner = ln
			break
		}
		switch {
		case parked && strings.HasPrefix(inner, "github.com/mattn/anko/vm"):
			return "parked-in-vm"
		case parked && strings.HasPrefix(inner, "main."):
			return "host-call"
		case parked:
			return "parked-elsewhere:" + inner
		default:
			return "running"
		}
	}
	return "not-found"
}

var c02ContendedForms = []string{
	"for v in ch { tick() }",
	"func w() { for v in ch { tick() } }\nw()",
	"for { v = <- ch; tick() }",
	"for { v, ok = <- ch; tick() }",
	"for { tick(); <- ch }",
	"go func() { for v in ch { tick() } }()\nfor v in ch { tick() }",
}

// c02Contended: the script's channel operations compete with other consumers
// of the same buffered channel; after the feed stops the script is blocked and
// the cancellation must still end the call.
func c02Contended(c *wk.Case) {
	old := runtime.GOMAXPROCS([]int{2, 4, 16}[c.Rng.Intn(3)])
	defer runtime.GOMAXPROCS(old)
	for trial := 0; trial < 150; trial++ {
		form := c02ContendedForms[c.Rng.Intn(len(c02ContendedForms))]
		capN, stealers, feed := 1+c.Rng.Intn(3), 1+c.Rng.Intn(2), 2+c.Rng.Intn(14)
		desc := fmt.Sprintf("contended<%s>:cap%d:stealers%d", form, capN, stealers)
		input := map[string]interface{}{"program": form, "case": desc, "feed": feed}
		c.Begin(input)
		base := runtime.NumGoroutine()
		ch := make(chan int64, capN)
		var ticks int64
		e := ank.NewCoreEnv()
		e.Define("ch", ch)
		e.Define("tick", func() { atomic.AddInt64(&ticks, 1) })
		ctx, cancel := context.WithCancel(context.Background())
		var o ank.Out
		done := make(chan struct{})
		go func() {
			o = c02Exec(ctx, e, form)
			close(done)
		}()
		stop := make(chan struct{})
		var wg sync.WaitGroup
		for i := 0; i < stealers; i++ {
			wg.Add(1)
			go func() {
				defer wg.Done()
				for {
					select {
					case <-stop:
						return
					case <-ch:
					default:
						runtime.Gosched()
					}
				}
			}()
		}
		ended := false
		for i := 0; i < feed && !ended; i++ {
			select {
			case ch <- int64(i):
			case <-done:
				ended = true
			}
		}
		for i := 0; len(ch) > 0 && i < 1000000; i++ {
			runtime.Gosched()
		}
		close(stop)
		wg.Wait()
		cancel()
		cpu0 := procCPU()
		returned := false
		select {
		case <-done:
			returned = true
		case <-time.After(3 * time.Second):
		}
		c.Eval(desc, !ended)
		c.Events(int(atomic.LoadInt64(&ticks)))
		c.Tag("core:range-chan-contended", "mode:async")
		if !returned {
			s1 := c02Stacks()
			time.Sleep(300 * time.Millisecond)
			s2 := c02Stacks()
			st1, st2 := c02Classify(s1), c02Classify(s2)
			detail := fmt.Sprintf("the call had not returned 3 s after cancel() returned, with the channel empty and nothing sending; interpreter goroutine state: %s / %s; process CPU since cancel: %.2f s", st1, st2, procCPU()-cpu0)
			if st1 == "parked-in-vm" && st2 == "parked-in-vm" {
				c.Violation("not-stopped:blocked:parked-in-vm:contended-channel", detail, input)
			} else {
				c.Inconclusive("no-return-unclassified", detail, input)
			}
			close(ch)
			c.Bail()
			return
		}
		if o.Panicked {
			c.Violation(o.PanicSig, "panic: "+o.PanicVal, input)
			return
		}
		if et := ank.ErrText(o.Err); et != "execution interrupted" {
			c.Violation("swallowed:blocked:contended-channel", fmt.Sprintf("after the cancel the call returned error %q instead of \"execution interrupted\"", et), input)
			return
		}
		// script goroutines of this trial see the cancellation too
		for i := 0; i < 200 && runtime.NumGoroutine() > base; i++ {
			time.Sleep(200 * time.Microsecond)
		}
	}
}
