package main

// C13, round 7: phase "cells" (race build).
//
// The bindings of the other stress phases are plain numbers and strings. A host - and the VM,
// for every `r = make(T)` - also binds ADDRESSABLE cells: a struct, an array, a number or an
// interface cell made with reflect.New(T).Elem(). An implementation may keep such a cell and
// store into it, or replace the table entry; either way "every operation takes effect
// atomically" and "no data race inside the environment" must hold for them too, and a multi-word
// value is where a missing lock shows as a TORN value that no writer ever wrote.
//
// Single-writer lanes: writer w is the only goroutine that ever writes the symbols s<w> (struct
// cell), a<w> (array cell), i<w> (interface cell holding the struct), p<w> (struct bound by
// value), n<w> (number cell). It writes generation after generation, every word of generation g
// being g, through Set / SetValue / Define / DefineValue, handing over a plain value, an
// unaddressable reflect.Value or a fresh cell. What every one-at-a-time ordering fixes:
//   - a value read of a lane is one the writer wrote: all words equal (never a mix of two generations),
//   - successive reads by one goroutine never go back to an older generation,
//   - the writer reads back its own last write,
//   - a Copy / DeepCopy taken by anybody shows such a value as well, and keeps showing it.
//
// The monitor never writes through, nor reads through, a pointer obtained from Addr while writers
// are active (that would be the host racing with itself); Addr is only called.
// Nothing is decided from the clock.

import (
	"fmt"
	"reflect"
	"runtime"
	"sync"
	"sync/atomic"
	"time"

	"github.com/mattn/anko/env"

	"verifharness/internal/fw"
	"verifharness/internal/wk"
)

const c13r7Rule = " phase cells (race build): 2-4 single-writer lanes x 5 symbols bound to addressable cells and multi-word values (a 4-word struct cell, a [4]int64 cell, an interface cell holding the struct, the struct by value, a number cell); each writer stores generation after generation (every word of generation g is g) through Set, SetValue, Define and DefineValue with a plain value, an unaddressable reflect.Value or a fresh cell, and reads its own write back; 4-8 readers Get/GetValue the lanes from the scope and from a child, take Copy and DeepCopy and read those, call Addr and String. Oracle from the single writer's program order: a value read is one the writer wrote (all words equal - a mix of two generations is a torn value no ordering explains), one reader never sees a lane go back, a copy keeps what it showed. The race detector runs alongside."

const c13r7Assumption = "phase cells: the monitor neither reads nor writes through pointers obtained from Addr while writers run (a host doing so races with itself whatever the environment does); values are read only through Get/GetValue(+Interface) and through copies"

func c13r7Phase(tier string) fw.Phase {
	n := 8
	if tier == "thorough" {
		n = 200
	}
	return fw.Phase{Name: "cells", Race: true, Cases: n, Chunk: 2, TimeoutS: 900, Jobs: 4}
}

type c13r7Rec struct{ A, B, C, D int64 }

var c13r7RecType = reflect.TypeOf(c13r7Rec{})
var c13r7ArrType = reflect.TypeOf([4]int64{})

// c13r7Gen reads the generation out of a value read of a lane; torn reports a mix.
func c13r7Gen(v interface{}) (gen int64, torn bool, ok bool) {
	switch x := v.(type) {
	case c13r7Rec:
		return x.A, !(x.A == x.B && x.B == x.C && x.C == x.D), true
	case [4]int64:
		return x[0], !(x[0] == x[1] && x[1] == x[2] && x[2] == x[3]), true
	case int64:
		return x, false, true
	}
	return 0, false, false
}

func c13r7Cells(c *wk.Case) {
	procs := []int{16, 2, 4, 8}[c.Index%4]
	old := runtime.GOMAXPROCS(procs)
	defer runtime.GOMAXPROCS(old)
	root := env.NewEnv()
	shared := root.NewEnv()
	child := shared.NewEnv()
	nw := 2 + c.Rng.Intn(3)
	nr := 4 + c.Rng.Intn(5)
	gens := 300 + c.Rng.Intn(900)
	seeds := make([]int64, nw+nr)
	for i := range seeds {
		seeds[i] = c.Rng.Int63()
	}
	kinds := []string{"s", "a", "i", "p", "n"}
	value := func(kind string, g int64) interface{} {
		switch kind {
		case "a":
			return [4]int64{g, g, g, g}
		case "n":
			return g
		}
		return c13r7Rec{g, g, g, g}
	}
	// cell makes a fresh addressable cell holding generation g
	cell := func(kind string, g int64) reflect.Value {
		v := value(kind, g)
		if kind == "i" {
			var box interface{} = v
			return reflect.ValueOf(&box).Elem()
		}
		cv := reflect.New(reflect.TypeOf(v)).Elem()
		cv.Set(reflect.ValueOf(v))
		return cv
	}
	for w := 0; w < nw; w++ {
		for _, k := range kinds {
			name := fmt.Sprintf("%s%d", k, w)
			if k == "p" {
				shared.Define(name, value(k, 0))
			} else {
				shared.DefineValue(name, cell(k, 0))
			}
		}
	}
	input := map[string]interface{}{"phase": "cells", "writers": nw, "readers": nr, "generations": gens, "gomaxprocs": procs}
	c.Begin(input)
	rep := &c13r5Reporter{viol: map[string]string{}, counts: map[string]int{}}
	var writersDone int32
	var wg, wwg sync.WaitGroup
	start := make(chan struct{})
	// judge one value read of lane (kind,w); last is the reader's memory of that lane
	judge := func(local map[string]int, who, how, kind string, w int, v interface{}, err error, last *int64, exact int64) {
		name := fmt.Sprintf("%s%d", kind, w)
		if err != nil {
			rep.report("cells:"+how+":"+kind+":defined-symbol-not-found", fmt.Sprintf("%s: %s of %s fails with %v although the symbol is defined from the start and never deleted", who, how, name, err))
			return
		}
		g, torn, ok := c13r7Gen(v)
		if !ok {
			rep.report("cells:"+how+":"+kind+":foreign-value", fmt.Sprintf("%s: %s of %s yields %T %v, which its writer never stored", who, how, name, v, v))
			return
		}
		local["read:"+how+":"+kind]++
		if torn {
			rep.report("cells:"+how+":"+kind+":torn-value", fmt.Sprintf("%s: %s of %s yields %v: a mix of two generations, a value its single writer never stored (every word of a generation is the generation number)", who, how, name, v))
			return
		}
		if exact >= 0 && g != exact {
			rep.report("cells:"+how+":"+kind+":own-write-not-read-back", fmt.Sprintf("%s stored generation %d into %s last and nobody else writes it, but %s yields generation %d", who, exact, name, how, g))
		}
		if g < *last {
			rep.report("cells:"+how+":"+kind+":goes-back", fmt.Sprintf("%s: %s of %s yields generation %d after the same goroutine had read generation %d; the single writer only counts up", who, how, name, g, *last))
		}
		if g > *last {
			*last = g
			local["progress:"+kind]++
		}
	}
	for w := 0; w < nw; w++ {
		wg.Add(1)
		wwg.Add(1)
		go func(w int) {
			defer wg.Done()
			defer wwg.Done()
			defer func() {
				if r := recover(); r != nil {
					rep.recovered(r)
				}
			}()
			x := uint64(seeds[w]) | 1
			next := func(n int) int {
				x ^= x << 13
				x ^= x >> 7
				x ^= x << 17
				return int(x % uint64(n))
			}
			local := map[string]int{}
			who := fmt.Sprintf("writer %d", w)
			lasts := make([]int64, len(kinds))
			<-start
			for g := int64(1); g <= int64(gens); g++ {
				for ki, k := range kinds {
					name := fmt.Sprintf("%s%d", k, w)
					var err error
					var how string
					switch next(8) {
					case 0, 1, 2:
						how = "Set(value)"
						err = shared.Set(name, value(k, g))
					case 3:
						how = "SetValue(unaddressable)"
						err = shared.SetValue(name, reflect.ValueOf(value(k, g)))
					case 4:
						how = "SetValue(cell)"
						err = shared.SetValue(name, cell(k, g))
					case 5:
						how = "Define(value)"
						err = shared.Define(name, value(k, g))
					case 6:
						how = "DefineValue(cell)"
						err = shared.DefineValue(name, cell(k, g))
					default:
						// through the child: Set walks up to the binding
						how = "child.Set(value)"
						err = child.Set(name, value(k, g))
					}
					local["write:"+how]++
					if err != nil {
						rep.report("cells:write-fails:"+how, fmt.Sprintf("%s: %s of %s (generation %d) fails: %v", who, how, name, g, err))
						continue
					}
					if next(3) == 0 {
						v, err := shared.Get(name)
						judge(local, who, "Get", k, w, v, err, &lasts[ki], g)
					}
				}
				if g%64 == 0 {
					runtime.Gosched()
				}
			}
			rep.merge(local)
		}(w)
	}
	for r := 0; r < nr; r++ {
		wg.Add(1)
		go func(r int) {
			defer wg.Done()
			defer func() {
				if rc := recover(); rc != nil {
					rep.recovered(rc)
				}
			}()
			x := uint64(seeds[nw+r]) | 1
			next := func(n int) int {
				x ^= x << 13
				x ^= x >> 7
				x ^= x << 17
				return int(x % uint64(n))
			}
			local := map[string]int{}
			who := fmt.Sprintf("reader %d", r)
			lasts := make([][]int64, nw)
			for w := range lasts {
				lasts[w] = make([]int64, len(kinds))
			}
			<-start
			for round := 0; ; round++ {
				done := atomic.LoadInt32(&writersDone) != 0
				w := next(nw)
				ki := next(len(kinds))
				k := kinds[ki]
				name := fmt.Sprintf("%s%d", k, w)
				switch next(10) {
				case 0, 1, 2:
					v, err := shared.Get(name)
					judge(local, who, "Get", k, w, v, err, &lasts[w][ki], -1)
				case 3:
					v, err := child.Get(name)
					judge(local, who, "child.Get", k, w, v, err, &lasts[w][ki], -1)
				case 4:
					rv, err := shared.GetValue(name)
					var v interface{}
					if err == nil {
						v = rv.Interface()
					}
					judge(local, who, "GetValue", k, w, v, err, &lasts[w][ki], -1)
				case 5, 6:
					// a copy is a snapshot: every lane in it is a written value, not older than what this
					// reader saw before, and it keeps showing what it showed
					cp := shared.Copy()
					how := "Copy"
					if next(2) == 0 {
						cp = child.DeepCopy()
						how = "DeepCopy"
					}
					for ww := 0; ww < nw; ww++ {
						for kj, kk := range kinds {
							n2 := fmt.Sprintf("%s%d", kk, ww)
							v1, err := cp.Get(n2)
							judge(local, who, how+"+Get", kk, ww, v1, err, &lasts[ww][kj], -1)
							if err == nil && next(4) == 0 {
								v2, err2 := cp.Get(n2)
								if err2 != nil || !reflect.DeepEqual(v1, v2) {
									rep.report("cells:"+how+":"+kk+":copy-changes", fmt.Sprintf("%s: a %s of the scope showed %s = %v and, read again with nobody writing the copy, shows %v (error %v)", who, how, n2, v1, v2, err2))
								}
							}
						}
					}
				case 7:
					if _, err := shared.Addr(name); err != nil && k != "p" {
						// a binding made by Define/Set of a plain value is not addressable: an error is fine for
						// every lane once its writer used such a form; only count
						local["addr:error"]++
					} else {
						local["addr:ok"]++
					}
				case 8:
					if s := shared.String(); len(s) == 0 {
						rep.report("cells:String:empty", "String() of a scope holding 10-20 symbols is empty")
					}
					local["String"]++
				default:
					syms := shared.GetValueSymbols()
					if len(syms) != nw*len(kinds) {
						rep.report("cells:GetValueSymbols:count", fmt.Sprintf("%s: GetValueSymbols lists %d symbols; %d are defined from the start, none is ever added or deleted", who, len(syms), nw*len(kinds)))
					}
					local["GetValueSymbols"]++
				}
				if done {
					break
				}
				if round%32 == 31 {
					runtime.Gosched()
				}
			}
			// after the writers are done every lane shows its last generation
			for w := 0; w < nw; w++ {
				for ki, k := range kinds {
					v, err := shared.Get(fmt.Sprintf("%s%d", k, w))
					judge(local, who, "final-Get", k, w, v, err, &lasts[w][ki], int64(gens))
				}
			}
			rep.merge(local)
		}(r)
	}
	go func() { wwg.Wait(); atomic.StoreInt32(&writersDone, 1) }()
	close(start)
	c13r5Wait(c, &wg, 240*time.Second, "cells-stress-watchdog", input)
	total := rep.flush(c, "cells_ops:", input)
	c.Eval(fmt.Sprintf("cells w=%d r=%d gens=%d procs=%d seed0=%d", nw, nr, gens, procs, seeds[0]), total > 0)
	c.Tag(fmt.Sprintf("cells-gomaxprocs:%d", procs))
	if c.WantSample() {
		c.Sample(map[string]interface{}{"phase": "cells", "writers": nw, "readers": nr, "generations": gens, "gomaxprocs": procs, "operation_counts": rep.counts})
	}
}
