package main

// C01 workload, part 5 (round 6):
//   * every crash-provoking construct (the inputs of every crash seen on the
//     pinned tree, panicking Go functions, double close, send on a closed
//     channel, impossible sizes and repeat counts, types reflect refuses, nil
//     function values ...) started with `go` from every place a statement can run
//     other than the top level of the script: bodies of called literals, named
//     closures and declared functions, blocks inside them, functions two levels
//     down, deferred functions, other script goroutines (nested up to three deep),
//     module functions, closures returned / passed / stored in a module, script
//     functions called back by Go functions, catch and finally blocks. Completely
//     crossed in the "cross" phase, mixed into "fuzz" (any template, nested 1..3
//     deep), and applied to every fixed input in case 0;
//   * the "container storm": fresh child processes in which 4..16 script
//     goroutines each make a value OF THEIR OWN of a struct type that holds maps
//     and slices 0..2 struct levels down (made with make, new, through a defined
//     type, by a shared maker function, once or again in every iteration) and store
//     into its containers; no container is shared as far as the script can tell;
//   * the "import storm": a package registered by the host (numbers, strings, Go
//     functions over them, types) is imported by every goroutine for itself; some
//     goroutines store into members of the module THEY imported (through the import
//     expression itself, through a parameter, a list element, a bound name), the
//     others import the package, read members, call its functions, bind it to names.
// The oracle is the statement's: the call returns (no panic reaches the caller)
// and the hosting process stays alive. A storm child that dies with a Go fault
// report is the violation. After a storm the child runs a "canary" in a fresh
// environment that tells whether the storm's premise held (two values made from
// one type have containers of their own; a fresh import shows the registered
// values). A broken premise is NOT a violation of this property (aliasing is no
// crash): it only makes the check repeat the storm, and if the child still
// survives the case is inconclusive - the goroutines did write one Go map
// concurrently and only the schedule kept the runtime from noticing.

import (
	"errors"
	"fmt"
	"math/rand"
	"reflect"
	"strings"
	"time"

	"github.com/mattn/anko/env"

	"verifharness/internal/wk"
)

// ---- the host's package ----

const c01PkgName = "c01pkg"

// c01RegisterPkg registers the one package import() can reach in this workload:
// values a script can itself construct (numbers, strings, a boolean - no
// container, which every import would share by Go's own rules) and Go functions
// over such values, one of them panicking; the types are ones a script can write.
func c01RegisterPkg() {
	env.Packages[c01PkgName] = map[string]reflect.Value{
		"version": reflect.ValueOf(int64(1)),
		"name":    reflect.ValueOf(c01PkgName),
		"ratio":   reflect.ValueOf(1.5),
		"flag":    reflect.ValueOf(true),
		"id":      reflect.ValueOf(func(v interface{}) interface{} { return v }),
		"add":     reflect.ValueOf(func(a, b int64) int64 { return a + b }),
		"upper":   reflect.ValueOf(strings.ToUpper),
		"boom":    reflect.ValueOf(func(a interface{}) interface{} { panic(errors.New("package function panic")) }),
	}
	env.PackageTypes[c01PkgName] = map[string]reflect.Type{
		"Num": reflect.TypeOf(int64(0)),
		"Str": reflect.TypeOf(""),
		"Rec": reflect.TypeOf(struct {
			A int64
			B string
		}{}),
		"List": reflect.TypeOf([]interface{}{}),
	}
}

const c01ImportExpr = `import("` + c01PkgName + `")`

// the canary of every import storm, run in a fresh environment
const c01ImportCanary = c01ImportExpr + `.version == 1 && ` + c01ImportExpr + `.name == "` + c01PkgName + `" && ` + c01ImportExpr + `.ratio == 1.5 && ` + c01ImportExpr + `.flag == true && ` + c01ImportExpr + `.add(1, 2) == 3 && ` + c01ImportExpr + `.upper("a") == "A"`

// ---- nesting: every place a statement can run other than the top level ----

const c01NestHole = "@S@"

var c01NestForms = []string{
	"func() { @S@ }()",
	"nf = func() { @S@ }; nf()",
	"func nf() { @S@ }; nf()",
	"func nf(a) { if a { @S@ } }; nf(true)",
	"func nf() { for i = 0; i < 1; i++ { @S@ } }; nf()",
	"func nf() { for v in [1] { @S@ } }; nf()",
	"func nf() { switch 1 { case 1: @S@ } }; nf()",
	"func outer() { inner = func() { @S@ }; inner() }; outer()",
	"func outer() { func mid() { func() { @S@ }() }; mid() }; outer()",
	"func() { defer func() { @S@ }() }()",
	"defer func() { @S@ }()",
	"func() { defer func() { defer func() { @S@ }() }() }()",
	"go func() { @S@ }()",
	"go func() { go func() { @S@ }() }()",
	"func() { go func() { @S@ }() }()",
	"go func() { func() { @S@ }() }()",
	"go func() { defer func() { @S@ }() }()",
	"nf = func() { @S@ }; go nf()",
	"func() { nf = func() { @S@ }; go nf() }()",
	"module nm { func f() { @S@ } }; nm.f()",
	"module nm { func f() { @S@ } }; go nm.f()",
	"module nm { module deep { func f() { @S@ } } }; func() { nm.deep.f() }()",
	"vMod.f = func() { @S@ }; vMod.f()",
	"nf = func() { return func() { @S@ } }; nf()()",
	"func(f) { f() }(func() { @S@ })",
	"l = [func() { @S@ }]; l[0]()",
	"m = {\"f\": func() { @S@ }}; m.f()",
	"func() { try { @S@ } catch e { } }()",
	"func() { try { throw 1 } catch e { @S@ } }()",
	"func() { try { } finally { @S@ } }()",
	"for v in [1, 2] { func() { @S@ }() }",
	"gApply(func() { @S@ })",
	"go gApply(func() { @S@ })",
	"func() { gApply(func() { @S@ }) }()",
	"gSort([2, 1], func(a, b) { @S@; return true })",
	"gCbV(func(a...) { @S@; return 1 })",
	"gCb(func(a, m) { @S@; return [] })",
	"func f(n) { if n > 0 { return f(n - 1) }; @S@ }; f(3)",
}

func c01Nest(form, stmt string) string { return strings.Replace(form, c01NestHole, stmt, 1) }

// c01Hazards are statement sequences that, evaluated with nothing between them
// and the Go runtime, panic in reflect or in a called Go function (or did so on
// the pinned tree): in the default mode each is a run error of whoever runs it.
var c01Hazards = []string{
	"c = make(chan int64, 1); close(c); close(c)",
	"c = make(chan int64, 1); close(c); c <- 1",
	"c = make(chan interface); close(c); c <- nil",
	"close(gNilCh())",
	"gPanicErr(1)", "gPanicStr(1)", "gPanicVal(1)", "gPanicV(1, 2)", "gPanicV([1]...)", c01ImportExpr + ".boom(1)",
	"make([]int64, -1)", "make(chan int64, -1)", "make([]int64, 1, 0)", "make([]int64, 9223372036854775807)",
	"\"s\" * 9223372036854775807", "vStr * 4611686018427387904",
	"make(struct{a int64})", "make(map[[]string]string)", "[]struct{A int64, A string}{}", "make(chan map[TList]int64, 1)",
	"gNilFn()(1)", "x = gNilPtr(); *x = 1", "x = gNilMap(); x.k = 1",
	"gApply(func() { throw 1 })", "gApply2(func(a, b) { return \"x\" }, 1)", "gApply(gPanicErr)", "gSort([1, 2], func(a, b) { return gPanicStr(a) })",
	"gAdd(1)", "gAdd([1, \"a\"]...)", "vFunc5(1)", "range([0, 10, 0]...)", "vChan <- \"s\"", "*vPtr = vList",
	"make(type M, vMod); x = make([]M, 1)[0]; x.y = 1", "gNilErr().Error()", "m = {}; m[[1]] = 1", "vEqM == vEqM2",
	"func(" + c01ParamList(126, false) + ") { }",
}

// how a hazard gets onto a goroutine of its own; H is the hazard
var c01GoForms = []string{
	"go func() { H }()",
	"hz = func() { H }; go hz()",
	"go func() { defer func() { H }() }()",
	"go func() { func() { H }() }()",
}

// go statements that start a Go function directly (no script frame on the goroutine)
var c01GoDirect = []string{
	"go gPanicErr(1)", "go gPanicStr(1)", "go gPanicVal(1)", "go gPanicV(1, 2)", "go gPanicV([1]...)", "go gPanicV(1, [2]...)", "go " + c01ImportExpr + ".boom(1)",
	"go gAdd(1)", "go gAdd([1, \"a\"]...)", "go vFunc5(1)", "go gApply(func() { throw 1 })", "go gApply(gPanicErr)", "go range([0, 10, 0]...)", "go gNilFn()(1)", "go gApply2(func(a, b) { return \"x\" }, 1)",
	"go gSl(1)", "go toString(1, 2)", "go keys(1)", "go nil()", "go vInt()", "go vMod.nosuch()",
}

func c01GoStmts(h string) string {
	var l []string
	for _, f := range c01GoForms {
		l = append(l, strings.Replace(f, "H", h, 1))
	}
	return strings.Join(l, "; ")
}

// c01BuildCrossR6: every hazard (on goroutines of its own, in all go forms) and
// every direct go statement x every nesting form.
func c01BuildCrossR6() []string {
	var out []string
	for _, form := range c01NestForms {
		for _, h := range c01Hazards {
			out = append(out, c01Nest(form, c01GoStmts(h)))
		}
		for _, g := range c01GoDirect {
			out = append(out, c01Nest(form, g))
		}
	}
	return out
}

// c01FixedNested: every fixed input (the inputs of every crash seen on the pinned
// tree and the representatives of the generated classes) once more on a goroutine
// that a go statement inside a function body started.
func c01FixedNested() []string {
	var out []string
	for i, f := range c01Fixed {
		form := []string{"func() { go func() { @S@ }() }()", "go func() { go func() { @S@ }() }()", "func() { defer func() { go func() { @S@ }() }() }()", "gApply(func() { go func() { @S@ }() })"}[i%4]
		out = append(out, c01Nest(form, f))
	}
	return out
}

var c01GoTemplates []string

// c01NestedScript (fuzz phase): a go/defer template, a hazard, or any template on
// a goroutine of its own - nested 1..3 forms deep.
func c01NestedScript(r *rand.Rand) string {
	if c01GoTemplates == nil {
		for _, t := range c01Templates {
			if strings.Contains(t, "go ") || strings.Contains(t, "defer ") {
				c01GoTemplates = append(c01GoTemplates, t)
			}
		}
	}
	var s string
	switch x := r.Intn(10); {
	case x < 4:
		s = c01Fill(r, c01Pick(r, c01GoTemplates))
	case x < 6:
		s = strings.Replace(c01Pick(r, c01GoForms), "H", c01Pick(r, c01Hazards), 1)
	case x < 7:
		s = c01Pick(r, c01GoDirect)
	default:
		s = strings.Replace(c01Pick(r, c01GoForms), "H", c01Fill(r, c01Templates[r.Intn(len(c01Templates))]), 1)
	}
	for d := 1 + r.Intn(3); d > 0; d-- {
		s = c01Nest(c01Pick(r, c01NestForms), s)
	}
	return s
}

// templates with member stores / reads / calls through import expressions
var c01R6Templates = []string{
	c01ImportExpr, c01ImportExpr + ".version = $A", c01ImportExpr + ".add = $A", c01ImportExpr + ".x = $A", c01ImportExpr + ".$D = $A", c01ImportExpr + ".version++", c01ImportExpr + ".name += $A", c01ImportExpr + ".add($A, $B)", c01ImportExpr + ".id($A)", c01ImportExpr + ".boom($A)",
	"func(m) { m.version = $A; return m }(" + c01ImportExpr + ")", "x = [" + c01ImportExpr + "]; x[0].version = $A; x[0].version", "p = " + c01ImportExpr + "; p.version = $A; " + c01ImportExpr + ".version", "var p = " + c01ImportExpr + "; p.add = $A; p.add($B, 1)",
	"go func() { " + c01ImportExpr + ".version = $A }()", "go " + c01ImportExpr + ".add($A...)", "defer " + c01ImportExpr + ".boom($A)", "p = " + c01ImportExpr + "; make(p.Num); new(p.Rec); []p.Str{$A}; make(p.List, $B)", "p = " + c01ImportExpr + "; make(p.$D)", "make(type TP, " + c01ImportExpr + "); x = make([]TP, 1)[0]; x.version",
	c01ImportExpr + " == " + c01ImportExpr, "$A + " + c01ImportExpr, "for k, v in " + c01ImportExpr + " { }", "len(" + c01ImportExpr + ")", c01ImportExpr + "[$A]", c01ImportExpr + "()", "*" + c01ImportExpr, "delete(" + c01ImportExpr + ", \"version\")", "module mi { p = " + c01ImportExpr + " }; mi.p.version = $A; mi.p.add(1, 2)",
	"import(\"c01\" + \"pkg\").version = $A", "import($A).version = $B", "import(" + c01ImportExpr + ".name).version", "toString(" + c01ImportExpr + ")", "throw " + c01ImportExpr,
}

// in-process scripts of the goroutines phase (only the environment's own locking
// and the package registry are contended; a fatal error in the environment's
// frames is a violation by the parent's classifier)
var c01GoroutineScriptsR6 = []string{
	"done = make(chan bool, 3)\nw = func() { for i = 0; i < $N; i++ { " + c01ImportExpr + ".version = i }; done <- true }\nr = func() { n = 0; for i = 0; i < $M; i++ { p = " + c01ImportExpr + "; n = p.add(n, 1) }; done <- true }\ngo w()\ngo r()\ngo r()\n<- done\n<- done\n<- done",
	"done = make(chan bool, 2)\nstart = func() { go func() { for i = 0; i < $N; i++ { func(m, v) { m.name = v }(" + c01ImportExpr + ", \"n\") }; done <- true }() }\nstart()\nfor j = 0; j < $M; j++ { x = " + c01ImportExpr + ".name; var q = " + c01ImportExpr + " }\n<- done",
}

// ---- the container storm ----

type c01Cont struct {
	path string // member path below the value: In.M
	kind string // type text of the container
}

var c01ContTypes = []string{"map[string]int64", "map[string]int64", "map[int64]string", "map[string]interface", "map[interface]interface", "[]int64", "[]string", "[]interface"}

var c01ScalarTypes = []string{"int64", "string", "float64", "bool", "interface", "*int64"}

// c01NestedStruct writes a struct type whose fields are scalars, containers and
// (up to two levels) further structs, and lists the containers by path. mapAt
// is the depth (1 or 2) at which the chain of N fields is certain to hold a map.
func c01NestedStruct(r *rand.Rand, depth int, prefix string, conts *[]c01Cont, mapAt int) string {
	n := 1 + r.Intn(3)
	var fs []string
	for i := 0; i < n; i++ {
		name := fmt.Sprintf("%c%d", 'A'+i, depth)
		if x := r.Intn(10); x < 4 || (depth == 0 && x < 8) {
			// at the top level mostly scalars: the containers live in the nested structs
			fs = append(fs, name+" "+c01Pick(r, c01ScalarTypes))
		} else {
			t := c01Pick(r, c01ContTypes)
			fs = append(fs, name+" "+t)
			*conts = append(*conts, c01Cont{prefix + name, t})
		}
	}
	if depth == mapAt {
		name := fmt.Sprintf("M%d", depth)
		t := c01Pick(r, c01ContTypes[:5])
		fs = append(fs, name+" "+t)
		*conts = append(*conts, c01Cont{prefix + name, t})
	}
	if depth < 2 && (depth < mapAt || r.Intn(2) == 0) {
		name := fmt.Sprintf("N%d", depth)
		fs = append(fs, name+" "+c01NestedStruct(r, depth+1, prefix+name+".", conts, mapAt))
		if r.Intn(3) == 0 {
			name = fmt.Sprintf("O%d", depth)
			fs = append(fs, name+" "+c01NestedStruct(r, depth+1, prefix+name+".", conts, -1))
		}
	}
	r.Shuffle(len(fs), func(i, j int) { fs[i], fs[j] = fs[j], fs[i] })
	return "struct{" + strings.Join(fs, ", ") + "}"
}

// c01ContStores writes the statements that use container c of value v with the
// loop counter i: every one of them touches only what v holds.
func c01ContStores(r *rand.Rand, v string, c c01Cont) []string {
	p := v + "." + c.path
	var l []string
	switch c.kind {
	case "map[string]int64":
		l = []string{p + "[\"k\"] = i", p + "[toString(i % 9)] = i", "x = " + p + "[\"k\"]", p + "[\"k\"] += 1", p + "[\"c\"]++", p + ".m = i", "delete(" + p + ", toString(i % 9))", "for mk, mv in " + p + " { x = mv }", "x = len(" + p + ")"}
	case "map[int64]string":
		l = []string{p + "[i % 7] = \"v\"", p + "[i] = \"w\"; delete(" + p + ", i)", "x = " + p + "[3]", p + "[1] += \"s\"", "for mk, mv in " + p + " { x = mk }"}
	case "map[string]interface":
		l = []string{p + "[\"k\"] = [i]", p + ".m = {\"i\": i}", p + "[toString(i % 5)] = i", "x = " + p + ".k", "delete(" + p + ", \"m\")", "x = \"k\" in keys(" + p + ")"}
	case "map[interface]interface":
		l = []string{p + "[i % 5] = i", p + "[\"k\"] = \"v\"", p + "[1.5] = nil", "x = " + p + "[0]", "delete(" + p + ", i % 5)"}
	case "[]int64":
		// every append bounds the length itself: the statements are picked independently
		l = []string{p + " += i; if len(" + p + ") > 20 { " + p + " = " + p + "[:2] }", "if len(" + p + ") > 0 { " + p + "[0] = i; x = " + p + "[len(" + p + ") - 1] }", "for sv in " + p + " { x = sv }", "x = " + p + "[1:]"}
	case "[]string":
		l = []string{p + " += \"s\"; if len(" + p + ") > 20 { " + p + " = []string{} }", "if len(" + p + ") > 0 { " + p + "[0] = \"t\" }", "x = len(" + p + ")"}
	default: // []interface
		l = []string{p + " += [[i]]; if len(" + p + ") > 20 { " + p + " = [] }", p + " += i; if len(" + p + ") > 20 { " + p + " = " + p + "[:1] }", "if len(" + p + ") > 0 { " + p + "[0] = {\"i\": i} }"}
	}
	r.Shuffle(len(l), func(i, j int) { l[i], l[j] = l[j], l[i] })
	return l[:1+r.Intn(len(l))]
}

// c01ContainerStorm writes a script in which every goroutine makes its own
// value(s) of one struct type and works on the containers inside it, and the
// canary for it. No goroutine hands a value to another one: the only things they
// share are the two channels, the maker function and the type.
func c01ContainerStorm(r *rand.Rand) (src, canary string) {
	var conts []c01Cont
	typ := c01NestedStruct(r, 0, "", &conts, 1+r.Intn(2))
	workers := 4 + r.Intn(13)
	mk := "make(" + typ + ")"
	pre := ""
	switch r.Intn(5) {
	case 0:
		mk = "new(" + typ + ")"
	case 1:
		pre = "make(type TS6, make(" + typ + "))\n"
		mk = "make(TS6)"
	case 2:
		pre = "make(type TS6, make(" + typ + "))\n"
		mk = "new(TS6)"
	}
	if r.Intn(3) == 0 {
		pre += "mk6 = func() { return " + mk + " }\n"
		mk = "mk6()"
	}
	// at most 10 statements per iteration, and about 2*10^4 statements per storm: the
	// fault this looks for needs two stores to overlap, not a long run
	// (the map that is certain to sit one or two structs down is always among them)
	var stmts, must []string
	for _, c := range conts {
		l := c01ContStores(r, "s", c)
		if strings.Contains(c.path, ".M") {
			if len(l) > 4 {
				l = l[:4]
			}
			must = append(must, l...)
		} else {
			stmts = append(stmts, l...)
		}
	}
	r.Shuffle(len(stmts), func(i, j int) { stmts[i], stmts[j] = stmts[j], stmts[i] })
	stmts = append(must, stmts...)
	if len(stmts) > 10 {
		stmts = stmts[:10]
	}
	r.Shuffle(len(stmts), func(i, j int) { stmts[i], stmts[j] = stmts[j], stmts[i] })
	var body strings.Builder
	for _, s := range stmts {
		body.WriteString("\t\ttry { " + s + " } catch e { }\n")
	}
	n := 24000 / (workers * len(stmts))
	if n > 2000 {
		n = 2000
	}
	n = n/2 + r.Intn(n/2+1)
	var b strings.Builder
	fmt.Fprintf(&b, "start = make(chan bool)\ndone = make(chan int64, %d)\n%s", workers, pre)
	if r.Intn(2) == 0 {
		// one value per goroutine, used many times
		fmt.Fprintf(&b, "work = func(id, start, done) {\n\tvar s = %s\n\tvar x = 0\n\t<-start\n\tfor i = 0; i < %d; i++ {\n%s\t}\n\tdone <- id\n}\n", mk, n, body.String())
	} else {
		// a new value in every iteration
		fmt.Fprintf(&b, "work = func(id, start, done) {\n\tvar x = 0\n\t<-start\n\tfor i = 0; i < %d; i++ {\n\t\tvar s = %s\n%s%s\t}\n\tdone <- id\n}\n", n/2+1, mk, body.String(), body.String())
	}
	switch r.Intn(3) {
	case 0:
		fmt.Fprintf(&b, "for w = 0; w < %d; w++ { go work(w, start, done) }\n", workers)
	case 1: // started from inside a function body
		fmt.Fprintf(&b, "func() { for w = 0; w < %d; w++ { go work(w, start, done) } }()\n", workers)
	default: // every goroutine a literal of its own that calls the worker
		for w := 0; w < workers; w++ {
			fmt.Fprintf(&b, "go func(id, start, done) { work(id, start, done) }(%d, start, done)\n", w)
		}
	}
	b.WriteString("close(start)\n")
	fmt.Fprintf(&b, "n = 0\nfor w = 0; w < %d; w++ { <-done; n++ }\nn\n", workers)

	// the canary: two values made one after the other; what is stored into the
	// containers of the first must not show in the second
	var cb strings.Builder
	cb.WriteString(pre + "a = " + mk + "\nb = " + mk + "\nn = 0\n")
	for _, c := range conts {
		switch {
		case strings.HasPrefix(c.kind, "map[string]"):
			cb.WriteString("try { a." + c.path + "[\"canary\"] = 1 } catch e { }\n")
		case strings.HasPrefix(c.kind, "map["):
			cb.WriteString("try { a." + c.path + "[77] = \"c\" } catch e { }\n")
		default:
			cb.WriteString("try { a." + c.path + " += 1 } catch e { }\n")
		}
		cb.WriteString("n += len(b." + c.path + ")\n")
	}
	cb.WriteString("n == 0\n")
	return b.String(), cb.String()
}

// c01ImportStorm: every goroutine imports the host's package for itself; the
// writers store into members of the module they imported, the readers import,
// read, call and bind.
func c01ImportStorm(r *rand.Rand) (src, canary string) {
	workers := 4 + r.Intn(9)
	n := 60 + r.Intn(200)
	im := c01ImportExpr
	writes := []string{
		im + ".version = i",
		im + ".name = \"w\"",
		im + ".version++",
		im + ".ratio += 1",
		im + ".add = func(a, b) { return 0 }",
		"func(m, v) { m.version = v }(" + im + ", i)",
		"x = [" + im + "]; x[0].version = i",
		"func() { " + im + ".flag = false }()",
		"m = " + im + "; m.version = i; m.name = \"bound\"",
	}
	reads := []string{
		"p = " + im + "; x = p.add(x, 1)",
		"x = " + im + ".version",
		"var q = " + im + "; y = q.name",
		"y = " + im + ".upper(\"a\")",
		"p = " + im + "; y = make(p.Num); z = new(p.Rec)",
		"y = " + im + ".id([i])",
		"func(m) { y = m.ratio }(" + im + ")",
		"y = toString(" + im + ")",
	}
	pick := func(l []string) string {
		r.Shuffle(len(l), func(i, j int) { l[i], l[j] = l[j], l[i] })
		var b strings.Builder
		for _, s := range l[:1+r.Intn(3)] {
			b.WriteString("\t\ttry { " + s + " } catch e { }\n")
		}
		return b.String()
	}
	var b strings.Builder
	fmt.Fprintf(&b, "start = make(chan bool)\ndone = make(chan int64, %d)\n", workers)
	fmt.Fprintf(&b, "writer = func(id, start, done) {\n\tvar x = 0\n\tvar m = nil\n\t<-start\n\tfor i = 0; i < %d; i++ {\n%s\t}\n\tdone <- id\n}\n", n, pick(writes))
	fmt.Fprintf(&b, "reader = func(id, start, done) {\n\tvar x = 0\n\tvar y = nil\n\tvar z = nil\n\tvar p = nil\n\t<-start\n\tfor i = 0; i < %d; i++ {\n%s\t}\n\tdone <- id\n}\n", n, pick(reads))
	nw := 1 + r.Intn(2)
	starter := "for w = 0; w < %d; w++ { if w < %d { go writer(w, start, done) } else { go reader(w, start, done) } }\n"
	if r.Intn(2) == 0 {
		starter = "func() { " + strings.TrimSuffix(starter, "\n") + " }()\n"
	}
	fmt.Fprintf(&b, starter, workers, nw)
	b.WriteString("close(start)\n")
	fmt.Fprintf(&b, "n = 0\nfor w = 0; w < %d; w++ { <-done; n++ }\nn\n", workers)
	return b.String(), c01ImportCanary
}

// Defects of the pinned tree (HEAD 987cd31) reported in
// /tmp/strengthen/C01-r6-genuine.md. While a constant is true exactly the input
// class named in its comment is kept out of the generated domain; flip it to
// false once /repo is repaired.

// c01PendingFix_moduleEqual: comparing two modules (m == n, m != n, m in [n],
// switch m { case n: }, [m] == [n], {"k": m} == {"k": n}) goes through
// reflect.DeepEqual, which follows the *env.Env pointers and iterates the
// modules' tables without their locks; a script goroutine that assigns a member
// of one of the modules at that moment (properly locked on its side) ends the
// host with "fatal error: concurrent map iteration and map write" (vm.equal,
// vm/vm.go). Excluded: the comparing statements of the module storm.
const c01PendingFix_moduleEqual = false

// c01PendingFix_moduleDeref: *m on a module yields the env.Env struct VALUE (a
// shallow copy: own mutex, the module's live tables); formatting or comparing
// that value (toString(*m), "" + *m, [*m] == [*n]) walks the tables without the
// module's lock, with the same fatal error under a concurrent member store
// (vm invokeDerefExpr); a store through it (*m = *n, vm invokeLetDerefExpr)
// overwrites the module's lock word: "fatal error: sync: Unlock of unlocked
// RWMutex" in a concurrent member store. Excluded: the dereferencing statements
// of the module storm.
const c01PendingFix_moduleDeref = false

// c01ModuleStorm: two modules with equal tables are used by every goroutine:
// the writers assign members (the environment's own locking), the readers read,
// bind, print, compare and dereference the modules. A module is a scope of the
// environment - its members are variables, which script goroutines may share -
// not a container of the script.
func c01ModuleStorm(r *rand.Rand) (src, canary string) {
	workers := 4 + r.Intn(9)
	n := 300 + r.Intn(900)
	writes := []string{"sm.a = i % 2", "sm.c = 0", "sn.b = 0", "sm.a = 0; sn.a = 0", "sm.c++; sm.c--", "sm.d = i; delete(\"nosuch\")"}
	reads := []string{"x = sm.a + sn.a", "x = toString(sm)", "x = \"\" + sn", "var y = sm; x = y.a", "x = typeOf(sm) == typeOf(sn)", "x = sm.f()", "x = [sm, sn]; x = len(x)", "x = {sm: 1}[sn]"}
	if !c01PendingFix_moduleEqual {
		reads = append(reads, "x = sm == sn", "x = sm != sn", "x = sm in [sn]", "x = sn in [1, sm, sn]", "switch sm { case sn: x = 1 }", "x = [sm] == [sn]", "x = {\"k\": sm} == {\"k\": sn}", "var y = sm; x = y == sn",
			"x = sm == sn", "x = sm in [sn]")
	}
	if !c01PendingFix_moduleDeref {
		// a store through the dereferenced module replaces the struct, lock word included
		writes = append(writes, "*sm = *sn", "*sn = *sm", "var y = *sn; *sm = y")
		reads = append(reads, "x = toString(*sm)", "x = \"\" + *sn", "var y = *sm; x = toString(y)", "x = toString([*sm])", "x = typeOf(*sm)", "x = toString(*sm)")
		if !c01PendingFix_moduleEqual {
			reads = append(reads, "x = *sm == *sn", "x = [*sm] == [*sn]", "var y = *sm; x = y in [*sn]")
		}
	}
	pick := func(l []string, k int) string {
		r.Shuffle(len(l), func(i, j int) { l[i], l[j] = l[j], l[i] })
		var b strings.Builder
		for _, s := range l[:k] {
			b.WriteString("\t\ttry { " + s + " } catch e { }\n")
		}
		return b.String()
	}
	var b strings.Builder
	fmt.Fprintf(&b, "start = make(chan bool)\ndone = make(chan int64, %d)\n", workers)
	b.WriteString("module sm { a = 0; b = 0; c = 0; func f() { return a } }\nmodule sn { a = 0; b = 0; c = 0; func f() { return a } }\n")
	b.WriteString("sn.f = sm.f\n") // one function value in both tables
	fmt.Fprintf(&b, "writer = func(id, start, done) {\n\t<-start\n\tfor i = 0; i < %d; i++ {\n%s\t}\n\tdone <- id\n}\n", n, pick(writes, 1+r.Intn(3)))
	fmt.Fprintf(&b, "reader = func(id, start, done) {\n\tvar x = nil\n\t<-start\n\tfor i = 0; i < %d; i++ {\n%s\t}\n\tdone <- id\n}\n", n, pick(reads, 2+r.Intn(4)))
	fmt.Fprintf(&b, "for w = 0; w < %d; w++ { if w %% 3 == 0 { go writer(w, start, done) } else { go reader(w, start, done) } }\n", workers)
	b.WriteString("close(start)\n")
	fmt.Fprintf(&b, "n = 0\nfor w = 0; w < %d; w++ { <-done; n++ }\nn\n", workers)
	return b.String(), ""
}

// c01RunStormR6 runs one container, import or module storm. A child that dies is judged
// by c01RunStormIn (violation / excluded / inconclusive). A child that survives
// although its canary shows that the goroutines did work on one Go container is
// run again (the fault needs two writers to overlap); if it keeps surviving the
// case is inconclusive, never a violation: aliasing alone is no crash.
func c01RunStormR6(c *wk.Case) {
	var src, canary, kind string
	switch x := c.Rng.Intn(10); {
	case x < 4:
		src, canary = c01ContainerStorm(c.Rng)
		kind = "container"
	case x < 8:
		src, canary = c01ImportStorm(c.Rng)
		kind = "import"
	default:
		src, canary = c01ModuleStorm(c.Rng)
		kind = "module"
	}
	procs := []int{4, 8, 16}[c.Rng.Intn(3)]
	c.Tag("storm6:" + kind)
	for attempt := 0; attempt < 3; attempt++ {
		out, returned := c01RunStormIn(c, c01StormIn{Src: src, Procs: procs, Canary: canary})
		if !returned || out.Panicked {
			return
		}
		if out.Err != "" {
			// the storm script is written to run to its end: nothing was contended
			c.Inconclusive("storm6-script-error:"+kind, out.Err, src)
			return
		}
		if !out.CanaryRan || out.CanaryOK {
			return
		}
		c.Tag("storm6:premise-broken:" + kind)
		procs = 16
	}
	c.Inconclusive("storm6-premise-broken-child-survived:"+kind, "the canary shows that what every goroutine made / imported for itself is one Go container, yet three children survived the storm", src+"\n# canary\n"+canary)
}

// c01RunGoroutinesR6: the in-process import scripts of the goroutines phase.
func c01RunGoroutinesR6(c *wk.Case) {
	for rep := 0; rep < 2; rep++ {
		n1, n2 := 50+c.Rng.Intn(150), 50+c.Rng.Intn(150)
		tpl := c01GoroutineScriptsR6[c.Rng.Intn(len(c01GoroutineScriptsR6))]
		src := strings.ReplaceAll(strings.ReplaceAll(tpl, "$N", fmt.Sprint(n1)), "$M", fmt.Sprint(n2))
		c01RunOne(c, src, 3*time.Second)
	}
}

const c01RuleR6 = " Round 6: the host registers one package (numbers, strings, a boolean, Go functions over such values incl. a panicking one, four types) that import() can reach; templates store into / read / call / compare / iterate members through import expressions. Every fuzz case adds 6 scripts that put a go/defer template, a crash-provoking statement sequence on a goroutine of its own, or any template on a goroutine of its own inside 1..3 nested contexts drawn from 38 (called literals, closures, declared functions, blocks in them, two levels down, deferred functions, script goroutines nested up to three deep, module functions, closures returned/passed/stored, callbacks from Go functions, catch/finally blocks, recursion); case 0 also runs every fixed input on a goroutine that a go statement inside a function body / goroutine / deferred function / callback started. Phase cross additionally enumerates 38 crash-provoking statement sequences (double close, send on closed channel, close of a nil channel, panicking Go functions of the environment and of the package, impossible sizes and repeat counts, types reflect refuses, nil function/pointer/map results, failing callbacks, wrong argument counts, uncomparable operands, 126 parameters) x 4 ways to start them with go, and 21 go statements that start a Go function directly, x all 38 contexts. Phase goroutines additionally runs per case one more storm in a fresh child: either 4..16 goroutines that each make values of their own (make, new, through a defined type, through a shared maker function; once or in every iteration) of a generated struct type holding maps and slices 0..2 struct levels down and store into / read / delete from / iterate those containers, or 4..12 goroutines that each import the host's package for themselves, 1..2 of them storing into members of the module they imported (through the import expression, a parameter, a list element, a bound name) while the others import, read, call, bind and make values of its types, or 4..12 goroutines of which every third assigns members of two modules with equal tables while the others read members, bind, print, take the type of and use as map keys the same two modules (comparing and dereferencing them is pending a repair of the pinned tree); plus two in-process scripts of the import kind."

var c01AssumptionsR6 = []string{
	"module storm: the two modules are shared by all its goroutines on purpose - a module is a scope of the environment, its members are variables protected by the environment's own lock, not a script container; a child that dies there is a violation like in the scope storm",
	"pending repairs of the pinned tree (c01PendingFix_module* constants in c01_r6.go, /tmp/strengthen/C01-r6-genuine.md): comparing two modules (==, !=, in, switch, inside compared lists/maps) and dereferencing a module (*m read, formatted, compared, stored through) are kept out of the module storm until /repo is repaired",
	"the host's package holds no container value (every import would share it by Go's own rules) and its functions keep no state: what a goroutine imports is its own as far as a script can tell, so a child that dies with 'fatal error: concurrent map ...' in an import storm is a violation like in every other storm",
	"container storms: a struct value that make/new returned to one goroutine (or that a function called by that goroutine returned) is that goroutine's own, with every container make initialised in it; the goroutines never pass such a value or one of its containers on. Channels inside the structs are not used (an unbuffered channel of one's own only blocks)",
	"the canary run after a storm (two values made one after the other share no container; a fresh environment's import shows the registered values) only decides whether a surviving storm is repeated and, if three children survive with a broken premise, reported as inconclusive; aliasing is no crash and never a violation of this property",
	"a go statement nested in functions/goroutines is given the same time to finish as one at top level (the case waits for the goroutine count to fall back, bounded by iterations not by a verdict): a panic that arrives later is still attributed to this worker, possibly to the next input in flight",
}

func init() {
	c01Templates = append(c01Templates, c01R6Templates...)
	c01Operands = append(c01Operands, c01ImportExpr, c01ImportExpr+".version", c01ImportExpr+".add", c01ImportExpr+".boom", "\""+c01PkgName+"\"")
	c01SoupTokens = append(c01SoupTokens, c01ImportExpr, ".version", "\""+c01PkgName+"\"")
	c01Fixed = append(c01Fixed,
		"func() { go func() { c = make(chan int64, 1); close(c); close(c) }() }()",
		"start = func() { go gPanicStr(1) }; start()",
		"func outer() { inner = func() { go func() { c = make(chan int64); close(c); c <- 1 }() }; inner() }; outer()",
		"go func() { go gPanicErr(1) }()", "gApply(func() { go gPanicVal(1) })", "func() { defer func() { go gPanicV(1) }() }()",
		c01ImportExpr+".version = 5; "+c01ImportExpr+".version", "go "+c01ImportExpr+".boom(1)", "func() { go "+c01ImportExpr+".boom(1) }()")
}
