package main

// C05, round-5 extensions:
//
//  1. `-` between a float64 and a string (c05BinAnyFloat, c05MinusStringFloat):
//     the statement fixes the kind of the outcome only.
//  2. phase "history" (c05History): the tables of the statement are computed
//     again AFTER programs that tried to write to integer operator results
//     (through pointers taken of them, through names, list elements and map
//     members bound to them, through host functions) - in the same environment,
//     in fresh environments of the same process, and as a complete sweep of the
//     small-value range. The reference stays Go's arithmetic: "no result
//     depends on operand magnitude", for all programs.

import (
	"fmt"
	"reflect"
	"strconv"
	"strings"

	"github.com/mattn/anko/env"

	"verifharness/internal/ank"
	"verifharness/internal/wk"
)

// c05BinAnyFloat: one operand is a float64 of unstated value ('F'). "+ - * are
// carried out in float64 as soon as one operand is a float" and "/ always yields
// the float64 quotient": with a number on the other side the outcome is again a
// float64 of unstated value; `F - string` likewise. Everything else (string
// concatenation of an unknown number, comparisons whose truth value is unknown,
// the integer-only operators) is not judged.
func c05BinAnyFloat(op string, x, y c05Val) c05Res {
	other := y
	if x.kind != 'F' {
		other = x
	}
	switch op {
	case "+", "*", "/":
		if other.kind != 's' {
			return c05Res{v: c05Val{kind: 'F'}}
		}
	case "-":
		return c05Res{v: c05Val{kind: 'F'}}
	}
	return c05Res{unspec: true}
}

// strings of the `-` table besides c05Strings: spellings of numbers in several
// notations and near-numbers (what number they count as is not stated; the
// outcome is a float64 whatever they count as)
var c05MinusStrings = []string{"10", "2.5", "-3", "1e3", " 7", "0x10", "1e400", "NaN", "inf", "4095", "9007199254740993", "abc"}

// c05MinusStringFloat: s - y and y - s for a string s and a float y, operands as
// literals, variables and container elements. lit/defs spell y (a variable for
// the values without a literal).
func c05MinusStringFloat(c *wk.Case, e *env.Env, sv, y c05Val, defs map[string]interface{}, lit string) {
	if y.kind != 'f' {
		return
	}
	q := strconv.Quote(sv.s)
	wl, wr := c05Bin("-", sv, y), c05Bin("-", y, sv)
	c05Check(c, e, q+" - "+lit, wl, "-:string,float", defs)
	c05Check(c, e, lit+" - "+q, wr, "-:float,string", defs)
	vars := map[string]interface{}{"y": y.goValue(), "s": sv.s}
	c05Check(c, e, "s - y", wl, "-:string,float", vars)
	c05Check(c, e, "y - s", wr, "-:float,string", vars)
	cont := map[string]interface{}{"r": []interface{}{sv.s, y.goValue()}, "m": map[string]interface{}{"s": sv.s, "y": y.goValue()}}
	c05Check(c, e, "r[0] - m.y", wl, "-:string,float", cont)
	c05Check(c, e, "m.y - r[0]", wr, "-:float,string", cont)
	// below the root of a tree: the float64 outcome is an operand of the tower again
	c05Check(c, e, "1 + ("+q+" - "+lit+") * 2", c05Bin("+", c05Val{kind: 'i', i: 1}, c05Bin("*", wl.v, c05Val{kind: 'i', i: 2}).v), "-:string,float", defs)
	c05Check(c, e, "-("+lit+" - "+q+") / 4", c05Bin("/", c05Un("-", wr.v).v, c05Val{kind: 'i', i: 4}), "-:float,string", defs)
	c.Tag("op:-:string,float")
}

// c05MinusStringsExtra runs the `-` table for the strings of c05MinusStrings.
func c05MinusStringsExtra(c *wk.Case, e *env.Env, pool []c05Val) {
	for _, s := range c05MinusStrings {
		for _, y := range pool {
			if y.kind != 'f' {
				continue
			}
			defs := map[string]interface{}{}
			lit := c05Spell(y, "y", false, defs)
			c05MinusStringFloat(c, e, c05Val{kind: 's', s: s}, y, defs, lit)
		}
	}
}

// ---- phase history ----

func c05Leaf(i int64) *c05Node { return &c05Node{leaf: c05Val{kind: 'i', i: i}} }
func c05BinNode(op string, l, r *c05Node) *c05Node {
	return &c05Node{op: op, l: l, r: r}
}

// c05Producers gives expression trees whose integer result is t, one or more
// per operator of the statement (the native value comes from eval(), i.e. from
// c05Bin/c05Un, not from this construction), and trees that use such a result
// as an operand of a comparison, of a concatenation and of a float operation.
func c05Producers(c *wk.Case, t int64) []*c05Node {
	r := c.Rng
	d := int64(r.Intn(5000))
	big := int64(r.Uint64()>>2) | 1<<40
	s := int64(1 + r.Intn(20))
	m := int64(4200 + r.Intn(100000))
	if t < 0 {
		m = -m // Go's % takes the sign of the dividend
	}
	k := int64(1 + r.Intn(1000))
	ps := []*c05Node{
		c05BinNode("+", c05Leaf(t-d), c05Leaf(d)),
		c05BinNode("+", c05Leaf(t-big), c05Leaf(big)),
		c05BinNode("-", c05Leaf(t+d), c05Leaf(d)),
		c05BinNode("-", c05Leaf(d), c05Leaf(d-t)),
		c05BinNode("*", c05Leaf(t), c05Leaf(1)),
		c05BinNode("*", c05Leaf(-1), c05Leaf(-t)),
		c05BinNode("%", c05Leaf(t+m*k), c05Leaf(m)),
		c05BinNode("&", c05Leaf(t), c05Leaf(-1)),
		c05BinNode("|", c05Leaf(t), c05Leaf(0)),
		c05BinNode("|", c05Leaf(t&0x0f0f), c05Leaf(t&^0x0f0f)),
		c05BinNode(">>", c05Leaf(t<<uint(s)), c05Leaf(s)),
		c05BinNode("<<", c05Leaf(t), c05Leaf(0)),
		{op: "u-", l: c05Leaf(-t)},
		{op: "u^", l: c05Leaf(^t)},
	}
	for _, p := range []int64{2, 3, 5, 7, 64} {
		if t%p == 0 {
			ps = append(ps, c05BinNode("*", c05Leaf(t/p), c05Leaf(p)))
			break
		}
	}
	if t >= 0 {
		ps = append(ps, c05BinNode("&", c05Leaf(t|1<<50), c05Leaf(1<<50-1)))
	}
	if t&1 == 0 {
		ps = append(ps, c05BinNode("<<", c05Leaf(t>>1), c05Leaf(1)))
	}
	// the result as an operand: comparisons, concatenation, float arithmetic
	sum := func() *c05Node { return c05BinNode("+", c05Leaf(t-d), c05Leaf(d)) }
	ps = append(ps,
		c05BinNode("==", sum(), c05Leaf(t)),
		c05BinNode("<", sum(), c05Leaf(t+1)),
		c05BinNode(">", sum(), c05Leaf(t-1)),
		c05BinNode("+", &c05Node{leaf: c05Val{kind: 's', s: "n="}}, sum()),
		c05BinNode("*", sum(), &c05Node{leaf: c05Val{kind: 'f', f: 0.5}}),
		c05BinNode("/", sum(), c05Leaf(4)),
	)
	return ps
}

// c05ResultExpr spells an expression whose value is the integer operator (or
// len) result t; pre holds the statements that bind its operands. n makes the
// names unique.
func c05ResultExpr(c *wk.Case, t int64, n int, defs map[string]interface{}) (pre, expr string) {
	r := c.Rng
	lit := func(v int64) string {
		if v < 0 {
			return "(" + strconv.FormatInt(v, 10) + ")"
		}
		return strconv.FormatInt(v, 10)
	}
	sfx := strconv.Itoa(n)
	d := int64(1 + r.Intn(60))
	switch r.Intn(12) {
	case 0:
		return "", "(" + lit(t-d) + " + " + lit(d) + ")"
	case 1:
		for _, p := range []int64{2, 3, 5, 7} {
			if t%p == 0 && t != 0 {
				return "", "(" + lit(t/p) + " * " + lit(p) + ")"
			}
		}
		return "", "(" + lit(t) + " * 1)"
	case 2:
		return "", "(" + lit(t+d) + " - " + lit(d) + ")"
	case 3:
		return "x" + sfx + " = " + lit(t-d) + "; ", "(x" + sfx + " + " + lit(d) + ")"
	case 4:
		// len of a host string / of a script list (len is not judged, it is one more
		// way to come by a small integer result)
		if t >= 0 && t <= 8 && r.Intn(2) == 0 {
			return "", "len([" + strings.TrimSuffix(strings.Repeat("0, ", int(t)), ", ") + "])"
		}
		if t >= 0 && t <= 5000 {
			defs["hs"+sfx] = strings.Repeat("x", int(t))
			return "", "len(hs" + sfx + ")"
		}
		return "", "(" + lit(t) + " | 0)"
	case 5:
		return "i" + sfx + " = " + lit(t-d) + "; ", "(i" + sfx + " += " + lit(d) + ")"
	case 6:
		if r.Intn(2) == 0 {
			return "i" + sfx + " = " + lit(t-1) + "; ", "(i" + sfx + "++)"
		}
		return "i" + sfx + " = " + lit(t+1) + "; ", "(i" + sfx + "--)"
	case 7:
		return "x" + sfx + " = " + lit(d-t) + "; ", "(-x" + sfx + " + " + lit(d) + ")"
	case 8:
		if r.Intn(2) == 0 {
			return "x" + sfx + " = " + lit(^t) + "; ", "(^x" + sfx + ")"
		}
		return "x" + sfx + " = " + lit(-t) + "; ", "(-x" + sfx + ")"
	case 9:
		return "", "(" + lit(t<<uint(d%8)) + " >> " + lit(d%8) + ")"
	case 10:
		return "", "(" + lit(t&0x33) + " | " + lit(t&^0x33) + ")"
	default:
		return "", "(" + lit(t|1<<50) + " & " + lit(1<<50-1|t) + ")"
	}
}

// c05HostileStep spells one statement sequence that tries to write w where the
// operator result t was (kind says how). Whether the step is accepted and what
// it answers is not judged here: the statement says nothing about pointers. What
// it does say is that 3*4 is 12 afterwards too.
func c05HostileStep(c *wk.Case, t, w int64, n int, addrOnly bool, defs map[string]interface{}) (src, kind string) {
	r := c.Rng
	pre, ex := c05ResultExpr(c, t, n, defs)
	sfx := strconv.Itoa(n)
	ws := strconv.FormatInt(w, 10)
	if w < 0 {
		ws = "(" + ws + ")"
	}
	q := "q" + sfx
	k := r.Intn(16)
	if addrOnly {
		k = r.Intn(9)
	}
	switch k {
	case 0:
		return pre + q + " = &" + ex + "; *" + q + " = " + ws + "; *" + q, "addr-store"
	case 1:
		return pre + q + " = &" + ex + "; *" + q + " = *" + q + " + " + ws + "; *" + q, "addr-store-sum"
	case 2:
		return pre + q + " = &" + ex + "; *" + q + " += " + ws + "; *" + q, "addr-compound"
	case 3:
		return pre + q + " = &" + ex + "; *" + q + "++; *" + q, "addr-incr"
	case 4:
		return pre + "poke(&" + ex + ", " + ws + ")", "addr-host-typed"
	case 5:
		return pre + "pokeAny(&" + ex + ", " + ws + ")", "addr-host-any"
	case 6:
		return pre + "f" + sfx + " = func(p) { *p = " + ws + " }; f" + sfx + "(&" + ex + ")", "addr-func"
	case 7:
		return pre + q + " = &" + ex + "; r" + sfx + " = " + q + "; *r" + sfx + " = " + ws + "; *" + q, "addr-copy"
	case 8:
		return pre + "for j" + sfx + " = 0; j" + sfx + " < 3; j" + sfx + "++ { " + q + " = &" + ex + "; *" + q + " = " + ws + " }", "addr-loop"
	case 9:
		return pre + "v" + sfx + " = " + ex + "; " + q + " = &v" + sfx + "; *" + q + " = " + ws + "; v" + sfx, "var-addr-store"
	case 10:
		return pre + "v" + sfx + " = " + ex + "; v" + sfx + " += " + ws + "; v" + sfx + "++; v" + sfx + " = " + ws, "var-compound"
	case 11:
		return pre + "a" + sfx + " = [" + ex + ", " + ex + "]; a" + sfx + "[0] = " + ws + "; a" + sfx + "[1] += " + ws + "; " + q + " = &a" + sfx + "[1]; *" + q + " = " + ws, "list-store"
	case 12:
		return pre + "m" + sfx + " = {\"k\": " + ex + "}; m" + sfx + ".k = " + ws + "; m" + sfx + ".k++", "map-store"
	case 13:
		return pre + "f" + sfx + " = func(p) { p = " + ws + "; p++; return p }; f" + sfx + "(" + ex + ")", "param-store"
	case 14:
		return pre + "a" + sfx + ", b" + sfx + " = " + ex + ", " + ws + "; a" + sfx + ", b" + sfx + " = b" + sfx + ", a" + sfx + "; a" + sfx + "++", "swap"
	default:
		return pre + "f" + sfx + " = func() { return " + ex + " }; " + q + " = &f" + sfx + "(); *" + q + " = " + ws, "addr-call-result"
	}
}

// c05PokeAny is a host function that writes v through whatever pointer a script
// hands it (a *int64, or a pointer to an interface cell).
func c05PokeAny(p interface{}, v int64) bool {
	rv := reflect.ValueOf(p)
	if rv.Kind() != reflect.Ptr || rv.IsNil() {
		return false
	}
	el := rv.Elem()
	if !el.CanSet() {
		return false
	}
	switch el.Kind() {
	case reflect.Int64:
		el.SetInt(v)
		return true
	case reflect.Interface:
		el.Set(reflect.ValueOf(v))
		return true
	}
	return false
}

const c05SweepScript = `
for x in xs {
  chk(0, x, (x - 1) + 1)
  chk(1, x, x * 1)
  chk(2, x, -(-x))
  chk(3, x, ^(^x))
  chk(4, x, (x + 4096) - 4096)
  chk(5, x, (x << 1) >> 1)
  chk(6, x, x | 0)
  chk(7, x, x & -1)
  chk(8, x, x % 4611686018427387904)
  chk(9, x, x + 0)
  chk(10, x, (x * 3 - x) - x)
}
`

// c05Sweep: every integer of -3..4098 (handed in by the host, so that the walk
// itself does not rest on script arithmetic) is computed in eleven ways by a
// fresh environment; a host probe compares each result with x.
func c05Sweep(c *wk.Case, sigTag string, history []string) {
	xs := make([]int64, 0, 4102)
	for i := int64(-3); i <= 4098; i++ {
		xs = append(xs, i)
	}
	e := ank.NewCoreEnv()
	var bad []string
	nbad, events := 0, 0
	e.Define("xs", xs)
	e.Define("chk", func(k int64, x int64, v interface{}) {
		events++
		if g, ok := v.(int64); !ok || g != x {
			nbad++
			if len(bad) < 6 {
				bad = append(bad, fmt.Sprintf("formula %d at x=%d gave %s, native int64(%d)", k, x, ank.Render(v), x))
			}
		}
	})
	input := map[string]interface{}{"history": history, "src": c05SweepScript, "xs": "-3..4098"}
	c.Begin(input)
	o := ank.Exec(e, c05SweepScript)
	c.Eval("sweep:"+strings.Join(history, "\n"), true)
	c.Events(events)
	c.Tag("history:sweep")
	switch {
	case o.Panicked:
		c.Violation("panic:"+sigTag+":sweep", "panic: "+o.PanicVal, input)
	case o.Err != nil:
		c.Violation("error:"+sigTag+":sweep", "unexpected error "+ank.ErrText(o.Err), input)
	case nbad > 0:
		c.Violation("value:"+sigTag+":sweep", fmt.Sprintf("%d results differ from Go's after the history: %s", nbad, strings.Join(bad, "; ")), input)
	case events != len(xs)*11:
		c.Violation("value:"+sigTag+":sweep", fmt.Sprintf("the sweep made %d of %d probe calls", events, len(xs)*11), input)
	}
}

// c05History: one case = one history. A fresh environment runs 3-7 hostile
// steps against integer results (targets inside the small-value range, on its
// edges, outside it); then
//   - every target value is produced again by every operator, in the SAME
//     environment and in a FRESH one (native reference: eval() of the tree),
//   - one row of the enumerated table (operator x lhs x all rhs of the pools) is
//     recomputed in the same environment,
//   - the complete range -3..4098 is swept by a fresh environment.
//
// The worker process runs the cases of a chunk one after the other, so later
// cases also see what earlier histories of the process left behind.
func c05History(c *wk.Case, pool []c05Val) {
	r := c.Rng
	e := ank.NewCoreEnv()
	e.Define("poke", func(p *int64, v int64) { *p = v })
	e.Define("pokeAny", c05PokeAny)
	var history []string
	var targets []int64
	nsteps := 3 + r.Intn(5)
	for n := 0; n < nsteps; n++ {
		var t int64
		switch x := r.Intn(10); {
		case x < 5 || n == 0:
			t = int64(r.Intn(4097)) - 1 // the small-value range
		case x < 7:
			t = []int64{-2, -1, 0, 1, 2, 4094, 4095, 4096, 4097}[r.Intn(9)]
		case x < 8:
			t = pool[r.Intn(len(c05Ints))].i
		default:
			t = int64(r.Intn(100000)) - 50000
		}
		w := t + 1
		switch r.Intn(4) {
		case 0:
			w = int64(r.Intn(4097)) - 1
		case 1:
			w = int64(r.Uint64() >> uint(r.Intn(64)))
		}
		if w == t {
			w = t + 7
		}
		defs := map[string]interface{}{}
		src, kind := c05HostileStep(c, t, w, n, n == 0, defs)
		for k, v := range defs {
			e.Define(k, v)
		}
		c.Begin(map[string]interface{}{"history": history, "src": src})
		o := ank.Exec(e, src)
		c.Eval("hostile:"+src, true)
		history = append(history, src)
		targets = append(targets, t, w)
		switch {
		case o.Panicked:
			// not judged (pointer semantics belong to other properties), but kept visible
			c.Tag("history:step-panicked:" + kind)
		case o.Err != nil:
			c.Tag("history:step-refused:" + kind)
		default:
			c.Tag("history:step-ran:" + kind)
		}
	}
	if c.WantSample() {
		c.Sample(map[string]interface{}{"history": history})
	}
	c05HistoryCtx = history
	defer func() { c05HistoryCtx = nil }()
	fresh := ank.NewCoreEnv()
	seen := map[int64]bool{}
	for _, t := range targets {
		if seen[t] || t > 1<<40 || t < -(1<<40) {
			continue
		}
		seen[t] = true
		for _, p := range c05Producers(c, t) {
			want, ok := p.eval()
			if !ok {
				continue
			}
			var sb strings.Builder
			p.src(&sb)
			src := sb.String()
			// one signature per place of observation: which operator produced the
			// value that differs says nothing about the defect
			c05Check(c, e, src, want, "history:same-env", nil)
			c05Check(c, fresh, src, want, "history:fresh-env", nil)
			c.Tag("history:producer:" + strings.TrimPrefix(p.op, "u"))
		}
	}
	// one row of the enumerated table, operands of the pools (literals and variables)
	op := c05BinOps[r.Intn(len(c05BinOps))]
	x := pool[r.Intn(len(pool))]
	for _, y := range pool {
		want := c05Bin(op, x, y)
		ls, lok := x.literal()
		rs, rok := y.literal()
		if lok && rok {
			c05Check(c, e, "("+ls+") "+op+" ("+rs+")", want, "history:table", nil)
		}
		c05Check(c, fresh, "x "+op+" y", want, "history:table", map[string]interface{}{"x": x.goValue(), "y": y.goValue()})
	}
	c.Tag("history:table-row")
	c05Sweep(c, "history", history)
}

// c05HistoryCtx, when set, is added by c05Check to the input of a violation: the
// steps the case ran before the judged source (phase history runs one case at a
// time in a process; the concurrent phase does not use c05Check).
var c05HistoryCtx []string
