package main

// C10, round 5: statements executed more than once, and stores through targets that
// cannot be assigned.
//
// (1) Every operation of a C10 history is its own vm.Execute call, so an assignment
// statement is normally executed once per syntax tree. The operations here execute ONE
// assignment statement with a nested target - (x[i])[j] = v, x[i][j] = v, (x[i]).k1 = v,
// (x[i])[j] += 1, (x[i])[j]++, with and without parentheses around the container - several
// times with different operands: through script functions of the prelude that live as long
// as the environment and are called by many operations of a history ("shared-tree-*"), and
// through loops whose body is that statement ("stmt-loop-*"). The Go model of the k-th
// execution is the Go assignment over the values the operands have at the k-th execution:
// "in-range operations read or store exactly the addressed element".
//
// (2) A struct VALUE held by an element of an untyped list or map (`a[0] = c10mkS(ts[0:2], nil)`)
// is read-only as far as its fields go (Go: the field of a struct inside an interface or
// map element is not assignable), but the slice / map IN a field is a reference like any
// other: a[0].C[1] = v stores into the array ts shares. A store at index len through such a
// field - a[0].C[len] = v, i.e. a[0].C = append(a[0].C, v) - has nowhere to put the grown
// slice: accepted are an error that leaves every container unchanged, including the spare
// capacity that a longer slice shares, or what Go's `_ = append(a[0].C, v)` does.

import (
	"reflect"
	"sort"
	"strconv"
	"strings"
)

// c10PreludeR5: script functions whose bodies are the repeated statements. x is the root
// container (a list or a map: a reference), i selects the inner container.
const c10PreludeR5 = `
func c10ns0(x, i, j, v) { (x[i])[j] = v }
func c10ns1(x, i, j, v) { x[i][j] = v }
func c10ns2(x, i, j, v) { ((x)[i])[j] = v }
func c10ns3(x, i, j, v) { ((x[i])[j]) = v }
func c10nm0(x, i, v) { (x[i]).k1 = v }
func c10nm1(x, i, v) { x[i].k1 = v }
func c10nm2(x, i, v) { ((x[i])).k1 = v }
func c10ni0(x, i, j) { (x[i])[j] += 1 }
func c10ni1(x, i, j) { (x[i])[j]++ }
func c10ni2(x, i, j) { x[i][j] += 1 }
func c10mkS(l, e) {
  var c10s = ` + c10StructSrc + `
  c10s.C = l
  c10s.E = e
  return c10s
}`

var (
	c10SharedWriteFns  = []string{"c10ns0", "c10ns0", "c10ns1", "c10ns2", "c10ns3"}
	c10SharedMemberFns = []string{"c10nm0", "c10nm0", "c10nm1", "c10nm2"}
	c10SharedIncFns    = []string{"c10ni0", "c10ni1", "c10ni2"}
)

// selSrc: the operand that selects the inner container below the root.
func (p c10Place) selSrc() string {
	if p.sel == 'k' {
		return p.k.src
	}
	return strconv.Itoa(p.i)
}

func (p c10Place) nestedPlain() bool { return (p.sel == 'i' || p.sel == 'k') && p.sf == "" }

// opSharedWrite: `fn(root, sel, ix, v)` - the statement `(x[i])[j] = v` of the prelude
// function fn executed once more, on a slice or string below the root. The root is a
// reference, so the Go model is that of `root[sel][ix] = v` (opWrite), whatever earlier
// executions of the same statement addressed.
func (h *c10Hist) opSharedWrite(fn string, p c10Place, ix c10Idx, v c10Val) *c10Op {
	if !p.nestedPlain() {
		return nil
	}
	op := h.opWrite(p, ix, v, false)
	if op == nil {
		return nil
	}
	op.src = fn + "(" + p.root + ", " + p.selSrc() + ", " + ix.src + ", " + v.src + ")"
	op.opk, op.pk = "shared-tree-"+op.opk, "shared-tree"
	return op
}

// opSharedMapWrite: the same on a map below the root; member = the `(x[i]).k1 = v` statements.
func (h *c10Hist) opSharedMapWrite(fn string, p c10Place, k, v c10Val, member bool) *c10Op {
	if !p.nestedPlain() {
		return nil
	}
	if member {
		k = c10Str("k1")
	}
	op := h.opMapWrite(p, c10Val{src: k.src, v: k.v, tag: k.tag}, v, member, false)
	if op == nil {
		return nil
	}
	if member {
		op.src = fn + "(" + p.root + ", " + p.selSrc() + ", " + v.src + ")"
	} else {
		op.src = fn + "(" + p.root + ", " + p.selSrc() + ", " + k.src + ", " + v.src + ")"
	}
	op.opk, op.pk = "shared-tree-"+op.opk, "shared-tree"
	return op
}

// c10IncTarget: element sub of container cont holds an int64 (the only operand `+= 1` / `++`
// is generated for: int64 + 1 is int64 in Go and in the script).
func c10IncTarget(cont reflect.Value, sub c10LitSel) (reflect.Value, bool) {
	if !cont.IsValid() {
		return reflect.Value{}, false
	}
	var e reflect.Value
	switch {
	case cont.Kind() == reflect.Slice && !sub.isKey:
		if sub.idx < 0 || sub.idx >= cont.Len() {
			return e, false
		}
		e = cont.Index(sub.idx)
	case cont.Kind() == reflect.Map && sub.isKey && !cont.IsNil():
		kv := c10KeyValue(sub.key.v, cont.Type().Key())
		if !kv.Type().AssignableTo(cont.Type().Key()) {
			return e, false
		}
		e = cont.MapIndex(kv)
	default:
		return e, false
	}
	e = c10Unwrap(e)
	if !e.IsValid() || e.Type() != c10I64T || e.Int() >= 1<<41 {
		return e, false
	}
	return e, true
}

func c10IncApply(cont reflect.Value, sub c10LitSel) {
	e, ok := c10IncTarget(cont, sub)
	if !ok {
		return
	}
	nv := reflect.ValueOf(e.Int() + 1)
	if sub.isKey {
		cont.SetMapIndex(c10KeyValue(sub.key.v, cont.Type().Key()), nv)
		return
	}
	cont.Index(sub.idx).Set(nv)
}

func c10SubSrc(sub c10LitSel) string {
	if sub.isKey {
		return sub.key.src
	}
	return strconv.Itoa(sub.idx)
}

// opSharedInc: `fn(root, sel, sub)` - `(x[i])[j] += 1` / `(x[i])[j]++` executed once more on
// an int64 element that exists.
func (h *c10Hist) opSharedInc(fn string, p c10Place, sub c10LitSel) *c10Op {
	if !p.nestedPlain() {
		return nil
	}
	op, cont := h.newOp("shared-tree-increment", p, fn+"("+p.root+", "+p.selSrc()+", "+c10SubSrc(sub)+")")
	if _, ok := c10IncTarget(cont, sub); !ok {
		return nil
	}
	op.pk, op.mut = "shared-tree", true
	op.commit = func(reflect.Value) { c10IncApply(cont, sub) }
	return op
}

// c10LoopRow is one pass of a statement loop: the inner container root[sel], the element
// sub of it, the value stored (not for increments).
type c10LoopRow struct {
	p   c10Place
	sub c10LitSel
	v   c10Val
}

// opStmtLoop: one assignment statement executed once per row, in one run:
//
//	for c10q in [[sel, sub, v], ...] { (root[c10q[0]])[c10q[1]] = c10q[2] }
//
// form picks the spelling (parenthesised / plain / through a function literal made before
// the loop / C-style loop over three operand lists), inc the statement (`+= 1`, `++`).
// Every pass succeeds in the Go model (the generator draws in-range stores, map entries
// and appends within the capacity only), so the model applies the passes one after the
// other while the rows are drawn (add) and the operation demands success.
type c10StmtLoop struct {
	h    *c10Hist
	root string
	inc  bool
	rows []c10LoopRow
}

// add draws nothing: it checks that the pass is a plain success in the Go model for the
// CURRENT model state and applies it to the model at once (the next row sees its effect).
// If the live run then fails or differs, the history ends with a violation, so the early
// commit is never observed by a later operation of a healthy history.
func (l *c10StmtLoop) add(p c10Place, sub c10LitSel, v c10Val) bool {
	h := l.h
	if !p.nestedPlain() || p.root != l.root {
		return false
	}
	cont := h.mget(p)
	if !cont.IsValid() {
		return false
	}
	if l.inc {
		if _, ok := c10IncTarget(cont, sub); !ok {
			return false
		}
		c10IncApply(cont, sub)
		l.rows = append(l.rows, c10LoopRow{p, sub, v})
		return true
	}
	var op *c10Op
	switch cont.Kind() {
	case reflect.Slice, reflect.String:
		if sub.isKey || sub.idx < 0 || sub.idx > cont.Len() {
			return false
		}
		if cont.Kind() == reflect.Slice && sub.idx == cont.Len() && cont.Len() == cont.Cap() {
			return false // a growing append: its capacity is adopted from the live object, one operation at a time
		}
		op = h.opWrite(p, c10IdxInt(int64(sub.idx), "loop"), v, false)
	case reflect.Map:
		if !sub.isKey {
			return false
		}
		op = h.opMapWrite(p, c10Val{src: sub.key.src, v: sub.key.v, tag: sub.key.tag}, v, false, false)
	}
	if op == nil || op.wantErr || op.either || op.commit == nil {
		return false
	}
	op.commit(reflect.Value{})
	l.rows = append(l.rows, c10LoopRow{p, sub, v})
	return true
}

func (l *c10StmtLoop) op(form int) *c10Op {
	if len(l.rows) == 0 {
		return nil
	}
	h := l.h
	var rows, sels, subs, vals []string
	for _, r := range l.rows {
		cells := []string{r.p.selSrc(), c10SubSrc(r.sub)}
		if !l.inc {
			cells = append(cells, r.v.src)
			vals = append(vals, r.v.src)
		}
		rows = append(rows, "["+strings.Join(cells, ", ")+"]")
		sels = append(sels, r.p.selSrc())
		subs = append(subs, c10SubSrc(r.sub))
	}
	stmt := func(x, i, j, v string) string {
		t := "(" + x + "[" + i + "])[" + j + "]"
		switch form % 4 {
		case 1:
			t = x + "[" + i + "][" + j + "]"
		case 2:
			t = "((" + x + ")[" + i + "])[" + j + "]"
		}
		switch {
		case l.inc && form%2 == 0:
			return t + " += 1"
		case l.inc:
			return t + "++"
		}
		return t + " = " + v
	}
	var src string
	switch (form / 4) % 3 {
	case 0:
		src = "for c10q in [" + strings.Join(rows, ", ") + "] {\n  " + stmt(l.root, "c10q[0]", "c10q[1]", "c10q[2]") + "\n}"
	case 1:
		src = "c10f = func(x, i, j, v) { " + stmt("x", "i", "j", "v") + " }\nfor c10q in [" + strings.Join(rows, ", ") + "] {\n  c10f(" + l.root + ", c10q[0], c10q[1], "
		if l.inc {
			src += "nil)\n}"
		} else {
			src += "c10q[2])\n}"
		}
	default:
		src = "c10is = [" + strings.Join(sels, ", ") + "]\nc10js = [" + strings.Join(subs, ", ") + "]\n"
		if !l.inc {
			src += "c10vs = [" + strings.Join(vals, ", ") + "]\n"
		}
		src += "for c10n = 0; c10n < " + strconv.Itoa(len(l.rows)) + "; c10n++ {\n  " + stmt(l.root, "c10is[c10n]", "c10js[c10n]", "c10vs[c10n]") + "\n}"
	}
	op, _ := h.newOp("stmt-loop-store", c10P(l.root), src)
	if l.inc {
		op.opk = "stmt-loop-increment"
	}
	op.pk, op.mut = "stmt-loop", true
	// the model was advanced row by row; nothing left to commit
	return op
}

// ---- struct values inside untyped lists and maps ----

// c10StructElem: the value of `c10mkS(l, e)`: a struct of the first shape whose C is the
// slice l (shared storage), whose D is a fresh empty map and whose E is e.
func c10StructElem(l, e c10Val) c10Val {
	sv := reflect.New(c10StructT).Elem()
	if l.v != nil {
		sv.FieldByName("C").Set(reflect.ValueOf(l.v))
	}
	sv.FieldByName("D").Set(reflect.MakeMap(c10MapSIT))
	if e.v != nil {
		sv.FieldByName("E").Set(reflect.ValueOf(e.v))
	}
	return c10Val{"c10mkS(" + l.src + ", " + e.src + ")", sv.Interface(), "struct-value"}
}

// opPutStruct: `root[ix] = c10mkS(l, e)` / `root[k] = c10mkS(l, e)` on an untyped list or map.
func (h *c10Hist) opPutStruct(root string, ix c10Idx, k c10Val, l, e c10Val) *c10Op {
	cont := h.mget(c10P(root))
	if !cont.IsValid() || l.v == nil || reflect.TypeOf(l.v) != c10I64SlT {
		return nil
	}
	v := c10StructElem(l, e)
	var op *c10Op
	switch cont.Type() {
	case c10USliceT:
		if !ix.isInt || ix.n < 0 || ix.n > int64(cont.Len()) {
			return nil
		}
		op = h.opWrite(c10P(root), ix, v, false)
	case c10UMapT:
		if _, st, _ := c10Key(k, cont.Type().Key(), false); st != c10CvOK {
			return nil
		}
		op = h.opMapWrite(c10P(root), c10Val{src: k.src, v: k.v, tag: k.tag}, v, false, false)
		if op != nil {
			op.src = root + "[" + k.src + "] = " + v.src
		}
	}
	if op == nil || op.wantErr {
		return nil
	}
	op.opk = "struct-value-" + op.opk
	return op
}

// structElemPlace: a container field (C, D, or E when it holds a container) of a struct
// value that an element of the untyped list / map cur holds. Draws nothing when there is none.
func (g *c10Gen) structElemPlace(root string, cur reflect.Value) (c10Place, bool) {
	var ps []c10Place
	switch cur.Type() {
	case c10USliceT:
		for i := 0; i < cur.Len(); i++ {
			if e := c10Unwrap(cur.Index(i)); e.IsValid() && e.Type() == c10StructT {
				ps = append(ps, c10Place{root: root, sel: 'i', i: i})
			}
		}
	case c10UMapT:
		it := cur.MapRange()
		for it.Next() {
			if e := c10Unwrap(it.Value()); e.IsValid() && e.Type() == c10StructT {
				if kv, ok := c10ValOf(it.Key().Interface()); ok {
					ps = append(ps, c10Place{root: root, sel: 'k', k: kv})
				}
			}
		}
		sort.Slice(ps, func(i, j int) bool { return ps[i].k.src < ps[j].k.src })
	}
	if len(ps) == 0 || g.rn(100) >= 55 {
		return c10Place{}, false
	}
	p := ps[g.rn(len(ps))]
	fs := []string{"C", "C", "C", "D"}
	if e := c10Unwrap(c10Unwrap(c10Select(cur, p)).FieldByName("E")); e.IsValid() && (e.Kind() == reflect.Slice || e.Kind() == reflect.Map) {
		fs = append(fs, "E")
	}
	p.sf = fs[g.rn(len(fs))]
	return p, true
}

// nestedPlaces: every root[sel] of the profile that holds a slice, a map or a string
// (elements of untyped lists / maps, elements of typed slices of slices / maps).
func (g *c10Gen) nestedPlaces() []c10Place {
	var out []c10Place
	inner := func(e reflect.Value) bool {
		e = c10Unwrap(e)
		return e.IsValid() && (e.Kind() == reflect.Slice || e.Kind() == reflect.Map || e.Kind() == reflect.String)
	}
	for _, root := range g.names {
		cur := g.h.mget(c10P(root))
		if !cur.IsValid() {
			continue
		}
		switch cur.Kind() {
		case reflect.Slice:
			ek := cur.Type().Elem().Kind()
			if ek != reflect.Interface && ek != reflect.Slice && ek != reflect.Map {
				continue
			}
			for i := 0; i < cur.Len(); i++ {
				if ek != reflect.Interface || inner(cur.Index(i)) {
					out = append(out, c10Place{root: root, sel: 'i', i: i})
				}
			}
		case reflect.Map:
			if cur.Type() != c10UMapT {
				continue
			}
			var ks []c10Place
			it := cur.MapRange()
			for it.Next() {
				if inner(it.Value()) {
					if kv, ok := c10ValOf(it.Key().Interface()); ok {
						ks = append(ks, c10Place{root: root, sel: 'k', k: kv})
					}
				}
			}
			sort.Slice(ks, func(i, j int) bool { return ks[i].k.src < ks[j].k.src })
			out = append(out, ks...)
		}
	}
	return out
}

// incSubs: the int64 elements of cont.
func c10IncSubs(cont reflect.Value) []c10LitSel {
	var out []c10LitSel
	switch cont.Kind() {
	case reflect.Slice:
		for i := 0; i < cont.Len(); i++ {
			if _, ok := c10IncTarget(cont, c10LitSel{idx: i}); ok {
				out = append(out, c10LitSel{idx: i})
			}
		}
	case reflect.Map:
		it := cont.MapRange()
		for it.Next() {
			if kv, ok := c10ValOf(it.Key().Interface()); ok {
				s := c10LitSel{key: kv, isKey: true}
				if _, ok := c10IncTarget(cont, s); ok {
					out = append(out, s)
				}
			}
		}
		sort.Slice(out, func(i, j int) bool { return out[i].key.src < out[j].key.src })
	}
	return out
}

// storeVal: a value for a store into the inner container cont.
func (g *c10Gen) storeVal(cont reflect.Value) c10Val {
	switch cont.Kind() {
	case reflect.String:
		return c10Str(string(rune('a' + g.rn(26))))
	case reflect.Slice, reflect.Map:
		return g.valFor(cont.Type().Elem())
	}
	return g.scalar()
}

// r5Op draws one of the round-5 operations when the state allows it (nil otherwise).
func (g *c10Gen) r5Op() *c10Op {
	h := g.h
	r := g.rn(14)
	switch {
	case r < 3:
		// a struct value (slice field sharing storage with a variable) into an untyped list / map
		ln := g.pickName(c10I64SlT)
		if ln == "" {
			return nil
		}
		l, ok := g.reslice(ln)
		if !ok {
			return nil
		}
		e := c10Nil()
		if n := g.pickName(c10USliceT); n != "" && g.rn(3) == 0 {
			e, _ = g.varRef(n)
		}
		if root := g.pickName(c10USliceT); root != "" && g.rn(3) > 0 {
			cont := h.mget(c10P(root))
			return h.opPutStruct(root, c10IdxInt(int64(g.rn(cont.Len()+1)), "struct-value"), c10Val{}, l, e)
		}
		if root := g.pickName(c10UMapT); root != "" {
			return h.opPutStruct(root, c10Idx{}, c10Str(c10KeyStrs[g.rn(3)]), l, e)
		}
		return nil
	case r < 9:
		// one more execution of a statement of the prelude
		ps := g.nestedPlaces()
		if len(ps) == 0 {
			return nil
		}
		p := ps[g.rn(len(ps))]
		cont := h.mget(p)
		if !cont.IsValid() {
			return nil
		}
		if subs := c10IncSubs(cont); len(subs) > 0 && g.rn(4) == 0 {
			return h.opSharedInc(c10SharedIncFns[g.rn(len(c10SharedIncFns))], p, subs[g.rn(len(subs))])
		}
		fn := c10SharedWriteFns[g.rn(len(c10SharedWriteFns))]
		switch cont.Kind() {
		case reflect.Slice, reflect.String:
			return h.opSharedWrite(fn, p, g.idx(cont.Len()), g.storeVal(cont))
		case reflect.Map:
			if g.rn(3) == 0 {
				return h.opSharedMapWrite(c10SharedMemberFns[g.rn(len(c10SharedMemberFns))], p, c10Val{}, g.storeVal(cont), true)
			}
			return h.opSharedMapWrite(fn, p, g.key(cont), g.storeVal(cont), false)
		}
		return nil
	case r < 14:
		// a loop over one statement
		ps := g.nestedPlaces()
		if len(ps) == 0 {
			return nil
		}
		root := ps[g.rn(len(ps))].root
		var rp []c10Place
		for _, p := range ps {
			if p.root == root {
				rp = append(rp, p)
			}
		}
		l := &c10StmtLoop{h: h, root: root, inc: g.rn(4) == 0}
		for k, n := 0, 2+g.rn(3); k < n*3 && len(l.rows) < n; k++ {
			p := rp[g.rn(len(rp))]
			cont := h.mget(p)
			if !cont.IsValid() {
				continue
			}
			if l.inc {
				if subs := c10IncSubs(cont); len(subs) > 0 {
					l.add(p, subs[g.rn(len(subs))], c10Val{})
				}
				continue
			}
			switch cont.Kind() {
			case reflect.Slice, reflect.String:
				l.add(p, c10LitSel{idx: g.rn(cont.Len() + 1)}, g.storeVal(cont))
			case reflect.Map:
				k := g.key(cont)
				if _, ok := c10ValOf(k.v); ok {
					l.add(p, c10LitSel{key: k, isKey: true}, g.storeVal(cont))
				}
			}
		}
		return l.op(g.rn(12))
	}
	return nil
}

// ---- fixed histories ----

// c10FixedSharedTree: the statements of the prelude functions and of loops executed again and
// again with different operands (lists of lists, a map of maps, a list of a map and a string).
func c10FixedSharedTree(h *c10Hist, do func(*c10Op)) {
	el := func(r string, i int) c10Place { return c10Place{root: r, sel: 'i', i: i} }
	ky := func(r, k string) c10Place { return c10Place{root: r, sel: 'k', k: c10Str(k)} }
	fx := func(n int64) c10Idx { return c10IdxInt(n, "fixed") }
	do(h.opInit("a", c10USlice(c10USlice(c10Int(0), c10Int(0)), c10USlice(c10Int(0), c10Int(0)), c10USlice(c10Int(0), c10Int(0)))))
	do(h.opInit("b", c10USlice(c10USlice(c10Int(1)), c10USlice(c10Int(2)))))
	for _, fn := range []string{"c10ns0", "c10ns1", "c10ns2", "c10ns3"} {
		do(h.opSharedWrite(fn, el("a", 0), fx(1), c10Int(7)))
		do(h.opSharedWrite(fn, el("a", 1), fx(0), c10Str("w")))
		do(h.opSharedWrite(fn, el("b", 1), fx(0), c10Int(3)))
		do(h.opSharedWrite(fn, el("a", 2), fx(2), c10Int(9))) // at len: the grown list goes back into a[2]
		do(h.opSharedWrite(fn, el("b", 0), fx(5), c10Int(1))) // out of range: nothing changes
		do(h.opSharedWrite(fn, el("a", 0), fx(0), c10Nil()))
	}
	for _, fn := range c10SharedIncFns {
		do(h.opSharedInc(fn, el("b", 0), c10LitSel{idx: 0}))
		do(h.opSharedInc(fn, el("b", 1), c10LitSel{idx: 0}))
		do(h.opSharedInc(fn, el("a", 0), c10LitSel{idx: 1}))
	}
	do(h.opInit("m", c10Val{`{"k1": {"k1": 1}, "k2": {"k1": 2}, "k3": [5, 6]}`, map[interface{}]interface{}{
		"k1": map[interface{}]interface{}{"k1": int64(1)}, "k2": map[interface{}]interface{}{"k1": int64(2)},
		"k3": []interface{}{int64(5), int64(6)}}, "umap-lit"}))
	for _, fn := range []string{"c10nm0", "c10nm1", "c10nm2"} {
		do(h.opSharedMapWrite(fn, ky("m", "k1"), c10Val{}, c10Int(10), true))
		do(h.opSharedMapWrite(fn, ky("m", "k2"), c10Val{}, c10Str("s"), true))
	}
	do(h.opSharedMapWrite("c10ns0", ky("m", "k2"), c10Str("zz"), c10Int(4), false))
	do(h.opSharedMapWrite("c10ns0", ky("m", "k1"), c10Str("zz"), c10Int(5), false))
	do(h.opSharedWrite("c10ns0", ky("m", "k3"), fx(1), c10Int(8)))
	do(h.opSharedInc("c10ni0", ky("m", "k1"), c10LitSel{key: c10Str("zz"), isKey: true}))
	do(h.opSharedInc("c10ni0", ky("m", "k2"), c10LitSel{key: c10Str("zz"), isKey: true}))
	// typed inner containers: elements of make([][]int64, n) and make([]map[string]float64, n)
	do(h.opInit("ns", c10Val{"[][]int64{[]int64{1, 2}, []int64{3}}", [][]int64{{1, 2}, {3}}, "tslice-lit"}))
	do(h.opSharedWrite("c10ns0", el("ns", 0), fx(0), c10Float(7.9)))
	do(h.opSharedWrite("c10ns0", el("ns", 1), fx(0), c10Int(8)))
	do(h.opSharedWrite("c10ns0", el("ns", 1), fx(1), c10Int(9)))
	do(h.opSharedWrite("c10ns0", el("ns", 0), fx(0), c10Str("x")))
	do(h.opSharedInc("c10ni1", el("ns", 0), c10LitSel{idx: 1}))
	do(h.opSharedInc("c10ni1", el("ns", 1), c10LitSel{idx: 1}))
	// a string below the root: the rebuilt string goes back into its element
	do(h.opInit("c", c10USlice(c10Str("abc"), c10Str("xyz"), c10UMap(c10Str("k1"), c10Int(1)))))
	do(h.opSharedWrite("c10ns0", el("c", 0), fx(0), c10Str("Q")))
	do(h.opSharedWrite("c10ns0", el("c", 1), fx(3), c10Str("!")))
	do(h.opSharedMapWrite("c10ns0", el("c", 2), c10Str("k2"), c10Int(2), false))
	do(h.opSharedWrite("c10ns0", el("c", 0), fx(2), c10Str("R")))
	// loops: every spelling, stores and increments
	for form := 0; form < 12; form++ {
		l := &c10StmtLoop{h: h, root: "a"}
		l.add(el("a", 0), c10LitSel{idx: 0}, c10Int(int64(form)))
		l.add(el("a", 1), c10LitSel{idx: 1}, c10Str("p"))
		l.add(el("a", 2), c10LitSel{idx: 0}, h.ref("b"))
		l.add(el("a", 1), c10LitSel{idx: 0}, c10Float(1.5))
		do(l.op(form))
		li := &c10StmtLoop{h: h, root: "b", inc: true}
		li.add(el("b", 0), c10LitSel{idx: 0}, c10Val{})
		li.add(el("b", 1), c10LitSel{idx: 0}, c10Val{})
		li.add(el("b", 0), c10LitSel{idx: 0}, c10Val{})
		do(li.op(form))
		lm := &c10StmtLoop{h: h, root: "m"}
		lm.add(ky("m", "k1"), c10LitSel{key: c10Str("x y"), isKey: true}, c10Int(int64(form)))
		lm.add(ky("m", "k2"), c10LitSel{key: c10Int(2), isKey: true}, c10Nil())
		lm.add(ky("m", "k3"), c10LitSel{idx: 0}, c10Bool(true))
		do(lm.op(form))
	}
}

// c10FixedStructElem: struct values inside an untyped list / map whose slice field shares
// spare capacity with a longer slice: in-range stores write through, a store at index len
// cannot put the grown slice anywhere.
func c10FixedStructElem(h *c10Hist, do func(*c10Op)) {
	fx := func(n int64) c10Idx { return c10IdxInt(n, "fixed") }
	fld := func(r string, i int, f string) c10Place { return c10Place{root: r, sel: 'i', i: i, sf: f} }
	kfl := func(r, k, f string) c10Place { return c10Place{root: r, sel: 'k', k: c10Str(k), sf: f} }
	do(h.opInit("ts", c10I64Lit(1, 2, 3, 4)))
	do(h.opInit("b", c10USlice(c10Int(1), c10Int(2), c10Int(3))))
	do(h.opInit("a", c10USlice(c10Int(0), c10Int(1))))
	do(h.opInit("m", c10Val{"{}", map[interface{}]interface{}{}, "umap-lit"}))
	sl := func(n string, i, j int) c10Val {
		v := h.mget(c10P(n))
		return c10Val{n + "[" + strconv.Itoa(i) + ":" + strconv.Itoa(j) + "]", v.Slice3(i, j, v.Cap()).Interface(), "reslice"}
	}
	do(h.opPutStruct("a", fx(0), c10Val{}, sl("ts", 0, 2), sl("b", 0, 1)))
	do(h.opPutStruct("m", c10Idx{}, c10Str("k"), sl("ts", 1, 3), c10Nil()))
	do(h.opPutStruct("a", fx(2), c10Val{}, sl("ts", 0, 1), c10Nil()))
	do(h.opRead(c10P("a"), fx(0), false))
	do(h.opWrite(fld("a", 0, "C"), fx(1), c10Int(20), false)) // writes ts[1]
	do(h.opRead(c10P("ts"), fx(1), false))
	do(h.opLen(fld("a", 0, "C")))
	do(h.opWrite(fld("a", 0, "C"), fx(2), c10Int(99), false))   // at len: ts[2] stays
	do(h.opWrite(kfl("m", "k", "C"), fx(2), c10Int(98), false)) // at len: ts[3] stays
	do(h.opWrite(fld("a", 2, "C"), fx(1), c10Float(2.5), false))
	do(h.opWrite(fld("a", 0, "E"), fx(1), c10Str("e"), false)) // at len of the untyped list in E: b[1] stays
	do(h.opWrite(fld("a", 0, "E"), fx(0), c10Str("f"), false)) // writes b[0]
	do(h.opWrite(fld("a", 0, "C"), fx(2), c10Str("x"), false)) // ill-typed value
	do(h.opWrite(fld("a", 0, "C"), fx(3), c10Int(1), false))   // out of range
	do(h.opWrite(fld("a", 0, "C"), fx(2), c10Int(97), true))   // the callee appends to its own copy: ts[2] = 97 (Go)
	do(h.opMapWrite(fld("a", 0, "D"), c10Str("k1"), c10Int(5), false, false))
	do(h.opMapRead(fld("a", 0, "D"), c10Str("k1"), false, false))
	do(h.opDelete(kfl("m", "k", "D"), c10Str("k1"), false))
	do(h.opAssign("tt", kfl("m", "k", "C")))
	do(h.opWrite(c10P("tt"), fx(2), c10Int(96), false)) // a name takes the grown slice: ts[3] = 96
	do(h.opSlice("tt", fld("a", 0, "C"), c10IP(0), c10IP(1), nil, false))
	do(h.opAppend("d=", "tt", fld("a", 2, "C"), c10Int(11))) // Go's append expression: ts[1] = 11
	do(h.opRead(c10P("ts"), fx(1), false))
}
