package main

// C01 workload, part 3:
//   * unsigned integers of every width (script-built: elements of typed slices,
//     bytes of toByteSlice, make(uint..); host-bound numbers of the kinds a script
//     cannot name: uint8/uint16/uintptr/int8/int16/float32, []byte, []uint16) as
//     operands of every operator, completely crossed with every other number kind
//     in the "cross" phase and mixed into the random templates;
//   * strings with characters outside ASCII (and a host-bound string that is not
//     valid UTF-8) read, sliced and stored into at every index from -1 to
//     len(s)+1, completely enumerated in the "cross" phase;
//   * the "storm": fresh child processes in which many script goroutines,
//     released together, evaluate constructs of many distinct shapes (function
//     literals with 0..90 parameters, variadic or not, struct/map/chan/slice types)
//     for the first time in the process, sharing nothing but the two channels they
//     synchronise on.
// The oracle is the statement's: the call returns (no panic reaches the caller)
// and the hosting process stays alive.

import (
	"bytes"
	"context"
	"encoding/json"
	"fmt"
	"math/rand"
	"os"
	"os/exec"
	"regexp"
	"runtime"
	"runtime/debug"
	"strings"
	"time"

	"github.com/mattn/anko/env"

	"verifharness/internal/ank"
	"verifharness/internal/wk"
)

// Defects of the pinned tree (HEAD 80546e4) reported in
// /tmp/strengthen/C01-r4-genuine.md. While a constant is true exactly the input
// class named in its comment is kept out of the generated domain; flip it to
// false once /repo is repaired.

// c01PendingFix_nanKeyNilMap: a compound assignment / increment used as an
// expression (`a[0][nan]++`, `a[0][nan] += 1`, `x = (a[0][nan] -= 1)`) whose
// target is an entry with a NaN key of a NIL typed map reached through a
// container leaves the zero reflect.Value as the statement's value; vm.RunContext
// then panics "reflect: call of reflect.Value.Interface on zero Value"
// (vmLetExpr.go invokeLetItemMap, nil-map branch: item.MapIndex(NaN) finds
// nothing). Excluded: NaN among the keys of the $Q templates below.
const c01PendingFix_nanKeyNilMap = false

// c01PendingFix_funcOfTooMany: a function literal with 126 or more parameters
// (the variadic one counted) panics "reflect.FuncOf: too many arguments" in
// funcExpr (reflect allows 128 in+out types; the VM adds a context and two
// results). Excluded: parameter counts above 100 in c01FuncLit (mutations of the
// text can add a few more).
const c01PendingFix_funcOfTooMany = false

const (
	c01CrossSlices   = 32 // the enumerated scripts are dealt round-robin onto this many cases
	c01StormsPerCase = 1
)

const c01BadUTF8 = "\xffé\xfe" // a string need not be valid UTF-8

// c01DefineR4 binds numbers of the kinds a script cannot name itself. Values
// that could become a size or a repeat count are below 10^4 or beyond the int64
// range (see the plan's assumptions).
func c01DefineR4(e *env.Env) {
	e.Define("hU", uint(5))
	e.Define("hU8", uint8(200))
	e.Define("hU16", uint16(9999))
	e.Define("hU32", uint32(7))
	e.Define("hU64", uint64(1<<64-1))
	e.Define("hU64b", uint64(1<<63))
	e.Define("hUptr", uintptr(9))
	e.Define("hI8", int8(-128))
	e.Define("hI16", int16(7))
	e.Define("hF32", float32(1.5))
	e.Define("hBytes", []byte("añ"))
	e.Define("hU16s", []uint16{1, 65535})
	e.Define("hBadStr", c01BadUTF8)
	// Go arrays handed in by the host (a script cannot make one)
	e.Define("hArr", [3]int64{1, 2, 3})
	e.Define("hArrI", [2]interface{}{int64(1), "a"})
	e.Define("hArrU", [2]uint8{1, 255})
}

// unsigned scalar operands
var c01UintOperands = []string{"vU64s[0]", "vU64s[1]", "vU8s[1]", "vU32s[0]", "vUs[0]", "vBytes[0]", "make(uint64)", "make(uint)", "make(uint32)", "make(byte)",
	"hU", "hU8", "hU16", "hU32", "hU64", "hU64b", "hUptr", "hBytes[0]", "hU16s[1]"}

// what they are crossed with: every other number kind, and one of each non-number kind
var c01UintPartners = []string{"vInt", "vNeg", "vMax", "-9223372036854775807 - 1", "0", "-1", "97", "vFloat", "-0.5", "1e30", "\"s\"", "\"2\"", "nil", "true", "vList", "vMap", "vFunc",
	"make(int32)", "make(int)", "hI8", "hI16", "hF32", "make(float32)", "toRuneSlice(\"a\")[0]", "vTSlice[0]", "toDuration(5)"}

// containers of unsigned numbers
var c01UintContainers = []string{"hArr", "hArrI", "hArrU", "vU64s", "vU8s", "vU32s", "vUs", "vBytes", "hBytes", "hU16s", "toByteSlice(\"ab\")", "make([]uint64, 1)", "[]uint32{7}"}

// strings with multi-byte characters; the last one is host-bound and not valid UTF-8
var c01NonASCII = []string{"é", "日本", "aé", "éa", "naïve", "€5", "😀", "áb", "héllo", "ab", ""}

var c01NonASCIIOperands = []string{"vS1", "vS2", "vS3", "vS4", "vStr", "hBadStr", "\"é\"", "\"日本\"", "\"naïve\"", "\"😀\"", "toString(hBytes)", "vS2 + vS1"}

var c01BoundaryIdx = []string{"-1", "0", "1", "2", "3", "4", "5", "6", "7", "len(vS1)", "len(vS2) - 1", "len(vS2)", "len(vS3) - 1", "len(vS4) - 1", "len(vS4)", "len(hBadStr) - 1", "len(toRuneSlice(vS2))", "hU", "vU64s[1]"}

var c01NilMapKeys = []string{"1.5", "0", "\"k\"", "vFloat", "$A"}

func init() {
	if !c01PendingFix_nanKeyNilMap {
		c01NilMapKeys = append(c01NilMapKeys, "0.0/0.0", "0.0/0.0", "-(0.0/0.0)", "vFloat * (0.0/0.0)")
		c01Fixed = append(c01Fixed, "a = []map[float64]int64{nil}; nan = 0.0/0.0; a[0][nan]++", "a = []map[interface]interface{nil}; a[0][0.0/0.0] += 1",
			"a = []map[float64]int64{nil}; nan = 0.0/0.0; x = (a[0][nan] += 1)", "a = []map[float64]int64{nil}; nan = 0.0/0.0; func f() { a[0][nan]++ }; f()")
	}
	if !c01PendingFix_funcOfTooMany {
		c01Fixed = append(c01Fixed, "f = func("+c01ParamList(126, false)+") { return 1 }", "f = func("+c01ParamList(126, true)+") { return 1 }", "func big("+c01ParamList(300, false)+") { }; big(1)")
	}
	c01Operands = append(c01Operands, c01UintOperands...)
	c01Operands = append(c01Operands, "hArr", "hArrI", "hArrU", "vU64s", "vU8s", "vBytes", "hBytes", "hU16s", "hI8", "hI16", "hF32", "vS1", "vS2", "vS3", "vS4", "hBadStr", "\"日本\"", "\"é\"")
	c01NumOperands = append(c01NumOperands, c01UintOperands...)
	c01NumOperands = append(c01NumOperands, "hI8", "hI16", "hF32")
	c01Templates = append(c01Templates, c01R4Templates...)
	c01Fixed = append(c01Fixed, c01R4Fixed...)
	c01SoupTokens = append(c01SoupTokens, "hArr", "hArrI", "hU", "hU64", "hU8", "vU64s", "vBytes", "hBytes", "uint64", "byte", "vS2", "\"日本\"", "\"é\"", "[1]", "[len(vS2)-1]")
	wk.RegisterChild("c01storm", c01StormChild)
}

// $U unsigned operand, $V container of unsigned numbers, $S string with
// multi-byte characters, $X index at / next to a boundary of such a string,
// $Q key for an entry of a nil map
var c01R4Templates = []string{
	// unsigned numbers under every operator and in every position a number is used
	"$U < $A", "$A < $U", "$U <= $A", "$A <= $U", "$U > $A", "$A > $U", "$U >= $A", "$A >= $U", "$U < $U", "$U >= $U", "$U < $I", "$I <= $U", "$U > $I", "$I >= $U", "$U < $N", "$N > $U",
	"$U == $A", "$A != $U", "$U == $U", "$U + $A", "$A + $U", "$U - $A", "$A - $U", "$U * $U", "$A * $U", "$U / $A", "$A / $U", "$U % $A", "$A % $U", "$U & $A", "$A | $U", "$U << $A", "$A >> $U", "$U << $U",
	"-$U", "^$U", "!$U", "x = $U; x++; x", "x = $U; x--; x", "x = $U; x += $A", "x = $A; x -= $U", "x = $U; x *= $U", "x = $U; x /= $A", "x = $U; x &= $A", "x = $A; x |= $U",
	"$V[0]++", "$V[0] += $A", "$V[0] = $A", "$V[$U] = $U", "$V[$A]", "$V[$A:$B]", "$V[len($V)] = $A", "$V + $A", "$A + $V", "$V += $U", "for i, b in $V { b < $A }", "for b in $V { b >= $U }", "$V[0] < $V[1]", "$V[0] <= $A", "len($V)", "toString($V)", "keys($V)", "$V == $V", "gSl($V)", "gVarT($V...)",
	"vList[$U]", "vStr[$U]", "vStr[$U:$U]", "vTSlice[$U] = $U", "vList[$U:]", "make([]int64, $U)", "make(chan int64, $U)", "vEmpty * $U", "$U * vEmpty", "for i = $U; i < $U; i++ { break }", "for i = $U; i >= $A; i-- { break }",
	"switch $U { case $A: 1 }", "switch $A { case $U, $U: 1 }", "$U in [$A, $U]", "$A in $V", "{$U: 1}[$A]", "m = {}; m[$U] = 1; m[$I]", "map[uint64]string{$U: \"a\"}[$A]", "map[byte]byte{$A: $U}", "[]uint64{$A, $U}", "[]byte{$A}", "[]int64{$U}", "[]float64{$U}", "[]string{$U}",
	"go vFunc($U < $A)", "go vFunc($A >= $U)", "defer vFunc($U <= $A)", "defer vFunc($A > $U)", "if $U < $A { 1 } else { 2 }", "for ; $U > $A; { break }", "$U < $A ? 1 : 2", "[$U < $A, $A < $U]", "func() { return $U < $A }()", "x = [$U, $A]; x[0] < x[1]", "x = {\"a\": $U}; x.a <= $A",
	"toInt($U)", "toFloat($U)", "toString($U)", "toBool($U)", "toChar($U)", "toRune($U)", "toDuration($U)", "typeOf($U)", "gAdd($U, $A)", "gVarT($U, $U)", "gTyped($U, $U)", "*vPtr = $U", "vStruct.A = $U", "vChan <- $U", "vTMap.k = $U", "p = new(uint64); *p = $A; *p < $U",
	"$U ? 1 : 2", "$U && $A", "$A || $U", "$U ?? 1", "len($U)", "$U[0]", "$U.x", "$U()", "for x in $U { }", "delete(vMap, $U)", "$U <- 1", "<- $U", "*$U", "&$U", "make(type TU, $U); x = make(TU); x < $A", "make(type TU, $U); []TU{$A}[0] >= $U",
	// strings with multi-byte characters: read, slice, store at and around every boundary
	"$S[$X]", "x = $S; x[$X]", "$S[$X:]", "$S[:$X]", "$S[$X:$X]", "$S[$X:$X:$X]", "x = $S; x[$X] = $A; x", "x = $S; x[$X] = $S; x", "x = $S; x[$X] = \"\"; x", "x = $S; x[$X:$X] = $S; x", "x = $S; x[$X]++", "x = $S; x[$X] += $S; x", "x = $S; x[len(x)] = $S; x", "x = $S; x[len(x) - 1]", "x = $S; x[len(x) - 1] = \"z\"; x",
	"go vFunc($S[$X])", "defer vFunc($S[$X])", "[$S[$X], $S[$X:]]", "for c in $S { c }", "for i, c in $S { x = $S[i] }", "a = [$S]; a[0][$X] = $S; a", "m = {\"k\": $S}; m.k[$X] = $S; m", "m = {\"k\": $S}; m.k[$X]", "[]string{$S}[0][$X]", "toRuneSlice($S)[$X]", "toByteSlice($S)[$X]", "toRuneSlice($S)[$X] < $U",
	"$S * $X", "$S[$X] == $S", "$S[$X] < $A", "$S < $S", "$S + $A", "toChar($S[$X])", "toRune($S)", "toInt($S)", "len($S[$X])", "{$S: 1}[$S[$X:]]", "switch $S[$X] { case $S: 1 }", "$S[$X] in $S", "$S.x", "$S()", "func(a) { return a[$X] }($S)", "s = make(struct{B string}); s.B = $S; s.B[$X]", "vStruct.B = $S; vStruct.B[$X] = $S",
	// compound assignment to an entry of a nil typed map reached through a container
	"a = []map[float64]int64{nil}; a[0][$Q]++", "a = []map[float64]int64{nil}; a[0][$Q] += 1; a", "a = []map[float64]int64{nil}; x = (a[0][$Q] -= 1); x", "a = []map[interface]interface{nil}; a[0][$Q] += $A", "a = []map[interface]interface{nil}; a[0][$Q]--",
	"a = []map[float64]int64{nil}; func f() { a[0][$Q]++ }; f()", "a = []map[float64]int64{nil}; func f() { return a[0][$Q] *= 2 }; f()", "s = make(struct{M map[float64]float64}); s.M[$Q]++", "s = make(struct{M map[float64]float64}); x = [s.M[$Q] += $A]", "vNMap[0][$Q]++; vNMap", "x = (vNStruct.M[$Q] += 1)",
	"m = make(map[float64]int64); m[$Q]++; m[$Q] += 1; x = (m[$Q] *= 2); x", "m = map[interface]interface{}; m[$Q] = $A; m[$Q]++; m", "a = make([]map[float64]string, 2); a[1][$Q] += \"s\"; a", "a = [][]map[float64]int64{[nil]}; a[0][0][$Q]++", "a = []map[float64]int64{nil}; go vFunc(a[0][$Q]++)", "a = []map[float64]int64{nil}; [a[0][$Q]++, a[0][$Q]--]",
}

// representatives of the generated classes, run once in case 0
var c01R4Fixed = []string{
	"vU64s[0] < vU64s[1]", "a = []uint32{7}; a[0] >= 7", "b = toByteSlice(\"ab\"); b[0] > b[1]", "vBytes[0] <= 97", "3 < hU", "hU > -1", "hU8 < hU16", "hU64 >= hUptr", "hBytes[0] < 1.5", "make(uint64) <= hI8", "go vFunc(hU < 1)", "defer vFunc(1 >= hU32)",
	"\"é\"[1]", "s = \"日本\"; s[len(s)-1]", "vS2[5]", "vS2[6]", "vS3[len(vS3)]", "hBadStr[0]", "hBadStr[len(hBadStr)-1]", "go vFunc(vS1[1])", "x = vS2; x[5] = \"é\"; x", "x = vS2; x[6] = \"é\"; x", "vS2[2:5]", "vS4[4:]",
	"a = []map[float64]int64{nil}; a[0][1.5]++", "a = []map[float64]int64{nil}; x = (a[0][1.5] += 1); x",
}

func c01ParamList(n int, variadic bool) string {
	ps := make([]string, n)
	for i := range ps {
		ps[i] = fmt.Sprintf("p%d", i)
	}
	s := strings.Join(ps, ", ")
	if variadic {
		s += "..." // also with no named parameter: func(...)
	}
	return s
}

// c01HoleR4 fills the holes of this part of the workload (called by c01Hole).
func c01HoleR4(r *rand.Rand, h string) (string, bool) {
	switch h {
	case "$U":
		return c01Pick(r, c01UintOperands), true
	case "$V":
		return c01Pick(r, c01UintContainers), true
	case "$S":
		return c01Pick(r, c01NonASCIIOperands), true
	case "$X":
		return c01Pick(r, c01BoundaryIdx), true
	case "$Q":
		return c01Pick(r, c01NilMapKeys), true
	}
	return "", false
}

// c01ManyParams is the parameter count of the occasional long parameter list.
func c01ManyParams(r *rand.Rand) int {
	n := []int{7, 12, 33, 64, 100, 124, 125, 126, 127, 128, 129, 200, 300}[r.Intn(13)]
	if c01PendingFix_funcOfTooMany && n > 100 {
		// 100, not 125: a mutation may still duplicate a few parameters of the list
		n = 100
	}
	return n
}

// ---- the cross phase: complete enumerations, dealt onto c01CrossSlices cases ----

var c01CrossScripts []string

var c01BinOps = []string{"<", "<=", ">", ">=", "==", "!=", "+", "-", "*", "/", "%", "&", "|", "<<", ">>", "&&", "||", "??", "in"}

// c01Pack joins statements so that each is evaluated whatever the others
// return: try does not stand between a Go panic and the caller.
func c01Pack(out *[]string, stmts []string, per int) {
	for i := 0; i < len(stmts); i += per {
		j := i + per
		if j > len(stmts) {
			j = len(stmts)
		}
		var b strings.Builder
		for _, s := range stmts[i:j] {
			b.WriteString("try { " + s + " } catch e { }\n")
		}
		*out = append(*out, b.String())
	}
}

func c01BuildCross() []string {
	var out []string
	// (1) every unsigned operand x every operator x every partner (unsigned ones included), both orders
	partners := append(append([]string{}, c01UintOperands...), c01UintPartners...)
	var stmts []string
	for _, u := range c01UintOperands {
		for _, p := range partners {
			for _, op := range c01BinOps {
				stmts = append(stmts, "x = "+u+" "+op+" "+p, "x = "+p+" "+op+" "+u)
			}
		}
	}
	c01Pack(&out, stmts, 12)
	// (2) the ordering operators in every position an expression is evaluated from
	stmts = nil
	reps := []string{"vInt", "-1", "vFloat", "hU8", "vU64s[1]", "\"2\""}
	for _, u := range c01UintOperands {
		for _, p := range reps {
			for _, op := range []string{"<", "<=", ">", ">="} {
				for _, e := range []string{u + " " + op + " " + p, p + " " + op + " " + u} {
					stmts = append(stmts, e, "go vFunc("+e+")", "defer vFunc("+e+")", "if "+e+" { 1 }", "for ; "+e+"; { break }", "func() { return "+e+" }()", "["+e+"]", e+" ? 1 : 2", "switch "+e+" { case true: 1 }", "vFuncV("+e+", "+e+")")
				}
			}
		}
	}
	c01Pack(&out, stmts, 10)
	// (3) unary operators, increments, compound assignments
	stmts = nil
	for _, u := range c01UintOperands {
		stmts = append(stmts, "-"+u, "^"+u, "!"+u, "x = "+u+"; x++; x", "x = "+u+"; x--; x", "len("+u+")", "toInt("+u+")", "toFloat("+u+")", "toString("+u+")", "toBool("+u+")", "toChar("+u+")", "toRune("+u+")", "toDuration("+u+")", "typeOf("+u+")",
			"vList["+u+"]", "vStr["+u+"]", "vStr["+u+":]", "vStr[:"+u+"]", "vList["+u+":"+u+"]", "x = [1, 2]; x["+u+"] = 1", "make([]int64, "+u+")", "make(chan int64, "+u+")", "vEmpty * "+u, "for i = "+u+"; i < "+u+"; i++ { break }",
			"switch "+u+" { case "+u+": 1 }", "{"+u+": 1}["+u+"]", "m = {}; m["+u+"] = 1; m[5]", "[]int64{"+u+"}", "[]uint64{"+u+"}", "[]byte{"+u+"}", "[]float64{"+u+"}", "[]string{"+u+"}", "gAdd("+u+", "+u+")", "gVarT("+u+")", "gTyped("+u+", "+u+")",
			"p = new(int64); *p = "+u, "p = new(uint64); *p = "+u+"; *p < 3", "s = make(struct{A int64, B uint32}); s.A = "+u+"; s.B = "+u+"; s.B < s.A", "c = make(chan byte, 1); c <- "+u+"; (<- c) <= 200", "make(type TU, "+u+"); x = make(TU); x < 1")
		for _, p := range partners {
			for _, op := range []string{"+=", "-=", "*=", "/=", "&=", "|="} {
				stmts = append(stmts, "x = "+u+"; x "+op+" "+p)
			}
		}
	}
	for _, v := range c01UintContainers {
		for _, p := range partners {
			stmts = append(stmts, "x = "+v+"; x[0] < "+p, "x = "+v+"; "+p+" >= x[0]", "x = "+v+"; x[0] = "+p+"; x[0] <= x[len(x) - 1]", "x = "+v+"; x[0] += "+p, "x = "+v+"; x += "+p+"; x[len(x) - 1] > 0", "x = "+v+"; for b in x { b < "+p+" }", p+" in "+v)
		}
	}
	c01Pack(&out, stmts, 12)
	// (4) strings with multi-byte characters: every index from -1 to len(s)+1
	for k := 0; k <= len(c01NonASCII); k++ {
		// the host-bound string that is not valid UTF-8 comes last
		n, lit := len(c01BadUTF8), "hBadStr"
		forms := []string{lit}
		if k < len(c01NonASCII) {
			n, lit = len(c01NonASCII[k]), "\""+c01NonASCII[k]+"\""
			forms = []string{lit, "s"}
		}
		bind := "s = " + lit + "; "
		stmts = nil
		for i := -1; i <= n+1; i++ {
			is := fmt.Sprint(i)
			idx := []string{is}
			if i >= 0 {
				idx = append(idx, fmt.Sprintf("len(s) - %d", n-i)) // the index computed from the script's own len()
			}
			for _, x := range idx {
				for _, f := range forms {
					stmts = append(stmts, bind+f+"["+x+"]", bind+"go vFunc("+f+"["+x+"])", bind+"defer vFunc("+f+"["+x+"])", bind+f+"["+x+":]", bind+f+"[:"+x+"]")
				}
				stmts = append(stmts, bind+"x = [s["+x+"]]; x", bind+"func() { return s["+x+"] }()", bind+"len(s["+x+"])", bind+"s["+x+"] == \"é\"", bind+"toRuneSlice(s)["+x+"]", bind+"toByteSlice(s)["+x+"] < 128",
					bind+"s["+x+"] = \"x\"; s", bind+"s["+x+"] = \"é\"; s", bind+"s["+x+"] = \"日本\"; s", bind+"s["+x+"] = \"\"; s", bind+"s["+x+"] = 120; s", bind+"s["+x+"] = nil; s", bind+"s["+x+"]++", bind+"s["+x+"] += \"é\"; s",
					bind+"a = [s]; a[0]["+x+"] = \"é\"; a", bind+"m = {\"k\": s}; m.k["+x+"] = \"é\"; m.k["+x+"]", bind+"t = make(struct{B string}); t.B = s; t.B["+x+"] = \"é\"; t.B["+x+"]", bind+"a = []string{s}; a[0]["+x+"]")
			}
			for _, j := range []int{i - 1, i, i + 1, i + 2, n - 1, n, n + 1} {
				js := fmt.Sprint(j)
				stmts = append(stmts, bind+"s["+is+":"+js+"]", bind+"s["+is+":"+js+"] = \"é\"; s", bind+"s["+is+":"+js+":"+js+"]")
			}
		}
		stmts = append(stmts, bind+"for c in s { c }", bind+"for i, c in s { s[i] }", bind+"for i = 0; i <= len(s); i++ { s[i] }", bind+"for i = 0; i < 8; i++ { s[i] = \"é\" }; s", bind+"for i = len(s); i >= 0; i-- { s[i:] }", bind+"s * 3", bind+"toRune(s)", bind+"toChar(s)")
		// one statement per script: a store changes s
		out = append(out, stmts...)
	}
	return out
}

func c01RunCross(c *wk.Case) {
	if c01CrossScripts == nil {
		c01CrossScripts = append(append(c01BuildCross(), c01BuildCrossR5()...), c01BuildCrossR6()...)
	}
	if c.Index == 0 {
		c.Count("cross-scripts-total", len(c01CrossScripts))
	}
	for i := c.Index; i < len(c01CrossScripts); i += c01CrossSlices {
		c01RunCrossItem(c, c01CrossScripts[i])
	}
}

// ---- the storm ----

type c01StormIn struct {
	Src   string `json:"src"`
	Procs int    `json:"procs"`
	// Canary (optional, see c01_r6.go) is run single-threaded in a FRESH environment
	// of the child after the storm returned; it evaluates to true when the storm's
	// premise held (what each goroutine made / imported was its own)
	Canary string `json:"canary,omitempty"`
}

type c01StormOut struct {
	Panicked  bool   `json:"panicked"`
	Sig       string `json:"sig"`
	Detail    string `json:"detail"`
	Err       string `json:"err"`
	Val       string `json:"val"`
	CanaryRan bool   `json:"canary_ran,omitempty"`
	CanaryOK  bool   `json:"canary_ok,omitempty"`
	CanaryGot string `json:"canary_got,omitempty"`
}

// c01StormConstruct writes one statement that evaluates a construct of the given
// shape; nothing it touches outlives the worker's own scope.
func c01StormConstruct(r *rand.Rand, n int, variadic bool, k int) string {
	ps := c01ParamList(n, variadic)
	switch x := r.Intn(100); {
	case x < 40:
		return "var f = func(" + ps + ") { return 1 }"
	case x < 50:
		return fmt.Sprintf("func fn%d(%s) { return 1 }", k, ps)
	case x < 60:
		args := make([]string, n)
		for i := range args {
			args[i] = fmt.Sprint(i)
		}
		return "var f = func(" + ps + ") { return 1 }; f(" + strings.Join(args, ", ") + ")"
	case x < 66:
		return "var l = [func(" + ps + ") { }]"
	case x < 72:
		return fmt.Sprintf("module mm%d { func g(%s) { return 1 } }", k, ps)
	case x < 80:
		fs := make([]string, n+1)
		for i := range fs {
			fs[i] = fmt.Sprintf("F%d %s", i, []string{"int64", "string", "[]int64", "map[string]int64", "interface"}[(i+n)%5])
		}
		return "var s = make(struct{" + strings.Join(fs, ", ") + "})"
	case x < 86:
		return "var m = make(map[string]" + strings.Repeat("[]", n%7+1) + []string{"int64", "string", "float64", "bool"}[n%4] + ")"
	case x < 92:
		return "var c = make(chan " + strings.Repeat("[]", n%5) + "map[int64]" + strings.Repeat("*", n%3) + "string, 1)"
	case x < 96:
		return fmt.Sprintf("make(type TL%d, %d); var t = make(TL%d)", k, n, k)
	default:
		return "var g = func(" + ps + ") { return func(" + ps + ") { } }; g"
	}
}

// c01Storm writes a script in which 4..16 goroutines started by go wait on one
// channel, are released together by close(), each evaluate a few dozen constructs
// of distinct shapes and report on a second channel. They share no container:
// every name they assign is their own (var / parameters).
func c01Storm(r *rand.Rand) (src string, workers int) {
	workers = 4 + r.Intn(13)
	type shape struct {
		n int
		v bool
	}
	var shapes []shape
	for n := 0; n <= 90; n++ {
		for _, v := range []bool{false, true} {
			if n >= 5 || v || r.Intn(3) == 0 {
				shapes = append(shapes, shape{n, v})
			}
		}
	}
	r.Shuffle(len(shapes), func(i, j int) { shapes[i], shapes[j] = shapes[j], shapes[i] })
	shapes = shapes[:40+r.Intn(60)]
	body := func(shuffle bool) string {
		l := append([]shape{}, shapes...)
		if shuffle {
			r.Shuffle(len(l), func(i, j int) { l[i], l[j] = l[j], l[i] })
		}
		var b strings.Builder
		for k, s := range l {
			// a construct that ends in an error must not keep the worker from reporting
			b.WriteString("\ttry { " + c01StormConstruct(r, s.n, s.v, k) + " } catch e { }\n")
		}
		return b.String()
	}
	var b strings.Builder
	fmt.Fprintf(&b, "start = make(chan bool)\ndone = make(chan int64, %d)\n", workers)
	if r.Intn(4) == 0 {
		// the scopes themselves: some workers bind a module to a name (which copies
		// its scope and the scopes above it) while the others assign plain variables
		// of those scopes
		n := 200 + r.Intn(800)
		b.WriteString("module sm { a = 1; func f() { return a } }\ncnt = 0\n")
		fmt.Fprintf(&b, "copier = func(id, start, done) {\n\t<-start\n\tfor i = 0; i < %d; i++ { x = sm; var y = sm; z = x.a + y.f() }\n\tdone <- id\n}\n", n)
		fmt.Fprintf(&b, "writer = func(id, start, done) {\n\t<-start\n\tfor i = 0; i < %d; i++ { cnt = i; sm.a = i; var t = cnt; module inner { q = i } }\n\tdone <- id\n}\n", n)
		fmt.Fprintf(&b, "for i = 0; i < %d; i++ { if i %% 2 == 0 { go copier(i, start, done) } else { go writer(i, start, done) } }\n", workers)
		fmt.Fprintf(&b, "close(start)\nfor i = 0; i < %d; i++ { cnt = i; fresh = sm }\n", n/4)
		fmt.Fprintf(&b, "n = 0\nfor i = 0; i < %d; i++ { <-done; n++ }\nn\n", workers)
		return b.String(), workers
	}
	switch r.Intn(3) {
	case 0: // one function, started many times: the workers move in lockstep
		b.WriteString("work = func(id, start, done) {\n\t<-start\n" + body(false) + "\tdone <- id\n}\n")
		fmt.Fprintf(&b, "for i = 0; i < %d; i++ { go work(i, start, done) }\n", workers)
	case 1: // every worker its own literal, same shapes in another order
		for w := 0; w < workers; w++ {
			fmt.Fprintf(&b, "go func(id, start, done) {\n\t<-start\n%s\tdone <- id\n}(%d, start, done)\n", body(true), w)
		}
	default: // two kinds of workers
		b.WriteString("workA = func(id, start, done) {\n\t<-start\n" + body(false) + "\tdone <- id\n}\n")
		b.WriteString("workB = func(id, start, done) {\n\t<-start\n" + body(true) + "\tdone <- id\n}\n")
		fmt.Fprintf(&b, "for i = 0; i < %d; i++ { if i %% 2 == 0 { go workA(i, start, done) } else { go workB(i, start, done) } }\n", workers)
	}
	b.WriteString("close(start)\n")
	if r.Intn(2) == 0 {
		// the calling goroutine takes part
		b.WriteString("func() {\n" + body(true) + "}()\n")
	}
	fmt.Fprintf(&b, "n = 0\nfor i = 0; i < %d; i++ { <-done; n++ }\nn\n", workers)
	return b.String(), workers
}

var (
	c01ReStormFrame = regexp.MustCompile(`github\.com/mattn/anko/([A-Za-z0-9_/]+)\.([^\s(]+|\(\*[A-Za-z0-9_]+\)\.[^\s(]+)\(`)
	c01ReStormNum   = regexp.MustCompile(`-?(0x[0-9a-f]+|\d+)`)
)

// c01RunStorm runs one storm in a fresh child process (every shape is new to it)
// and judges the child's fate.
func c01RunStorm(c *wk.Case) {
	src, _ := c01Storm(c.Rng)
	procs := []int{4, 8, 16}[c.Rng.Intn(3)]
	c01RunStormIn(c, c01StormIn{Src: src, Procs: procs})
}

// c01RunStormIn runs one storm script in a fresh child process and judges the
// child's fate; returned is true (and the child's report) when the child came
// back alive with a report.
func c01RunStormIn(c *wk.Case, sin c01StormIn) (out c01StormOut, returned bool) {
	src := sin.Src
	bin := os.Getenv("VERIF_WORKER_BIN")
	if bin == "" {
		bin, _ = os.Executable()
	}
	in, _ := json.Marshal(sin)
	c.Begin(src)
	cmd := exec.Command(bin, "-child", "c01storm")
	cmd.Stdin = bytes.NewReader(in)
	var stdout, stderr bytes.Buffer
	cmd.Stdout, cmd.Stderr = &stdout, &stderr
	if err := cmd.Start(); err != nil {
		c.Inconclusive("storm-child-not-started", err.Error(), nil)
		return out, false
	}
	done := make(chan error, 1)
	go func() { done <- cmd.Wait() }()
	var werr error
	select {
	case werr = <-done:
	case <-time.After(120 * time.Second):
		// a stuck child is inconclusive, never a verdict
		cmd.Process.Kill()
		<-done
		c.Inconclusive("storm-child-watchdog", "", src)
		return out, false
	}
	c.Eval(src, true)
	c.Events(1)
	c.Count("storm-child-processes", 1)
	if werr == nil && json.Unmarshal(stdout.Bytes(), &out) == nil {
		switch {
		case out.Panicked:
			c.Tag("storm:panic")
			c.Violation(out.Sig, "a Go panic reached the caller: "+out.Detail, src)
		case out.Err != "":
			c.Tag("storm:run-error")
		default:
			c.Tag("storm:value")
		}
		return out, true
	}
	// the child died
	es := stderr.String()
	switch {
	case strings.Contains(es, "stack overflow") || strings.Contains(es, "goroutine stack exceeds"):
		c.Excluded("stack-exhaustion")
		return out, false
	case strings.Contains(es, "out of memory") || strings.Contains(es, "cannot allocate memory") || strings.Contains(es, "runtime: cannot map pages"):
		c.Excluded("memory-exhaustion")
		return out, false
	}
	msg := ""
	for _, ln := range strings.Split(es, "\n") {
		if strings.HasPrefix(ln, "panic: ") || strings.HasPrefix(ln, "fatal error: ") {
			msg = ln
			break
		}
	}
	if msg == "" {
		// not a Go fault report (killed from outside, could not start ...): nothing learnt
		c.Inconclusive("storm-child-died-without-report", fmt.Sprint(werr)+" "+firstLinesOf(es, 3), src)
		return out, false
	}
	site := ""
	if m := c01ReStormFrame.FindStringSubmatch(es); m != nil {
		site = m[1] + "." + m[2]
	}
	if strings.HasPrefix(msg, "fatal error: concurrent map") {
		// the storm's goroutines share no script container, so the map is the
		// interpreter's own: the statement's exclusion does not apply
		msg = "fatal error: concurrent map access, no container shared between the script goroutines"
		if strings.HasPrefix(site, "env.") {
			msg = "fatal error: concurrent map access inside the environment" // the parent's wording for the same fault
		}
	}
	msg = c01ReStormNum.ReplaceAllString(msg, "N")
	if len(msg) > 120 {
		msg = msg[:120]
	}
	c.Tag("storm:child-died")
	c.Violation("crash:"+site+":"+msg, "the process hosting the interpreter died: "+firstLinesOf(es, 40), src)
	return out, false
}

// c01StormChild is the body of the child process.
func c01StormChild(args []string) {
	var in c01StormIn
	if err := json.NewDecoder(os.Stdin).Decode(&in); err != nil {
		fmt.Fprintln(os.Stderr, "c01storm: bad input:", err)
		os.Exit(3)
	}
	debug.SetMaxStack(64 << 20)
	debug.SetTraceback("all")
	for k := range env.Packages {
		delete(env.Packages, k)
	}
	for k := range env.PackageTypes {
		delete(env.PackageTypes, k)
	}
	c01RegisterPkg() // the host's own package (c01_r6.go): values and Go functions over them
	if in.Procs > 0 {
		runtime.GOMAXPROCS(in.Procs)
	}
	e := c01NewEnv()
	base := runtime.NumGoroutine()
	ctx, cancel := context.WithTimeout(context.Background(), 30*time.Second)
	o := ank.ExecCtx(ctx, e, in.Src)
	cancel()
	for i := 0; i < 2000 && runtime.NumGoroutine() > base; i++ {
		time.Sleep(500 * time.Microsecond)
	}
	out := c01StormOut{Panicked: o.Panicked, Sig: o.PanicSig, Detail: o.PanicVal + "\n" + firstLinesOf(o.Stack, 14), Err: ank.ErrText(o.Err)}
	if !o.Panicked && o.Err == nil {
		out.Val = ank.Render(o.Val)
	}
	if in.Canary != "" && !o.Panicked {
		co := ank.Exec(c01NewEnv(), in.Canary)
		out.CanaryRan = true
		out.CanaryOK = !co.Panicked && co.Err == nil && co.Val == true
		out.CanaryGot = ank.Render(co.Val) + " " + ank.ErrText(co.Err) + " " + co.PanicVal
		if co.Panicked {
			out.Panicked, out.Sig, out.Detail = true, co.PanicSig, co.PanicVal+"\n"+firstLinesOf(co.Stack, 14)
		}
	}
	b, _ := json.Marshal(out)
	os.Stdout.Write(b)
}
