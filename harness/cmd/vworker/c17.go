package main

// C17 — the AST walker reaches every node of every parsed program.
//
// Statement: "Walking any tree produced by the parser presents every statement,
// expression and operator node of that tree to the callback, a parent before
// its children, and returns no error unless the callback does. When the
// callback returns an error the walk stops at once and returns that error."
//
// Monitor: for every parsed program the complete node set and parent relation
// are computed by generic reflection (internal/astx, independent of astutil).
// astutil.Walk is run with a recording callback and the recorded sequence is
// compared with the reflected set:
//   - Walk returns nil                                  (else walk-error:<Type>)
//   - every reflected node was presented (pointer identity)
//                                                       (else missed:<Type>@<Parent.Field>)
//   - no node is presented before (one of) its parent(s) (else order:<Type>@<Parent.Field>)
//   - with a callback that fails at its k-th call, Walk returns that very error
//     (the same error value: err == stop; a new error wrapping it is not "that
//     error") and the callback is never invoked again  (else abort-*:...); the
//     callback's error is of many kinds (c17_r6errs.go: plain, wrapped, host types,
//     parse/run errors with and without position, typed nil pointers, sentinels)
//   - Walk does not panic                               (else walk-panic:<site>)
//   - what the callback is handed is a node: a nil interface, a typed nil pointer
//     (a nil *ast.StmtsStmt stored in an ast.Stmt field passes every `== nil`
//     interface test) or a value that is no statement/expression/operator node
//     at all is not "a node of that tree"              (else presented-nil:<Type> /
//                                                       presented-non-node:<Type>)
// Well-formed nodes presented in addition to the reflected set (the CallExpr Walk
// fabricates for an anonymous call) are allowed: the statement does not forbid them.
//
// Workload: a fixed, deterministic matrix (every expression kind in every
// expression hole of every statement/expression template, every statement kind
// in every block of every block-holding template, every degenerate block content
// — empty statements only, newlines only, comments only, empty statements around
// real ones — in every block hole and at top level), the repository's own script
// corpus, and PRNG-driven nested programs built from the same templates; and
// (c17_deep.go) programs nested hundreds to thousands of levels deep through every
// expression hole and every block hole of the templates, long operator chains and
// lists of thousands of members.

import (
	"fmt"
	goast "go/ast"
	goparser "go/parser"
	gotoken "go/token"
	"math/rand"
	"os"
	"path/filepath"
	"reflect"
	"runtime"
	"sort"
	"strconv"
	"strings"
	"sync"

	"github.com/mattn/anko/ast"
	"github.com/mattn/anko/ast/astutil"

	"verifharness/internal/ank"
	"verifharness/internal/astx"
	"verifharness/internal/corpus"
	"verifharness/internal/fw"
	"verifharness/internal/wk"
)

// ---------------------------------------------------------------------------
// templates: $i = expression hole, @j = block (compstmt) hole

type c17Tpl struct {
	kind string // node type the template is meant to produce at its top (naming only; the oracle never uses it)
	src  string
	ne   int // number of expression holes
	nb   int // number of block holes
}

func c17T(kind string, srcs ...string) []c17Tpl {
	var out []c17Tpl
	for _, s := range srcs {
		t := c17Tpl{kind: kind, src: s}
		for i := 0; i < 10; i++ {
			if strings.Contains(s, "$"+strconv.Itoa(i)) {
				t.ne = i + 1
			}
			if strings.Contains(s, "@"+strconv.Itoa(i)) {
				t.nb = i + 1
			}
		}
		out = append(out, t)
	}
	return out
}

func c17Cat(ls ...[]c17Tpl) []c17Tpl {
	var out []c17Tpl
	for _, l := range ls {
		out = append(out, l...)
	}
	return out
}

// every expression production of parser.go.y
var c17ExprTpls = c17Cat(
	c17T("IdentExpr", "a"),
	c17T("LiteralExpr", "1", "-2", "1.5", `"s"`, "true", "false", "nil", "0x1f"),
	c17T("AddOperator", "$0 + $1", "$0 - $1", "$0 | $1"),
	c17T("MultiplyOperator", "$0 * $1", "$0 / $1", "$0 % $1", "$0 << $1", "$0 >> $1", "$0 & $1"),
	c17T("ComparisonOperator", "$0 == $1", "$0 != $1", "$0 < $1", "$0 <= $1", "$0 > $1", "$0 >= $1"),
	c17T("BinaryOperator", "$0 && $1", "$0 || $1"),
	c17T("UnaryExpr", "-$0", "!$0", "^$0"),
	c17T("AddrExpr", "&$0"),
	c17T("DerefExpr", "*$0"),
	c17T("ParenExpr", "($0)"),
	c17T("NilCoalescingOpExpr", "$0 ?? $1"),
	c17T("TernaryOpExpr", "$0 ? $1 : $2"),
	c17T("FuncExpr", "func(){ @0 }", "func(x){ return $0 }", "func f(x, y){ @0 }", "func(x...){ @0 }", "func g(x, y...){ return $0, $1 }"),
	c17T("ArrayExpr", "[]", "[$0]", "[$0, $1]", "[$0, $1, $2, $3]", "[]int64{$0, $1}", "[][]string{$0}", "[]a.T{$0}", "[]int64{}"),
	c17T("MapExpr", "{}", "{$0: $1}", "{$0: $1, $2: $3}", "{$0: $1, $2: $3, $4: $5}", "map{}", "map{$0: $1}", "map[string]int64{$0: $1}", "map[string][]int64{}"),
	c17T("CallExpr", "f()", "f($0)", "f($0, $1)", "f($0...)", "f($0, $1...)", "f($0, $1, $2, $3)"),
	c17T("AnonCallExpr", "$0($1)", "$0($1...)", "$0.m($1)", "$0()($1)", "$0.m()", "$0.m($1, $2, $3)"),
	c17T("MemberExpr", "$0.m"),
	c17T("ItemExpr", "$0[$1]"),
	c17T("SliceExpr", "$0[$1:$2]", "$0[$1:]", "$0[:$1]", "$0[:$1:$2]", "$0[$1:$2:$3]"),
	c17T("LenExpr", "len($0)"),
	c17T("ImportExpr", "import($0)"),
	c17T("MakeExpr", "make(int64)", "make([]int64, $0)", "make([]int64, $0, $1)", "new(int64)", "new([]a.T)", "make(chan int64)",
		"make(chan int64, $0)", "make(map[string]int64)", "make(struct{A int64, B []string})", "make(*int64)", "make([][]int64, $0)"),
	c17T("MakeTypeExpr", "make(type T, $0)"),
	c17T("IncludeExpr", "$0 in $1"),
	c17T("ChanExpr", "$0 <- $1", "<- $0"),
	c17T("LetsExpr", "$0++", "$0--", "$0 += $1", "$0 -= $1", "$0 |= $1", "$0 *= $1", "$0 /= $1", "$0 &= $1"),
)

// every statement production of parser.go.y
var c17StmtTpls = c17Cat(
	c17T("ExprStmt", "$0"),
	c17T("VarStmt", "var x = $0", "var x, y = $0, $1", "var x, y, z = $0, $1, $2"),
	c17T("LetsStmt", "$0 = $1", "$0, $1 = $2, $3", "$0, $1 = $2", "$0, $1, $2 = $3"),
	c17T("LetMapItemStmt", "$0, $1 = m[$2]", "$0, $1 = $2[$3]"),
	c17T("ReturnStmt", "return", "return $0", "return $0, $1", "return $0, $1, $2, $3"),
	c17T("ThrowStmt", "throw $0"),
	c17T("BreakStmt", "break"),
	c17T("ContinueStmt", "continue"),
	c17T("ModuleStmt", "module M { @0 }"),
	c17T("TryStmt", "try { @0 } catch e { @1 } finally { @2 }", "try { @0 } catch { @1 } finally { @2 }", "try { @0 } catch e { @1 }", "try { @0 } catch { @1 }"),
	c17T("GoroutineStmt", "go f($0)", "go f($0...)", "go f()", "go $0($1)", "go $0($1...)", "go $0.m($1, $2)", "go ($0)($1)"),
	c17T("DeferStmt", "defer f($0)", "defer f($0...)", "defer f()", "defer $0($1)", "defer $0($1...)", "defer $0.m($1, $2)", "defer ($0)($1 ...)"),
	c17T("DeleteStmt", "delete($0)", "delete($0, $1)"),
	c17T("CloseStmt", "close($0)"),
	c17T("ChanStmt", "$0 = <- $1", "$0, $1 = <- $2"),
	c17T("IfStmt", "if $0 { @0 }", "if $0 { @0 } else { @1 }", "if $0 { @0 } else if $1 { @1 }", "if $0 { @0 } else if $1 { @1 } else if $2 { @2 } else { @3 }"),
	c17T("LoopStmt", "for { @0 }", "for $0 { @0 }"),
	c17T("ForStmt", "for x in $0 { @0 }", "for k, v in $0 { @0 }"),
	c17T("CForStmt", "for ; ; { @0 }", "for ; ; $0 { @0 }", "for ; $0; { @0 }", "for ; $0; $1 { @0 }",
		"for x = $0; ; { @0 }", "for x = $0; ; $1 { @0 }", "for x = $0; $1; { @0 }", "for x = $0; $1; $2 { @0 }",
		"for var x = $0; $1; $2 { @0 }", "for var x, y = $0, $1; ; { @0 }", "for $0 = <- $1; $2; { @0 }",
		// (`for a, b = ...` with two plain identifiers is not in the grammar: it collides with `for k, v in`)
		"for o.x, $0 = m[$1]; ; { @0 }", "for o[0], $0 = $1, $2; $3; $4 { @0 }", "for o.x, $0 = <- $1; ; { @0 }", "for $0, $1 = $2, $3; $4; $5 { @0 }"),
	c17T("SwitchStmt", "switch $0 { }", "switch $0 {\ncase $1:\n@0\n}", "switch $0 {\ncase $1, $2:\n@0\ncase $3:\n@1\ndefault:\n@2\n}", "switch $0 {\ndefault:\n@0\n}",
		"switch $0 {\ndefault:\n@0\ncase $1:\n@1\n}"),
)

var c17Atoms = []string{"a", "b", "c", "d", "e", "g"}

// degenerate block contents: a compstmt that holds no statement at all although
// it is not the empty string (empty statements, newlines, comments), and empty
// statements before / between / after real ones. Every one of them is used for
// every block hole of every block-holding template and as a top-level program
// (those the grammar rejects are counted as excluded, like any other source).
var c17DegenerateOnly = []string{
	";", ";;", "; ;", ";;;", "; ; ; ; ; ;", ";\n;", ";\n\n;\n", "\n;\n;\n", "\n;;\n", ";\n;\n;\n;\n;\n;\n;\n;",
	"\n", "\n\n\n", " ", "\t\n \n",
	"# only a comment\n", "\n// only a comment\n", "/* only a comment */", "/* c */ ; /* d */ ; /* e */", "\n# c\n;\n// d\n;\n", "; # c\n; // d\n",
}

var c17DegenerateMixed = []string{
	";z", "z;", ";;z", "z;;", "; ; z", "z ; ;", ";\n;\nz", "z\n;\n;", "\n;\nz\n;\n", "z;;y", ";;z;;y;;", "z;\n;\n;y", "z # c\n;; y", ";\n\n;z\n\n;\n\n;\ny;",
	"# c\nz", "z // c\n", "/* c */ z /* d */", "z\n# c\n# d\ny",
}

var c17Degenerate = append(append([]string{}, c17DegenerateOnly...), c17DegenerateMixed...)

// c17Fill substitutes the holes of a template in one pass.
func c17Fill(t c17Tpl, exprs, blocks []string) string {
	var b strings.Builder
	s := t.src
	for i := 0; i < len(s); i++ {
		ch := s[i]
		if (ch == '$' || ch == '@') && i+1 < len(s) && s[i+1] >= '0' && s[i+1] <= '9' {
			n := int(s[i+1] - '0')
			if ch == '$' {
				if n < len(exprs) {
					b.WriteString(exprs[n])
				} else {
					b.WriteString(c17Atoms[n%len(c17Atoms)])
				}
			} else if n < len(blocks) {
				b.WriteString(blocks[n])
			}
			i++
			continue
		}
		b.WriteByte(ch)
	}
	return b.String()
}

func c17Defaults(t c17Tpl, block string) (exprs, blocks []string) {
	for i := 0; i < t.ne; i++ {
		exprs = append(exprs, c17Atoms[i%len(c17Atoms)])
	}
	for i := 0; i < t.nb; i++ {
		blocks = append(blocks, block)
	}
	return
}

// programs that pin down the constructs for which probing of the pinned tree
// saw Walk fail; they come first in the deterministic list.
var c17Pinned = []string{
	`delete(m, "k")`,
	`delete(m)`,
	`close(c)`,
	`v = <- c`,
	`v, ok = <- c`,
	`a ?? b`,
	`make(type T, 1)`,
	`len(a + b)`,
	`a[1:2:3]`,
	`a[:2:n + 1]`,
	"switch x {\ncase 1, y:\nz\ncase f(2):\nw\ndefault:\nv\n}",
	`x++; y--; x += len(y[1:2:3]) ?? 1`,
	`func f(x, y...) { for i = 0; i < len(x); i++ { if x[i] in y { return i } else if i > 3 { break } }; return -1 }`,
	"module M {\n func g(c) { defer close(c); go func(){ c <- 1 }(); v, ok = <- c; return v ?? ok ? 1 : 2 }\n}\nM.g(make(chan int64, 1))",
	"a\nb = 1\nc\nvar d = 2\ne++\ng\nh()\ni\nj\nreturn k",
	`f(1, 2, 3, 4, 5, 6, 7, 8); [1, 2, 3, 4, 5, 6, 7, 8]; {"a": 1, "b": 2, "c": 3, "d": 4, "e": 5}; a, b, c, d, e = 1, 2, 3, 4, 5`,
	"if a { b } else if c { d } else if e { g } else if h { i } else if j { k } else { l }",
	"switch a {\ncase 1:\nb\ncase 2:\nc\ncase 3:\nd\ncase 4:\ne\ncase 5:\ng\n}",
	"try { throw make(type T, {\"a\": [1, 2][0:1]}) } catch e { delete(m, e) } finally { a, b = m[\"k\"]; *p = &q.r; var s, t = import(\"fmt\"), new([]int64) }",
}

var (
	c17Once  sync.Once
	c17Fixed []string
)

const c17FixedPerCase = 100

// c17FixedList builds the deterministic matrix. It depends on nothing but the
// template tables above.
func c17FixedList() []string {
	c17Once.Do(func() {
		seen := map[string]bool{}
		add := func(s string) {
			if !seen[s] {
				seen[s] = true
				c17Fixed = append(c17Fixed, s)
			}
		}
		for _, s := range c17Pinned {
			add(s)
		}
		// long unparenthesised operator chains (every operand must still be presented)
		opsets := [][]string{{"+"}, {"+", "-", "|"}, {"*", "/", "%", "<<", ">>", "&"}, {"==", "!=", "<", "<=", ">", ">="}, {"&&", "||"}, {"+", "*", "==", "&&", "-", "/", "||", "<"}}
		for _, n := range []int{31, 32, 33, 34, 35, 36, 37, 64, 65, 66, 67, 130, 300} {
			for si, ops := range opsets {
				var b strings.Builder
				for i := 0; i < n; i++ {
					if i > 0 {
						b.WriteString(" " + ops[(i*7+si)%len(ops)] + " ")
					}
					switch i % 5 {
					case 0:
						fmt.Fprintf(&b, "t%d", i)
					case 1:
						fmt.Fprintf(&b, "f%d(u%d)", i, i)
					case 2:
						fmt.Fprintf(&b, "%d", i)
					case 3:
						fmt.Fprintf(&b, "\"s%d\"", i)
					default:
						fmt.Fprintf(&b, "v%d[w%d]", i, i)
					}
				}
				add("r = " + b.String())
			}
		}
		// every template alone: blocks filled, blocks empty; expressions also as right-hand side
		for _, t := range c17StmtTpls {
			for _, blk := range []string{"z", "", "\nz\ny\n"} {
				e, b := c17Defaults(t, blk)
				add(c17Fill(t, e, b))
			}
		}
		for _, t := range c17ExprTpls {
			for _, blk := range []string{"z", ""} {
				e, b := c17Defaults(t, blk)
				s := c17Fill(t, e, b)
				add(s)
				add("r = " + s)
				add("f(" + s + ")")
			}
		}
		// every expression kind in every expression hole of every template
		parents := c17Cat(c17StmtTpls, c17ExprTpls)
		for _, p := range parents {
			for h := 0; h < p.ne; h++ {
				for _, k := range c17ExprTpls {
					ke, kb := c17Defaults(k, "z")
					for i := range ke {
						ke[i] = []string{"p", "q", "r", "s"}[i%4]
					}
					child := c17Fill(k, ke, kb)
					e, b := c17Defaults(p, "z")
					e[h] = child
					add(c17Fill(p, e, b))
				}
			}
		}
		// every statement kind in every block of every block-holding template
		for _, p := range parents {
			for h := 0; h < p.nb; h++ {
				for _, k := range c17StmtTpls {
					ke, kb := c17Defaults(k, "w")
					for i := range ke {
						ke[i] = []string{"p", "q", "r", "s", "t", "u"}[i%6]
					}
					child := c17Fill(k, ke, kb)
					e, b := c17Defaults(p, "z")
					b[h] = child
					add(c17Fill(p, e, b))
					b[h] = "y\n" + child + "\nx"
					add(c17Fill(p, e, b))
				}
			}
		}
		// degenerate block contents: as the whole program, before/after a real top-level
		// statement, in every block hole of every block-holding template (one hole at a
		// time, the others holding a real statement; and all holes at once)
		for _, d := range c17Degenerate {
			add(d)
			add(d + "\nr = 1")
			add("r = 1\n" + d)
			add("r = 1\n" + d + "\nq = 2")
		}
		for pi, p := range parents {
			if p.nb == 0 {
				continue
			}
			for _, d := range c17Degenerate {
				for h := 0; h < p.nb; h++ {
					e, b := c17Defaults(p, "z")
					b[h] = d
					s := c17Fill(p, e, b)
					add(s)
					add("r = 1\n" + s + "\nq = 2")
				}
				e, b := c17Defaults(p, d)
				s := c17Fill(p, e, b)
				add(s)
				if pi >= len(c17StmtTpls) { // an expression template
					add("r = " + s)
				}
			}
		}
		// a block-holding construct whose blocks are degenerate, inside every block of
		// every block-holding template (the kind of degenerate content rotates)
		rot := 0
		for _, p := range parents {
			for h := 0; h < p.nb; h++ {
				for _, k := range parents {
					if k.nb == 0 {
						continue
					}
					d := c17Degenerate[rot%len(c17Degenerate)]
					rot++
					ke, kb := c17Defaults(k, d)
					child := c17Fill(k, ke, kb)
					e, b := c17Defaults(p, "z")
					b[h] = child
					add(c17Fill(p, e, b))
					b[h] = ";" + child + ";;"
					add(c17Fill(p, e, b))
				}
			}
		}
		// a function literal whose body is degenerate, in every expression hole
		for _, p := range parents {
			for h := 0; h < p.ne; h++ {
				for _, k := range c17ExprTpls {
					if k.nb == 0 {
						continue
					}
					d := c17DegenerateOnly[rot%len(c17DegenerateOnly)]
					rot++
					ke, kb := c17Defaults(k, d)
					e, b := c17Defaults(p, "z")
					e[h] = c17Fill(k, ke, kb)
					add(c17Fill(p, e, b))
				}
			}
		}
	})
	return c17Fixed
}

// ---------------------------------------------------------------------------
// PRNG-driven nesting of the same templates

type c17Gen struct {
	r      *rand.Rand
	budget int
	ekinds [][]c17Tpl
	skinds [][]c17Tpl
}

func c17ByKind(ts []c17Tpl) [][]c17Tpl {
	idx := map[string]int{}
	var out [][]c17Tpl
	for _, t := range ts {
		i, ok := idx[t.kind]
		if !ok {
			i = len(out)
			idx[t.kind] = i
			out = append(out, nil)
		}
		out[i] = append(out[i], t)
	}
	return out
}

var (
	c17EKinds = c17ByKind(c17ExprTpls)
	c17SKinds = c17ByKind(c17StmtTpls)
)

func (g *c17Gen) atom() string {
	switch g.r.Intn(8) {
	case 0:
		return strconv.Itoa(g.r.Intn(100))
	case 1:
		return strconv.Quote(string(rune('a' + g.r.Intn(26))))
	case 2:
		return []string{"true", "false", "nil", "1.5", "-3"}[g.r.Intn(5)]
	}
	return []string{"a", "b", "c", "x", "y", "zz", "v1", "m"}[g.r.Intn(8)]
}

func (g *c17Gen) expr(d int) string {
	if d <= 0 || g.budget <= 0 || g.r.Intn(6) == 0 {
		return g.atom()
	}
	g.budget--
	ks := g.ekinds[g.r.Intn(len(g.ekinds))]
	t := ks[g.r.Intn(len(ks))]
	es := make([]string, t.ne)
	for i := range es {
		es[i] = g.expr(d - 1)
		if g.r.Intn(4) == 0 {
			es[i] = "(" + es[i] + ")"
		}
	}
	bs := make([]string, t.nb)
	for i := range bs {
		bs[i] = g.block(d - 1)
	}
	return c17Fill(t, es, bs)
}

func (g *c17Gen) stmt(d int) string {
	g.budget--
	ks := g.skinds[g.r.Intn(len(g.skinds))]
	t := ks[g.r.Intn(len(ks))]
	es := make([]string, t.ne)
	for i := range es {
		es[i] = g.expr(d - 1)
	}
	bs := make([]string, t.nb)
	for i := range bs {
		bs[i] = g.block(d - 1)
	}
	return c17Fill(t, es, bs)
}

// empties: a run of empty statements / blank lines / comments (never a real statement)
func (g *c17Gen) empties() string {
	if g.r.Intn(3) == 0 {
		return c17DegenerateOnly[g.r.Intn(len(c17DegenerateOnly))]
	}
	var b strings.Builder
	for n := 1 + g.r.Intn(4); n > 0; n-- {
		b.WriteString([]string{";", ";", "; ", ";\n", "\n", "\n;", " # c\n", " /* c */ "}[g.r.Intn(8)])
	}
	return b.String()
}

func (g *c17Gen) block(d int) string {
	if d <= 0 || g.budget <= 0 {
		switch g.r.Intn(5) {
		case 0, 1:
			return ""
		case 2:
			return g.empties()
		}
		return g.atom()
	}
	n := g.r.Intn(4)
	if g.r.Intn(8) == 0 {
		n = 4 + g.r.Intn(5)
	}
	if n == 0 && g.r.Intn(2) == 0 {
		return g.empties()
	}
	var parts []string
	for i := 0; i < n; i++ {
		parts = append(parts, g.stmt(d-1))
	}
	sep := "\n"
	if g.r.Intn(4) == 0 {
		sep = "; "
	}
	s := g.join(parts, sep)
	if g.r.Intn(3) == 0 {
		s = "\n" + s + "\n"
	}
	return s
}

// join separates the statements by sep; in one list of six it also puts empty
// statements before, between and after them.
func (g *c17Gen) join(parts []string, sep string) string {
	if g.r.Intn(6) > 0 {
		return strings.Join(parts, sep)
	}
	var b strings.Builder
	if g.r.Intn(2) == 0 {
		b.WriteString(g.empties())
	}
	for i, p := range parts {
		if i > 0 {
			b.WriteString(sep)
			if g.r.Intn(3) == 0 {
				b.WriteString(g.empties() + ";")
			}
		}
		b.WriteString(p)
	}
	if g.r.Intn(2) == 0 {
		b.WriteString(";" + g.empties())
	}
	return b.String()
}

// subset draws a random non-empty subset of kinds ("swarm" generation: a program
// built from few kinds exercises them in combinations a uniform draw rarely gives,
// and necessarily leaves the other kinds out).
func c17Subset(r *rand.Rand, all [][]c17Tpl, lo, hi int) [][]c17Tpl {
	n := lo + r.Intn(hi-lo+1)
	if n >= len(all) {
		return all
	}
	var out [][]c17Tpl
	for _, i := range r.Perm(len(all))[:n] {
		out = append(out, all[i])
	}
	return out
}

func (g *c17Gen) program() string {
	g.ekinds, g.skinds = c17EKinds, c17SKinds
	if g.r.Intn(3) > 0 {
		g.ekinds = c17Subset(g.r, c17EKinds, 1, 10)
		g.skinds = c17Subset(g.r, c17SKinds, 1, 8)
	}
	depth := 1 + g.r.Intn(4)
	g.budget = 2 + g.r.Intn(40)
	n := 1 + g.r.Intn(4)
	if g.r.Intn(8) == 0 {
		n = 5 + g.r.Intn(6)
	}
	var parts []string
	for i := 0; i < n; i++ {
		parts = append(parts, g.stmt(depth))
	}
	return g.join(parts, "\n")
}

// ---------------------------------------------------------------------------
// the monitor

func c17TypeName(x interface{}) string {
	if x == nil {
		return "<nil>"
	}
	return strings.TrimPrefix(strings.TrimPrefix(reflect.TypeOf(x).String(), "*"), "ast.")
}

func c17Comparable(x interface{}) bool {
	return x != nil && reflect.TypeOf(x).Comparable()
}

// c17NotANode classifies a value handed to the callback that cannot be a node of
// any tree: "nil" for a nil interface or a typed nil pointer, "non-node" for a
// value that is not a pointer to a statement/expression/operator struct of
// package ast; "" for a well-formed node (of this tree or fabricated by Walk).
func c17NotANode(x interface{}) string {
	if x == nil {
		return "nil"
	}
	v := reflect.ValueOf(x)
	switch v.Kind() {
	case reflect.Ptr, reflect.Map, reflect.Slice, reflect.Func, reflect.Chan, reflect.Interface:
		if v.IsNil() {
			return "nil"
		}
	}
	if !c17IsChildType(v.Type()) || v.Kind() != reflect.Ptr {
		return "non-node"
	}
	return ""
}

// c17NilHolders lists the fields below root that hold a typed nil pointer inside
// a non-nil interface value ("<ParentType>.<Field>(<*Type>)"): such a field passes
// every `== nil` test although it holds no node. Own reflection, guarded against
// nil pointers at every level (astx.Nodes neither counts them nor descends).
func c17NilHolders(root interface{}) []string {
	var out []string
	seen := map[string]bool{}
	var walk func(v reflect.Value, slot string, depth int)
	walk = func(v reflect.Value, slot string, depth int) {
		if !v.IsValid() || depth > 100000 {
			return
		}
		switch v.Kind() {
		case reflect.Interface:
			if v.IsNil() {
				return
			}
			el := v.Elem()
			switch el.Kind() {
			case reflect.Ptr, reflect.Map, reflect.Slice, reflect.Func, reflect.Chan:
				if el.IsNil() {
					s := slot + "(" + el.Type().String() + ")"
					if !seen[s] {
						seen[s] = true
						out = append(out, s)
					}
					return
				}
			}
			walk(el, slot, depth+1)
		case reflect.Ptr:
			if v.IsNil() {
				return
			}
			el := v.Elem()
			if el.Kind() != reflect.Struct || el.Type().PkgPath() != c17AstPkg {
				return
			}
			t := el.Type()
			for i := 0; i < el.NumField(); i++ {
				if t.Field(i).Anonymous || t.Field(i).Type.Kind() == reflect.Struct {
					continue
				}
				walk(el.Field(i), t.Name()+"."+t.Field(i).Name, depth+1)
			}
		case reflect.Slice:
			for i := 0; i < v.Len(); i++ {
				walk(v.Index(i), slot, depth+1)
			}
		}
	}
	walk(reflect.ValueOf(&root).Elem(), "root", 0)
	sort.Strings(out)
	return out
}

// c17JudgePresented reports every value of seq that is not a node (see c17NotANode).
func c17JudgePresented(c *wk.Case, src string, root ast.Stmt, seq []interface{}, how string) {
	reported := map[string]bool{}
	for i, x := range seq {
		why := c17NotANode(x)
		if why == "" {
			continue
		}
		sig := "presented-" + why + ":" + c17TypeName(x)
		if reported[sig] {
			continue
		}
		reported[sig] = true
		prev := "nothing"
		if i > 0 {
			prev = "the " + c17TypeName(seq[i-1])
		}
		detail := fmt.Sprintf("call %d of the callback (%s) was handed a %s value of type %T, which is no node of the tree (presented after %s)", i+1, how, why, x, prev)
		if why == "nil" {
			detail += fmt.Sprintf("; fields of the tree holding a typed nil pointer in a non-nil interface: %v", c17NilHolders(root))
		}
		c17Viol(c, sig, detail, src)
	}
}

type c17Rec struct {
	record bool
	seq    []interface{}
	first  map[interface{}]int
	calls  int
	failAt int // 1-based index of the call that returns stop; 0 = never
	stop   error
	after  interface{} // what was presented by call failAt+1, if any
}

func (r *c17Rec) cb(x interface{}) error {
	r.calls++
	if r.record {
		r.seq = append(r.seq, x)
		if c17Comparable(x) {
			if _, ok := r.first[x]; !ok {
				r.first[x] = len(r.seq) - 1
			}
		}
	}
	if r.failAt > 0 && r.calls == r.failAt+1 {
		r.after = x
	}
	if r.calls == r.failAt {
		return r.stop
	}
	return nil
}

type c17WalkOut struct {
	err      error
	panicked bool
	pval     string
	psig     string
}

// c17Walk runs astutil.Walk observing panics (internal/ank has no wrapper for the walker).
func c17Walk(tree ast.Stmt, f astutil.WalkFunc) (o c17WalkOut) {
	defer func() {
		if r := recover(); r != nil {
			o.panicked = true
			o.pval = fmt.Sprint(r)
			buf := make([]byte, 16<<10)
			buf = buf[:runtime.Stack(buf, false)]
			o.psig = ank.PanicSig(o.pval, string(buf))
		}
	}()
	o.err = astutil.Walk(tree, f)
	return
}

// per worker process: report each signature a few times only, count the rest
var c17Reported = map[string]int{}

// Phase history (c17_r5hist.go) judges walks made after many earlier walks of the
// same process were stopped by their callback: c17SigPrefix marks the signatures of
// what it finds ("after-stopped-walks:"), c17HistInfo describes the history for the
// detail text and the witness. Both are empty / nil in every other phase.
var (
	c17SigPrefix string
	c17HistInfo  func() map[string]interface{}
	c17ViolCount int // violations found by this process (written or not)
)

func c17Viol(c *wk.Case, sig, detail, src string) { c17ViolX(c, sig, detail, src, nil) }

// c17ViolX: c17Viol with more fields for the witness (position and kind of the error of a stopped walk).
func c17ViolX(c *wk.Case, sig, detail, src string, extra map[string]interface{}) {
	c17ViolCount++
	sig = c17SigPrefix + sig
	c17Reported[sig]++
	if c17Reported[sig] > 3 {
		c.Count("violations_repeated_not_written", 1)
		return
	}
	in := map[string]interface{}{"src": src}
	for k, v := range extra {
		in[k] = v
	}
	if c17HistInfo != nil {
		h := c17HistInfo()
		in["history"] = h
		detail += fmt.Sprintf(" [history of this process: %v walks were stopped by their callback before this walk, at nesting levels summing to %v; %v]", h["stopped_walks"], h["nesting_levels_sum"], h["mode"])
	}
	c.Violation(sig, detail, in)
}

// c17Check judges one parsed tree: the whole program (whole=true), or — only
// after the whole-program walk returned an error of its own, which leaves the
// rest of the tree unvisited — one statement of it, so that one failing
// construct does not hide what Walk does with the others.
func c17Check(c *wk.Case, src string, root ast.Stmt, whole bool, origin string) {
	nodes := astx.Nodes(root)
	if len(nodes) == 0 {
		return
	}
	deep := strings.HasPrefix(origin, "deep")
	var cellSeen map[string]bool // deep phases: a cell is counted once per program, not once per node
	if deep {
		cellSeen = map[string]bool{}
	}
	slotOf := map[interface{}]string{}          // first reflected slot of a node
	parents := map[interface{}][]int{}          // node -> indices of its entries (one per reflected parent edge)
	children := map[interface{}][]interface{}{} // node -> reflected children
	for i, n := range nodes {
		if _, ok := slotOf[n.Node]; !ok {
			slotOf[n.Node] = n.Slot
		}
		parents[n.Node] = append(parents[n.Node], i)
		if n.Parent != nil {
			children[n.Parent] = append(children[n.Parent], n.Node)
		}
		if whole && !deep {
			c.Tag("cell:" + c17TypeName(n.Node) + "@" + n.Slot)
		} else if whole {
			if cell := c17TypeName(n.Node) + "@" + n.Slot; !cellSeen[cell] {
				cellSeen[cell] = true
				c.Tag("cell:" + cell)
			}
		}
	}

	// --- run 1: recording callback that never fails
	rec := &c17Rec{record: true, first: map[interface{}]int{}}
	c.Begin(map[string]interface{}{"src": src, "op": "walk"})
	o := c17Walk(root, rec.cb)
	c.Events(rec.calls)
	if whole {
		c.Count("nodes_reflected", len(parents))
		c.Count("callback_calls", rec.calls)
	} else {
		c.Count("statements_rechecked_alone", 1)
	}
	// whatever Walk goes on to do (return, fail, panic): what it handed out must be nodes
	c17JudgePresented(c, src, root, rec.seq, "callback never fails")
	recheckAlone := func() {
		// every statement of every statement list, at any depth, on its own
		for _, n := range nodes {
			if n.Slot != "StmtsStmt.Stmts" {
				continue
			}
			if st, ok := n.Node.(ast.Stmt); ok {
				c17Check(c, src, st, false, origin+"-stmt")
			}
		}
	}
	if o.panicked {
		last := "<nothing presented>"
		if len(rec.seq) > 0 {
			last = c17TypeName(rec.seq[len(rec.seq)-1])
		}
		c.Tag("walk:panic:" + origin)
		inTree := 0
		for x := range rec.first {
			if _, ok := parents[x]; ok {
				inTree++
			}
		}
		c17Viol(c, "walk-panic:"+o.psig, fmt.Sprintf("astutil.Walk panicked: %s (last value presented: %s, %d of %d nodes presented; typed nil pointers held in interface fields: %v)",
			o.pval, last, inTree, len(parents), c17NilHolders(root)), src)
		if whole {
			// the panic left the rest of the tree unvisited: judge the other statements alone
			recheckAlone()
		}
		return
	}
	total := rec.calls
	var missedSample []string
	if o.err != nil {
		// "returns no error unless the callback does": the callback returned nil every time
		last := "<nothing presented>"
		if len(rec.seq) > 0 {
			last = c17TypeName(rec.seq[len(rec.seq)-1])
		}
		c.Tag("walk:own-error:" + origin)
		c17Viol(c, "walk-error:"+last,
			fmt.Sprintf("Walk returned %q although the callback never failed (last node presented: %s, %d of %d nodes presented)", o.err.Error(), last, len(rec.first), len(parents)), src)
		if whole {
			recheckAlone()
		}
	} else {
		c.Tag("walk:nil:" + origin)
		// --- completeness
		presented := func(n interface{}) bool { _, ok := rec.first[n]; return ok }
		// entered[n]: n or some reflected descendant of n (reached through unshared nodes only) was presented
		entered := map[interface{}]bool{}
		var mark func(n interface{}) bool
		mark = func(n interface{}) bool {
			if v, ok := entered[n]; ok {
				return v
			}
			entered[n] = false // cycle guard (trees have none)
			// a node shared by several parents (the literal 1 of every `x++` is one global
			// node; the target of `x += e` hangs under two parents) may have been presented
			// through another parent: it proves nothing about this one
			v := presented(n) && len(parents[n]) == 1
			for _, ch := range children[n] {
				if mark(ch) {
					v = true
				}
			}
			entered[n] = v
			return v
		}
		for _, n := range nodes {
			mark(n.Node)
		}
		nMissed := 0
		reported := map[string]bool{}
		for _, n := range nodes {
			if presented(n.Node) {
				continue
			}
			nMissed++
			// report where the walker stopped descending: the parent was presented, or the
			// walker demonstrably went through the parent (another part of it was presented)
			frontier := n.Parent == nil || entered[n.Parent]
			if !frontier {
				continue
			}
			sig := "missed:" + c17TypeName(n.Node) + "@" + n.Slot
			if len(missedSample) < 8 {
				missedSample = append(missedSample, sig)
			}
			if reported[sig] {
				continue
			}
			reported[sig] = true
			c17Viol(c, sig, fmt.Sprintf("Walk returned nil but never presented the %s held in %s (%d callback calls for %d nodes)",
				c17TypeName(n.Node), n.Slot, rec.calls, len(parents)), src)
		}
		c.Count("nodes_missed", nMissed)
		// --- order: when a node is first presented, one of its reflected parents must
		// already have been presented. (Nodes shared by several parents — the operand of
		// `x += e`, the literal 1 of `x++` — are judged against the earliest parent.)
		for node, idxs := range parents {
			fn, ok := rec.first[node]
			if !ok {
				continue
			}
			best := -1
			isRoot := false
			for _, i := range idxs {
				p := nodes[i].Parent
				if p == nil {
					isRoot = true
					break
				}
				if fp, ok := rec.first[p]; ok && (best < 0 || fp < best) {
					best = fp
				}
			}
			if isRoot || best < 0 { // root, or parent never presented (reported as missed above)
				continue
			}
			if fn < best {
				c17Viol(c, "order:"+c17TypeName(node)+"@"+slotOf[node],
					fmt.Sprintf("%s (slot %s) was presented at call %d, before its parent (call %d)", c17TypeName(node), slotOf[node], fn+1, best+1), src)
			}
		}
		nSyn := 0
		for _, x := range rec.seq {
			if !c17Comparable(x) {
				c.Tag("synthetic:" + c17TypeName(x))
				nSyn++
				continue
			}
			if _, ok := parents[x]; !ok {
				c.Tag("synthetic:" + c17TypeName(x))
				nSyn++
			}
		}
		c.Count("presented_not_in_tree", nSyn)
	}

	// --- abort: the callback fails at call k
	var ks []int
	limit := 64
	if total <= limit {
		for k := 1; k <= total; k++ {
			ks = append(ks, k)
		}
		c.Tag("abort-sweep:all-positions")
	} else {
		n := 16
		if c.Tier == "thorough" {
			n = 48
		}
		if deep {
			// the programs of the deep phases make thousands of calls each; the first two,
			// the last two and four (thorough: twelve) drawn positions
			n = 4
			if c.Tier == "thorough" {
				n = 12
			}
		}
		pick := map[int]bool{1: true, 2: true, total: true, total - 1: true}
		for len(pick) < n+4 && len(pick) < total {
			pick[1+c.Rng.Intn(total)] = true
		}
		for k := range pick {
			ks = append(ks, k)
		}
		sort.Ints(ks)
		c.Tag("abort-sweep:sampled")
	}
	// the kind of error the callback returns rotates over c17ErrKinds (c17_r6errs.go:
	// errors.New, wrapped, joined, custom pointer/value/string/slice types, parse and run
	// errors with and without a position, typed nil pointers, well-known sentinels)
	for _, k := range ks {
		k := k
		c17AbortJudge(c, src, root, k, total, c17KindFor(src, k), rec.seq, slotOf,
			func() string { return c17Enclosing(nodes, parents, rec.seq[k-1]) })
	}
	c.Count("abort_points_checked", len(ks))

	// --- overlapping walks: a walk started from inside the callback (of another
	// tree, and of this very tree) and walks running on other goroutines at the
	// same time must not change what this walk presents
	c17Overlap++
	if deep && len(parents) > 2000 {
		// deep phases: the overlapping walks (five more recorded walks of the tree) are
		// run for the smaller trees only; matrix/corpus/gen are not affected
		c.Count("overlapping_walks_skipped_large_deep_tree", 1)
	} else if whole && o.err == nil && !o.panicked && (c.Tier == "thorough" || c17Overlap%3 == 0 || total > 120) {
		other := c17OtherTree()
		nop := func(interface{}) error { return nil }
		same := func(seq []interface{}) string {
			if len(seq) != len(rec.seq) {
				return fmt.Sprintf("%d nodes presented, %d by the undisturbed walk", len(seq), len(rec.seq))
			}
			for i := range seq {
				_, inTree := parents[rec.seq[i]]
				if !c17Comparable(rec.seq[i]) {
					inTree = false
				}
				if inTree && seq[i] != rec.seq[i] || c17TypeName(seq[i]) != c17TypeName(rec.seq[i]) {
					return fmt.Sprintf("call %d presents a %s, the undisturbed walk presented the %s in %s there", i+1, c17TypeName(seq[i]), c17TypeName(rec.seq[i]), slotOf[rec.seq[i]])
				}
			}
			return ""
		}
		r3 := &c17Rec{record: true, first: map[interface{}]int{}}
		inner := 0
		c.Begin(map[string]interface{}{"src": src, "op": "walk-reentrant"})
		o3 := c17Walk(root, func(x interface{}) error {
			r3.cb(x)
			if inner == 0 {
				inner++
				astutil.Walk(other, nop)
				if total <= 60 {
					astutil.Walk(root, nop)
				}
				inner--
			}
			return nil
		})
		c.Events(r3.calls)
		switch {
		case o3.panicked:
			c17Viol(c, "walk-panic:"+o3.psig, "astutil.Walk panicked when its callback started another walk: "+o3.pval, src)
		case o3.err != nil:
			c17Viol(c, "reentrant-walk-error", fmt.Sprintf("Walk returned %q when its callback started another walk", o3.err.Error()), src)
		default:
			if d := same(r3.seq); d != "" {
				c17Viol(c, "reentrant-walk-differs", "a walk whose callback starts other walks: "+d, src)
			}
		}
		const nw = 4
		recs := make([]*c17Rec, nw)
		outs := make([]c17WalkOut, nw)
		var wg sync.WaitGroup
		stopBg := make(chan struct{})
		var bg sync.WaitGroup
		for i := 0; i < 2; i++ {
			bg.Add(1)
			go func() {
				defer bg.Done()
				for {
					select {
					case <-stopBg:
						return
					default:
						astutil.Walk(other, nop)
					}
				}
			}()
		}
		c.Begin(map[string]interface{}{"src": src, "op": "walk-concurrent"})
		for i := 0; i < nw; i++ {
			recs[i] = &c17Rec{record: true, first: map[interface{}]int{}}
			wg.Add(1)
			go func(i int) {
				defer wg.Done()
				outs[i] = c17Walk(root, recs[i].cb)
			}(i)
		}
		wg.Wait()
		close(stopBg)
		bg.Wait()
		for i := 0; i < nw; i++ {
			c.Events(recs[i].calls)
			switch {
			case outs[i].panicked:
				c17Viol(c, "walk-panic:"+outs[i].psig, "astutil.Walk panicked while other goroutines were walking: "+outs[i].pval, src)
			case outs[i].err != nil:
				c17Viol(c, "concurrent-walk-error", fmt.Sprintf("Walk returned %q while other goroutines were walking", outs[i].err.Error()), src)
			default:
				if d := same(recs[i].seq); d != "" {
					c17Viol(c, "concurrent-walk-differs", "a walk running while other goroutines walk this and another tree: "+d, src)
				}
			}
		}
		c.Count("overlapping_walks_checked", 1+nw)
	}

	if whole && c.WantSample() {
		var types []string
		for i, x := range rec.seq {
			if i >= 24 {
				types = append(types, "…")
				break
			}
			types = append(types, c17TypeName(x))
		}
		c.Sample(map[string]interface{}{"src": src, "reflected_nodes": len(parents), "callback_calls": rec.calls,
			"presented_in_order": types, "walk_error": ank.ErrText(o.err), "missed": missedSample, "abort_points_checked": len(ks)})
	}
}

// c17Enclosing names the statements that enclose node x (innermost first), for the
// detail text of an abort violation: where in the program the callback failed.
func c17Enclosing(nodes []astx.NodeInfo, parents map[interface{}][]int, x interface{}) string {
	if !c17Comparable(x) {
		return ""
	}
	var chain []string
	for hop := 0; hop < 100000; hop++ {
		idxs, ok := parents[x]
		if !ok || len(idxs) == 0 {
			break
		}
		p := nodes[idxs[0]].Parent
		if p == nil {
			break
		}
		if tn := c17TypeName(p); strings.HasSuffix(tn, "Stmt") && tn != "StmtsStmt" && len(chain) < 6 {
			chain = append(chain, tn)
		}
		x = p
	}
	if len(chain) == 0 {
		return ""
	}
	return "; the node lies inside " + strings.Join(chain, " < ")
}

var c17Overlap int

var (
	c17OtherOnce sync.Once
	c17Other     ast.Stmt
)

// c17OtherTree: a second tree, full of anonymous calls, walked while another walk is in progress.
func c17OtherTree() ast.Stmt {
	c17OtherOnce.Do(func() {
		t, err, po := ank.Parse("o.m(p1, p2 + p3)(q1, q2)\ngo r.s(t1, [t2, t3])\ndefer func(u) { u.v(w1) }(v1, v2)\nx = f(1)(2)(3)\ny = a + b * c - d")
		if err != nil || po.Panicked {
			panic("C17: auxiliary tree does not parse")
		}
		c17Other = t
	})
	return c17Other
}

// c17Program parses one source and judges its tree.
func c17Program(c *wk.Case, src, origin string) bool {
	c.Begin(map[string]interface{}{"src": src, "op": "parse"})
	tree, err, po := ank.Parse(src)
	if po.Panicked || err != nil {
		// not "a tree produced by the parser"
		c.Excluded(origin + "-does-not-parse")
		return false
	}
	if rv := reflect.ValueOf(tree); tree == nil || rv.Kind() == reflect.Ptr && rv.IsNil() {
		// the empty program (no statement at all, or empty statements only): there is
		// nothing to present; Walk still must return nil, and must not panic. A root that
		// is a typed nil pointer (non-nil interface) holds no node either.
		rec := &c17Rec{record: true, first: map[interface{}]int{}}
		c.Begin(map[string]interface{}{"src": src, "op": "walk-empty"})
		o := c17Walk(tree, rec.cb)
		c.Events(rec.calls)
		c.Eval(src, false)
		c.Tag("programs:empty:" + origin)
		if tree != nil {
			c.Tag("programs:typed-nil-root")
		}
		c17JudgePresented(c, src, tree, rec.seq, "empty program")
		switch {
		case o.panicked:
			c17Viol(c, "walk-panic:"+o.psig, fmt.Sprintf("astutil.Walk of the empty program (root %T) panicked: %s", tree, o.pval), src)
		case o.err != nil:
			c17Viol(c, "walk-error:<empty program>", fmt.Sprintf("Walk of the empty program (root %T): err=%v", tree, o.err), src)
		}
		return true
	}
	n := 0
	if strings.HasPrefix(origin, "deep") {
		if n = c17UnfoldedSize(tree, c17UnfoldLimit); n >= c17UnfoldLimit {
			// a DAG whose unfolding is out of proportion to the source (see c17UnfoldedSize): not judged
			c.Excluded(origin + "-shared-nodes-unfold-beyond-limit")
			return true
		}
	} else {
		n = len(astx.Nodes(tree))
	}
	c.Eval(src, n >= 3)
	c.Tag("programs:" + origin)
	c17Check(c, src, tree, true, origin)
	return true
}

// ---------------------------------------------------------------------------
// coverage of the deterministic list

var c17FallbackTypes = []string{"StmtsStmt", "ExprStmt", "IfStmt", "TryStmt", "ForStmt", "CForStmt", "LoopStmt", "BreakStmt", "ContinueStmt",
	"ReturnStmt", "ThrowStmt", "ModuleStmt", "SwitchStmt", "SwitchCaseStmt", "VarStmt", "LetsStmt", "LetMapItemStmt", "GoroutineStmt",
	"DeferStmt", "DeleteStmt", "CloseStmt", "ChanStmt", "OpExpr", "LiteralExpr", "ArrayExpr", "MapExpr", "IdentExpr", "UnaryExpr", "AddrExpr",
	"DerefExpr", "ParenExpr", "NilCoalescingOpExpr", "TernaryOpExpr", "CallExpr", "AnonCallExpr", "MemberExpr", "ItemExpr", "SliceExpr",
	"FuncExpr", "LetsExpr", "ChanExpr", "ImportExpr", "MakeExpr", "MakeTypeExpr", "LenExpr", "IncludeExpr", "BinaryOperator",
	"ComparisonOperator", "AddOperator", "MultiplyOperator"}

// c17NodeTypes lists the node struct types declared in ast/stmt.go, ast/expr.go,
// ast/operator.go of the tree under test (so a node type added later is demanded too).
func c17NodeTypes() ([]string, string) {
	root := os.Getenv("VERIF_REPO")
	if root == "" {
		root = "/repo"
	}
	var out []string
	fset := gotoken.NewFileSet()
	for _, f := range []string{"stmt.go", "expr.go", "operator.go"} {
		af, err := goparser.ParseFile(fset, filepath.Join(root, "ast", f), nil, 0)
		if err != nil {
			return c17FallbackTypes, "fallback"
		}
		for _, d := range af.Decls {
			gd, ok := d.(*goast.GenDecl)
			if !ok {
				continue
			}
			for _, sp := range gd.Specs {
				ts, ok := sp.(*goast.TypeSpec)
				if !ok {
					continue
				}
				if _, ok := ts.Type.(*goast.StructType); !ok {
					continue
				}
				if strings.HasSuffix(ts.Name.Name, "Impl") || !ts.Name.IsExported() {
					continue
				}
				out = append(out, ts.Name.Name)
			}
		}
	}
	if len(out) < 10 {
		return c17FallbackTypes, "fallback"
	}
	return out, "source"
}

var (
	c17PosType = reflect.TypeOf((*ast.Pos)(nil)).Elem()
	c17AstPkg  = reflect.TypeOf(ast.IdentExpr{}).PkgPath()
)

func c17IsChildType(t reflect.Type) bool {
	switch t.Kind() {
	case reflect.Interface:
		return t.PkgPath() == c17AstPkg && t.Implements(c17PosType)
	case reflect.Slice:
		return c17IsChildType(t.Elem())
	case reflect.Ptr:
		return t.Elem().Kind() == reflect.Struct && t.Elem().PkgPath() == c17AstPkg && t.Implements(c17PosType) && t.Elem().Name() != "Token"
	}
	return false
}

// c17Coverage parses the whole deterministic list and demands that every node
// type, and every child-holding field of every node type, occurred.
func c17Coverage(c *wk.Case) {
	seenType := map[string]int{}
	seenSlot := map[string]int{}
	rtypes := map[string]reflect.Type{}
	cells := map[string]bool{}
	parsed := 0
	for _, src := range c17FixedList() {
		tree, err, po := ank.Parse(src)
		if po.Panicked || err != nil || tree == nil {
			continue
		}
		parsed++
		for _, n := range astx.Nodes(tree) {
			tn := c17TypeName(n.Node)
			seenType[tn]++
			rtypes[tn] = reflect.TypeOf(n.Node).Elem()
			if n.Parent != nil {
				seenSlot[n.Slot]++
			}
			cells[tn+"@"+n.Slot] = true
		}
	}
	want, how := c17NodeTypes()
	c.Tag("coverage:type-list-from-" + how)
	c.Count("fixed_programs_parsed", parsed)
	c.Count("fixed_node_types_seen", len(seenType))
	c.Count("fixed_matrix_cells_seen", len(cells))
	var have []string
	for t := range seenType {
		have = append(have, t)
	}
	sort.Strings(have)
	for _, t := range want {
		c.Eval("coverage:"+t, true)
		if seenType[t] == 0 {
			c.Violation("no-coverage:"+t, "node type "+t+" never occurred in the deterministic program list: no evidence for it", map[string]interface{}{"types_seen": have})
		}
	}
	nSlots := 0
	for tn, rt := range rtypes {
		for i := 0; i < rt.NumField(); i++ {
			f := rt.Field(i)
			if f.Anonymous || !c17IsChildType(f.Type) {
				continue
			}
			nSlots++
			slot := tn + "." + f.Name
			c.Eval("coverage-slot:"+slot, true)
			if seenSlot[slot] == 0 {
				c.Violation("no-coverage:"+slot, "child field "+slot+" was never non-empty in the deterministic program list: no evidence for it", nil)
			}
		}
	}
	c.Count("fixed_child_fields", nSlots)
	c.Events(parsed)
	// per slot: how many distinct node types were seen in it
	perSlot := map[string][]string{}
	for cell := range cells {
		i := strings.Index(cell, "@")
		perSlot[cell[i+1:]] = append(perSlot[cell[i+1:]], cell[:i])
	}
	if c.WantSample() {
		m := map[string]int{}
		for s, ts := range perSlot {
			m[s] = len(ts)
		}
		c.Sample(map[string]interface{}{"deterministic_list": len(c17FixedList()), "parsed": parsed, "distinct_node_types_per_slot": m})
	}
}

// ---------------------------------------------------------------------------

const c17CorpusCases = 32

func init() {
	wk.Register(&wk.Engine{
		ID: "C17",
		Plan: func(tier string) fw.Plan {
			nFixed := (len(c17FixedList()) + c17FixedPerCase - 1) / c17FixedPerCase
			nGen := 3000
			if tier == "thorough" {
				nGen = 100000
			}
			nDeep := len(c17DeepList())
			nDeepGen := 64
			if tier == "thorough" {
				nDeepGen = 3000
			}
			nHist := 2 * len(c17HistModes)
			if tier == "thorough" {
				nHist = 10 * len(c17HistModes)
			}
			return fw.Plan{
				Level: "exploration",
				Rule: "phase matrix (deterministic): every expression template (one per grammar production) placed in every expression hole of every statement/expression template, " +
					"every statement template placed in every block of every block-holding template, each template alone with filled/empty blocks; " +
					"every degenerate block content (one/two/many empty statements `;` `;;` `;\\n;`, newlines only, comments only, empty statements before/between/after real statements) as the whole program, " +
					"around top-level statements, in every block hole of every block-holding template (one hole at a time and all at once), block-holding constructs with degenerate blocks nested in every block hole, " +
					"function literals with degenerate bodies in every expression hole; its last case demands that every node type of ast/stmt.go, ast/expr.go, ast/operator.go " +
					"and every child-holding field occurred (no-coverage:<type> otherwise). phase corpus: every script of the repository (tests, examples) that parses. " +
					"phase gen: PRNG nesting of the same templates (depth<=4, 1-4 top-level statements; empty blocks are sometimes runs of empty statements/blank lines/comments, one statement list in six gets empty statements before/between/after its members). " +
					"phase deep (deterministic): every expression template nested in itself through each of its expression holes, raw and with the child parenthesised, 500..3000 levels (depths rotate over 500,1200,2000,3000,800,1001,1030,2600,1500,2048), " +
					"in rotating statement contexts, with an operator-rich payload at the bottom and operator expressions in the holes off the spine; every block-holding template nested in itself through each block hole, 300..2000 levels; " +
					"operator chains of 1000..3000 operators; lists (statements, arguments, array/map members, else-if arms, switch cases, assignment sides, return/var lists) of 1000..3000 members. " +
					"phase deepgen: PRNG spines mixing 1-11 (template, hole) pairs per program, depth 500..3000 (block spines 200..1500), random fillers and payload; in both deep phases the abort sweep draws 8 positions (thorough 16) and the overlapping-walk part is run for trees of at most 2000 nodes only; a program whose shared nodes (`x += e` holds x twice) make the unfolded tree exceed 600000 entries is excluded. " +
					"phase history (c17_r5hist.go; every case its own process): probe programs (six fixed small programs covering every statement kind, four drawn from the matrix, and the trees to be stopped) are judged in the fresh process, " +
					"then walks are stopped by the callback in four rounds (2%, 8%, 30%, 60% of a budget of 24 million callback calls, thorough 300 million) and the small probes are judged again after every round, the stopped trees after the last; " +
					"modes by case index: one parenthesised expression spine of 1500..3000 levels / one block spine of 300..1500 levels / one raw expression spine (random template and hole), stopped at PRNG positions of which 70% lie in the deepest 40% of the levels (thousands of stopped walks, nesting levels at the stops summing to millions); " +
					"forty small programs each stopped at every position in turn (hundreds of thousands of stopped walks); a deep spine stopped by four goroutines at once; a deep spine stopped from inside the callback of a complete walk of a small tree. " +
					"Every stopped walk is judged (k calls, the callback's error returned), a small tree is walked completely after every 256 of them; signatures found after the first stopped walk carry the prefix after-stopped-walks:. " +
					"For every program: node set + parent relation by reflection (astx) versus the sequence " +
					"astutil.Walk presents; a panic of Walk (walk-panic:<site>) and a callback argument that is nil, a typed nil pointer (presented-nil:<Type>) or no node value at all (presented-non-node:<Type>) are violations; " +
					"after a Walk error or panic every statement of the program is judged again on its own; then the callback fails at call k for every k (programs with <=64 calls) or a PRNG sample of k; " +
					"the error it returns is of a kind that rotates with k over the list of c17_r6errs.go (errors.New with and without text, fmt.Errorf %w wrappers of a plain and of a parse error, errors.Join, host types: pointer, comparable struct value, string, uncomparable slice, a type whose Is answers true to everything, a type with a position of its own; " +
					"*parser.Error without position / with position / line only / with file name and Fatal / zero value / one made by the parser, *vm.Error with and without position, typed nil pointers (*parser.Error, *vm.Error, a host type with a nil-safe Error method) in a non-nil error interface, " +
					"the sentinels io.EOF, filepath.SkipDir, fs.SkipAll, context.Canceled, context.DeadlineExceeded, vm.ErrBreak/ErrContinue/ErrReturn/ErrInterrupt); the walk must make exactly k calls, return that very value and leave it as it was (abort-error-modified otherwise); a violation seen with another kind than errors.New is tried again with errors.New and reported under <signature>/<kind> only when errors.New passes or fails differently. " +
					"phase errkinds (deterministic): every pinned program and every template on its own (expression templates also as right-hand side and as argument), the callback failing at every call position with every kind of error in turn; its last case demands that every node type of the ast package occurs in these programs (no-coverage:errkinds:<Type>). " +
					"An evaluation is non-trivial when the program parsed to >=3 nodes; distinct = distinct source text. coverage_tags cell:<Type>@<Parent.Field> is the coverage matrix.",
				Assumptions: []string{
					"node identity is pointer identity; the node set is what reflection reaches from the root through fields of package ast (reflect.Value fields are not nodes)",
					"nodes shared by several parents (x += e, x++) must be presented after at least one of their parents",
					"extra values presented by Walk that are not nodes of the tree (fabricated CallExpr of an anonymous call) are allowed as long as they are well-formed nodes: non-nil pointers to statement/expression/operator structs of package ast",
					"a nil interface or typed nil pointer handed to the callback is not a node (the statement speaks of presenting nodes of the tree), so it is reported; a field holding a typed nil pointer contributes no node to the reflected set",
					"the empty program (nil tree, or a root that is a typed nil pointer) must be walked without error, panic or callback argument that is not a node",
					"'returns that error' is judged by identity: Walk must return the very error value the callback returned (err == stop); an error that wraps it (errors.Is) or copies its text is a different error",
					"'an error' is any non-nil value of the error interface, whatever its dynamic type: a sentinel of another package (io.EOF, filepath.SkipDir, vm.ErrBreak) has no meaning of its own for Walk, and a typed nil pointer in a non-nil interface is an error (err != nil); identity of an error whose type cannot be compared with == (a slice type) is the same dynamic type, backing array and length; the oracle never calls a method of the callback's error to decide",
					"'returns that error' includes that the value is still what the callback returned: a walk that writes to the error (fills in a position) and returns the same pointer is reported as abort-error-modified",
					"deep/deepgen: a program nested thousands of levels deep or holding lists of thousands of members is a parseable program like any other; programs the parser rejects (or cannot parse) are outside the domain",
					"programs that do not parse are outside the domain",
					"history: the statement holds for every walk of a process, whatever the earlier walks of that process did; stopping a walk by a callback error is the documented way of ending it, so any number of stopped walks may precede a complete one. Callbacks that panic are not part of any history (the statement is silent about them)",
				},
				Phases: []fw.Phase{
					{Name: "matrix", Cases: nFixed + 1, Chunk: (nFixed + 16) / 16, TimeoutS: 600},
					{Name: "errkinds", Cases: c17ErrKindCases(), Chunk: (c17ErrKindCases() + 3) / 4, TimeoutS: 600, MemMB: 3072},
					{Name: "corpus", Cases: c17CorpusCases, Chunk: 2, TimeoutS: 600},
					{Name: "gen", Cases: nGen, Chunk: (nGen + 63) / 64, TimeoutS: 900},
					// deep trees: few workers at a time, address space bounded (a runaway input must
					// kill its own worker, not the machine)
					{Name: "deep", Cases: nDeep, Chunk: (nDeep + 15) / 16, Jobs: 2, MemMB: 3072, TimeoutS: 900},
					{Name: "deepgen", Cases: nDeepGen, Chunk: (nDeepGen + 15) / 16, Jobs: 2, MemMB: 3072, TimeoutS: 900},
					// histories of stopped walks: one process per case
					{Name: "history", Cases: nHist, Chunk: 1, Jobs: 4, MemMB: 3072, TimeoutS: 900},
				},
			}
		},
		Run: func(c *wk.Case) {
			switch c.Phase {
			case "matrix":
				list := c17FixedList()
				nFixed := (len(list) + c17FixedPerCase - 1) / c17FixedPerCase
				if c.Index >= nFixed {
					c17Coverage(c)
					return
				}
				hi := (c.Index + 1) * c17FixedPerCase
				if hi > len(list) {
					hi = len(list)
				}
				for _, src := range list[c.Index*c17FixedPerCase : hi] {
					c17Program(c, src, "matrix")
				}
			case "errkinds":
				c17RunErrKinds(c)
			case "corpus":
				sc := corpus.Scripts()
				for i := c.Index; i < len(sc); i += c17CorpusCases {
					c17Program(c, sc[i], "corpus")
				}
			case "deep":
				c17RunDeep(c)
			case "deepgen":
				c17RunDeepGen(c)
			case "history":
				c17RunHistory(c)
			case "gen":
				g := &c17Gen{r: c.Rng}
				for n := 0; n < 10; n++ {
					ok := false
					for try := 0; try < 6 && !ok; try++ {
						ok = c17Program(c, g.program(), "gen")
					}
				}
			}
		},
	})
}
