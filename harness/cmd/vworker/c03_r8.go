package main

// C03, round 8 ("volume and history").
//
// The statement is about the source text alone: the tree a source parses to is
// dictated by the operator table and the written literals. Nothing in it depends
// on how many other sources the process parsed before, how often this source was
// parsed, how long the source is, at which offset a token stands, how many
// operands a chain has or how deep a tree nests. The older phases parse every
// source once, in short-lived workers, and keep every source small. The phases
// of this file keep the oracle (tree drawn in the IR -> minimal / fully
// parenthesised spelling -> parsed tree converted back and compared with the IR;
// equal values; literals against the written Go value) and move the workload:
//
//	history  one case = one long history in ONE process. A fixed reference set
//	         (trees of the enumerated neighbourhoods, 3-operator trees, drawn
//	         trees in every statement position, integer expressions whose value is
//	         computed natively, literal spellings with their Go value) is parsed
//	         again and again through parser.ParseSrc, vm.Execute and
//	         vm.ExecuteContext while thousands of pairwise distinct sources of the
//	         same kinds stream through the same three entry points; a reference is
//	         asked again after exactly N-1, N and N+1 distinct successful other
//	         parses (N = 256, 1000, 1024, 4096), once per distance with a reference
//	         that was not asked for a long time, once cumulatively (asked at N-1,
//	         one more source, asked, one more, asked). Segments are pure or
//	         interleaved with rejected sources, repeats of recent sources and
//	         sources beyond 4 KiB / 64 KiB (counted or not counted into the
//	         distance). Trees are kept, dropped and runtime.GC() forced.
//	sizes    chains of 255..257, 1023..1025, 4095..4097, 12000 operands, towers
//	         nested that deep, lists / argument lists / map literals / statement
//	         lists that long, string literals, numerals and names on the size
//	         marks, and a fixed expression moved token by token across the source
//	         offsets 256, 1024, 4096, 65536 (bytes and characters, behind blanks,
//	         comments, multi-byte string statements and short statements).
//	hot      one source parsed 1100 (4200) times, one pair of trees (minimal /
//	         full) run that often with operands that change kind between rounds,
//	         one loop evaluating both spellings that often, one source parsed from
//	         many goroutines at once.
//
// No phase knows a cache, counter or threshold of the parser; the sizes are the
// generic list.

import (
	"context"
	"fmt"
	"math/rand"
	"runtime"
	"strconv"
	"strings"
	"sync"

	"github.com/mattn/anko/ast"
	"github.com/mattn/anko/env"
	"github.com/mattn/anko/parser"

	"verifharness/internal/ank"
	"verifharness/internal/astx"
	"verifharness/internal/fw"
	"verifharness/internal/wk"
)

const c03R8Rule = " Round 8 (volume and history; the oracle of the older phases - IR tree against the parsed tree of the minimal and of the fully parenthesised spelling, equal values, literals against the written Go value - applied at every parse and every evaluation): " +
	"phase history: one case is one history in one process: a reference set of ~60 sources (enumerated neighbourhoods, 3-operator trees, drawn trees in rotating statement positions, integer expressions with a natively computed value, literal spellings with their Go value) is parsed again and again through parser.ParseSrc, vm.Execute and vm.ExecuteContext while >= 25000 pairwise distinct sources of the same kinds stream through the same entry points; a reference is asked again after exactly N-1, N, N+1 distinct successful other parses for N in 256, 1000, 1024, 4096 (thorough: 8192, 16384, 65536 too), each distance once with a reference of its own that was not asked for the whole sweep before and once cumulatively (N-1, +1, +1); segments are pure, or interleaved with rejected sources, repeats of the most recent sources and sources beyond 4 KiB / 64 KiB (cases alternate between counting them into the distance and not); every re-parse must convert to the reference's IR tree, dump (positions included) as at the first parse, and its tree must run to the first result (and the native value where there is one); kept trees are dropped and runtime.GC() forced every 1500 parses, environments of earlier runs are kept alive. " +
	"phase sizes: left-associative, two-level, `??`, `?:` and `&&`/`||` chains of 255..257, 1023..1025, 4095..4097 and 12000 operands (quick tier: 12000 for six of the kinds); parenthesis, unary, index, call, member, right-nested binary, array-literal, ternary-middle and func-literal towers that deep; array literals, argument lists and map literals of that many operator expressions (thorough: 65535..65537 and 200000) and sources of that many statements; string literals (three quote styles, 1- to 4-byte characters at every alignment, escapes on the mark), integer numerals behind zeros in decimal / 0x / 0b, exactly representable float numerals and names of 255..257, 1023..1025, 4095..4097 (strings also 65535..65537 and 200000) characters; a fixed expression of two-character operators, numerals, strings and names placed so that every one of its characters in turn stands on offset 256, 1024, 4096 and 65536 (thorough 131072) counted in characters and in bytes, behind blanks, a comment, a statement holding a multi-byte string and a run of short statements: the expression's tree and value are those of the expression alone. " +
	"phase hot: one source parsed 1100 (thorough 4200) times through the three entry points with a distinct other source between any two parses in the second half; the trees of the minimal and the full spelling run 1100 (4200) times each in equal environments whose bindings change kind from round to round (ints, floats, strings, bools, mixed), equal results every round and unchanged dumps on the evaluation counts 1, 2, 255..257, 999..1001, 1023..1025, 4095..4097; one script loop evaluating both spellings that often with a host probe comparing them every round; one source parsed from 64 (thorough 2048) goroutines at once, each of which also parses sources of its own, every result judged. " +
	"phase overlap: G = 8, 16, 32, 64 host goroutines released by a barrier, each parsing (parser.ParseSrc, vm.Execute, vm.ExecuteContext) and evaluating 10 (thorough 24) texts of its own, two (four) rounds: programs of `v = v + e` / `v = e - v` statements over drawn integer expressions, 100 bytes to 70 KiB long (sizes on and next to 256, 1024, 4096, 65536, 5000..9000 favoured), one in eight deliberately invalid (a numeral beyond int64, a stray parenthesis or an unfinished expression in a middle statement: must be rejected every time); every valid text was parsed alone first, and under overlap must again give every statement's IR tree, the dump (positions included) it gave alone, and the natively computed value."

var c03R8Assumptions = []string{
	"the tree and the value of a source depend on the source text alone: how many sources the process parsed before, how often and through which entry point (parser.ParseSrc, vm.Execute, vm.ExecuteContext) this one was parsed, whether earlier trees are still alive, and from how many goroutines it is parsed at once are not inputs (statement: 'for every expression', 'literals denote exactly what is written')",
	"the length of a source, the offset of a token, the number of operands of a chain, the depth of a nesting and the length of a literal or a name are not inputs of the operator table; blanks, comments and earlier statements in front of an expression do not change its tree (positions are not compared there)",
	"phase sizes/hot: a run error or a refusal to evaluate a very deep tree is not judged, only that the minimal and the full spelling agree; nesting beyond 12000 and sources beyond 200000 operands / 300 KB are not asked for",
}

func c03R8Phases(tier string) []fw.Phase {
	nh, nhot, nov := 6, 8, 4
	if tier == "thorough" {
		nh, nhot, nov = 32, 48, 32
	}
	return []fw.Phase{
		{Name: "history", Cases: nh, Chunk: 1, TimeoutS: 1800},
		{Name: "sizes", Cases: len(c03R8SizeKinds), Chunk: 1, TimeoutS: 1800},
		{Name: "hot", Cases: nhot, Chunk: 1, TimeoutS: 1800},
		{Name: "overlap", Cases: nov, Chunk: 1, TimeoutS: 1800},
	}
}

func c03R8Run(c *wk.Case) bool {
	switch c.Phase {
	case "history":
		c03R8History(c)
	case "sizes":
		c03R8Sizes(c)
	case "hot":
		c03R8Hot(c)
	case "overlap":
		c03R8Overlap(c)
	default:
		return false
	}
	return true
}

// ---------------------------------------------------------------------------
// judging

// c03R8Rep reports violations, at most two per signature and case.
type c03R8Rep struct {
	c    *wk.Case
	seen map[string]int
}

func newC03R8Rep(c *wk.Case) *c03R8Rep { return &c03R8Rep{c: c, seen: map[string]int{}} }

func (r *c03R8Rep) viol(sig, detail string, input map[string]interface{}) {
	r.seen[sig]++
	if r.seen[sig] > 2 {
		return
	}
	for k, v := range input {
		if s, ok := v.(string); ok {
			input[k] = c03Clip(s)
		}
	}
	r.c.Violation(sig, detail, input)
}

func c03R8Cls(o ank.Out) string {
	switch {
	case o.Panicked:
		return "panic"
	case o.Err != nil:
		return "error"
	}
	return "value " + c03PtrRe.ReplaceAllString(ank.Render(o.Val), "0xPTR")
}

func c03R8Count(n *c03Node) int {
	k := 0
	n.walk(func(*c03Node) { k++ })
	return k
}

// c03R8Diff: linear-time comparison of two normalised IR trees (c03Diff builds
// the canonical text of every subtree: quadratic on a chain of 12000 operands).
// The vocabulary of the answer is c03Diff's.
func c03R8Diff(w, g *c03Node, parent string, slot int) string {
	at := "under[" + parent + "#" + strconv.Itoa(slot) + "]"
	if w == nil || g == nil {
		if w == nil && g == nil {
			return ""
		}
		return "shape:want[" + w.sigLabel() + "]got[" + g.sigLabel() + "]" + at
	}
	if w.k == c03Unknown || g.k == c03Unknown {
		return "node:want[" + w.sigLabel() + "]got[" + g.label() + "]"
	}
	if w.k != g.k || w.label() != g.label() || len(w.kids) != len(g.kids) {
		if w.isOp() && g.isOp() && w.k == g.k && len(w.kids) == len(g.kids) {
			return "operator:want[" + w.label() + "]got[" + g.label() + "]"
		}
		return "shape:want[" + w.sigLabel() + "]got[" + g.sigLabel() + "]" + at
	}
	switch w.k {
	case c03Lit:
		if w.litString() != g.litString() {
			return "literal-differs:" + w.label()
		}
	case c03Name, c03Call, c03Mem, c03Func:
		if w.op != g.op {
			return "name-differs:" + w.label()
		}
	}
	for i := range w.kids {
		if d := c03R8Diff(w.kids[i], g.kids[i], w.label(), i); d != "" {
			return d
		}
	}
	return ""
}

// c03R8Same compares the wanted (normalised) tree with a parsed expression.
func c03R8Same(want *c03Node, ex ast.Expr) (bool, string) {
	got := c03Norm(c03FromAST(ex))
	d := c03R8Diff(want, got, "root", 0)
	if d == "" {
		return true, ""
	}
	if c03R8Count(want) <= 300 && c03R8Count(got) <= 300 {
		if ok, where := c03DiffSig(want, got); !ok {
			return false, where
		}
	}
	return false, d
}

// c03R8Item is one source with everything the oracle knows about it.
type c03R8Item struct {
	class  string
	want   *c03Node // normalised IR tree expected at the statement position
	pos    int
	expr   string // minimal spelling
	full   string // program with the fully parenthesised spelling ("" = none)
	src    string // program with the minimal spelling
	hasVal bool
	val    interface{} // the value the program denotes, computed natively
	// first observations
	dump0 string
	res0  string
	asks  int
}

func c03R8MkItem(class string, t *c03Node, pos int) *c03R8Item {
	p := &c03Positions[pos]
	rootParen := false
	if pos == c03ForPos {
		rootParen = true // `for x in xs {` / `for {`: the position is ambiguous there (see c03CheckTree)
	}
	e := c03Print(t, c03Min, false, rootParen)
	f := c03Print(t, c03Full, false, rootParen)
	return &c03R8Item{class: class, want: c03Norm(t), pos: pos, expr: e, src: p.pre + e + p.post, full: p.pre + f + p.post}
}

// c03R8Usable: trees the older phases report under listed findings, or that
// might build an astronomically long string, are not drawn here.
func c03R8Usable(t *c03Node) bool {
	return !c03HasChainedIn(t) && !c03HasNegNumPostfix(t) && c03ExecSafe(t)
}

// c03R8Arith draws an integer expression over + - * & | and unary - ^ with
// literal leaves (decimal, 0x, 0b, behind zeros) and computes its value natively.
// mark >= 0 is used as one leaf (makes the source distinct from every other).
func c03R8Arith(r *rand.Rand, ops int, mark int64) (*c03Node, int64) {
	if ops <= 0 {
		v := int64(r.Intn(60))
		if mark >= 0 {
			v = mark
		}
		n := c03IntLit(v)
		switch r.Intn(6) {
		case 0:
			n.src = "0x" + strconv.FormatInt(v, 16)
		case 1:
			n.src = "0b" + strconv.FormatInt(v, 2)
		case 2:
			n.src = "0" + n.src
		}
		return n, v
	}
	if ops >= 2 && r.Intn(6) == 0 {
		x, v := c03R8Arith(r, ops-1, mark)
		if x.k != c03Lit {
			if r.Intn(2) == 0 {
				return c03U("-", x), -v
			}
			return c03U("^", x), ^v
		}
		return x, v
	}
	lo := r.Intn(ops)
	ml, mr := mark, int64(-1)
	if r.Intn(2) == 0 {
		ml, mr = -1, mark
	}
	l, lv := c03R8Arith(r, lo, ml)
	rr, rv := c03R8Arith(r, ops-1-lo, mr)
	switch op := []string{"+", "-", "*", "&", "|", "+", "-"}[r.Intn(7)]; op {
	case "+":
		return c03B(op, l, rr), lv + rv
	case "-":
		return c03B(op, l, rr), lv - rv
	case "*":
		return c03B(op, l, rr), lv * rv
	case "&":
		return c03B(op, l, rr), lv & rv
	default:
		return c03B("|", l, rr), lv | rv
	}
}

// ---------------------------------------------------------------------------
// phase history

type c03R8H struct {
	c     *wk.Case
	rep   *c03R8Rep
	r     *rand.Rand
	seen  map[string]struct{}
	fresh int // distinct sources parsed successfully so far
	n     int // running number of stream elements (makes sources distinct)
	last  []*c03R8Item
	keep  []ast.Stmt
	leak  []*env.Env
	env   *env.Env
	noise map[string]int
	hows  [3]int
}

var c03R8How = []string{"ParseSrc", "Execute", "ExecuteContext"}

// ask parses the item through one entry point and judges everything the oracle
// knows; first says that the observations are to be recorded. what names the
// role of the item in the history (signature).
func (h *c03R8H) ask(it *c03R8Item, how int, what string, info map[string]interface{}) bool {
	h.c.Events(1)
	h.hows[how]++
	in := map[string]interface{}{"source": it.src, "class": it.class, "through": c03R8How[how], "distinct-sources-parsed-before": h.fresh, "asked-before": it.asks}
	for k, v := range info {
		in[k] = v
	}
	first := it.asks == 0
	it.asks++
	parsed := false
	defer func() {
		if _, ok := h.seen[it.src]; !ok && parsed {
			h.seen[it.src] = struct{}{}
			h.fresh++
		}
	}()
	var o ank.Out
	if how == 0 {
		root, err, po := ank.Parse(it.src)
		if po.Panicked {
			h.rep.viol("history:"+what+":parse-panic:"+po.PanicSig, "parser panicked: "+po.PanicVal, in)
			return false
		}
		if err != nil {
			h.rep.viol("history:"+what+":parse-error", "a well-formed source was rejected: "+err.Error(), in)
			return false
		}
		parsed = true
		ex := c03Extract(&c03Positions[it.pos], root)
		if ex == nil {
			in["got"] = astx.Dump(root, astx.Opts{SkipParen: true})
			h.rep.viol("history:"+what+":tree-differs", "the statement around the expression did not parse to its documented shape", in)
			return false
		}
		if ok, where := c03R8Same(it.want, ex); !ok {
			in["want"], in["got"], in["where"] = it.want.canon(), c03Norm(c03FromAST(ex)).canon(), where
			h.rep.viol("history:"+what+":tree-differs", "the parsed tree is not the tree the source spells ("+where+")", in)
			return false
		}
		d := astx.Dump(root, astx.Opts{Pos: true})
		if it.dump0 == "" {
			it.dump0 = d
		} else if d != it.dump0 {
			in["first-dump"], in["dump-now"] = it.dump0, d
			h.rep.viol("history:"+what+":dump-differs", "the same source parsed again dumps differently (positions included)", in)
			return false
		}
		if len(h.keep) < 4096 {
			h.keep = append(h.keep, root)
		}
		o = ank.RunCtx(context.Background(), h.envFor(it), root)
	} else if how == 1 {
		o = ank.Exec(h.envFor(it), it.src)
	} else {
		ctx, cancel := context.WithCancel(context.Background())
		o = ank.ExecCtx(ctx, h.envFor(it), it.src)
		cancel()
	}
	if _, isParseErr := o.Err.(*parser.Error); isParseErr && how != 0 {
		h.rep.viol("history:"+what+":parse-error", "a well-formed source was rejected: "+o.Err.Error(), in)
		return false
	}
	parsed = true
	res := c03R8Cls(o)
	in["result"] = res + " " + ank.ErrText(o.Err)
	if it.hasVal && res != "value "+ank.Render(it.val) {
		in["written-value"] = ank.Render(it.val)
		h.rep.viol("history:"+what+":value-differs", "the source does not evaluate to the value it spells (computed natively)", in)
		return false
	}
	if it.res0 == "" {
		it.res0 = res
	} else if res != it.res0 {
		in["first-result"] = it.res0
		h.rep.viol("history:"+what+":value-differs", "the same source evaluates to another result than at its first evaluation in an equal environment", in)
		return false
	}
	if first && it.full != "" && it.full != it.src {
		// the fully parenthesised spelling, once (it is a source of its own)
		fo := ank.Exec(h.envFor(it), it.full)
		if _, isParseErr := fo.Err.(*parser.Error); !isParseErr {
			if _, ok := h.seen[it.full]; !ok {
				h.seen[it.full] = struct{}{}
				h.fresh++
			}
		}
		if fr := c03R8Cls(fo); fr != res {
			in["full"], in["full-result"] = it.full, fr+" "+ank.ErrText(fo.Err)
			h.rep.viol("history:"+what+":value:min-vs-full", "minimal and fully parenthesised spelling evaluate differently", in)
			return false
		}
	}
	return true
}

// envFor: integer expressions and literals need no bindings and share one
// long-lived environment; trees over names get a fresh equal one (every tenth is kept alive).
func (h *c03R8H) envFor(it *c03R8Item) *env.Env {
	if it.hasVal {
		return h.env
	}
	e := c03Env()
	if h.n%10 == 0 && len(h.leak) < 3000 {
		h.leak = append(h.leak, e)
	}
	return e
}

// literal items: a spelling and the Go value it denotes
func c03R8LitItem(r *rand.Rand, mark int64) *c03R8Item {
	var n *c03Node
	switch r.Intn(5) {
	case 0:
		v := mark
		if v < 0 {
			v = c03IntPool[r.Intn(len(c03IntPool))]
			if v < 0 {
				v = -(v + 1)
			}
		}
		n = c03IntLit(v)
		switch r.Intn(3) {
		case 0:
			n.src = "0x" + strconv.FormatInt(v, 16)
		case 1:
			n.src = "0b" + strconv.FormatInt(v, 2)
		}
	case 1:
		f := float64(r.Intn(1<<20)) / 64
		if mark >= 0 {
			f = float64(mark) + 0.5
		}
		n = &c03Node{k: c03Lit, lk: 'f', lf: f, src: strconv.FormatFloat(f, 'f', -1, 64)}
		if r.Intn(2) == 0 {
			n.src = strconv.FormatFloat(f, 'e', -1, 64)
		} else if !strings.Contains(n.src, ".") {
			n.src += ".0"
		}
	default:
		s := c03DrawString(r)
		if mark >= 0 {
			s += strconv.FormatInt(mark, 10)
		}
		n = c03StrLit(s)
		switch q := r.Intn(3); {
		case q == 0:
			n.src = c03Quote(r, s, '"')
		case q == 1:
			n.src = c03Quote(r, s, '\'')
		case !strings.ContainsAny(s, "`\r"):
			n.src = "`" + s + "`"
		default:
			n.src = c03Quote(r, s, '"')
		}
	}
	it := c03R8MkItem("literal", n, 0)
	it.full = ""
	it.hasVal = true
	switch n.lk {
	case 'i':
		it.val = n.li
	case 'f':
		it.val = n.lf
	default:
		it.val = n.ls
	}
	return it
}

func (h *c03R8H) refs() []*c03R8Item {
	var out []*c03R8Item
	r := h.r
	npos := len(c03Positions)
	c03EnumCounts()
	for len(out) < 14 {
		t := c03Nbr[r.Intn(len(c03Nbr))]
		if c03R8Usable(t) {
			out = append(out, c03R8MkItem("neighbourhood", t, len(out)%npos))
		}
	}
	for len(out) < 26 {
		t := c03Unrank(3, r.Intn(c03Count(3)))
		c03NameLeaves(t)
		if c03R8Usable(t) {
			out = append(out, c03R8MkItem("3ops", t, len(out)%npos))
		}
	}
	for len(out) < 40 {
		g := &c03Gen{r: r, budget: 30 + r.Intn(40)}
		t := g.gen('A', 2+r.Intn(4))
		c03FixNegBinary(t)
		if c03R8Usable(t) && t.countOps() >= 2 {
			out = append(out, c03R8MkItem("drawn", t, r.Intn(npos)))
		}
	}
	for len(out) < 50 {
		t, v := c03R8Arith(r, 2+r.Intn(5), -1)
		it := c03R8MkItem("arith", t, 0)
		it.hasVal, it.val = true, v
		out = append(out, it)
	}
	for len(out) < 62 {
		out = append(out, c03R8LitItem(r, -1))
	}
	// distinct sources only
	seen := map[string]bool{}
	var uniq []*c03R8Item
	for _, it := range out {
		if !seen[it.src] && !seen[it.full] {
			seen[it.src] = true
			uniq = append(uniq, it)
		}
	}
	r.Shuffle(len(uniq), func(i, j int) { uniq[i], uniq[j] = uniq[j], uniq[i] })
	return uniq
}

// next draws the next stream element: a source no earlier parse of this process saw.
func (h *c03R8H) next() *c03R8Item {
	r := h.r
	for try := 0; ; try++ {
		h.n++
		var it *c03R8Item
		switch k := h.n % 5; {
		case k == 0 && try < 4:
			g := &c03Gen{r: r, budget: 20 + r.Intn(40)}
			t := g.gen('A', 2+r.Intn(4))
			c03FixNegBinary(t)
			if !c03R8Usable(t) {
				continue
			}
			it = c03R8MkItem("drawn", t, r.Intn(len(c03Positions)))
		case k == 3:
			it = c03R8LitItem(r, int64(h.n))
		default:
			t, v := c03R8Arith(r, 1+r.Intn(4), int64(h.n))
			it = c03R8MkItem("arith", t, 0)
			it.hasVal, it.val = true, v
			if k == 4 { // the full spelling as the source
				it.src, it.full = it.full, ""
			}
		}
		if _, ok := h.seen[it.src]; ok {
			continue
		}
		return it
	}
}

// long pads a fresh element beyond 4 KiB (every eighth beyond 64 KiB).
func (h *c03R8H) long() *c03R8Item {
	it := h.next()
	n := 4097 + h.r.Intn(3000)
	if h.n%8 == 0 {
		n = 65537 + h.r.Intn(3000)
	}
	pad := strings.Repeat(" ", n)
	switch h.r.Intn(3) {
	case 0:
		pad = "# " + strings.Repeat("é", n/2) + "\n"
	case 1:
		pad = strings.Repeat("\n", n)
	}
	it.src = pad + it.src
	it.full = ""
	it.class = "long-" + it.class
	return it
}

func (h *c03R8H) gc() {
	h.keep = nil
	h.last = h.last[:0]
	runtime.GC()
	h.c.Count("history_forced_gc", 1)
}

// stream pushes d pairwise distinct fresh sources through the process. noise:
// 0 none, 1 rejected sources, 2 repeats of recent sources, 3 long sources (not
// counted into d), 4 long sources counted into d, 5 everything.
func (h *c03R8H) stream(d, noise int) {
	start := h.fresh
	for h.fresh-start < d {
		var it *c03R8Item
		if (noise == 4 || noise == 5) && h.n%53 == 7 {
			it = h.long()
			h.noise["long-counted"]++
		} else {
			it = h.next()
		}
		before := h.fresh
		h.ask(it, h.n%3, "stream", nil)
		if h.fresh == before {
			// rejected (reported): not a successful parse, does not count
			continue
		}
		if len(h.last) < 16 {
			h.last = append(h.last, it)
		} else {
			h.last[h.n%16] = it
		}
		if h.fresh%1500 == 0 {
			h.gc()
		}
		if h.fresh-start >= d || noise == 0 || h.n%7 != 3 {
			continue
		}
		// interleaved: none of these is a distinct successful parse
		k := noise
		if noise == 5 {
			k = 1 + h.r.Intn(3)
		}
		switch k {
		case 1:
			src := []string{"x = 9223372036854775808 + ", "1 + ) ", "x = 0x + ", "(1 + ", "x = 1e400 * "}[h.r.Intn(5)] + strconv.Itoa(h.n)
			_, err, po := ank.Parse(src)
			h.c.Events(1)
			if err == nil && !po.Panicked {
				h.rep.viol("history:noise:accepted", "a malformed / unrepresentable source was accepted", map[string]interface{}{"source": src})
			}
			h.noise["rejected"]++
		case 2:
			if len(h.last) > 0 {
				rp := h.last[h.r.Intn(len(h.last))]
				h.ask(rp, h.r.Intn(3), "repeat", nil)
				h.noise["repeat"]++
			}
		case 3:
			if noise == 3 || noise == 5 {
				lg := h.long()
				f0 := h.fresh
				h.ask(lg, h.r.Intn(3), "stream", nil)
				h.fresh = f0 // kept out of the distance in these segments
				h.noise["long-uncounted"]++
			}
		}
	}
}

// c03R8EvalArith evaluates a tree of c03R8Arith natively.
func c03R8EvalArith(n *c03Node) int64 {
	switch n.k {
	case c03Lit:
		return n.li
	case c03Un:
		if n.op == "-" {
			return -c03R8EvalArith(n.kids[0])
		}
		return ^c03R8EvalArith(n.kids[0])
	}
	l, r := c03R8EvalArith(n.kids[0]), c03R8EvalArith(n.kids[1])
	switch n.op {
	case "+":
		return l + r
	case "-":
		return l - r
	case "*":
		return l * r
	case "&":
		return l & r
	}
	return l | r
}

func c03R8Clone(n *c03Node) *c03Node {
	m := *n
	m.kids = make([]*c03Node, len(n.kids))
	for i, k := range n.kids {
		m.kids[i] = c03R8Clone(k)
	}
	return &m
}

// neighbours: sources of 40..2000 bytes (bare, and behind the same 4 KiB / 64 KiB
// of blanks) that differ from one another in ONE digit - the first, a middle or
// the last literal - and have the same length: each is its own source with its
// own tree and value, asked in turn, twice.
func (h *c03R8H) neighbours() {
	for _, ops := range []int{6, 40, 120, 400} {
		t, _ := c03R8Arith(h.r, ops, -1)
		var lits []*c03Node
		t.walk(func(n *c03Node) {
			if n.k == c03Lit {
				n.src = strconv.FormatInt(n.li, 10) // decimal: one digit changes, the length stays
				lits = append(lits, n)
			}
		})
		group := []*c03Node{t}
		for _, at := range []int{0, len(lits) / 2, len(lits) - 1} {
			cp := c03R8Clone(t)
			k := 0
			cp.walk(func(n *c03Node) {
				if n.k == c03Lit {
					if k == at {
						n.li = n.li/10*10 + (n.li%10+1+int64(h.r.Intn(8)))%10
						if w := strconv.FormatInt(n.li, 10); len(w) == len(n.src) {
							n.src = w
						} else {
							n.li, _ = strconv.ParseInt(n.src, 10, 64)
						}
					}
					k++
				}
			})
			group = append(group, cp)
		}
		for _, pad := range []string{"", strings.Repeat(" ", 4096+h.r.Intn(9)), strings.Repeat("\t", 65536+h.r.Intn(9))} {
			var items []*c03R8Item
			for _, g := range group {
				it := c03R8MkItem("neighbour", g, 0)
				it.hasVal, it.val = true, c03R8EvalArith(g)
				it.src, it.full = pad+it.src, ""
				items = append(items, it)
			}
			for round := 0; round < 2; round++ {
				for i, it := range items {
					h.ask(it, (i+round)%3, "neighbour", map[string]interface{}{"differs-from-its-neighbours-in": "one digit", "source-bytes": len(it.src)})
				}
			}
			h.c.Count("history_neighbour_sources", len(items))
		}
	}
}

func c03R8History(c *wk.Case) {
	h := &c03R8H{c: c, rep: newC03R8Rep(c), r: c.Rng, seen: map[string]struct{}{}, env: env.NewEnv(), noise: map[string]int{}}
	c.Begin(map[string]interface{}{"phase": "history", "case": c.Index})
	refs := h.refs()
	ns := []int{256, 1000, 1024, 4096}
	if c.Tier == "thorough" && c.Index%4 == 3 {
		ns = []int{8192, 16384, 65536}
	}
	noise := c.Index % 6
	c.Tag("history:noise-mode=" + []string{"pure", "rejected", "repeats", "long-uncounted", "long-counted", "mixed"}[noise])
	// every reference once, so that each has its first observations
	for i, it := range refs {
		h.ask(it, 0, "first", nil)
		h.ask(it, 1+i%2, "first", nil)
	}
	h.neighbours()
	primary, by := refs[:len(refs)*2/3], refs[len(refs)*2/3:]
	// a long run first: no reference has been asked for a whole sweep when its segment begins
	h.stream(4200, 0)
	pi := c.Index * 5
	reasks := 0
	for _, n := range ns {
		// each distance with a reference of its own
		for _, dl := range []int{-1, 0, 1} {
			it := primary[pi%len(primary)]
			pi++
			info := map[string]interface{}{"distance": n + dl, "schedule": "own-reference"}
			h.ask(it, h.r.Intn(3), "ask", info)
			sn := noise
			if dl == 0 && noise != 0 && n == 4096 && c.Index%2 == 1 {
				sn = 0
			}
			h.stream(n+dl, sn)
			h.ask(it, (pi+c.Index)%3, "reask", info)
			reasks++
			c.Tag("reask-distance:" + strconv.Itoa(n+dl))
			// bystanders, at whatever age they have
			for k := 0; k < 3; k++ {
				h.ask(by[h.r.Intn(len(by))], h.r.Intn(3), "reask-bystander", nil)
				reasks++
			}
		}
		// cumulative: the same reference at N-1, N, N+1 distinct sources after its first ask of the segment
		it := primary[pi%len(primary)]
		pi++
		h.ask(it, 0, "ask", map[string]interface{}{"schedule": "cumulative", "distance": 0})
		h.stream(n-1, 0)
		for _, dl := range []int{-1, 0, 1} {
			if dl >= 0 {
				h.stream(1, 0)
			}
			h.ask(it, (pi+dl+1+c.Index)%3, "reask", map[string]interface{}{"schedule": "cumulative", "distance": n + dl})
			reasks++
			c.Tag("reask-distance-cumulative:" + strconv.Itoa(n+dl))
		}
	}
	// at the end every reference once more, after a collection
	h.gc()
	for i, it := range refs {
		h.ask(it, i%3, "reask-final", nil)
		reasks++
	}
	c.EvalN(h.fresh)
	c.Eval(fmt.Sprintf("history/%d/%d", c.Index, h.fresh), true)
	c.Count("history_distinct_sources_in_one_process", h.fresh)
	c.Count("history_reference_reasks", reasks)
	for k, v := range h.noise {
		c.Count("history_interleaved_"+k, v)
	}
	for i, v := range h.hows {
		c.Count("history_parses_through_"+c03R8How[i], v)
	}
	c.Count("history_environments_kept_alive", len(h.leak))
	c.Tag(fmt.Sprintf("reached:distinct_sources_in_one_process>=%d", h.fresh/5000*5000))
	if c.WantSample() {
		c.Sample(map[string]interface{}{"phase": "history", "references": len(refs), "a-reference": refs[0].src, "distinct-sources": h.fresh, "reasks": reasks})
	}
}

// ---------------------------------------------------------------------------
// phase sizes

var c03R8SizeKinds = []string{"chain-left", "chain-two-level", "chain-coalesce", "chain-ternary", "chain-logic",
	"tower-paren", "tower-unary", "tower-index", "tower-call", "tower-member", "tower-right", "tower-array", "tower-ternmid", "tower-func",
	"wide-array", "wide-args", "wide-map", "wide-stmts", "lit-string", "lit-numeral", "lit-name",
	"offset-blank", "offset-comment", "offset-string", "offset-stmts"}

// kinds that go to 12000 in the quick tier too (all of them in the thorough tier)
var c03R8Quick12000 = map[string]bool{"chain-left": true, "chain-coalesce": true, "tower-paren": true, "tower-unary": true, "tower-right": true, "tower-index": true}

var c03R8Marks = []int{255, 256, 257, 1023, 1024, 1025, 4095, 4096, 4097}

// c03R8SizeEnv: c03Env plus what the towers need.
func c03R8SizeEnv(depth int) *env.Env {
	e := c03Env()
	var deep interface{} = int64(5)
	for i := 0; i < depth; i++ {
		deep = []interface{}{deep}
	}
	e.Define("deep", deep)
	var self func() interface{}
	self = func() interface{} { return self }
	e.Define("self", self)
	cyc := map[interface{}]interface{}{"a": int64(5)}
	cyc["m"] = cyc
	e.Define("cyc", cyc)
	e.Define("tup", func(xs ...interface{}) []interface{} { return xs })
	return e
}

type c03R8Big struct {
	c     *wk.Case
	rep   *c03R8Rep
	kind  string
	depth int
}

// check: the program prefix+E for every spelling E of t (minimal, minimal
// without blanks, full, and the extra hand-written ones) must hold t as its last
// statement (an expression statement) and evaluate to val / alike.
func (b *c03R8Big) check(t *c03Node, prefix string, extra map[string]string, hasVal bool, val interface{}, size int, exec bool) {
	want := c03Norm(t)
	sp := map[string]string{"min": c03Print(t, c03Min, false, false), "tight": c03Print(t, c03Min, true, false), "full": c03Print(t, c03Full, false, false)}
	for k, v := range extra {
		sp[k] = v
	}
	sig := "sizes:" + b.kind
	b.c.Eval(fmt.Sprintf("sizes/%s/%d/%d", b.kind, size, len(sp["min"])), true)
	b.c.Tag(fmt.Sprintf("sizes:%s=%d", b.kind, size))
	var dump0, res0 string
	for _, name := range []string{"min", "tight", "full", "extra", "extra2"} {
		e, ok := sp[name]
		if !ok || (name == "tight" && size > 2000 && b.c.Tier != "thorough") {
			continue
		}
		src := prefix + e
		in := map[string]interface{}{"kind": b.kind, "size": size, "spelling": name, "source-bytes": len(src), "source-head": c03Clip(src), "source-tail": src[len(src)-c03R8MinInt(len(src), 200):]}
		root, err, po := ank.Parse(src)
		b.c.Events(1)
		if po.Panicked {
			b.rep.viol(sig+":parse-panic:"+po.PanicSig, "parser panicked: "+po.PanicVal, in)
			continue
		}
		if err != nil {
			b.rep.viol(sig+":parse-error:"+name, "a well-formed source was rejected: "+err.Error(), in)
			continue
		}
		ss := astx.StmtList(root)
		var ex ast.Expr
		if len(ss) > 0 {
			if es, ok := ss[len(ss)-1].(*ast.ExprStmt); ok {
				ex = es.Expr
			}
		}
		if ex == nil {
			b.rep.viol(sig+":tree-differs:"+name, "the last statement is not the expression that was written", in)
			continue
		}
		if ok, where := c03R8Same(want, ex); !ok {
			in["where"] = where
			b.rep.viol(sig+":tree-differs:"+name, "the parsed tree is not the tree the source spells ("+where+")", in)
			continue
		}
		d := astx.Dump(ss[len(ss)-1], astx.Opts{SkipParen: true})
		if dump0 == "" {
			dump0 = d
		} else if d != dump0 {
			b.rep.viol(sig+":dump-differs:"+name, "the spelling dumps differently from the minimal one", in)
			continue
		}
		if !exec || name == "tight" {
			continue
		}
		for run := 0; run < 2; run++ {
			var o ank.Out
			if run == 0 {
				o = ank.Exec(c03R8SizeEnv(b.depth), src)
			} else {
				o = ank.RunCtx(context.Background(), c03R8SizeEnv(b.depth), root)
			}
			b.c.Events(1)
			res := c03R8Cls(o)
			in["result"] = c03Clip(res + " " + ank.ErrText(o.Err))
			if hasVal && res != "value "+ank.Render(val) {
				if res != "value "+ank.Render(val) && (strings.HasPrefix(res, "value")) {
					in["written-value"] = c03Clip(ank.Render(val))
					b.rep.viol(sig+":value-differs:"+name, "the source does not evaluate to the value it spells (computed natively)", in)
					break
				}
				b.c.Tag("sizes:not-evaluated:" + b.kind) // an error / refusal on a very large input is not judged
			}
			if res0 == "" {
				res0 = res
			} else if res != res0 {
				in["first-result"] = c03Clip(res0)
				b.rep.viol(sig+":value:spellings-differ:"+name, "this spelling (or the second run of its tree) evaluates differently from the minimal spelling", in)
				break
			}
		}
	}
}

func c03R8MinInt(a, b int) int {
	if a < b {
		return a
	}
	return b
}

func c03R8Lit(r *rand.Rand, v int64) *c03Node {
	n := c03IntLit(v)
	switch r.Intn(5) {
	case 0:
		n.src = "0x" + strconv.FormatInt(v, 16)
	case 1:
		n.src = "0b" + strconv.FormatInt(v, 2)
	}
	return n
}

func c03R8Bool(bv bool) *c03Node {
	if bv {
		return c03N("t")
	}
	return c03N("fa")
}

// c03R8Tree builds the IR of one chain / tower / list of n operands (levels, elements).
func c03R8Tree(kind string, n int, r *rand.Rand) (t *c03Node, hasVal bool, val interface{}) {
	switch kind {
	case "chain-left":
		six := r.Intn(3) == 0
		v := int64(r.Intn(40))
		t = c03R8Lit(r, v)
		for i := 1; i < n; i++ {
			var op string
			var x int64
			if six {
				op, x = []string{"*", "&"}[r.Intn(2)], []int64{1, 1, 1, 1, 3}[r.Intn(5)]
			} else {
				op, x = []string{"+", "-", "|"}[r.Intn(3)], int64(r.Intn(50))
			}
			t = c03B(op, t, c03R8Lit(r, x))
			switch op {
			case "+":
				v += x
			case "-":
				v -= x
			case "|":
				v |= x
			case "*":
				v *= x
			case "&":
				v &= x
			}
		}
		return t, true, v
	case "chain-two-level":
		var v int64
		for i := 0; i < n; {
			x := int64(r.Intn(30))
			term, tv := c03R8Lit(r, x), x
			i++
			for i < n && r.Intn(3) == 0 {
				y := int64(r.Intn(9))
				term, tv = c03B("*", term, c03R8Lit(r, y)), tv*y
				i++
			}
			if t == nil {
				t, v = term, tv
			} else if r.Intn(2) == 0 {
				t, v = c03B("+", t, term), v+tv
			} else {
				t, v = c03B("-", t, term), v-tv
			}
		}
		return t, true, v
	case "chain-coalesce":
		k := r.Intn(n)
		t = c03R8Lit(r, int64(n))
		for i := n - 2; i >= 0; i-- {
			var l *c03Node
			if i < k {
				l = c03N("nilv")
			} else {
				l = c03R8Lit(r, int64(i))
			}
			t = c03B("??", l, t)
		}
		if k == n-1 {
			return t, true, int64(n)
		}
		return t, true, int64(k)
	case "chain-ternary":
		k := r.Intn(n)
		t = c03R8Lit(r, int64(n))
		for i := n - 2; i >= 0; i-- {
			t = c03T(c03R8Bool(i == k), c03R8Lit(r, int64(i)), t)
		}
		if k == n-1 {
			return t, true, int64(n)
		}
		return t, true, int64(k)
	case "chain-logic":
		for i := 0; i < n; {
			term := c03R8Bool(r.Intn(4) != 0)
			i++
			for i < n && r.Intn(3) != 0 {
				term = c03B("&&", term, c03R8Bool(r.Intn(5) != 0))
				i++
			}
			if t == nil {
				t = term
			} else {
				t = c03B("||", t, term)
			}
		}
		return t, false, nil
	case "tower-unary":
		v := int64(7)
		t = c03N("a")
		for i := 0; i < n; i++ {
			if r.Intn(2) == 0 {
				t, v = c03U("-", t), -v
			} else {
				t, v = c03U("^", t), ^v
			}
		}
		return t, true, v
	case "tower-index":
		t = c03N("deep")
		for i := 0; i < n; i++ {
			t = &c03Node{k: c03Idx, kids: []*c03Node{t, c03R8Lit(r, 0)}}
		}
		return t, true, int64(5)
	case "tower-call":
		t = &c03Node{k: c03Call, op: "self"}
		for i := 0; i < n; i++ {
			t = &c03Node{k: c03ACall, kids: []*c03Node{t}}
		}
		return t, false, nil
	case "tower-member":
		t = c03N("cyc")
		for i := 0; i < n; i++ {
			t = &c03Node{k: c03Mem, op: "m", kids: []*c03Node{t}}
		}
		return &c03Node{k: c03Mem, op: "a", kids: []*c03Node{t}}, true, int64(5)
	case "tower-right":
		v := int64(r.Intn(30))
		t = c03R8Lit(r, v)
		for i := 1; i < n; i++ {
			x := int64(r.Intn(30))
			if r.Intn(2) == 0 {
				t, v = c03B("-", c03R8Lit(r, x), t), x-v
			} else {
				t, v = c03B("+", c03R8Lit(r, x), t), x+v
			}
		}
		return t, true, v
	case "tower-array":
		t = c03R8Lit(r, 1)
		for i := 0; i < n; i++ {
			t = &c03Node{k: c03Arr, kids: []*c03Node{t}}
		}
		return t, false, nil
	case "tower-ternmid":
		k := r.Intn(n)
		t = c03R8Lit(r, int64(n))
		for i := n - 1; i >= 0; i-- {
			t = c03T(c03R8Bool(i != k), t, c03R8Lit(r, int64(i)))
		}
		return t, true, int64(k)
	case "tower-func":
		t = c03N("x")
		for i := 0; i < n; i++ {
			t = &c03Node{k: c03Func, op: "x", kids: []*c03Node{t}}
		}
		return t, false, nil
	case "wide-array", "wide-args":
		vals := make([]interface{}, n)
		kids := make([]*c03Node, n)
		for i := range kids {
			var v int64
			kids[i], v = c03R8Arith(r, i%4, -1)
			vals[i] = v
		}
		if kind == "wide-args" {
			return &c03Node{k: c03Call, op: "tup", kids: kids}, true, vals
		}
		return &c03Node{k: c03Arr, kids: kids}, true, vals
	case "wide-map":
		t = &c03Node{k: c03Map}
		for i := 0; i < n; i++ {
			x, _ := c03R8Arith(r, i%3, -1)
			t.kids = append(t.kids, c03StrLit("k"+strconv.Itoa(i)), x)
			if i == n/2 {
				_, val = c03R8Arith(rand.New(rand.NewSource(1)), 0, int64(i))
				t.kids[len(t.kids)-1] = c03IntLit(int64(i))
			}
		}
		// the literal indexed by one of its keys: the value is that entry's
		return &c03Node{k: c03Idx, kids: []*c03Node{t, c03StrLit("k" + strconv.Itoa(n/2))}}, true, val
	}
	return nil, false, nil
}

func c03R8Sizes(c *wk.Case) {
	kind := c03R8SizeKinds[c.Index%len(c03R8SizeKinds)]
	rep := newC03R8Rep(c)
	r := c.Rng
	c.Begin(map[string]interface{}{"phase": "sizes", "kind": kind})
	sizes := append([]int{}, c03R8Marks...)
	b := &c03R8Big{c: c, rep: rep, kind: kind}
	switch {
	case strings.HasPrefix(kind, "chain-"), strings.HasPrefix(kind, "tower-"):
		if c.Tier == "thorough" || c03R8Quick12000[kind] {
			sizes = append(sizes, 12000)
		}
		for _, n := range sizes {
			b.depth = n
			if kind == "tower-paren" {
				// (((( a + b )))) * c, and every operand of a two-level chain inside n parentheses in turn
				t := c03B("*", c03B("+", c03N("a"), c03N("b")), c03N("c"))
				x := strings.Repeat("(", n) + "a + b" + strings.Repeat(")", n) + " * c"
				y := "(" + strings.Repeat("(", n) + "a" + strings.Repeat(")", n) + " + b) * " + strings.Repeat("( ", n) + "c" + strings.Repeat(" )", n)
				b.check(t, "", map[string]string{"extra": x, "extra2": y}, true, int64(120), n, true)
				continue
			}
			t, hv, v := c03R8Tree(kind, n, r)
			b.check(t, "", nil, hv, v, n, true)
		}
	case strings.HasPrefix(kind, "wide-") && kind != "wide-stmts":
		if c.Tier == "thorough" || kind == "wide-array" {
			sizes = append(sizes, 12000)
		}
		if c.Tier == "thorough" {
			sizes = append(sizes, 65535, 65536, 65537, 200000)
		}
		for _, n := range sizes {
			t, hv, v := c03R8Tree(kind, n, r)
			b.check(t, "var w = 1\n", nil, hv, v, n, true)
		}
	case kind == "wide-stmts":
		if c.Tier == "thorough" {
			sizes = append(sizes, 12000, 65535, 65536, 65537)
		}
		for _, n := range sizes {
			c03R8Stmts(b, r, n)
		}
	case kind == "lit-string":
		sizes = append(sizes, 65535, 65536, 65537, 200000)
		for _, n := range sizes {
			c03R8Strings(b, r, n)
		}
	case kind == "lit-numeral":
		for _, n := range sizes {
			c03R8Numerals(b, r, n)
		}
	case kind == "lit-name":
		for _, n := range sizes {
			for _, alpha := range []string{"abcXYZ_019", "aé日_z9"} {
				var sb strings.Builder
				rs := []rune(alpha)
				sb.WriteRune(rs[r.Intn(2)])
				for i := 1; i < n; i++ {
					sb.WriteRune(rs[r.Intn(len(rs))])
				}
				name := sb.String()
				// a second name that differs from the first in one middle character only
				nr := []rune(name)
				if nr[n/2] == 'a' {
					nr[n/2] = 'z'
				} else {
					nr[n/2] = 'a'
				}
				name2 := string(nr)
				t := c03B("+", c03B("*", c03N(name), c03R8Lit(r, 2)), c03N(name2))
				b.check(t, "var "+name+" = 5\nvar "+name2+" = 100\n", nil, true, int64(110), n, true)
			}
		}
	case strings.HasPrefix(kind, "offset-"):
		c03R8Offsets(b, r, strings.TrimPrefix(kind, "offset-"))
	}
	c.Count("sizes_cases_"+strings.SplitN(kind, "-", 2)[0], 1)
}

// n statements `r = r + e_i`: every statement's right-hand side is its own tree.
func c03R8Stmts(b *c03R8Big, r *rand.Rand, n int) {
	var sb strings.Builder
	sb.WriteString("r = 0\n")
	wants := make([]*c03Node, n)
	var v int64
	for i := 0; i < n; i++ {
		x, xv := c03R8Arith(r, i%4, -1)
		t := c03B("+", c03N("r"), x)
		if i%3 == 1 {
			t = c03B("-", x, c03N("r"))
			v = xv - v
		} else {
			v += xv
		}
		wants[i] = c03Norm(t)
		sb.WriteString("r = " + c03Print(t, c03Min, i%2 == 0, false) + "\n")
	}
	sb.WriteString("r")
	src := sb.String()
	in := map[string]interface{}{"kind": b.kind, "size": n, "source-bytes": len(src), "source-head": c03Clip(src)}
	b.c.Eval(fmt.Sprintf("sizes/stmts/%d/%d", n, len(src)), true)
	b.c.Tag(fmt.Sprintf("sizes:%s=%d", b.kind, n))
	root, err, po := ank.Parse(src)
	b.c.Events(1)
	if po.Panicked || err != nil {
		b.rep.viol("sizes:wide-stmts:parse-error", "a well-formed source was rejected: "+ank.ErrText(err)+po.PanicVal, in)
		return
	}
	ss := astx.StmtList(root)
	if len(ss) != n+2 {
		in["statements"] = len(ss)
		b.rep.viol("sizes:wide-stmts:tree-differs", "the program does not hold the statements that were written", in)
		return
	}
	for i := 0; i < n; i++ {
		ls, ok := ss[i+1].(*ast.LetsStmt)
		if !ok || len(ls.RHSS) != 1 {
			in["statement"] = i + 1
			b.rep.viol("sizes:wide-stmts:tree-differs", "a statement is not the assignment that was written", in)
			return
		}
		if ok, where := c03R8Same(wants[i], ls.RHSS[0]); !ok {
			in["statement"], in["where"], in["want"] = i+1, where, wants[i].canon()
			b.rep.viol("sizes:wide-stmts:tree-differs", "the parsed tree of a statement is not the tree its source spells ("+where+")", in)
			return
		}
	}
	for run := 0; run < 2; run++ {
		o := ank.Exec(env.NewEnv(), src)
		if run == 1 {
			o = ank.RunCtx(context.Background(), env.NewEnv(), root)
		}
		b.c.Events(1)
		if res := c03R8Cls(o); res != "value "+ank.Render(v) {
			in["result"], in["written-value"] = res+" "+ank.ErrText(o.Err), ank.Render(v)
			b.rep.viol("sizes:wide-stmts:value-differs", "the program does not evaluate to the value it spells (computed natively)", in)
			return
		}
	}
}

// c03R8LitCheck: `x = <spelling>` then `x`: the literal node and the value are the written Go value.
func c03R8LitCheck(b *c03R8Big, class, spelling string, want *c03Node, val interface{}, size int) {
	src := "x = " + spelling + "\nx"
	in := map[string]interface{}{"kind": b.kind, "class": class, "size": size, "spelling-head": c03Clip(spelling), "spelling-tail": spelling[len(spelling)-c03R8MinInt(len(spelling), 120):]}
	b.c.Eval("sizes/lit/"+class+"/"+strconv.Itoa(size)+"/"+strconv.Itoa(len(spelling)), true)
	b.c.Tag(fmt.Sprintf("sizes:%s=%d", b.kind, size))
	root, err, po := ank.Parse(src)
	b.c.Events(1)
	if po.Panicked || err != nil {
		b.rep.viol("sizes:"+b.kind+":rejected:"+class, "a representable literal was rejected: "+ank.ErrText(err)+po.PanicVal, in)
		return
	}
	ss := astx.StmtList(root)
	var got *c03Node
	if len(ss) == 2 {
		if ls, ok := ss[0].(*ast.LetsStmt); ok && len(ls.RHSS) == 1 {
			got = c03Norm(c03FromAST(ls.RHSS[0]))
		}
	}
	if got == nil || c03R8Diff(c03Norm(want), got, "root", 0) != "" {
		if got != nil {
			in["got"] = c03Clip(got.canon())
		}
		b.rep.viol("sizes:"+b.kind+":value:"+class, "the literal does not parse to the written value", in)
		return
	}
	for run := 0; run < 2; run++ {
		o := ank.Exec(env.NewEnv(), src)
		if run == 1 {
			ctx, cancel := context.WithCancel(context.Background())
			o = ank.ExecCtx(ctx, env.NewEnv(), src)
			cancel()
		}
		b.c.Events(1)
		if res := c03R8Cls(o); res != "value "+ank.Render(val) {
			in["result"] = c03Clip(res + " " + ank.ErrText(o.Err))
			b.rep.viol("sizes:"+b.kind+":exec:"+class, "the literal does not evaluate to the written value", in)
			return
		}
	}
}

// strings of exactly n bytes: 1- to 4-byte characters at every alignment, escapes on the mark
func c03R8Strings(b *c03R8Big, r *rand.Rand, n int) {
	for align := 0; align < 4; align++ {
		var sb strings.Builder
		sb.WriteString(strings.Repeat("x", align))
		unit := []string{"aé日😀", "😀日éa", "éé日", "日a😀"}[r.Intn(4)]
		for sb.Len() < n {
			sb.WriteString(unit)
		}
		rs := []rune(sb.String())
		for len(string(rs)) > n {
			rs = rs[:len(rs)-1]
		}
		s := string(rs) + strings.Repeat("z", n-len(string(rs)))
		variants := []string{s}
		if n > 8 {
			// characters that need an escape at the end and around the middle
			bs := []rune(s)
			for _, p := range []int{len(bs) - 1, len(bs) / 2} {
				cp := append([]rune{}, bs...)
				cp[p] = []rune{'\n', '\\', '"', '\'', '\t'}[r.Intn(5)]
				variants = append(variants, string(cp))
			}
		}
		for vi, v := range variants {
			want := c03StrLit(v)
			q := (align + vi) % 3
			var sp string
			switch {
			case q == 0:
				sp = c03Quote(r, v, '"')
			case q == 1:
				sp = c03Quote(r, v, '\'')
			case !strings.ContainsAny(v, "`\r"):
				sp = "`" + v + "`"
			default:
				sp = c03Quote(r, v, '"')
			}
			c03R8LitCheck(b, fmt.Sprintf("string/q%d", q), sp, want, v, n)
		}
	}
}

// numerals of exactly n characters whose value is exact whatever the length
func c03R8Numerals(b *c03R8Big, r *rand.Rand, n int) {
	z := func(k int) string {
		if k < 0 {
			k = 0
		}
		return strings.Repeat("0", k)
	}
	d := int64(1 + r.Intn(999999))
	ds := strconv.FormatInt(d, 10)
	type num struct {
		class, sp string
		want      *c03Node
		val       interface{}
	}
	il := func(v int64) *c03Node { return c03IntLit(v) }
	fl := func(f float64) *c03Node { return &c03Node{k: c03Lit, lk: 'f', lf: f} }
	hx := strconv.FormatInt(d, 16)
	bn := strconv.FormatInt(d, 2)
	nums := []num{
		{"dec-behind-zeros", z(n-len(ds)) + ds, il(d), d},
		{"dec-max-behind-zeros", z(n-19) + "9223372036854775807", il(1<<63 - 1), int64(1<<63 - 1)},
		{"hex-behind-zeros", "0x" + z(n-2-len(hx)) + hx, il(d), d},
		{"bin-behind-zeros", "0b" + z(n-2-len(bn)) + bn, il(d), d},
		{"float-zeros-behind", ds + "." + z(n-len(ds)-1), fl(float64(d)), float64(d)},
		{"float-half-zeros-behind", "0.5" + z(n-3), fl(0.5), 0.5},
		{"float-behind-zeros", z(n-len(ds)-2) + ds + ".5", fl(float64(d) + 0.5), float64(d) + 0.5},
		{"float-zeros-exp", ds + z(n-len(ds)-len(strconv.Itoa(n))-2) + "e-" + strconv.Itoa(n-len(ds)-len(strconv.Itoa(n))-2), fl(float64(d)), float64(d)},
	}
	for _, x := range nums {
		c03R8LitCheck(b, x.class, x.sp, x.want, x.val, n)
	}
}

// c03R8Pad builds a prefix of exactly n characters (bytes when inBytes) of the given kind.
func c03R8Pad(kind string, n int, inBytes bool, k int) string {
	mb := []string{"é", "日", "😀"}[k%3]
	w := 1
	if inBytes {
		w = len(mb)
	}
	switch kind {
	case "blank":
		return strings.Repeat([]string{" ", "\t", " \t"}[k%3], n)[:n]
	case "comment":
		if n < 2 {
			return strings.Repeat(" ", n)
		}
		body := (n - 2) / w
		return "#" + strings.Repeat(mb, body) + strings.Repeat("c", n-2-body*w) + "\n"
	case "string":
		if n < 12 {
			return strings.Repeat(" ", n)
		}
		body := (n - 10) / w
		return `pad = "` + strings.Repeat(mb, body) + strings.Repeat("p", n-10-body*w) + "\"\n\n"
	default: // stmts
		return strings.Repeat("n0\n", n/3) + strings.Repeat(" ", n%3)
	}
}

// a fixed expression moved character by character across the offsets
func c03R8Offsets(b *c03R8Big, r *rand.Rand, pad string) {
	str := func(s, src string) *c03Node { n := c03StrLit(s); n.src = src; return n }
	fl := &c03Node{k: c03Lit, lk: 'f', lf: 1.5e3, src: "1.5e3"}
	hex := &c03Node{k: c03Lit, lk: 'i', li: 0x1f, src: "0x1f"}
	bin := &c03Node{k: c03Lit, lk: 'i', li: 5, src: "0b101"}
	trees := []*c03Node{
		c03B("||", c03B("&&", c03B("<=", c03N("a"), c03N("b")), c03B(">=", c03N("c"), c03N("d"))), c03B("!=", c03B("<<", hex, c03IntLit(2)), c03B(">>", c03IntLit(4096), c03N("b")))),
		c03T(c03B("==", c03B("+", str("hé\"q", `"hé\"q"`), c03N("s")), str("x日", "'x日'")), fl, c03B("in", bin, c03N("xs"))),
		c03B("??", c03N("nilv"), c03B("-", c03B("*", c03U("-", c03N("a")), c03IntLit(10)), c03B("%", c03N("c"), str("`", "\"`\"")))),
	}
	marks := []int{256, 1024, 4096, 65536}
	if b.c.Tier == "thorough" {
		marks = append(marks, 131072)
	}
	for ti, t := range trees {
		e := c03Print(t, c03Min, false, false)
		o0 := ank.Exec(c03Env(), e)
		res0 := c03R8Cls(o0)
		want := c03Norm(t)
		for _, p := range marks {
			b.c.Tag(fmt.Sprintf("sizes:offset-%s=%d", pad, p))
			for j := 0; j <= len(e); j++ {
				if pad == "stmts" && p >= 65536 && j%5 != 0 {
					continue // 20000 statements per source: every fifth character there
				}
				for mode := 0; mode < 2; mode++ {
					if p-j < 0 || (mode == 1 && pad == "blank") {
						continue
					}
					src := c03R8Pad(pad, p-j, mode == 1, j+ti) + e
					in := map[string]interface{}{"kind": b.kind, "expression": e, "offset": p, "character-on-the-offset": j, "counted-in": []string{"characters", "bytes"}[mode], "source-bytes": len(src)}
					root, err, po := ank.Parse(src)
					b.c.Events(1)
					if po.Panicked || err != nil {
						b.rep.viol("sizes:"+b.kind+":parse-error", "the expression is rejected behind a prefix of this length: "+ank.ErrText(err)+po.PanicVal, in)
						continue
					}
					ss := astx.StmtList(root)
					var ex ast.Expr
					if len(ss) > 0 {
						if es, ok := ss[len(ss)-1].(*ast.ExprStmt); ok {
							ex = es.Expr
						}
					}
					if ex == nil {
						b.rep.viol("sizes:"+b.kind+":tree-differs", "the last statement is not the expression that was written", in)
						continue
					}
					if ok, where := c03R8Same(want, ex); !ok {
						in["where"], in["got"] = where, c03Norm(c03FromAST(ex)).canon()
						b.rep.viol("sizes:"+b.kind+":tree-differs", "behind a prefix of this length the expression parses to another tree ("+where+")", in)
						continue
					}
					if (j+mode)%6 == 0 {
						o := ank.Exec(c03Env(), src)
						b.c.Events(1)
						if res := c03R8Cls(o); res != res0 {
							in["result"], in["alone"] = res+" "+ank.ErrText(o.Err), res0
							b.rep.viol("sizes:"+b.kind+":value-differs", "behind a prefix of this length the expression evaluates differently", in)
						}
					}
				}
			}
		}
		b.c.Eval("sizes/offset/"+pad+"/"+e, true)
	}
}

// ---------------------------------------------------------------------------
// phase hot

var c03R8EvalMarks = map[int]bool{1: true, 2: true, 255: true, 256: true, 257: true, 999: true, 1000: true, 1001: true, 1023: true, 1024: true, 1025: true, 4095: true, 4096: true, 4097: true}

// bindings of the names a b c d s s2 fl, changing kind from round to round
func c03R8Bind(e *env.Env, round int) {
	kinds := [][]interface{}{
		{int64(7), int64(3), int64(12), int64(2), "hello", "lo", 2.5},
		{2.5, int64(3), 1.5, int64(2), "hello", "lo", int64(4)},
		{"7", "3", "x", "2", "s", "", 0.5},
		{true, false, int64(0), int64(1), "", "lo", 0.0},
		{int64(1) << 40, int64(-3), 12.0, int64(63), "héllo", "é", -2.5},
		{int64(7), "3", 1.5, true, "hello", "hello", 2.5},
	}
	k := kinds[round%len(kinds)]
	if round%7 == 3 {
		k = kinds[0]
	}
	for i, n := range []string{"a", "b", "c", "d", "s", "s2", "fl"} {
		e.Define(n, k[i])
	}
	e.Define("n0", int64(round%3))
}

func c03R8HotTrees(r *rand.Rand, want int) []*c03R8Item {
	var out []*c03R8Item
	c03EnumCounts()
	for len(out) < want {
		var t *c03Node
		switch len(out) % 3 {
		case 0:
			t = c03Nbr[r.Intn(len(c03Nbr))]
		case 1:
			t = c03Unrank(3, r.Intn(c03Count(3)))
			c03NameLeaves(t)
		default:
			g := &c03Gen{r: r, budget: 30 + r.Intn(30)}
			t = g.gen('A', 2+r.Intn(4))
			c03FixNegBinary(t)
		}
		if !c03R8Usable(t) || t.countOps() < 2 {
			continue
		}
		// no stores, no pointers: the environment is changed by the harness only
		bad := false
		t.walk(func(n *c03Node) {
			if n.k == c03Un && (n.op == "&" || n.op == "*") || n.k == c03Func || n.k == c03Name && n.op == "p" {
				bad = true
			}
		})
		if !bad {
			out = append(out, c03R8MkItem("hot", t, 0))
		}
	}
	return out
}

func c03R8Hot(c *wk.Case) {
	rep := newC03R8Rep(c)
	r := c.Rng
	rounds := 1100
	if c.Tier == "thorough" {
		rounds = 4200
	}
	kind := []string{"reparse", "rerun", "loop", "concurrent"}[c.Index%4]
	c.Begin(map[string]interface{}{"phase": "hot", "kind": kind})
	c.Tag("hot:" + kind)
	switch kind {
	case "reparse":
		h := &c03R8H{c: c, rep: rep, r: r, seen: map[string]struct{}{}, env: env.NewEnv(), noise: map[string]int{}}
		refs := h.refs()
		for _, it := range refs[:4] {
			for i := 0; i < rounds; i++ {
				h.ask(it, (i+i/3)%3, "hot-reparse", map[string]interface{}{"parse-number": i + 1})
				if i >= rounds/2 {
					h.ask(h.next(), i%3, "stream", nil)
				}
				if i%256 == 255 {
					h.gc()
				}
			}
			c.Eval("hot/reparse/"+it.src, true)
		}
		c.Count("hot_parses_of_one_source", rounds)
	case "rerun":
		for _, it := range c03R8HotTrees(r, 8) {
			rmin, e1, _ := ank.Parse(it.src)
			rfull, e2, _ := ank.Parse(it.full)
			if e1 != nil || e2 != nil {
				rep.viol("hot:rerun:parse-error", "a well-formed source was rejected", map[string]interface{}{"min": it.src, "full": it.full})
				continue
			}
			d1, d2 := astx.Dump(rmin, astx.Opts{Pos: true}), astx.Dump(rfull, astx.Opts{Pos: true})
			shared1, shared2 := c03Env(), c03Env()
			for i := 1; i <= rounds; i++ {
				ea, eb := shared1, shared2
				if i%2 == 0 {
					ea, eb = c03Env(), c03Env()
				}
				c03R8Bind(ea, i)
				c03R8Bind(eb, i)
				o1 := ank.RunCtx(context.Background(), ea, rmin)
				o2 := ank.RunCtx(context.Background(), eb, rfull)
				c.Events(2)
				if a, b := c03R8Cls(o1), c03R8Cls(o2); a != b {
					rep.viol("hot:rerun:value:min-vs-full", "the trees of the minimal and the full spelling evaluate differently in equal environments", map[string]interface{}{"min": it.src, "full": it.full, "evaluation": i, "min-result": a + " " + ank.ErrText(o1.Err), "full-result": b + " " + ank.ErrText(o2.Err)})
					break
				}
				if c03R8EvalMarks[i] || i == rounds {
					c.Tag("hot:evaluations=" + strconv.Itoa(i))
					if astx.Dump(rmin, astx.Opts{Pos: true}) != d1 || astx.Dump(rfull, astx.Opts{Pos: true}) != d2 {
						rep.viol("hot:rerun:dump-changed", "a tree no longer dumps as after its parse", map[string]interface{}{"min": it.src, "evaluation": i})
						break
					}
					// a fresh parse of the same source still builds the reference tree
					if root, err, _ := ank.Parse(it.src); err != nil || func() bool { ok, _ := c03R8Same(it.want, c03Extract(&c03Positions[0], root)); return !ok }() {
						rep.viol("hot:rerun:tree-differs", "the source parsed again after many runs of its tree builds another tree", map[string]interface{}{"min": it.src, "evaluation": i})
						break
					}
				}
			}
			c.Eval("hot/rerun/"+it.src, true)
		}
		c.Count("hot_runs_of_one_tree", rounds)
	case "loop":
		for _, it := range c03R8HotTrees(r, 8) {
			e := c03Print(it.want, c03Min, false, false)
			_ = e
			min, full := it.expr, strings.TrimSuffix(strings.TrimPrefix(it.full, c03Positions[0].pre), c03Positions[0].post)
			src := fmt.Sprintf("for hi = 1; hi <= %d; hi++ {\nbind(hi)\nr1 = \"E\"\nr2 = \"E\"\ntry { r1 = %s } catch e1 { r1 = \"E\" }\ntry { r2 = %s } catch e2 { r2 = \"E\" }\nchk(hi, r1, r2)\n}\n", rounds, min, full)
			en := c03Env()
			calls, bad := 0, ""
			en.Define("bind", func(i int64) { c03R8Bind(en, int(i)) })
			en.Define("chk", func(i int64, a, b interface{}) {
				calls++
				ra, rb := c03PtrRe.ReplaceAllString(ank.Render(a), "0xPTR"), c03PtrRe.ReplaceAllString(ank.Render(b), "0xPTR")
				if ra != rb && bad == "" {
					bad = fmt.Sprintf("round %d: minimal %s, full %s", i, ra, rb)
				}
			})
			o := ank.Exec(en, src)
			c.Events(calls)
			in := map[string]interface{}{"min": min, "full": full, "rounds-seen": calls}
			if bad != "" {
				in["first"] = bad
				rep.viol("hot:loop:value:min-vs-full", "inside one loop the minimal and the full spelling evaluate differently", in)
			} else if o.Err != nil || o.Panicked || calls != rounds {
				c.Inconclusive("hot-loop-did-not-finish", ank.ErrText(o.Err)+o.PanicVal, in)
			}
			c.Eval("hot/loop/"+min, true)
		}
		c.Count("hot_rounds_of_one_loop", rounds)
	case "concurrent":
		g := 64
		if c.Tier == "thorough" {
			g = 2048
		}
		h := &c03R8H{c: c, rep: rep, r: r, seen: map[string]struct{}{}, env: env.NewEnv(), noise: map[string]int{}}
		refs := h.refs()
		for ri := 0; ri < 6; ri++ {
			it := refs[ri]
			own := make([]*c03R8Item, g)
			for i := range own {
				own[i] = h.next()
				h.seen[own[i].src] = struct{}{}
			}
			var mu sync.Mutex
			var wg sync.WaitGroup
			start := make(chan struct{})
			var first map[string]interface{}
			sig := ""
			judge := func(x *c03R8Item, who int) {
				root, err, po := ank.Parse(x.src)
				s, in := "", map[string]interface{}{"source": x.src, "goroutine": who, "goroutines": g}
				switch {
				case po.Panicked:
					s = "hot:concurrent:parse-panic:" + po.PanicSig
				case err != nil:
					s = "hot:concurrent:parse-error"
				default:
					ex := c03Extract(&c03Positions[x.pos], root)
					if ex == nil {
						s = "hot:concurrent:tree-differs"
					} else if ok, where := c03R8Same(x.want, ex); !ok {
						s, in["where"] = "hot:concurrent:tree-differs", where
					} else if x.hasVal {
						if o := ank.RunCtx(context.Background(), env.NewEnv(), root); c03R8Cls(o) != "value "+ank.Render(x.val) {
							s, in["result"] = "hot:concurrent:value-differs", c03R8Cls(o)
						}
					}
				}
				if s != "" {
					mu.Lock()
					if first == nil {
						first, sig = in, s
					}
					mu.Unlock()
				}
			}
			for i := 0; i < g; i++ {
				wg.Add(1)
				go func(i int) {
					defer wg.Done()
					<-start
					for k := 0; k < 4; k++ {
						judge(it, i)
						judge(own[(i+k)%g], i)
					}
				}(i)
			}
			close(start)
			wg.Wait()
			c.Events(g * 8)
			if first != nil {
				rep.viol(sig, "parsed from many goroutines at once, a source does not build the tree / value it spells", first)
			}
			c.Eval("hot/concurrent/"+it.src, true)
		}
		c.Count("hot_goroutines_parsing_at_once", g)
	}
}

// ---------------------------------------------------------------------------
// phase overlap: many host goroutines, each with texts of its own

type c03R8Text struct {
	src     string
	wants   []*c03Node // right-hand side of statement i+1
	val     int64
	invalid string // how it was made invalid ("" = valid)
	dump    string // (hash of) the dump the text gave when parsed alone
}

// c03R8MkText builds a program of at least target bytes: v = 0; v = v + e ...; v
func c03R8MkText(r *rand.Rand, target int, invalid bool) *c03R8Text {
	t := &c03R8Text{}
	var sb strings.Builder
	sb.WriteString("v = 0\n")
	var v int64
	var lines []string
	for n := 0; sb.Len()+2 < target || n == 0; n++ {
		x, xv := c03R8Arith(r, r.Intn(6), -1)
		var e *c03Node
		if n%3 == 1 {
			e, v = c03B("-", x, c03N("v")), xv-v
		} else {
			e, v = c03B("+", c03N("v"), x), v+xv
		}
		t.wants = append(t.wants, c03Norm(e))
		mode := c03Min
		if n%5 == 4 {
			mode = c03Full
		}
		line := "v = " + c03Print(e, mode, n%2 == 0, false) + "\n"
		if r.Intn(9) == 0 {
			line = "# " + strings.Repeat("é", r.Intn(30)) + "\n" + line
		}
		lines = append(lines, line)
		sb.WriteString(line)
	}
	t.val = v
	if invalid {
		k := len(lines) / 2
		switch r.Intn(3) {
		case 0:
			t.invalid, lines[k] = "numeral beyond int64", "v = v + 9223372036854775808\n"
		case 1:
			t.invalid, lines[k] = "stray parenthesis", "v = v + 1)\n"
		default:
			t.invalid, lines[k] = "unfinished expression", "v = v + * \n"
		}
	}
	t.src = "v = 0\n" + strings.Join(lines, "") + "v"
	return t
}

// judge: "" when the observation is what the text spells; otherwise signature and detail.
func (t *c03R8Text) judge(how int) (sig, detail string) {
	var root ast.Stmt
	var err error
	var o ank.Out
	switch how {
	case 0:
		var po ank.Out
		root, err, po = ank.Parse(t.src)
		if po.Panicked {
			return "parse-panic:" + po.PanicSig, po.PanicVal
		}
	case 1:
		o = ank.Exec(env.NewEnv(), t.src)
	default:
		ctx, cancel := context.WithCancel(context.Background())
		o = ank.ExecCtx(ctx, env.NewEnv(), t.src)
		cancel()
	}
	if how != 0 {
		if o.Panicked {
			return "exec-panic:" + o.PanicSig, o.PanicVal
		}
		if pe, ok := o.Err.(*parser.Error); ok {
			err = pe
		}
	}
	if t.invalid != "" {
		if err == nil {
			return "accepted-invalid", "a text with a " + t.invalid + " was not rejected"
		}
		return "", ""
	}
	if err != nil {
		return "parse-error", "a well-formed text was rejected: " + err.Error()
	}
	if how == 0 {
		ss := astx.StmtList(root)
		if len(ss) != len(t.wants)+2 {
			return "tree-differs", fmt.Sprintf("%d statements written, %d parsed", len(t.wants)+2, len(ss))
		}
		for i, w := range t.wants {
			ls, ok := ss[i+1].(*ast.LetsStmt)
			if !ok || len(ls.RHSS) != 1 {
				return "tree-differs", fmt.Sprintf("statement %d is not the assignment that was written", i+1)
			}
			if ok, where := c03R8Same(w, ls.RHSS[0]); !ok {
				return "tree-differs", fmt.Sprintf("statement %d: %s; written %s", i+1, where, c03Clip(w.canon()))
			}
		}
		d := strconv.FormatUint(fw.Hash64(astx.Dump(root, astx.Opts{Pos: true})), 16)
		if t.dump == "" {
			t.dump = d
		} else if d != t.dump {
			return "dump-differs", "the text dumps differently from when it was parsed alone"
		}
		o = ank.RunCtx(context.Background(), env.NewEnv(), root)
	}
	if res := c03R8Cls(o); res != "value "+ank.Render(t.val) {
		return "value-differs", "evaluates to " + c03Clip(res+" "+ank.ErrText(o.Err)) + ", written " + ank.Render(t.val)
	}
	return "", ""
}

var c03R8TextSizes = []int{100, 255, 256, 257, 1023, 1024, 1025, 2000, 3000, 4095, 4096, 4097, 4100, 5000, 6000, 7000, 8000, 9000, 4200, 5500, 65535, 65536, 65537, 70000}

func c03R8Overlap(c *wk.Case) {
	rep := newC03R8Rep(c)
	r := c.Rng
	g := []int{8, 16, 32, 64}[c.Index%4]
	per, rounds := 10, 2
	if c.Tier == "thorough" {
		per, rounds = 24, 4
	}
	c.Begin(map[string]interface{}{"phase": "overlap", "goroutines": g})
	texts := make([][]*c03R8Text, g)
	nInvalid, bytes := 0, 0
	for i := range texts {
		for k := 0; k < per; k++ {
			sz := c03R8TextSizes[r.Intn(len(c03R8TextSizes))]
			if sz > 60000 && r.Intn(3) != 0 {
				sz = 4096 + r.Intn(5000)
			}
			t := c03R8MkText(r, sz, (i*per+k)%8 == 5)
			texts[i] = append(texts[i], t)
			bytes += len(t.src)
			if t.invalid != "" {
				nInvalid++
			}
			c.Tag(fmt.Sprintf("overlap:text-bytes>=%d", sz/1000*1000))
			// alone first
			for how := 0; how < 2; how++ {
				if sig, detail := t.judge(how); sig != "" {
					rep.viol("overlap:alone:"+sig, detail, map[string]interface{}{"source-bytes": len(t.src), "source-head": t.src, "invalid": t.invalid})
				}
			}
			c.Events(2)
		}
	}
	var mu sync.Mutex
	type bad struct {
		sig, detail string
		in          map[string]interface{}
	}
	var bads []bad
	for round := 0; round < rounds; round++ {
		var wg sync.WaitGroup
		start := make(chan struct{})
		for i := 0; i < g; i++ {
			wg.Add(1)
			go func(i int) {
				defer wg.Done()
				<-start
				for k, t := range texts[i] {
					how := (i + k + round) % 3
					if round == 0 {
						how = 0
					}
					if sig, detail := t.judge(how); sig != "" {
						mu.Lock()
						bads = append(bads, bad{sig, detail, map[string]interface{}{"goroutine": i, "goroutines": g, "round": round, "through": c03R8How[how], "source-bytes": len(t.src), "source-head": c03Clip(t.src), "invalid": t.invalid}})
						mu.Unlock()
					}
				}
			}(i)
		}
		close(start)
		wg.Wait()
		c.Events(g * per)
		if round%2 == 1 {
			runtime.GC()
		}
	}
	for _, b := range bads {
		rep.viol("overlap:"+b.sig, "parsed while other goroutines parse texts of their own: "+b.detail, b.in)
	}
	c.Eval(fmt.Sprintf("overlap/%d/%d/%d", c.Index, g, bytes), true)
	c.EvalN(g*per*rounds - 1)
	c.Count("overlap_goroutines", g)
	c.Count("overlap_texts", g*per)
	c.Count("overlap_invalid_texts", nInvalid)
	c.Count("overlap_source_bytes", bytes)
	c.Tag(fmt.Sprintf("overlap:goroutines=%d", g))
	if len(bads) > 0 {
		c.Count("overlap_violated_parses", len(bads))
	}
}
