package main

// C16, round 5 — pipelines that outlive the call that started them.
//
// "Channels made by scripts behave as Go channels" and "pipelines built from
// goroutines and channels deliver all items whatever the scheduling" do not stop
// at the end of the vm.Execute call that made the channel or started a stage: a Go
// channel and a goroutine live on. The stepped programs drive one pipeline through
// several calls on one environment (REPL-like hosts, pipelines built in steps):
//
//   - earlier calls (vm.Execute or vm.ExecuteContext, PRNG-chosen per call) make the
//     channels, define the stage functions and start the stages with `go`; they only
//     start goroutines, so they return while the pipeline is still working;
//   - the consumer is a LATER call on the same environment (shape later-call), two
//     later calls that each take a part (split-consumer), or the HOST, which looks the
//     script-made channel up in the environment and receives from it until it is
//     closed (host-read); in host-feed-read the host is also the producer: it sends
//     the items on the first script-made channel and closes it;
//   - the last call runs the closed-channel / failing-operation checks of tail();
//   - library programs (round 6): the stage functions - optionally the consumer loops and
//     the channels too - are defined by a first call that starts nothing and runs under a
//     context of its own, which the host cancels when that call has returned (`ctx, cancel
//     := context.With...; defer cancel()` around loading a library); the later calls start
//     the stages with `go` and call the consumer functions. The context of a call governs
//     that call: its release afterwards must not interrupt anything a later call does.
//
// Oracle: the same as for every pipeline (every message exactly once, per-sender
// order, converted to the element types on the way, the last channel closed), plus:
// no call on the environment fails. The host end is decided on states only, see
// c16HostPump.

import (
	"fmt"
	"math/rand"
	"reflect"
	"runtime"
	"strconv"
	"strings"
	"time"

	"github.com/mattn/anko/env"

	"verifharness/internal/ank"
)

// c16HostIO: what the host does between the earlier calls and the main call
type c16HostIO struct {
	feed     string        // name of the script-made channel the host sends feedVals on and then closes ("" = none)
	feedVals []interface{} // Go values of the channel's element type (any value on an interface channel)
	read     string        // name of the script-made channel the host receives from until it is closed
	consumer string        // rendered consumer id the received values are collected under
}

func (io *c16HostIO) describe() string {
	var parts []string
	if io.feed != "" {
		parts = append(parts, fmt.Sprintf("host sends %d values on env.Get(%q) and closes it", len(io.feedVals), io.feed))
	}
	parts = append(parts, fmt.Sprintf("host receives from env.Get(%q) until it is closed", io.read))
	return strings.Join(parts, "; ")
}

// c16HostPump is the host end of a pipeline: it sends on / receives from the Go
// channels the script made, with non-blocking operations only (reflect TrySend /
// TryRecv), until the output channel is closed.
//
// When nothing can proceed it looks at the goroutine states (one stop-the-world
// sample, then the operations are tried once more):
//   - no interpreter goroutine exists (and no script is running: the host is between
//     calls): nobody is left who could send, receive or close => the pipeline is
//     stuck for good ("no-script-goroutine-left");
//   - every interpreter goroutine is parked in a channel operation of the interpreter,
//     in two such samples with identical stacks and no host operation possible in
//     between: the only party that could wake one of them is the host, and it cannot
//     => deadlock ("all-parked").
//
// Sleeping (jitter) or runnable goroutines make a sample undecided; timers pace the
// sampling and never decide. A run that stays undecided is inconclusive.
func c16HostPump(e *env.Env, io *c16HostIO, h *c16Host, r *c16Run) {
	get := func(name string) (reflect.Value, bool) {
		v, err := e.Get(name)
		if err != nil {
			return reflect.Value{}, false
		}
		rv := reflect.ValueOf(v)
		if !rv.IsValid() || rv.Kind() != reflect.Chan || rv.IsNil() {
			return reflect.Value{}, false
		}
		return rv, true
	}
	out, ok := get(io.read)
	if !ok {
		r.hostStal, r.hostDet = "channel-not-in-env", "env.Get("+io.read+") is not a channel"
		return
	}
	var in reflect.Value
	feeding := io.feed != ""
	if feeding {
		if in, ok = get(io.feed); !ok {
			r.hostStal, r.hostDet = "channel-not-in-env", "env.Get("+io.feed+") is not a channel"
			return
		}
	}
	fed := 0
	// step tries every operation once; done = the output channel is closed and drained
	step := func() (progress, done bool) {
		if feeding {
			if fed < len(io.feedVals) {
				if in.TrySend(reflect.ValueOf(io.feedVals[fed])) {
					fed++
					progress = true
				}
			} else {
				in.Close()
				feeding = false
				progress = true
			}
		}
		v, ok := out.TryRecv()
		switch {
		case ok:
			h.mu.Lock()
			h.ev()
			h.collected[io.consumer] = append(h.collected[io.consumer], ank.Render(v.Interface()))
			if len(h.collected[io.consumer]) > h.limit {
				h.overrun = io.consumer
				h.stop()
			}
			h.mu.Unlock()
			progress = true
		case v.IsValid():
			// zero value, ok == false: closed and drained
			return true, true
		}
		return
	}
	var prev *c16Sample
	idle, samples := 0, 0
	for {
		h.mu.Lock()
		stopped := h.cancelled
		h.mu.Unlock()
		if stopped {
			return // runaway or failed stage: recorded by the host functions
		}
		progress, done := step()
		if done {
			return
		}
		if progress {
			idle, prev = 0, nil
			continue
		}
		idle++
		if idle < 100 {
			runtime.Gosched()
			continue
		}
		time.Sleep(200 * time.Microsecond)
		if idle%40 != 0 {
			continue
		}
		s := c16TakeSample(c16Ignore)
		samples++
		// the state in s was taken with the world stopped; whatever the host can do now
		// it could do then
		if progress, done = step(); done {
			return
		}
		if progress {
			idle, prev = 0, nil
			continue
		}
		switch {
		case s.anko == 0:
			r.hostStal = "no-script-goroutine-left"
			r.hostDet = fmt.Sprintf("no interpreter goroutine exists, the host has sent %d of %d values, %s is not closed and holds nothing", fed, len(io.feedVals), io.read)
			return
		case s.allParked && prev != nil && prev.allParked && prev.sig == s.sig:
			r.hostStal = "all-parked"
			r.hostDet = fmt.Sprintf("every script goroutine is parked in a channel operation [%s] (two identical samples) and the host can neither send nor receive\n%s", s.ops, s.text)
			return
		case s.allParked:
			prev = &s
		default:
			prev = nil
		}
		if samples > c16MaxPolls {
			r.undecid = "host-end-undecided"
			r.dlDetail = s.text
			h.mu.Lock()
			h.stop()
			h.mu.Unlock()
			return
		}
	}
}

// c16Stepped generates one stepped program (see the head of this file).
func c16Stepped(r *rand.Rand, tier string) *c16Prog {
	n := []int{0, 1, 2, 5, 50, 50, 50, 200}[r.Intn(8)]
	shape := []string{"later-call", "later-call", "split-consumer", "host-read", "host-read", "host-feed-read"}[r.Intn(6)]
	g := newC16Gen(r, "stepped:"+shape, n)
	hostFeeds := shape == "host-feed-read"
	if !hostFeeds {
		g.pickSource()
	}
	m := r.Intn(3)
	if hostFeeds {
		m = 1 + r.Intn(2) // at least one script stage between the host's two ends
	}
	// library programs (two in five): the stage functions (and, in half of them, the
	// consumer loop) are DEFINED by a call of their own that starts nothing, made under a
	// context of its own which the host cancels as soon as that call has returned (see
	// c16Execute, modes ctx-released / run-released); they are started and called by the
	// later calls. A context governs the call it was handed to (and the goroutines that
	// call started): releasing it after the call has returned must not touch the
	// pipelines that later calls build from the functions it defined.
	lib := r.Intn(5) < 2
	els := c16ElemsOf(g.fam)
	typ := g.srcTyp
	chans := make([]string, m+1)
	var lastEl c16Elem
	var feedTyp string
	for t := 0; t <= m; t++ {
		chans[t] = "c" + strconv.Itoa(t)
		el := els[r.Intn(len(els))]
		g.mkChan(chans[t], el, g.pickCap(n))
		typ = c16Fold(typ, el)
		if t == 0 {
			feedTyp = typ
		}
		lastEl = el
	}
	chanDecl := g.decl.String() // the channels; launch() appends the stage functions
	g.p.final = typ
	g.tag("stages:" + strconv.Itoa(m+2))
	for i := 0; i < n; i++ {
		key := ank.Render(c16Val(g.fam, 1, i, typ))
		g.p.keys[key] = c16Msg{group: 1, seq: i, id: i}
		g.p.exact = append(g.p.exact, key)
	}
	g.p.total = n
	mode := func() string {
		// vm.Execute three times in four
		if r.Intn(4) == 0 {
			return "ctx"
		}
		return "exec"
	}
	// the stages that run as goroutines
	var gor []c16Stage
	if !hostFeeds {
		prod := c16Stage{k: 1, in: "nil", out: chans[0], n: n}
		prod.body = func(nm c16Names) string { return g.producerBody(nm, "close("+nm.o+")", false) }
		gor = append(gor, prod)
	}
	for t := 1; t <= m; t++ {
		form := g.pickForward()
		st := c16Stage{k: t + 1, in: chans[t-1], out: chans[t], n: n}
		g.p.recvForm[ank.Render(int64(st.k))] = form
		st.body = func(nm c16Names) string { return g.forwardBody(nm, form, nil, "close("+nm.o+")") }
		gor = append(gor, st)
	}
	r.Shuffle(len(gor), func(a, b int) { gor[a], gor[b] = gor[b], gor[a] })
	// one main fragment per stage; the fragments are dealt to 1..3 starting calls in order
	var frags []string
	for _, st := range gor {
		g.main.Reset()
		g.launch(st)
		frags = append(frags, g.main.String())
	}
	g.main.Reset()
	calls := 1 + r.Intn(3)
	if calls > len(frags) {
		calls = len(frags)
	}
	if calls < 1 {
		calls = 1
	}
	g.tag("starting-calls:" + strconv.Itoa(calls))
	srcs := make([]string, calls)
	for i, f := range frags {
		at := 0
		if calls > 1 {
			at = i * calls / len(frags)
		}
		srcs[at] += f
	}
	funcDecl := g.decl.String()[len(chanDecl):]
	// the consumer
	cm := chans[m]
	nm := c16Names{i: cm, o: "nil", k: "0", n: strconv.Itoa(n), pre: "m"}
	// library programs: the consumer loops may be library functions too, called
	// synchronously by the later calls
	libCons := lib && (shape == "later-call" || shape == "split-consumer") && r.Intn(2) == 0
	fnm := c16Names{i: "i", o: "nil", k: "k", n: "n", pre: "f"}
	var consPre []c16Step
	switch shape {
	case "later-call":
		form := g.pickRecv(true)
		g.p.recvForm["int64(0)"] = form
		if libCons {
			funcDecl += "func consume(i, k, n) {\n" + indent(g.consumerBody(fnm, form, false, "")) + "}\n"
			fmt.Fprintf(&g.main, "consume(%s, 0, %d)\n", cm, n)
		} else {
			g.main.WriteString(g.consumerBody(nm, form, false, ""))
		}
	case "split-consumer":
		// a first call takes q messages with the receive expression, the main call the rest
		q := 0
		if n > 0 {
			q = r.Intn(n + 1)
		}
		md := mode()
		g.tag("consumer-call:" + md)
		first := fmt.Sprintf("for mj = 0; mj < %d; mj++ { tick(0); %sitem(0, <-%s) }\n", q, g.jit(), cm)
		if libCons {
			funcDecl += fmt.Sprintf("func take(i, q) { for fj = 0; fj < q; fj++ { tick(0); %sitem(0, <-i) } }\n", g.jit())
			first = fmt.Sprintf("take(%s, %d)\n", cm, q)
		}
		consPre = append(consPre, c16Step{first, md})
		form := g.pickRecv(true)
		g.p.recvForm["int64(0)"] = form
		nm.n = strconv.Itoa(n - q)
		if libCons {
			funcDecl += "func rest(i, k, n) {\n" + indent(g.recvLoop(fnm, form, func(v string) string { return "item(k, " + v + ")" })) + "}\n"
			fmt.Fprintf(&g.main, "rest(%s, 0, %d)\n", cm, n-q)
		} else {
			g.main.WriteString(g.recvLoop(nm, form, func(v string) string { return "item(0, " + v + ")" }))
		}
	default:
		io := &c16HostIO{read: cm, consumer: "int64(0)"}
		if hostFeeds {
			io.feed = chans[0]
			for i := 0; i < n; i++ {
				io.feedVals = append(io.feedVals, c16Val(g.fam, 1, i, feedTyp))
			}
		}
		g.p.hostIO = io
		g.p.recvForm["int64(0)"] = "host"
	}
	// the calls, in order: [library] starting calls, [first consumer call], main call
	if lib {
		md := []string{"ctx-released", "run-released"}[r.Intn(2)]
		libSrc := funcDecl
		if r.Intn(2) == 0 || funcDecl == "" {
			// the channels are made by the library call as well
			libSrc = chanDecl + funcDecl
			g.tag("library:makes-channels")
		} else {
			srcs[0] = chanDecl + srcs[0]
		}
		g.tag("library-call:" + md)
		if libCons {
			g.tag("library:consumer")
		}
		if funcDecl != "" {
			g.tag("library:functions")
		}
		g.p.pre = append(g.p.pre, c16Step{libSrc, md})
	} else {
		srcs[0] = chanDecl + funcDecl + srcs[0]
	}
	for _, s := range srcs {
		md := mode()
		g.tag("starting-call:" + md)
		g.p.pre = append(g.p.pre, c16Step{s, md})
	}
	g.p.pre = append(g.p.pre, consPre...)
	g.p.mainMode = mode()
	g.tag("main-call:" + g.p.mainMode)
	g.tail(cm, lastEl, g.fam)
	g.p.src = g.main.String()
	return g.p
}
