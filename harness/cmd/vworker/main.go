// vworker links /repo's packages and hosts every in-process engine.
package main

import "verifharness/internal/wk"

func main() { wk.Main() }
