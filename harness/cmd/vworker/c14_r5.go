package main

// C14, round 5 — three more ways in which one execution can reach another:
//
//	(a) the tree: a nested assignment target whose container is PARENTHESISED
//	    ((rows[i])[j] = v, (m.sub).n = v, (a[i])[1:2] = v, ((g[0])[0])[0] = v ...):
//	    "executing a program does not modify its parsed tree", seen by the tree dump,
//	    by run k against run 1, and — datamix cases — by ONE tree run in
//	    environments whose host data DIFFER (each run is compared with a freshly
//	    parsed tree run alone on equal data), one after the other and at once;
//	(b) the scopes: a type declared with make(type T, v) inside a function body or a
//	    block belongs to that scope; "two environments never observe each other's
//	    bindings", so a later block, call, run or environment that resolves the name
//	    finds what its OWN environment defines (nothing, or the type bound further
//	    out). Programs that declare types in nested scopes (many live at once:
//	    recursion) and programs that resolve the same names from nested scopes, as
//	    feature programs (probe first, declare afterwards: run k vs run 1), as a
//	    group of phase hist (each member vs its run alone in a fresh child process),
//	    as a canary after every case, and in the datamix texts;
//	(c) function values: a script function VALUE that several runs share (helpers
//	    defined once in a prepared environment, runs on Env.Copy / Env.DeepCopy
//	    copies or child scopes of it; `go` calls inside one run) is called from
//	    overlapping goroutines: "every run yields the result it would yield alone",
//	    so every call sees its own arguments. Helpers of every shape (0..8 fixed
//	    parameters, variadic with 0..3 fixed ones, named / literal / module function,
//	    recursive); sharedfn cases compare each concurrent run with the same source
//	    run alone on such an environment with the same data.
//
// Every oracle is a comparison of a run with the same program run alone (or a
// plain statement of the property: a fresh environment binds no type ST). Nothing
// depends on timing: the goroutine programs compute order-independent values.

import (
	"context"
	"fmt"
	"strings"
	"sync"
	"time"

	"github.com/mattn/anko/ast"
	"github.com/mattn/anko/env"

	"verifharness/internal/ank"
	"verifharness/internal/astx"
	"verifharness/internal/realrun"
	"verifharness/internal/wk"
)

// ---------------------------------------------------------------------------
// (a) parenthesised nested assignment targets — feature programs

var c14R5ParenTargetPrograms = []string{
	"rows = [[1, 2], [3, 4], [5, 6]]\nfor i = 0; i < 3; i++ { (rows[i])[0] = i * 10 }\nrd(\"rows\", rows)",
	"m = {\"sub\": {\"n\": 0}, \"l\": [0, 0]}\n(m.sub).n = 5\n(m[\"sub\"]).k = 6\n(m.l)[1] = 7\nrd(\"m\", m)",
	"a = [[1, 2, 3], [4, 5, 6]]\nfor i = 0; i < 2; i++ { try { (a[i])[1:2] = [9] } catch e { pc(e) } }\nrd(\"a\", a)",
	"b = [[1, 2], [3, 4]]\nfor i = 0; i < 2; i++ { (b[i])[1] += 10\n (b[i])[0]++ }\n(b[0])[0], (b[1])[1] = 7, 8\nrd(\"b\", b)",
	"module md { v = [1, 2] }\n(md.v)[0] = 3\nrd(\"md\", md.v)\ns = make(struct{A []int64})\ns.A = []int64{1, 2}\n(s.A)[1] = 9\nrd(\"s\", s)",
	"g = [[[0]]]\n((g[0])[0])[0] = 4\n(g[0][0])[0] += 4\n((g[0]))[0][0]++\nrd(\"g\", g)",
	"f = func(c, i, v) { (c[i])[0] = v }\nrows = [[1], [2], [3]]\nf(rows, 0, \"a\")\nf(rows, 2, \"b\")\nrd(\"rows\", rows)",
	"t = [\"ab\", \"cd\"]\n(t[1])[0] = \"Q\"\nrows = [[1, 2], [3]]\n(rows[1])[1] = 9\nx = [1, 2]\npx = &x\n(*px)[0] = 5\nrd(\"r\", [t, rows, x])",
	"mm = {}\nmm.a = {}\n(mm.a).b = {}\n((mm.a).b).c = 1\nfunc put(c, k, v) { (c[k]).n = v\n return c }\nrd(\"put\", [put({\"a\": {\"n\": 0}}, \"a\", 1), put({\"z\": {\"n\": 0}}, \"z\", 2), mm])",
	"a = [[0, 0], [0, 0]]\nn = 0\nfor i = 0; i < 4; i++ { (a[pv(i, i % 2)])[pv(10 + i, i / 2)] = i + 1\n n++ }\nrd(\"a\", [a, n])",
	"ts = [][]int64{{1, 2}, {3, 4}}\ntm = map[string][]int64{\"k\": {5, 6}}\nfor i = 0; i < 2; i++ { (ts[i])[1] = 40 + i\n (tm.k)[i] += 1 }\n(tm[\"k\"])[0]++\nrd(\"t\", [ts, tm])",
}

// ---------------------------------------------------------------------------
// (b) types declared in nested scopes. The names ST and SU are declared in
// nested scopes only (never at the top level of a program that does not say so).

// one program probes first and declares afterwards: run k of the tree in a fresh
// environment must read what run 1 read
var c14R5NestedTypePrograms = []string{
	"func probe() { return make(ST) ?? \"undefined\" }\npre = [probe()]\nif true { pre += [make(ST) ?? \"undefined\"] }\nfor i = 0; i < 2; i++ { pre += [make([]ST, 1) ?? \"undefined\"] }\nfor v in [1] { pre += [make(map[string]SU) ?? \"undefined\"] }\nswitch 1 { case 1: pre += [make(SU) ?? \"undefined\"] }\ntry { pre += [make(ST) ?? \"undefined\"] } catch e { pc(e) }\nrd(\"pre\", pre)\n" +
		"func decl(v) { make(type ST, v)\n return make(ST) }\nrd(\"d\", [decl(1), decl(\"s\")])\nfor i = 0; i < 20; i++ { if true { make(type ST, i) } }\nfor v in [1.5, \"x\"] { make(type SU, v) }\nswitch 1 { case 1: make(type ST, true) }\ntry { make(type SU, [1]) } catch e { pc(e) }\nfor { make(type ST, 2.5)\n break }\nrd(\"post\", [probe(), make(ST) ?? \"undefined\", make(SU) ?? \"undefined\"])",
	"func pr(n) { if n == 0 { return 0 }\n if (make(ST) ?? \"u\") != \"u\" { return pr(n - 1) + 1 }\n return pr(n - 1) }\nrd(\"visible\", pr(60))\nfunc dr(n) { make(type ST, n)\n if n == 0 { return make(ST) }\n return dr(n - 1) }\nrd(\"dr\", dr(50))\nrd(\"after\", pr(60))",
	"make(type ST, \"outer\")\nfunc inner() { return make(ST) }\nfunc dr(n) { if n == 0 { return 0 }\n if true { make(type ST, n) }\n make(type SU, n)\n return dr(n - 1) + 1 }\nr = []\nfor i = 0; i < 3; i++ { if true { make(type ST, i)\n r += [make(ST)] }\n r += [make(ST), inner(), make([]ST, 1), make(SU) ?? \"undefined\"]\n dr(20) }\nrd(\"r\", r)",
	"func a() { make(type ST, \"a\")\n return b() }\nfunc b() { make(type SU, 1)\n return [make(SU), make(ST) ?? \"undefined\"] }\nrd(\"ab\", a())\nrd(\"top\", [make(ST) ?? \"undefined\", make(SU) ?? \"undefined\", make(struct{F ST}) ?? \"no such type\"])\nif true { make(type ST, make(struct{A int64}))\n v = make(ST)\n v.A = 3\n rd(\"v\", v) }\nif true { rd(\"next\", make(ST) ?? \"undefined\") }",
}

// declarers and probers as separate programs (phase hist: each against its run alone)
var c14R5TypeDeclarers = []string{
	"func decl(v) { make(type ST, v)\n return make(ST) }\nrd(\"d\", [decl(1), decl(\"s\"), decl(2.5)])",
	"func dr(n) { make(type ST, n)\n make(type SU, \"s\")\n if n == 0 { return [make(ST), make(SU)] }\n return dr(n - 1) }\nrd(\"dr\", dr(60))",
	"func dr(n) { if true { make(type ST, \"s\")\n if n > 0 { for i = 0; i < 1; i++ { make(type SU, 1.5)\n dr(n - 1) } } }\n return n }\nrd(\"dr\", dr(25))",
	"for i = 0; i < 30; i++ { if true { make(type ST, i)\n if i == 29 { rd(\"st\", make(ST)) } } }\nfor v in [1.5, \"x\", true] { make(type SU, v) }\nswitch 1 { case 1: make(type ST, true) }\ntry { make(type ST, [1]) } catch e { pc(e) }\nfor { make(type SU, 2.5)\n break }",
	"if true { make(type ST, make(struct{A int64}))\n v = make(ST)\n v.A = 3\n rd(\"v\", v) }\nf = func(a, b, c, d, e) { make(type SU, [a, b, c, d, e])\n return make(SU) }\nrd(\"f\", f(1, 2, 3, 4, 5))\ng = func(x...) { make(type ST, x)\n return make(ST) }\nrd(\"g\", g(1, 2))",
	"func f() { module mm { make(type ST, 1) }\n make(type SU, {\"a\": 1})\n return [make(mm.ST), make(SU)] }\nrd(\"f\", f())\nheach([1, 2, 3], func(x) { make(type ST, x) })\nhcb(func() { make(type SU, \"cb\") })",
	"func t(n) { make(type ST, n)\n if n == 0 { throw \"T9\" }\n return t(n - 1) }\nk = 0\nfor i = 0; i < 20; i++ { try { t(12) } catch e { k++ } }\nrd(\"k\", k)",
}

var c14R5TypeProbers = []string{
	"func probe() { return make(ST) ?? \"undefined\" }\npre = [probe()]\nif true { pre += [make(ST) ?? \"undefined\"] }\nfor i = 0; i < 2; i++ { pre += [make([]ST, 1) ?? \"undefined\"] }\nfor v in [1] { pre += [make(map[string]SU) ?? \"undefined\"] }\nswitch 1 { case 1: pre += [make(SU) ?? \"undefined\"] }\ntry { pre += [make(ST) ?? \"undefined\"] } catch e { pc(e) }\nrd(\"pre\", pre)",
	"func pr(n) { if n == 0 { return 0 }\n if (make(ST) ?? \"u\") != \"u\" || (make(SU) ?? \"u\") != \"u\" { return pr(n - 1) + 1 }\n return pr(n - 1) }\nrd(\"visible\", pr(80))",
	"make(type ST, \"outer\")\nfunc inner() { return make(ST) }\nfunc deep(n) { if n == 0 { return [make(ST), make(SU) ?? \"undefined\"] }\n return deep(n - 1) }\nr = []\nfor i = 0; i < 3; i++ { if true { r += [make(ST)] }\n r += [make([]ST, 1), inner()] }\nrd(\"r\", [r, deep(40)])",
	"func mk() { return make(struct{F ST}) ?? \"no such type\" }\nrd(\"mk\", mk())\nif true { rd(\"s\", []ST{} ?? \"no such type\")\n rd(\"m\", make(map[string]SU) ?? \"no such type\") }\nk = 0\nfor i = 0; i < 60; i++ { if true { if (make(ST) ?? \"u\") != \"u\" { k++ } } }\nrd(\"k\", k)",
	"make(type SU, 1)\nmodule pm { make(type ST, \"mod\")\n func get() { if true { return [make(ST), make(SU)] } } }\nrd(\"pm\", pm.get())\nf = func(a, b, c, d, e) { return make(ST) ?? \"undefined\" }\ng = func(x...) { if true { return make(SU) } }\nrd(\"fg\", [f(1, 2, 3, 4, 5), g()])",
}

// ---------------------------------------------------------------------------
// (c) one function value called from overlapping goroutines of one run. The value of
// every program is independent of the schedule: each goroutine checks what its own
// calls return and the counts are added up.

func c14R5GoProgram(defs, check string, workers, iters int) string {
	return defs + fmt.Sprintf("\nout = make(chan int64, %d)\nfor w = 0; w < %d; w++ {\n go func(w) {\n  bad = 0\n  for j = 0; j < %d; j++ {\n   k = (w + j) %% 10\n", workers, workers, iters) + check + fmt.Sprintf("\n  }\n  out <- bad\n }(w)\n}\ntotal = 0\nfor w = 0; w < %d; w++ { total += <- out }\nrd(\"bad\", total)", workers)
}

const (
	c14R5GoDefs1  = "five = func(a, b, c, d, e) { return a * 10000 + b * 1000 + c * 100 + d * 10 + e }\ntail = func(x, rest...) { var s = x * 100\n for v in rest { s = s * 10 + v }\n return s + len(rest) * 100000 }"
	c14R5GoCheck1 = "   if five(w, k, w, k, w) != w * 10101 + k * 1010 { bad++ }\n   if tail(w, k, w) != 200000 + w * 10000 + k * 10 + w { bad++ }"
)

// few goroutines and calls: these also run in phase conc, 8 runs at once in the race build
var c14R5GoSharedFuncPrograms = []string{
	c14R5GoProgram(c14R5GoDefs1, c14R5GoCheck1, 4, 30),
	c14R5GoProgram("func six(n, a, b, c, d, e) { if n == 0 { return a * 10000 + b * 1000 + c * 100 + d * 10 + e }\n return six(n - 1, a, b, c, d, e) }\nmodule gm { func all(rest...) { var s = 0\n for v in rest { s = s * 10 + v }\n return s } }",
		"   if six(k % 3, k, w, k, w, k) != k * 10101 + w * 1010 { bad++ }\n   if gm.all(w, k, w, k) != w * 1010 + k * 101 { bad++ }\n   if gm.all([k, w]...) != k * 10 + w { bad++ }", 4, 30),
	c14R5GoProgram("two = func(a, b) { return a * 10 + b }\nfour = func(a, b, c, d) { return a * 1000 + b * 100 + c * 10 + d }\neight = func(a, b, c, d, e, f, g, h) { return [a, b, c, d, e, f, g, h] }",
		"   if two(w, k) != w * 10 + k { bad++ }\n   if four(k, w, k, w) != k * 1010 + w * 101 { bad++ }\n   for v in eight(w, w, w, w, w, w, w, w) { if v != w { bad++ } }", 4, 30),
}

// many goroutines and calls (regular build only: phases seq and hist)
var c14R5GoSharedFuncHeavyPrograms = []string{
	c14R5GoProgram(c14R5GoDefs1, c14R5GoCheck1, 8, 150),
}

// c14R5Features are the round-5 programs of the feature list (phases seq, conc, hist).
func c14R5Features() []string {
	var f []string
	f = append(f, c14R5ParenTargetPrograms...)
	f = append(f, c14R5NestedTypePrograms...)
	f = append(f, c14R5GoSharedFuncPrograms...)
	f = append(f, c14R5GoSharedFuncHeavyPrograms...)
	return f
}

// c14R5HistGroups adds the round-5 groups of phase hist.
func c14R5HistGroups(add func(group, src string)) {
	for _, s := range c14R5TypeDeclarers {
		add("nested-scope-types", s)
	}
	for _, s := range c14R5TypeProbers {
		add("nested-scope-types", s)
	}
	for _, s := range c14R5NestedTypePrograms {
		add("nested-scope-types", s)
	}
	for _, s := range c14R5ParenTargetPrograms {
		add("paren-targets", s)
	}
}

// c14R5Canary: a fresh environment binds no type ST or SU, whatever scopes earlier
// executions of the process declared them in; and a block resolves the type its own
// environment binds further out.
func c14R5Canary(c *wk.Case, when string) {
	const probe = "func pr(n) { if n == 0 { return 0 }\n if (make(ST) ?? \"u\") != \"u\" || (make(SU) ?? \"u\") != \"u\" { return pr(n - 1) + 1 }\n return pr(n - 1) }\nr = [pr(12)]\nif true { r += [make(ST) ?? \"u\"]\n for i = 0; i < 2; i++ { r += [make([]SU, 1) ?? \"u\"]\n switch i { case 0: r += [make(map[string]ST) ?? \"u\"] } } }\nr"
	const want = "[]interface {}[int64(0) \"u\" \"u\" \"u\" \"u\"]"
	if o := ank.Exec(ank.NewCoreEnv(), probe); ank.Render(o.Val) != want || o.Err != nil {
		c.Violation("canary:nested-scope-types", "after "+when+": a fresh environment binds no type ST or SU, but blocks and calls in it resolve them: `"+probe+"` yields "+ank.Render(o.Val)+" "+ank.ErrText(o.Err)+", not "+want, when)
		return
	}
	const outer = "make(type ST, \"outer\")\nmake(type SU, 1.5)\nfunc inn(n) { if n == 0 { return [make(ST), make(SU)] }\n return inn(n - 1) }\nr = inn(8)\nif true { r += [make(ST)]\n for i = 0; i < 1; i++ { r += [make(SU)] } }\nr"
	const wantOuter = "[]interface {}[\"\" float64(0) \"\" float64(0)]"
	if o := ank.Exec(ank.NewCoreEnv(), outer); ank.Render(o.Val) != wantOuter || o.Err != nil {
		c.Violation("canary:nested-scope-types-outer", "after "+when+": blocks and calls must resolve the types their environment binds at the top level: `"+outer+"` yields "+ank.Render(o.Val)+" "+ank.ErrText(o.Err)+", not "+wantOuter, when)
	}
}

// c14R5CaseCanary: the canaries after a round-5 case; the complete set after every
// fourth case, the round-5 ones after each.
func c14R5CaseCanary(c *wk.Case, when string) {
	if c.Index%4 == 0 {
		c14Canary(c, when)
		return
	}
	c14R5Canary(c, when)
}

// ---------------------------------------------------------------------------
// running a tree in an environment the caller prepared

func c14R5Run(e *env.Env, rec *realrun.Recorder, tree ast.Stmt, wd time.Duration) realrun.Real {
	ctx, cancel := context.WithTimeout(context.Background(), wd)
	defer cancel()
	o := ank.RunCtx(ctx, e, tree)
	var real realrun.Real
	real.Trace, real.GTrace = rec.Snapshot()
	switch {
	case o.Panicked:
		// goroutine-free programs: a panic is an outcome like any other and must repeat
		real.Panicked, real.PanicSig, real.PanicVal = true, o.PanicSig, o.PanicVal
		real.ErrText = "panic: " + o.PanicSig
	case len(real.Trace) >= realrun.EventBudget:
		real.Overflow = true
	case ctx.Err() != nil:
		real.TimedOut = true
	case o.Err != nil:
		real.ErrText = o.Err.Error()
	default:
		real.Value = ank.Render(o.Val)
	}
	return real
}

// ---------------------------------------------------------------------------
// datamix: ONE tree, environments whose host data differ

// c14R5BindData binds the data of run k: every container is built anew, so no two
// environments share a value.
func c14R5BindData(e *env.Env, k int64) {
	iv := func(vs ...int64) []interface{} {
		l := make([]interface{}, len(vs))
		for i, v := range vs {
			l[i] = v
		}
		return l
	}
	e.Define("id", k)
	e.Define("hid", func() int64 { return k })
	e.Define("rows", []interface{}{iv(k, k+1), iv(k+2, k+3), iv(k+4, k+5)})
	e.Define("hmp", map[interface{}]interface{}{"sub": map[interface{}]interface{}{"n": k}, "l": iv(k, k), "s": fmt.Sprintf("s%d", k)})
	e.Define("names", []interface{}{fmt.Sprintf("a%d", k), fmt.Sprintf("b%d", k)})
	e.Define("grid", [][]int64{{k, k + 1}, {k + 2, k + 3}})
}

func c14R5RunData(tree ast.Stmt, k int64, wd time.Duration) realrun.Real {
	e, rec := realrun.NewEnv()
	c14R5BindData(e, k)
	return c14R5Run(e, rec, tree, wd)
}

// numeric places inside the host data; %s = an index operand (0 or 1)
var c14R5Places = []string{
	"(rows[%s])[%s]", "rows[%s][%s]", "((rows[%s]))[%s]", "(rows[%s][0:2])[%s]",
	"(hmp.sub).n", "hmp.sub.n", "(hmp[\"sub\"]).n", "(hmp.sub)[\"n\"]", "(hmp.l)[%s]", "hmp.l[%s]", "(hmp[\"l\"])[%s]",
	"(grid[%s])[%s]", "grid[%s][%s]", "((grid)[%s])[%s]",
}

// statements that are no assignments to host data: calls, closures, literals, types by data
var c14R5OtherStmts = []string{
	"rd(\"hid\", [hid(), hid() + 1, id])",
	"func g%d(a) { return a + id }\nrd(\"g\", [g%d(1), g%d(hid())])",
	"x%d = id\nx%d++\nx%d += 4095\nrd(\"x\", x%d)",
	"rd(\"l\", [id, rows[0][0], hmp.sub.n, grid[1][1], names[0]])",
	"switch id %% 3 { case 0: p(\"zero\")\ncase 1: p(\"one\")\ndefault: p(\"two\") }",
	"rd(\"t\", id %% 2 == 0 ? \"even\" : \"odd\")",
	"s%d = 0\nfor v in rows { s%d += v[0] }\nrd(\"s\", s%d)",
	"c%d = func() { var n = id\n return func() { n++\n return n } }()\nrd(\"c\", [c%d(), c%d()])",
	"defer h1(id)\ndefer func() { p(hid()) }()",
	"make(type DT, id %% 2 == 0 ? 1 : \"s\")\nrd(\"dt\", [make(DT), make([]DT, 1)])",
	"func mk%d() { make(type ST, id %% 2 == 0 ? 1 : \"s\")\n return make(ST) }\nrd(\"mk\", mk%d())\nif true { rd(\"st\", make(ST) ?? \"undefined\") }",
	"if id %% 2 == 0 { make(type SU, 2.5)\n rd(\"su\", make(SU)) }\nfor i = 0; i < 2; i++ { rd(\"su2\", make(SU) ?? \"undefined\") }",
	"five%d = func(a, b, c, d, e) { return [a, b, c, d, e] }\nrest%d = func(a, r...) { return [a, len(r)] }\nrd(\"fn\", [five%d(id, 1, id, 2, id), rest%d(id, 1, 2)])",
}

// c14R5DataText draws a program over the host data of a datamix environment.
func c14R5DataText(c *wk.Case) string {
	sn := 0
	idx := func(loop bool) string {
		sn++
		switch r := c.Rng.Intn(6); {
		case r == 0:
			return "1"
		case r == 1:
			return "id % 2"
		case r == 2:
			return fmt.Sprintf("pv(%d, %d)", sn, c.Rng.Intn(2))
		case r == 3 && loop:
			return "i"
		case r == 4:
			return "hid() % 2"
		}
		return "0"
	}
	place := func(loop bool) string {
		p := c14R5Places[c.Rng.Intn(len(c14R5Places))]
		n := strings.Count(p, "%s")
		args := make([]interface{}, n)
		for i := range args {
			args[i] = idx(loop)
		}
		return fmt.Sprintf(p, args...)
	}
	val := func() string {
		return []string{"id", "id + 7", "id * 2", "hid()", "rows[2][1]", fmt.Sprint(1 + c.Rng.Intn(9))}[c.Rng.Intn(6)]
	}
	var lines []string
	ns := 2 + c.Rng.Intn(4)
	for s := 0; s < ns; s++ {
		sn++
		switch c.Rng.Intn(12) {
		case 0, 1:
			lines = append(lines, place(false)+" = "+val())
		case 2:
			lines = append(lines, place(false)+" += "+val())
		case 3:
			lines = append(lines, place(false)+"++")
		case 4:
			lines = append(lines, place(false)+", "+place(false)+" = "+val()+", "+val())
		case 5:
			op := []string{"=", "+=", "-="}[c.Rng.Intn(3)]
			lines = append(lines, "for i = 0; i < 2; i++ { "+place(true)+" "+op+" "+val()+" + i }")
		case 6:
			lines = append(lines, fmt.Sprintf("func f%d(v) { %s = v }\nf%d(%s)\nf%d(%s)", sn, place(false), sn, val(), sn, val()))
		case 7:
			lines = append(lines, fmt.Sprintf("f%d = func(c, j, v) { (c[j])[%s] = v }\nf%d(rows, %s, %s)\nf%d(rows, %s, %s)", sn, idx(false), sn, idx(false), val(), sn, idx(false), val()))
		case 8:
			lines = append(lines, fmt.Sprintf("try { (rows[%s])[0:1] = [%s] } catch e { pc(e) }", idx(false), val()))
		case 9:
			lines = append(lines, fmt.Sprintf("(names[%s])[0] = \"Z\"", idx(false)))
		default:
			t := c14R5OtherStmts[c.Rng.Intn(len(c14R5OtherStmts))]
			n := strings.Count(t, "%d")
			args := make([]interface{}, n)
			for i := range args {
				args[i] = sn
			}
			lines = append(lines, fmt.Sprintf(t, args...))
		}
	}
	lines = append(lines, "rd(\"rows\", rows)", "rd(\"hmp\", hmp)", "rd(\"grid\", grid)", "rd(\"names\", names)")
	return strings.Join(lines, "\n")
}

// c14R5DataMix parses a program over host data once and runs the tree in environments
// whose data differ, one after the other or at the same time. The reference of the run
// on data k is a freshly parsed tree of the same text run alone on equal data.
func c14R5DataMix(c *wk.Case, concurrent bool) {
	text := c14R5DataText(c)
	nruns := 3 + c.Rng.Intn(3)
	if concurrent {
		nruns = 8
	}
	base := int64(100 + c.Rng.Intn(800))
	ids := make([]int64, nruns)
	for i := range ids {
		ids[i] = base + int64(i)*17
	}
	if !concurrent && c.Rng.Intn(3) == 0 {
		// the first data once more at the end
		ids[nruns-1] = ids[0]
	}
	input := map[string]interface{}{"source": text, "kind": "datamix", "id-of-run": ids, "concurrent": concurrent,
		"host-data": "id = k; hid() = k; rows = [[k, k+1], [k+2, k+3], [k+4, k+5]]; hmp = {sub: {n: k}, l: [k, k], s: \"s<k>\"}; names = [\"a<k>\", \"b<k>\"]; grid = [][]int64{{k, k+1}, {k+2, k+3}}"}
	c.Begin(input)
	tree, perr, po := ank.Parse(text)
	if po.Panicked || perr != nil || tree == nil {
		c.Inconclusive("datamix-program-does-not-parse", ank.ErrText(perr), input)
		return
	}
	// alone: a tree of its own for every run
	refs := make([]c14Obs, nruns)
	for i, k := range ids {
		solo, _, _ := ank.Parse(text)
		refs[i] = c14Observe(c14R5RunData(solo, k, 4*time.Second))
		if refs[i].timeout {
			c.Excluded("watchdog")
			return
		}
	}
	dump0 := astx.Dump(tree, c14DumpOpts)
	obs := make([]c14Obs, nruns)
	how := "seq"
	if concurrent {
		how = "conc"
		var wg sync.WaitGroup
		start := make(chan struct{})
		for i := 0; i < nruns; i++ {
			wg.Add(1)
			go func(i int) {
				defer wg.Done()
				<-start
				obs[i] = c14Observe(c14R5RunData(tree, ids[i], 8*time.Second))
			}(i)
		}
		close(start)
		wg.Wait()
	} else {
		for i := 0; i < nruns; i++ {
			obs[i] = c14Observe(c14R5RunData(tree, ids[i], 4*time.Second))
		}
	}
	for i, o := range obs {
		if o.timeout {
			c.Inconclusive("datamix-run-watchdog", "", input)
			return
		}
		if d := refs[i].diff(o); d != "" {
			c.Violation("shared-tree-run-on-other-data-differs:"+how, fmt.Sprintf("run %d of the shared tree (host data id = %d; the other runs of the tree had other data) differs from a freshly parsed tree of the same text run alone on equal data: alone %s", i, ids[i], d), input)
			return
		}
	}
	if d := astx.Dump(tree, c14DumpOpts); d != dump0 {
		c.Violation("tree-mutated:"+firstDiffNode(dump0, d), "the parsed tree differs after runs on different host data: "+dumpDiff(dump0, d), input)
		return
	}
	c14R5CaseCanary(c, "datamix runs")
	c.Eval(text+"|"+fmt.Sprint(ids), true)
	c.Events(nruns)
	c.Tag("kind:datamix", "phase:"+c.Phase, "datamix:"+how)
	if c.WantSample() {
		c.Sample(input)
	}
}

// ---------------------------------------------------------------------------
// sharedfn: helpers defined once in a prepared environment, called by concurrent runs

type c14R5Helper struct {
	def  string // the definition, run once in the prepared environment
	call func(args []string) string
	// number of arguments a call passes (variadic helpers: fixed + 0..3)
	nargs  func(c *wk.Case) int
	isList bool
}

// c14R5NewHelper draws a helper that looks at nothing but its parameters.
func c14R5NewHelper(c *wk.Case, n int) c14R5Helper {
	name := fmt.Sprintf("hf%d", n)
	variadic := c.Rng.Intn(2) == 0
	nfixed := c.Rng.Intn(9)
	if variadic {
		nfixed = c.Rng.Intn(4)
	} else if c.Rng.Intn(3) != 0 && nfixed < 5 {
		// mostly beyond four parameters
		nfixed += 4
	}
	var ps []string
	for i := 1; i <= nfixed; i++ {
		ps = append(ps, fmt.Sprintf("p%d", i))
	}
	params := append([]string(nil), ps...)
	if variadic {
		params = append(params, "rest...")
	}
	isList := c.Rng.Intn(2) == 0
	recursive := !variadic && nfixed >= 1 && c.Rng.Intn(4) == 0
	var body string
	switch {
	case recursive:
		// the first parameter counts down, the result is made of the others
		list := "[" + strings.Join(ps[1:], ", ") + "]"
		body = fmt.Sprintf("if p1 <= 0 { return %s }\n return %s(%s) ", list, name, strings.Join(append([]string{"p1 - 1"}, ps[1:]...), ", "))
		isList = true
	case isList:
		body = "var l = [" + strings.Join(ps, ", ") + "]\n"
		if variadic {
			body += " for v in rest { l += [v] }\n l += [len(rest)]\n"
		}
		body += " return l "
	default:
		body = "var s = 1\n"
		for _, p := range ps {
			body += " s = (s * 7 + " + p + ") % 1000003\n"
		}
		if variadic {
			body += " for v in rest { s = (s * 7 + v) % 1000003 }\n s = s * 10 + len(rest)\n"
		}
		body += " return s "
	}
	h := c14R5Helper{isList: isList}
	callee := name
	switch c.Rng.Intn(3) {
	case 0:
		h.def = fmt.Sprintf("func %s(%s) { %s}", name, strings.Join(params, ", "), body)
	case 1:
		if recursive {
			h.def = fmt.Sprintf("var %s = nil\n", name)
		}
		h.def += fmt.Sprintf("%s = func(%s) { %s}", name, strings.Join(params, ", "), body)
	default:
		h.def = fmt.Sprintf("module hm%d { func %s(%s) { %s} }", n, name, strings.Join(params, ", "), body)
		callee = fmt.Sprintf("hm%d.%s", n, name)
	}
	h.nargs = func(c *wk.Case) int {
		if variadic {
			return nfixed + c.Rng.Intn(4)
		}
		return nfixed
	}
	h.call = func(args []string) string {
		if recursive {
			args = append([]string{"k % 3"}, args[1:]...)
		}
		if variadic && len(args) > nfixed && c.Rng.Intn(3) == 0 {
			// the rest handed over as one list
			return callee + "(" + strings.Join(append(append([]string{}, args[:nfixed]...), "["+strings.Join(args[nfixed:], ", ")+"]..."), ", ") + ")"
		}
		return callee + "(" + strings.Join(args, ", ") + ")"
	}
	return h
}

// c14R5SharedFn: the same source, on the same data, alone and among 7 other runs that
// call the same function values at the same time.
func c14R5SharedFn(c *wk.Case) {
	nh := 2 + c.Rng.Intn(3)
	var defs, body []string
	for n := 0; n < nh; n++ {
		h := c14R5NewHelper(c, n)
		defs = append(defs, h.def)
		// one or two call sites per helper
		for s := 0; s <= c.Rng.Intn(2); s++ {
			args := make([]string, h.nargs(c))
			for i := range args {
				args[i] = []string{"id", "id", "k", "n", "id + k", fmt.Sprint(c.Rng.Intn(10))}[c.Rng.Intn(6)]
			}
			if len(args) > 0 {
				args[c.Rng.Intn(len(args))] = "id"
			}
			if h.isList {
				body = append(body, " for v in "+h.call(args)+" { s = (s * 31 + v) % 1000003 }")
			} else {
				body = append(body, " s = (s * 31 + "+h.call(args)+") % 1000003")
			}
		}
	}
	iters := 40 + c.Rng.Intn(60)
	if c.Phase == "conc" {
		// the race build needs overlapping calls only, not many of them
		iters = 20 + c.Rng.Intn(30)
	}
	src := fmt.Sprintf("var s = 0\nfor n = 0; n < %d; n++ {\n k = (id + n) %% 10\n%s\n}\n[s, id]", iters, strings.Join(body, "\n"))
	prep := strings.Join(defs, "\n")
	envKind := []string{"Copy", "DeepCopy", "child scope"}[c.Rng.Intn(3)]
	const nruns = 8
	base := int64(100 + c.Rng.Intn(800))
	input := map[string]interface{}{"prepared-environment": prep, "source": src, "kind": "sharedfn", "environment-of-a-run": "prepared." + envKind + " with id = " + fmt.Sprint(base) + " + 13 * run", "runs": nruns}
	c.Begin(input)
	prepared := ank.NewCoreEnv()
	if o := ank.Exec(prepared, prep); o.Err != nil || o.Panicked {
		c.Inconclusive("sharedfn-setup-failed", ank.ErrText(o.Err)+o.PanicSig, input)
		return
	}
	tree, perr, po := ank.Parse(src)
	if po.Panicked || perr != nil || tree == nil {
		c.Inconclusive("sharedfn-program-does-not-parse", ank.ErrText(perr), input)
		return
	}
	mkEnv := func(i int) *env.Env {
		var e *env.Env
		switch envKind {
		case "Copy":
			e = prepared.Copy()
		case "DeepCopy":
			e = prepared.DeepCopy()
		default:
			e = prepared.NewEnv()
		}
		e.Define("id", base+13*int64(i))
		return e
	}
	run := func(i int, wd time.Duration) string {
		ctx, cancel := context.WithTimeout(context.Background(), wd)
		defer cancel()
		o := ank.RunCtx(ctx, mkEnv(i), tree)
		switch {
		case ctx.Err() != nil:
			return "<timeout>"
		case o.Panicked:
			return "panic " + o.PanicSig
		}
		return ank.Render(o.Val) + " error=" + ank.ErrText(o.Err)
	}
	alone := make([]string, nruns)
	for i := range alone {
		if alone[i] = run(i, 4*time.Second); alone[i] == "<timeout>" {
			c.Excluded("watchdog")
			return
		}
	}
	dump0 := astx.Dump(tree, c14DumpOpts)
	obs := make([]string, nruns)
	var wg sync.WaitGroup
	start := make(chan struct{})
	for i := 0; i < nruns; i++ {
		wg.Add(1)
		go func(i int) { defer wg.Done(); <-start; obs[i] = run(i, 20*time.Second) }(i)
	}
	close(start)
	wg.Wait()
	for i := range obs {
		if obs[i] == "<timeout>" {
			c.Inconclusive("sharedfn-run-watchdog", "", input)
			return
		}
		if obs[i] != alone[i] {
			c.Violation("concurrent-run-sharing-functions-differs:"+envKind, fmt.Sprintf("run %d (id = %d) on an environment made from the prepared one (%s) yields %s among 7 other runs that call the same helper functions at the same time, %s alone: the helpers read nothing but their parameters", i, base+13*int64(i), envKind, clipStr(obs[i], 300), clipStr(alone[i], 300)), input)
			return
		}
	}
	if d := astx.Dump(tree, c14DumpOpts); d != dump0 {
		c.Violation("tree-mutated:"+firstDiffNode(dump0, d), "the parsed tree differs after concurrent runs that share helper functions: "+dumpDiff(dump0, d), input)
		return
	}
	c14R5CaseCanary(c, "sharedfn runs")
	c.Eval(prep+"|"+src+"|"+envKind, strings.HasSuffix(alone[0], "error="))
	c.Events(2 * nruns)
	c.Tag("kind:sharedfn", "phase:"+c.Phase, "sharedfn-env:"+envKind)
	if c.WantSample() {
		c.Sample(input)
	}
}

// ---------------------------------------------------------------------------
// c14PendingFix_copySharesStructCell: on the unchanged tree Env.Copy / Env.DeepCopy
// (env/env.go) copy the reflect.Values of the symbol table as they are. A binding of
// struct type lives in an addressable cell (make(struct{...}), detachValue), so the copy
// and the original hold reflect.Values over the SAME cell: `gs.X = 5` run in one copy
// changes what gs reads as in the template and in every other copy, although a struct is
// a value (`q = gs` copies it) — two environments observe each other's bindings (see
// /tmp/strengthen/C14-r5-genuine.md). Until /repo is repaired the struct-typed binding gs
// and the change script-struct-field-assign stay out of phase iso (envcopy, stamp).
// Flip to false after the repair.
const c14PendingFix_copySharesStructCell = false

const c14R5StructSetup = "gs = make(struct{X int64, S string})\ngs.X = 3\n"

// ---------------------------------------------------------------------------
// case allocation

// c14R5ConcExtra is the number of round-5 cases at the end of phase conc (race build).
func c14R5ConcExtra(tier string) int {
	if tier == "thorough" {
		return 3000
	}
	return 24
}

// c14R5SharedCases is the number of cases of phase shared (regular build).
func c14R5SharedCases(tier string) int {
	if tier == "thorough" {
		return 60000
	}
	return 240
}

// c14RunR5 runs a round-5 case: index i of phase shared, or of the tail of phase conc.
func c14RunR5(c *wk.Case, i int) {
	switch i % 3 {
	case 0:
		c14R5SharedFn(c)
	case 1:
		c14R5DataMix(c, true)
	default:
		if c.Phase == "conc" {
			// sequential runs need no race build
			c14R5SharedFn(c)
			return
		}
		c14R5DataMix(c, false)
	}
}
