package main

// C12, round 6: HOW a value reaches the environment does not matter.
//
// The statement speaks of bindings: "a lookup returns the nearest enclosing
// binding", "modules, path lookup". A name is bound to a value; the value is a
// module when it is a scope - whatever the reflect.Value that carried it into
// DefineValue / SetValue / DefineGlobalValue (or out of an external lookup)
// looks like. A host that hands values over as they come out of its own data
// passes reflect.Values of kind Interface:
//
//	c12FormMapElem    reflect.ValueOf(map[string]interface{}{k: v}).MapIndex(k)   kind Interface, not addressable
//	c12FormIfaceCell  reflect.ValueOf(&slot).Elem() with var slot interface{} = v  kind Interface, addressable
//
// The model is untouched by the form: it binds the name to v. Every observer
// (Get, GetValue, Addr, path lookup, symbol lists, copies) must therefore
// answer exactly as for Define(name, v); in particular a module bound this way
// is a namespace for GetEnvFromPath, from the first and from later elements.
//
// The other new forms are reflect.Values that reflect itself marks read-only
// (read out of an unexported struct field): Interface() panics on them, so a
// binding made of one could never be returned by Get. Such a request cannot
// be honoured: it is an invalid request - "returns an error and leaves every
// scope unchanged; it never panics".
//
//	c12FormROField   reflect.ValueOf(structValue).Field(unexported)         read-only, not addressable
//	c12FormROCell    reflect.ValueOf(&structValue).Elem().Field(unexported)  read-only, addressable
//	c12FormROStruct  the same, the field being a struct itself              read-only, addressable, kind Struct

import (
	"reflect"

	"github.com/mattn/anko/env"
)

const (
	c12FormMapElem   = 3
	c12FormIfaceCell = 4
	c12FormROField   = 5
	c12FormROCell    = 6
	c12FormROStruct  = 7
)

var c12FormSuffix = []string{
	"",
	" as reflect.Value",
	" as addressable reflect.Value",
	" as the reflect.Value of a map[string]interface{} element (kind Interface)",
	" as the reflect.Value of a *interface{} pointee (kind Interface, addressable)",
	" as a reflect.Value read out of an unexported struct field",
	" as an addressable reflect.Value read out of an unexported struct field",
	" wrapped in a struct that is read out of an unexported field of an addressable struct",
}

var c12FormTag = []string{"iface", "value", "cell", "iface-map-elem", "iface-cell", "readonly-field", "readonly-cell", "readonly-struct"}

func c12Min(a, b int) int {
	if a < b {
		return a
	}
	return b
}

// c12BoxValue returns v carried by a reflect.Value of kind Interface (v may be nil).
func c12BoxValue(v interface{}, form int) reflect.Value {
	if form == c12FormMapElem {
		return reflect.ValueOf(map[string]interface{}{"k": v}).MapIndex(reflect.ValueOf("k"))
	}
	slot := new(interface{})
	*slot = v
	return reflect.ValueOf(slot).Elem()
}

type c12ROInner struct{ V interface{} }

// every field is unexported: a reflect.Value obtained through one is read-only
type c12ROHolder struct {
	i   int64
	s   string
	b   bool
	f   float64
	p   *int64
	e   *env.Env
	any interface{}
	in  c12ROInner
}

// c12ReadOnlyValue returns a read-only reflect.Value holding v.
func c12ReadOnlyValue(v interface{}, form int) reflect.Value {
	h := &c12ROHolder{}
	field := 6
	switch t := v.(type) {
	case int64:
		h.i, field = t, 0
	case string:
		h.s, field = t, 1
	case bool:
		h.b, field = t, 2
	case float64:
		h.f, field = t, 3
	case *int64:
		h.p, field = t, 4
	case *env.Env:
		h.e, field = t, 5
	default:
		h.any = v
	}
	switch form {
	case c12FormROField:
		return reflect.ValueOf(*h).Field(field)
	case c12FormROStruct:
		h.in.V = v
		return reflect.ValueOf(h).Elem().Field(7)
	}
	return reflect.ValueOf(h).Elem().Field(field)
}

// r6Form: some value operations hand the value over boxed (more often when it
// is a module: that is where the carrier could matter), a few hand over a
// read-only reflect.Value.
func (g *c12Gen) r6Form(op *c12Op) {
	boxed := 4
	if op.A >= 0 {
		boxed = 10
	}
	switch r := g.r.Intn(20); {
	case r < boxed:
		op.F = c12FormMapElem + g.r.Intn(2)
	case r == 19:
		op.F = c12FormROField + g.r.Intn(3)
	}
}

// r6ExtForm: an external lookup may answer boxed values too, and (round 7,
// c12_r7.go) reflect.Values read out of an unexported struct field: a lookup of
// a name so supplied is an invalid request.
func (g *c12Gen) r6ExtForm(op *c12Op) {
	switch r := g.r.Intn(12); {
	case r < 4:
		op.F = c12FormMapElem + g.r.Intn(2)
	case r < 6:
		op.F = c12FormROField + g.r.Intn(3)
	}
}

func c12bind(k string, s int, n string, v, a, f int) c12Op {
	return c12Op{K: k, S: s, N: n, V: v, A: a, F: f, X: -1, New: -1}
}

func c12get(s int, n string, f int) c12Op {
	return c12Op{K: "Get", S: s, N: n, F: f, A: -1, X: -1, New: -1}
}

var c12FixedR6 = [][]c12Op{
	// a module bound through a map element: first element of a path, from the scope itself and from below
	{c12new("NewRoot", -1, 0), c12new("NewEnv", 0, 1), c12def("Define", 1, "x", 101), c12bind("Define", 0, "m", 0, 1, c12FormMapElem), c12new("NewEnv", 0, 2),
		c12get(2, "m", 0), c12get(2, "m", 1), c12path(0, "m"), c12path(2, "m"), c12path(2, "m", "x"), c12op("String", 0), c12op("GetValueSymbols", 0)},
	// ... through a *interface{} pointee, as a LATER path element; Set and DefineGlobal carry modules the same way
	{c12new("NewRoot", -1, 0), c12new("NewEnv", 0, 1), c12mod(0, "a", 2), c12bind("Define", 2, "m", 0, 1, c12FormIfaceCell), c12new("NewEnv", 0, 3),
		c12path(3, "a", "m"), c12path(3, "a"), c12def("Define", 2, "b", 7), c12bind("Set", 2, "b", 0, 1, c12FormMapElem), c12path(3, "a", "b"),
		c12bind("DefineGlobal", 3, "x", 0, 2, c12FormIfaceCell), c12path(3, "x"), c12path(3, "x", "m"), c12path(3, "x", "b"), c12path(1, "x", "m"),
		{K: "Addr", S: 3, N: "x", A: -1, X: -1, New: -1}, {K: "Addr", S: 2, N: "b", A: -1, X: -1, New: -1}},
	// a nearer boxed module wins over a plain module further out (a nearer boxed NON-module: accepted both ways, as
	// for plain values, c12_r5.go); copies and deep copies keep the boxed module a namespace
	{c12new("NewRoot", -1, 0), c12new("NewEnv", 0, 1), c12mod(0, "b", 2), c12new("NewEnv", 0, 3), c12bind("Define", 3, "b", 0, 1, c12FormIfaceCell), c12new("NewEnv", 3, 4),
		c12path(4, "b"), c12path(3, "b"), c12path(0, "b"), c12new("Copy", 3, 5), c12new("DeepCopy", 4, 6), c12path(5, "b"), c12path(6, "b"),
		c12bind("Set", 4, "b", 102, -1, c12FormMapElem), c12path(4, "b"), c12path(5, "b"), c12path(6, "b"), c12get(4, "b", 1), c12get(6, "b", 0),
		c12bind("Define", 4, "b", 0, -1, c12FormIfaceCell), c12path(4, "b"), c12get(4, "b", 0), c12def("DeleteGlobal", 4, "b", 0), c12def("DeleteGlobal", 4, "b", 0), c12path(4, "b")},
	// boxed plain values and nil behave like Define(name, v); dotted names are rejected in every form
	{c12new("NewRoot", -1, 0), c12new("NewEnv", 0, 1), c12bind("Define", 0, "a", 101, -1, c12FormMapElem), c12bind("Define", 1, "a", 0, -1, c12FormIfaceCell), c12bind("Define", 1, "b", 0, -1, c12FormMapElem),
		c12get(1, "a", 0), c12get(1, "a", 1), c12get(1, "b", 1), {K: "Addr", S: 1, N: "a", A: -1, X: -1, New: -1}, {K: "Addr", S: 1, N: "b", A: -1, X: -1, New: -1},
		c12bind("Set", 1, "a", 2, -1, c12FormIfaceCell), c12bind("Set", 1, "x", 2, -1, c12FormIfaceCell), c12bind("Define", 1, "a.b", 2, -1, c12FormMapElem), c12bind("DefineGlobal", 1, "m.x", 0, 1, c12FormIfaceCell),
		c12new("Copy", 1, 2), c12bind("Set", 2, "a", 103, -1, c12FormIfaceCell), c12get(1, "a", 0), c12def("Delete", 1, "a", 0), c12get(1, "a", 0), c12get(2, "a", 0)},
	// read-only reflect.Values are refused by every define and set, bound or unbound name, module or not; nothing changes
	{c12new("NewRoot", -1, 0), c12new("NewEnv", 0, 1), c12def("Define", 0, "a", 101), c12mod(0, "m", 2),
		c12bind("Define", 1, "a", 102, -1, c12FormROField), c12bind("Define", 1, "b", 2, -1, c12FormROCell), c12bind("Define", 1, "x", 103, -1, c12FormROStruct), c12bind("Define", 0, "m", 0, 1, c12FormROField),
		c12bind("Set", 1, "a", 104, -1, c12FormROField), c12bind("Set", 1, "a", 0, -1, c12FormROCell), c12bind("Set", 1, "m", 0, 1, c12FormROCell), c12bind("Set", 1, "x", 3, -1, c12FormROStruct),
		c12bind("DefineGlobal", 1, "a", 6, -1, c12FormROCell), c12bind("DefineGlobal", 1, "x", 0, 2, c12FormROField), c12bind("Define", 1, "a.b", 4, -1, c12FormROStruct),
		c12path(1, "m"), c12path(1, "a"), c12new("Copy", 0, 3), c12new("DeepCopy", 1, 4), c12op("String", 0), c12get(4, "a", 0), c12def("Define", 0, "b", 105), c12get(1, "b", 0)},
	// external lookups answering boxed values: plain, nil and a module
	{c12new("NewRoot", -1, 0), c12new("NewEnv", 0, 1), c12new("NewEnv", 1, 2), c12new("NewRoot", -1, 3),
		{K: "ExtPut", X: 0, N: "a", V: 101, F: c12FormMapElem, A: -1, New: -1}, {K: "ExtPut", X: 0, N: "b", V: 0, F: c12FormIfaceCell, A: -1, New: -1}, {K: "ExtPut", X: 0, N: "m", A: 3, F: c12FormIfaceCell, New: -1},
		{K: "SetExternalLookup", S: 1, X: 0, A: -1, New: -1}, c12get(2, "a", 0), c12get(2, "a", 1), c12get(2, "b", 0), c12get(2, "b", 1), c12get(2, "m", 0), c12get(2, "m", 1), c12get(0, "a", 0),
		{K: "Addr", S: 2, N: "a", A: -1, X: -1, New: -1}, {K: "Addr", S: 2, N: "b", A: -1, X: -1, New: -1}, {K: "Addr", S: 2, N: "m", A: -1, X: -1, New: -1},
		c12path(2, "m"), c12path(2, "a"), c12def("Define", 0, "a", 102), c12get(2, "a", 0), c12def("Define", 2, "a", 103), c12get(2, "a", 0), c12op("String", 1)},
}

func init() {
	c12Fixed = append(c12Fixed, c12FixedR6...)
}
