package main

// C15, round 7: texts made of what SOME layer takes for blank.
//
// The scanner knows three blanks (' ', '\t', '\r') and the line feed. Other layers a source passes
// through know more: Unicode's White_Space (form feed, vertical tab, NEL, no-break space, the U+2000
// spaces, line and paragraph separator, ideographic space), the byte order mark, zero-width characters,
// NUL / SUB padding, the Latin-1 bytes 0x85 and 0xA0. A change that lets such a layer decide - a fast
// path for "blank" sources, a trim of the source's ends, a BOM strip - makes the answer for a text depend
// on what else is in the source: the text is accepted alone (or at one end of a source) and rejected
// everywhere else, or the other way round.
//
// The statement does not say which characters are blank, so nothing here demands that such a text
// parses or fails. Every text is judged by the oracles of c15.go only:
//   - whatever the outcome, an error is a *parser.Error inside the text; two parses agree;
//   - IF the text parses alone, the compositional clause applies to it like to every other text, in
//     both positions: with every partner P that parses alone, T+"\n"+P and P+"\n"+T parse to the
//     concatenation of the statement lists, the second part shifted by the first part's lines.
//     Applied repeatedly the clause also covers a text embedded in a longer source (chains below).
//
// Generators (phase "blanks"):
//   deterministic cases, one per character w of c15WSChars:
//     - texts made only of w, of w with the scanner's blanks and line feeds, of w with a second such
//       character, runs of 1000, and w next to terminators and comments (no statement in the text);
//     - w at the start, at the end, at both ends, on a line of its own before/after/between, next to a
//       ';' and between the tokens of 14 valid stems;
//     - control group (keeps the composition non-vacuous on a tree that rejects w): w inside strings,
//       raw strings and comments;
//     every text that parses alone is composed with 17 partner texts (empty, newline, blank, comment,
//     terminator, statements over one and several lines, w inside a string and a comment), with itself
//     and with a slice of the corpus, in both orders; the texts made only of such characters also with
//     three more texts of that kind;
//   PRNG cases: chains of 2-5 pieces (runs of such characters mixed with blanks and line feeds, blank
//     runs, the empty text, comment-only and terminator-only texts, valid texts from c15ValidText, valid
//     texts with such characters at an end or on a line of their own) folded from the left or from the
//     right: whenever the text so far and the next piece both parse alone, the clause is applied to them;
//     the result is the text so far of the next step; where the clause does not apply the joined text is
//     judged as a text of its own and the chain starts again at the next piece.
//
// A violation found here carries the kind of text and the class of character in its signature
// (c15ComposeCls), not the character: one defect - one signature per kind of text it shows with.

import (
	"strings"

	"verifharness/internal/astx"
	"verifharness/internal/wk"
)

type c15WS struct{ s, name, class string }

// characters that are blank, invisible or padding for some layer, but not for the scanner
var c15WSChars = []c15WS{
	// Unicode White_Space (what unicode.IsSpace / strings.TrimSpace / strings.Fields know)
	{"\f", "FF", "unicode-space"}, {"\v", "VT", "unicode-space"}, {"\u0085", "NEL", "unicode-space"}, {"\u00a0", "NBSP", "unicode-space"},
	{"\u1680", "U+1680", "unicode-space"}, {"\u2000", "U+2000", "unicode-space"}, {"\u2001", "U+2001", "unicode-space"}, {"\u2002", "U+2002", "unicode-space"},
	{"\u2003", "U+2003", "unicode-space"}, {"\u2004", "U+2004", "unicode-space"}, {"\u2005", "U+2005", "unicode-space"}, {"\u2006", "U+2006", "unicode-space"},
	{"\u2007", "U+2007", "unicode-space"}, {"\u2008", "U+2008", "unicode-space"}, {"\u2009", "U+2009", "unicode-space"}, {"\u200a", "U+200A", "unicode-space"},
	{"\u2028", "LS", "unicode-space"}, {"\u2029", "PS", "unicode-space"}, {"\u202f", "NNBSP", "unicode-space"}, {"\u205f", "MMSP", "unicode-space"}, {"\u3000", "IDSP", "unicode-space"},
	// byte order marks (whole, cut, and those of the other encodings as raw bytes)
	{"\ufeff", "BOM", "bom"}, {"\xef\xbb", "BOM-cut", "bom"}, {"\xff\xfe", "BOM-16LE", "bom"}, {"\xfe\xff", "BOM-16BE", "bom"},
	// zero-width and other format characters editors leave behind
	{"\u200b", "ZWSP", "zero-width"}, {"\u200c", "ZWNJ", "zero-width"}, {"\u200d", "ZWJ", "zero-width"}, {"\u2060", "WJ", "zero-width"},
	{"\u180e", "MVS", "zero-width"}, {"\u00ad", "SHY", "zero-width"}, {"\u200e", "LRM", "zero-width"}, {"\u061c", "ALM", "zero-width"},
	// control characters used as padding, end-of-file marks or separators (Python's str.isspace knows 1C-1F)
	{"\x00", "NUL", "control"}, {"\x1a", "SUB", "control"}, {"\x04", "EOT", "control"}, {"\x1c", "FS", "control"}, {"\x1d", "GS", "control"},
	{"\x1e", "RS", "control"}, {"\x1f", "US", "control"}, {"\x08", "BS", "control"}, {"\x7f", "DEL", "control"},
	// single bytes that are white space in Latin-1 (and for a byte-wise unicode.IsSpace(rune(b))) but no UTF-8
	{"\x85", "byte-85", "latin1-byte"}, {"\xa0", "byte-A0", "latin1-byte"},
}

// texts without a statement: %w is the character, %v a second one
var c15WSOnlyShapes = []string{
	"%w", "%w%w", "%w%w%w%w%w%w%w%w", " %w", "%w ", "\t%w\t", " %w %w ", "%w\t%w", "\r%w", "%w\r",
	"%w\n", "\n%w", "%w\n%w", "\n%w\n", "\r\n%w\r\n", " \n %w \n ", "\n\n\n%w", "%w\n\n\n", "%w\n\n%w\n",
	"%w%v", "%v%w", "%w\n%v", " %v\t%w\r\n",
}

var c15WSTermShapes = []string{";%w", "%w;", ";\n%w\n;", "# c\n%w", "%w# c", "%w // c", "/* c */%w", "%w/* c */", "%w\n# c\n", "/* c\n d */\n%w", "%w /* c\n d */"}

// the control group: the character where the scanner does not look for tokens
var c15WSQuotedShapes = []string{"s = \"%w\"", "s = `%w`", "s = '%w'", "# %w", "// %w\nx", "/* %w */ y", "x = 1 # %w", "f(\"%w\", `%w\n%w`)", "/*%w\n%w*/", "s = \"a%wb\" + `%w` // %w"}

var c15WSStems = []string{"x = 1", "a", "1", "\"s\"", "f(1,\n2)", "if a {\n\tb\n}", "a;b", "a\nb", "return", "x = `r\nw`", "y = 2 # c", "/* c */ z", "func() {}", "é = [1, 2]"}

var c15WSPartners = []string{"", "\n", " ", "\t\r\n", "# c", "/* c\n d */", ";", "x = 1", "a\nb", "if a {\n\tb\n}", "f(1,\n2)", "x = `r\nw`", "/* c\n d */ e", "return 1", "é = \"é\"", "\n\nk = [1,\n2]\n"}

type c15WSText struct{ src, kind string }

func c15WSFill(shape, w, v string) string {
	return strings.NewReplacer("%w", w, "%v", v).Replace(shape)
}

// c15WSTexts lists the deterministic texts around the character w (v: a second character).
func c15WSTexts(w, v string) []c15WSText {
	var out []c15WSText
	add := func(kind string, l ...string) {
		for _, s := range l {
			out = append(out, c15WSText{s, kind})
		}
	}
	for _, sh := range c15WSOnlyShapes {
		add("ws-only", c15WSFill(sh, w, v))
	}
	add("ws-only", c15Rep(w, 1000), c15Rep(w+"\n", 500), c15Rep(" ", 1000)+w, w+c15Rep("\n", 1000))
	for _, sh := range c15WSTermShapes {
		add("ws-with-terminators-or-comments", c15WSFill(sh, w, v))
	}
	for _, sh := range c15WSQuotedShapes {
		add("ws-quoted", c15WSFill(sh, w, v))
	}
	for _, t := range c15WSStems {
		add("ws-leading", w+t, w+" "+t, " "+w+t, w+w+t, "\n"+w+t)
		add("ws-trailing", t+w, t+" "+w, t+w+" ", t+w+"\n", t+w+w)
		add("ws-both-ends", w+t+w, v+t+w, w+" "+t+" "+w)
		add("ws-own-line", w+"\n"+t, t+"\n"+w, w+"\n"+t+"\n"+w, t+"\n"+w+"\n"+t, "\n"+w+"\n"+t, t+"\n\n"+w+"\n", t+"\n "+w+" \n"+t)
		add("ws-at-terminator", t+";"+w, w+";"+t, t+";"+w+";"+t, t+"; "+w+"\n"+t)
		if i := strings.IndexByte(t, ' '); i >= 0 {
			add("ws-inner", t[:i]+w+t[i+1:], t[:i+1]+w+t[i:])
		}
		if i := strings.IndexByte(t, '\n'); i >= 0 {
			add("ws-inner", t[:i]+w+t[i:], t[:i+1]+w+t[i+1:])
		}
	}
	return out
}

func c15BlankDetCases() int { return len(c15WSChars) }

// c15MaxReportsPerKind bounds how many violations one deterministic case reports for one kind of text (a
// tree that accepts a whole class of characters alone would otherwise report every shape x partner); it
// bounds the reports, not what is checked before the bound is reached.
const c15MaxReportsPerKind = 3

type c15Alone struct {
	src string
	r   *c15Res
}

func c15ParseAll(c *wk.Case, gen string, texts []string) []c15Alone {
	var out []c15Alone
	for _, p := range texts {
		c.Begin(c15BeginInput(gen, p))
		r := c15Parse(p, c15CPUBudget, true)
		c.Events(1)
		if r.ok { // the clause speaks about texts that parse on their own
			out = append(out, c15Alone{p, r})
		}
	}
	return out
}

func c15RunBlanks(c *wk.Case) {
	if c.Index < c15BlankDetCases() {
		c15RunBlanksDet(c)
		return
	}
	for k := 0; k < 20; k++ {
		c15BlankChain(c)
	}
}

// c15RunBlanksDet: case = one character.
func c15RunBlanksDet(c *wk.Case) {
	ch := c15WSChars[c.Index]
	w := ch.s
	v := c15WSChars[(c.Index+7)%len(c15WSChars)].s
	c.Tag("blank-char:" + ch.class)
	partners := c15ParseAll(c, "blank-partner", append(append([]string{}, c15WSPartners...), "s = \""+w+"\" # "+w))
	// texts made only of such characters are partners of each other (a violation is filed under the kind
	// of the text under test, so they are not partners of the other kinds)
	wsPartners := c15ParseAll(c, "blank-partner", []string{w, w + "\n" + v, " " + w + "\t"})
	vc := c15ValidCorpus()
	var corp []c15Alone
	for i := c.Index; i < len(vc) && len(corp) < 6; i += c15BlankDetCases() {
		corp = append(corp, c15ParseAll(c, "corpus", []string{vc[i]})...)
	}
	reports := map[string]int{}
	var keep []c15Kept
	for n, t := range c15WSTexts(w, v) {
		gen := "blank:" + t.kind
		r := c15Check(c, gen, t.src)
		if n%16 == 0 && len(keep) < 32 {
			keep = append(keep, c15Kept{gen, t.src, r})
		}
		if !r.ok {
			c.Tag("blank-text-fails-alone:" + t.kind + ":" + ch.class)
			continue
		}
		c.Tag("blank-text-parses-alone:" + t.kind + ":" + ch.class)
		cls := t.kind + ":" + ch.class
		try := func(g, a, b string, ra, rb *c15Res) {
			if reports[t.kind] >= c15MaxReportsPerKind {
				return
			}
			if _, held := c15ComposeCls(c, g, cls, a, b, ra, rb); !held {
				reports[t.kind]++
			}
		}
		for _, p := range partners {
			try("pair:blank+partner", t.src, p.src, r, p.r)
			try("pair:partner+blank", p.src, t.src, p.r, r)
		}
		try("pair:blank+blank", t.src, t.src, r, r)
		if t.kind == "ws-only" {
			for _, p := range wsPartners {
				try("pair:blank+blank", t.src, p.src, r, p.r)
				try("pair:blank+blank", p.src, t.src, p.r, r)
			}
		}
		if len(t.src) < 200 && (t.kind != "ws-quoted" || n%3 == 0) {
			for _, p := range corp {
				try("pair:blank+corpus", t.src, p.src, r, p.r)
				try("pair:corpus+blank", p.src, t.src, p.r, r)
			}
		}
	}
	for _, k := range keep {
		c15Recheck(c, k.gen, k.src, k.r)
	}
}

// ---- PRNG chains ----

type c15Piece struct {
	src, kind, class string // class: of the first character of c15WSChars in it ("" = none)
}

func c15WSRun(c *wk.Case) (string, string) {
	var b strings.Builder
	cls := ""
	n := 1 + c.Rng.Intn(5)
	at := c.Rng.Intn(n) // this unit is one of the characters for sure
	// mostly one class per run (a layer that knows one character of a class usually knows the class)
	first := c15WSChars[c.Rng.Intn(len(c15WSChars))]
	for i := 0; i < n; i++ {
		switch r := c.Rng.Intn(10); {
		case i == at || r < 4:
			ch := first
			if i != at {
				ch = c15WSChars[c.Rng.Intn(len(c15WSChars))]
				if c.Rng.Intn(4) > 0 {
					for ch.class != first.class {
						ch = c15WSChars[c.Rng.Intn(len(c15WSChars))]
					}
				}
			}
			if cls == "" {
				cls = ch.class
			}
			b.WriteString(ch.s)
		default:
			b.WriteString([]string{" ", " ", "\t", "\r", "\n", "\n", "\r\n"}[c.Rng.Intn(7)])
		}
	}
	return b.String(), cls
}

func c15BlankRun(c *wk.Case) string {
	var b strings.Builder
	for n := c.Rng.Intn(5); n > 0; n-- {
		b.WriteString([]string{" ", "\t", "\r", "\n", "\n", "\r\n", "  "}[c.Rng.Intn(7)])
	}
	return b.String()
}

// c15BlankPiece draws one piece of a chain. Nothing is assumed about whether it parses alone.
func c15BlankPiece(c *wk.Case) c15Piece {
	switch r := c.Rng.Intn(16); {
	case r < 5:
		s, cls := c15WSRun(c)
		return c15Piece{s, "ws-only", cls}
	case r < 7:
		return c15Piece{c15BlankRun(c), "blank", ""}
	case r < 8:
		return c15Piece{[]string{"# c", "// c", "#", "/**/", "/* c */", "/* c\n d */", "# c\n", "// `\n", "/* \" */", " # c"}[c.Rng.Intn(10)], "comment", ""}
	case r < 9:
		w, cls := c15WSRun(c)
		sh := append(append([]string{}, c15WSTermShapes...), c15WSQuotedShapes...)
		k := c.Rng.Intn(len(sh))
		kind := "ws-with-terminators-or-comments"
		if k >= len(c15WSTermShapes) {
			kind = "ws-quoted"
		}
		return c15Piece{c15WSFill(sh[k], w, w), kind, cls}
	case r < 10:
		return c15Piece{[]string{";", ";;", ";\n;", "\n;\n", " ; "}[c.Rng.Intn(5)], "terminators", ""}
	case r < 13:
		if s, _, rs := c15ValidText(c); rs != nil {
			return c15Piece{s, "valid", ""}
		}
		return c15Piece{c15Pick(c, c15WSStems), "valid", ""}
	default:
		var t string
		if s, _, rs := c15ValidText(c); rs != nil && len(s) < 2000 {
			t = s
		} else {
			t = c15Pick(c, c15WSStems)
		}
		w, cls := c15WSRun(c)
		switch c.Rng.Intn(7) {
		case 0:
			return c15Piece{w + t, "ws-leading", cls}
		case 1:
			return c15Piece{t + w, "ws-trailing", cls}
		case 2:
			return c15Piece{w + t + w, "ws-both-ends", cls}
		case 3:
			return c15Piece{w + "\n" + t, "ws-own-line", cls}
		case 4:
			return c15Piece{t + "\n" + w, "ws-own-line", cls}
		case 5:
			return c15Piece{t + ";" + w, "ws-at-terminator", cls}
		default:
			toks := c15Split(t)
			i := c.Rng.Intn(len(toks) + 1)
			return c15Piece{strings.Join(toks[:i], "") + w + strings.Join(toks[i:], ""), "ws-inner", cls}
		}
	}
}

// c15WSKind corrects the kind of a drawn or joined text by its content: a text that consists of the
// characters of c15WSChars, blanks and line breaks only is "ws-only" whatever it was built from (a stem may
// be the empty text), one of blanks and line breaks only is "blank".
func c15WSKind(src, kind string) string {
	ws := false
	for len(src) > 0 {
		if strings.IndexByte(" \t\r\n", src[0]) >= 0 {
			src = src[1:]
			continue
		}
		n := 0
		for _, ch := range c15WSChars {
			if strings.HasPrefix(src, ch.s) {
				n = len(ch.s)
				break
			}
		}
		if n == 0 {
			return kind
		}
		ws = true
		src = src[n:]
	}
	if ws {
		return "ws-only"
	}
	return "blank"
}

// c15KindRank orders the kinds of text by how exclusively they consist of the characters of c15WSChars.
func c15KindRank(kind string) int {
	switch kind {
	case "ws-only":
		return 0
	case "ws-with-terminators-or-comments":
		return 1
	case "ws-embedded":
		return 3
	case "ws-quoted":
		return 4
	}
	return 2
}

// c15BlankChain folds 2-5 pieces with the clause: text-so-far + "\n" + next piece. Where the clause does
// not apply (one of the two does not parse alone) the joined text is judged as a text of its own and the
// chain starts again at the next piece.
func c15BlankChain(c *wk.Case) {
	k := 2 + c.Rng.Intn(4)
	ps := make([]c15Piece, k)
	rs := make([]*c15Res, k)
	for i := range ps {
		ps[i] = c15BlankPiece(c)
		ps[i].kind = c15WSKind(ps[i].src, ps[i].kind)
	}
	fromRight := c.Rng.Intn(3) == 0
	for i, p := range ps {
		rs[i] = c15Check(c, "blank-piece:"+p.kind, p.src)
		if rs[i].ok {
			c.Tag("blank-piece-parses-alone:" + p.kind)
			if p.class != "" {
				c.Tag("blank-text-parses-alone:" + p.kind + ":" + p.class)
			}
		} else {
			c.Tag("blank-piece-fails-alone:" + p.kind)
		}
	}
	if fromRight {
		for i, j := 0, k-1; i < j; i, j = i+1, j-1 {
			ps[i], ps[j] = ps[j], ps[i]
			rs[i], rs[j] = rs[j], rs[i]
		}
	}
	acc, racc := ps[0], rs[0]
	for i := 1; i < k; i++ {
		a, b, ra, rb := acc, ps[i], racc, rs[i]
		if fromRight {
			a, b, ra, rb = ps[i], acc, rs[i], racc
		}
		// the class of a violation: the part that carries one of the characters; when both do, the one
		// that consists of them more exclusively (c15KindRank)
		cls := ""
		switch {
		case a.class != "" && (b.class == "" || c15KindRank(a.kind) <= c15KindRank(b.kind)):
			cls = a.kind + ":" + a.class
		case b.class != "":
			cls = b.kind + ":" + b.class
		}
		ab := c15Piece{src: a.src + "\n" + b.src, kind: "joined", class: a.class}
		if ab.class == "" {
			ab.class = b.class
		}
		onlyBlank := func(k string) bool { return k == "ws-only" || k == "blank" }
		switch {
		case a.kind == "blank" && b.kind == "blank":
			ab.kind = "blank"
		case onlyBlank(a.kind) && onlyBlank(b.kind):
			ab.kind = "ws-only"
		case ab.class != "":
			ab.kind = "ws-embedded" // the characters are somewhere inside a longer text now
		}
		ab.kind = c15WSKind(ab.src, ab.kind)
		var rab *c15Res
		if ra.ok && rb.ok {
			rab, _ = c15ComposeCls(c, "pair:blank-chain", cls, a.src, b.src, ra, rb)
			c.Count("blank_chain_steps_composed", 1)
			if len(astx.StmtList(ra.tree)) == 0 || len(astx.StmtList(rb.tree)) == 0 {
				c.Count("blank_chain_steps_with_an_empty_program", 1)
			}
		} else {
			// the clause does not apply; the joined text is judged as a text of its own
			c15Check(c, "blank-chain-joined", ab.src)
			c.Count("blank_chain_steps_part_fails_alone", 1)
			// the chain goes on from the next piece (a text so far that does not parse alone would keep
			// the clause from applying to all the pieces behind it)
			acc, racc = ps[i], rs[i]
			continue
		}
		acc, racc = ab, rab
	}
}
