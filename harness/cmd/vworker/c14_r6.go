package main

// C14, round 6 (phase r6) — two more places where one execution can reach another:
//
//	(a) map keys whose hashability depends on the VALUE: a struct (or Go array) with an
//	    interface-typed field or element is a valid key while the interface holds a
//	    number, string, bool, nil ..., and no valid key when it holds a list, map or
//	    function. "A tree parsed once can be run any number of times ... on separate
//	    environments, and every run yields the result it would yield alone": ONE tree
//	    over such keys (stores, map literals, lookups, deletes, op=, typed maps, nested
//	    structs, host-made Go arrays and Go structs) is run in fresh environments that
//	    bind DIFFERENT data to `tag` (keymix; hashable data first or unhashable data
//	    first, by the PRNG; one after the other or 8 at once), and different programs
//	    that spell the same key type run one after the other (keyprogs). The reference of
//	    every run is the same text with the same data run alone, as the first and only
//	    program of a fresh child process (c14_hist.go). The key types are drawn per case
//	    (field names, array lengths), so no case inherits what an earlier case of the
//	    worker process did with "its" type.
//	(b) files read by core's `load`: "executions share no hidden mutable state", so a
//	    run that loads a path gets the file as it is NOW, whatever an earlier run (other
//	    environment, same process) read at that path. A history writes a file, runs a
//	    loader program in a fresh environment, REWRITES the file (other contents of the
//	    same length or another one; time stamp pinned with os.Chtimes, restored, left to
//	    the clock, or advanced; in place or by rename; or removes it) and runs the loader
//	    again ...; every run must equal the loader run alone, in a fresh child process
//	    (`vworker -child c14load`) that finds the same file contents.
//
// A panic out of vm.Run is neither a value nor an error status: it is reported as a
// violation of its own whenever it is observed in these cases (in the run or alone).
// No verdict depends on the clock: the time stamps only shape the history.

import (
	"bytes"
	"encoding/json"
	"fmt"
	"io/ioutil"
	"os"
	"os/exec"
	"path/filepath"
	"reflect"
	"sort"
	"strings"
	"sync"
	"time"

	"github.com/mattn/anko/ast"
	"github.com/mattn/anko/env"

	"verifharness/internal/ank"
	"verifharness/internal/astx"
	"verifharness/internal/realrun"
	"verifharness/internal/wk"
)

// ---------------------------------------------------------------------------
// (a) host data bound to `tag`, and host-made keys around it

var c14R6HashableTags = []string{"str", "int", "float", "bool", "nil", "garr", "gst", "str2"}
var c14R6UnhashableTags = []string{"list", "map", "ints", "func", "smap", "ust", "nlist"}

// c14R6TagValue builds the value of a tag kind anew (no two environments share it).
func c14R6TagValue(kind string) (interface{}, bool) {
	switch kind {
	case "str":
		return "a", true
	case "str2":
		return "", true
	case "int":
		return int64(7), true
	case "float":
		return 1.5, true
	case "bool":
		return true, true
	case "nil":
		return nil, true
	case "garr":
		return [2]int64{1, 2}, true
	case "gst":
		return struct{ A int64 }{3}, true
	case "list":
		return []interface{}{int64(1), int64(2)}, true
	case "nlist":
		return []interface{}{}, true
	case "map":
		return map[interface{}]interface{}{"x": int64(1)}, true
	case "ints":
		return []int64{1}, true
	case "smap":
		return map[string]int64{"k": 1}, true
	case "func":
		return func() {}, true
	case "ust":
		return struct{ L []int64 }{[]int64{1}}, true
	}
	return nil, false
}

var c14R6IfaceType = reflect.TypeOf((*interface{})(nil)).Elem()

// c14R6PrepToken applies the round-6 tokens of an environment spec (c14_env.go):
//
//	tag=kind    binds tag to a value of that kind
//	harr=n      binds harr to a Go array [n]interface{} whose element 0 is tag
//	hkey=Name   binds hkey to a Go struct {Name interface{}; N int64}{tag, 1}
//
// (tag= comes first in a spec). It reports whether tok was one of them.
func c14R6PrepToken(e *env.Env, tok string) bool {
	tagValue := func() reflect.Value {
		v, err := e.Get("tag")
		if err != nil || v == nil {
			return reflect.Value{}
		}
		return reflect.ValueOf(v)
	}
	switch {
	case strings.HasPrefix(tok, "tag="):
		if v, ok := c14R6TagValue(tok[4:]); ok {
			e.Define("tag", v)
		}
		return true
	case strings.HasPrefix(tok, "harr="):
		n := 0
		fmt.Sscan(tok[5:], &n)
		if n < 1 || n > 4096 {
			return true
		}
		arr := reflect.New(reflect.ArrayOf(n, c14R6IfaceType)).Elem()
		if tv := tagValue(); tv.IsValid() {
			arr.Index(0).Set(tv)
		}
		e.DefineValue("harr", arr)
		return true
	case strings.HasPrefix(tok, "hkey="):
		name := tok[5:]
		if name == "" || name[0] < 'A' || name[0] > 'Z' {
			return true
		}
		st := reflect.New(reflect.StructOf([]reflect.StructField{{Name: name, Type: c14R6IfaceType}, {Name: "N", Type: reflect.TypeOf(int64(0))}})).Elem()
		if tv := tagValue(); tv.IsValid() {
			st.Field(0).Set(tv)
		}
		st.Field(1).SetInt(1)
		e.DefineValue("hkey", st)
		return true
	}
	return false
}

// snippets over keys of the case's own types. %F = the interface-typed field of the case,
// %H = the field of the host-made struct hkey, %n = the number of the snippet (names of
// its own). Every operation that the data may make fail is caught and recorded with its
// error text, so the trace tells "refused" from "accepted" from "found".
var c14R6KeySnippets = []string{
	// store, count, look up
	"k%n = make(struct{%F interface, N int64})\nk%n.%F = tag\nk%n.N = 1\nm%n = {}\ntry { m%n[k%n] = \"x\"\n rd(\"store%n\", [len(m%n), m%n[k%n]]) } catch e { rd(\"refused%n\", toString(e)) }",
	// map literal
	"k%n = make(struct{%F interface, N int64})\nk%n.%F = tag\ntry { m%n = {k%n: \"x\", 1: \"y\"}\n rd(\"lit%n\", len(m%n)) } catch e { rd(\"refused%n\", toString(e)) }",
	// lookup in a map that holds another key of the type
	"k%n = make(struct{%F interface, N int64})\nz%n = k%n\nz%n.%F = 0\nm%n = {}\nm%n[z%n] = \"z\"\nk%n.%F = tag\ntry { v%n, ok%n = m%n[k%n]\n rd(\"look%n\", [v%n, ok%n, m%n[z%n], m%n[k%n] == nil]) } catch e { rd(\"refused%n\", toString(e)) }",
	// delete
	"k%n = make(struct{%F interface, N int64})\nk%n.%F = tag\nm%n = {\"a\": 1}\ntry { delete(m%n, k%n)\n rd(\"del%n\", len(m%n)) } catch e { rd(\"refused%n\", toString(e)) }",
	// typed map with interface keys
	"k%n = make(struct{%F interface, N int64})\nk%n.%F = tag\nm%n = make(map[interface]string)\ntry { m%n[k%n] = \"x\"\n rd(\"typed%n\", [len(m%n), m%n[k%n]]) } catch e { rd(\"refused%n\", toString(e)) }",
	// the interface field one struct further in
	"k%n = make(struct{In struct{%F interface}, N int64})\nk%n.In.%F = tag\nm%n = {}\ntry { m%n[k%n] = \"x\"\n rd(\"nested%n\", len(m%n)) } catch e { rd(\"refused%n\", toString(e)) }",
	// op= and ++ on an element
	"k%n = make(struct{%F interface, N int64})\nk%n.%F = tag\nm%n = {}\ntry { m%n[k%n] = 1\n m%n[k%n] += 1\n m%n[k%n]++\n rd(\"op%n\", m%n[k%n]) } catch e { rd(\"refused%n\", toString(e)) }",
	// a Go array of interface{} made by the host
	"m%n = {}\ntry { m%n[harr] = 1\n rd(\"harr%n\", [len(m%n), m%n[harr]]) } catch e { rd(\"refused%n\", toString(e)) }\ntry { delete(m%n, harr)\n rd(\"hdel%n\", len(m%n)) } catch e { rd(\"refused-del%n\", toString(e)) }",
	// a Go struct made by the host
	"m%n = {}\ntry { m%n[hkey] = 1\n rd(\"hkey%n\", [len(m%n), m%n[hkey], hkey.N]) } catch e { rd(\"refused%n\", toString(e)) }\ntry { rd(\"hlit%n\", len({hkey: 1})) } catch e { rd(\"refused-lit%n\", toString(e)) }",
	// keys made by one function: constants first, the data last
	"func mk%n(t) { var k = make(struct{%F interface, N int64})\n k.%F = t\n return k }\nm%n = {}\nn%n = 0\nfor t in [1, \"s\", nil, tag] { try { m%n[mk%n(t)] = t\n n%n++ } catch e { pc(e) } }\nrd(\"loop%n\", [n%n, len(m%n)])",
	// ... the data first
	"func mk%n(t) { var k = make(struct{%F interface, N int64})\n k.%F = t\n return k }\nm%n = {}\nn%n = 0\nfor t in [tag, 2.5, true, tag] { try { m%n[mk%n(t)] = 1\n n%n++ } catch e { pc(e) } }\nrd(\"loop%n\", [n%n, len(m%n)])",
	// two interface fields, one of them constant
	"k%n = make(struct{%F interface, Other interface})\nk%n.Other = \"c\"\nm%n = {}\ntry { m%n[k%n] = 0\n k%n.%F = tag\n m%n[k%n] = 1\n rd(\"two%n\", len(m%n)) } catch e { rd(\"refused%n\", toString(e)) }",
	// a list of keys as the element of a list is no key: control without map operation
	"k%n = make(struct{%F interface, N int64})\nk%n.%F = tag\nrd(\"plain%n\", [len([k%n, k%n]), k%n.N])",
}

// the last statement of a key program is not caught: its error is the error of the run
var c14R6KeyEndings = []string{
	"kz = make(struct{%F interface, N int64})\nkz.%F = tag\nfin = {}\nfin[kz] = 1\nlen(fin)",
	"kz = make(struct{%F interface, N int64})\nkz.%F = tag\nlen({kz: 1})",
	"fin = {}\nfin[harr] = 1\nfin[harr]",
	"fin = {0: 0}\ndelete(fin, hkey)\nlen(fin)",
	"kz = make(struct{%F interface, N int64})\nkz.%F = tag\nfin = {}\nfin[kz]",
}

// c14R6KeyTypes are the types of one case: the names make them the case's own.
type c14R6KeyTypes struct {
	field, hfield string
	arrLen        int
}

func c14R6NewKeyTypes(c *wk.Case) c14R6KeyTypes {
	name := func() string {
		b := []byte{byte('A' + c.Rng.Intn(26))}
		for i := 0; i < 6; i++ {
			b = append(b, byte('a'+c.Rng.Intn(26)))
		}
		return string(b)
	}
	return c14R6KeyTypes{field: name(), hfield: name(), arrLen: 1 + c.Rng.Intn(3000)}
}

func (t c14R6KeyTypes) spec(tag string) string {
	return fmt.Sprintf("keys tag=%s harr=%d hkey=%s", tag, t.arrLen, t.hfield)
}

// c14R6KeyText draws a program over keys of the case's types.
func c14R6KeyText(c *wk.Case, t c14R6KeyTypes) string {
	var parts []string
	n := 2 + c.Rng.Intn(3)
	for i, p := range c.Rng.Perm(len(c14R6KeySnippets))[:n] {
		field := t.field
		if c.Rng.Intn(3) == 0 {
			// a struct type of the snippet's own
			field = fmt.Sprintf("%s%d", t.field, i)
		}
		s := strings.ReplaceAll(c14R6KeySnippets[p], "%F", field)
		parts = append(parts, strings.ReplaceAll(s, "%n", fmt.Sprint(i)))
	}
	parts = append(parts, strings.ReplaceAll(c14R6KeyEndings[c.Rng.Intn(len(c14R6KeyEndings))], "%F", t.field))
	return strings.Join(parts, "\n")
}

// c14R6Tags draws n different tag kinds, at least one hashable and one unhashable; which
// class comes first is the PRNG's choice.
func c14R6Tags(c *wk.Case, n int) []string {
	h := c.Rng.Perm(len(c14R6HashableTags))
	u := c.Rng.Perm(len(c14R6UnhashableTags))
	first, second := c14R6HashableTags[h[0]], c14R6UnhashableTags[u[0]]
	if c.Rng.Intn(2) == 0 {
		first, second = second, first
	}
	tags := []string{first, second}
	hi, ui := 1, 1
	for len(tags) < n {
		if c.Rng.Intn(2) == 0 && hi < len(h) {
			tags = append(tags, c14R6HashableTags[h[hi]])
			hi++
		} else if ui < len(u) {
			tags = append(tags, c14R6UnhashableTags[u[ui]])
			ui++
		}
	}
	return tags
}

const c14R6PanicPrefix = "panic: panic:"

// c14R6PanicCheck reports a panic out of vm.Run (seen in this process or in the child).
func c14R6PanicCheck(c *wk.Case, o c14Obs, where string, input interface{}) bool {
	if !strings.HasPrefix(o.err, c14R6PanicPrefix) {
		return false
	}
	// one signature per panic site and message: what follows the abstracted type name is cut
	sig := strings.TrimPrefix(o.err, "panic: ")
	if i := strings.Index(sig, " type T"); i >= 0 {
		sig = sig[:i+len(" type T")]
	}
	c.Violation("panic-out-of-run:"+sig, "vm.Run panicked instead of returning a value or an error ("+where+"): "+o.err, input)
	return true
}

// c14R6KeyMix: ONE tree, fresh environments whose data differ.
func c14R6KeyMix(c *wk.Case, concurrent bool) {
	types := c14R6NewKeyTypes(c)
	text := c14R6KeyText(c, types)
	tags := c14R6Tags(c, 2+c.Rng.Intn(3))
	nruns := len(tags) + c.Rng.Intn(3)
	if concurrent {
		nruns = 8
	}
	order := make([]int, nruns)
	for i := range order {
		if i < len(tags) {
			order[i] = i
		} else {
			order[i] = c.Rng.Intn(len(tags))
		}
	}
	var specs, solos, kinds []string
	for _, t := range tags {
		specs = append(specs, types.spec(t))
		solos = append(solos, c14SpecPrefix+types.spec(t)+"\n"+text)
	}
	for _, k := range order {
		kinds = append(kinds, specs[k])
	}
	how := "seq"
	if concurrent {
		how = "conc"
	}
	input := map[string]interface{}{"source": text, "kind": "keymix", "environment-of-run": kinds, "concurrent": concurrent,
		"host-data": "tag=<kind>: tag is a value of that kind (str \"a\", int 7, float 1.5, bool, nil, garr [2]int64, gst struct{A int64}, list, nlist [], map, ints []int64, smap map[string]int64, func, ust struct{L []int64}); harr=<n>: harr = [n]interface{}{tag}; hkey=<Name>: hkey = struct{Name interface{}; N int64}{tag, 1}"}
	c.Begin(input)
	tree, perr, po := ank.Parse(text)
	if po.Panicked || perr != nil || tree == nil {
		c.Inconclusive("keymix-program-does-not-parse", ank.ErrText(perr), input)
		return
	}
	c14SoloAll(c, solos)
	dump0 := astx.Dump(tree, c14DumpOpts)
	obs := make([]c14Obs, nruns)
	if concurrent {
		var wg sync.WaitGroup
		start := make(chan struct{})
		for i := 0; i < nruns; i++ {
			wg.Add(1)
			go func(i int) {
				defer wg.Done()
				<-start
				obs[i] = c14Observe(c14RunTree(tree, specs[order[i]], 8*time.Second, false, nil))
			}(i)
		}
		close(start)
		wg.Wait()
	} else {
		for i := 0; i < nruns; i++ {
			obs[i] = c14Observe(c14RunTree(tree, specs[order[i]], 4*time.Second, true, nil))
		}
	}
	nontrivial := false
	for i, o := range obs {
		solo := c14SoloCache[solos[order[i]]]
		if solo == nil {
			c.Inconclusive("solo-child-failed", "", input)
			return
		}
		if o.timeout || solo.timeout {
			c.Excluded("watchdog")
			return
		}
		if c14R6PanicCheck(c, o, fmt.Sprintf("run %d of the shared tree, environment `%s`, after runs on other data", i, specs[order[i]]), input) {
			return
		}
		if c14R6PanicCheck(c, *solo, fmt.Sprintf("the text run alone in a fresh process, environment `%s`", specs[order[i]]), input) {
			return
		}
		if d := solo.diff(o); d != "" {
			c.Violation("run-on-other-key-data-differs:"+how, fmt.Sprintf("run %d of the shared tree, in an environment prepared as `%s`, differs from the same text run alone in such an environment in a fresh process (the other runs of the tree had other data behind tag): alone %s", i, specs[order[i]], d), input)
			return
		}
		nontrivial = nontrivial || o.trace != ""
	}
	if d := astx.Dump(tree, c14DumpOpts); d != dump0 {
		c.Violation("tree-mutated:"+firstDiffNode(dump0, d), "the parsed tree differs after runs on different key data: "+dumpDiff(dump0, d), input)
		return
	}
	c14R5CaseCanary(c, "keymix runs")
	c.Eval(text+"|"+strings.Join(kinds, "|"), nontrivial)
	c.Events(nruns)
	c.Tag("kind:keymix", "phase:"+c.Phase, "keymix:"+how, "keymix-first:"+c14R6TagClass(tags[0]))
	if c.WantSample() {
		c.Sample(input)
	}
}

func c14R6TagClass(tag string) string {
	for _, t := range c14R6HashableTags {
		if t == tag {
			return "hashable"
		}
	}
	return "unhashable"
}

// c14R6KeyProgs: DIFFERENT programs that spell the same key types, each freshly parsed and
// run on its own data, one after the other in this process.
func c14R6KeyProgs(c *wk.Case) {
	types := c14R6NewKeyTypes(c)
	tags := c14R6Tags(c, 2+c.Rng.Intn(3))
	var order []string
	for _, t := range tags {
		order = append(order, c14SpecPrefix+types.spec(t)+"\n"+c14R6KeyText(c, types))
	}
	if c.Rng.Intn(3) == 0 {
		order = append(order, order[0])
	}
	c14SoloAll(c, order)
	nontrivial := false
	for pos, src := range order {
		input := map[string]interface{}{"source": src, "group": "iface-key-types", "position": pos, "ran-before-in-this-case": order[:pos], "mode": "keyprogs"}
		solo := c14SoloCache[src]
		if solo == nil {
			c.Inconclusive("solo-child-failed", "", input)
			continue
		}
		c.Begin(input)
		o, ok := c14RunFresh(src, 4*time.Second)
		if !ok {
			c.Inconclusive("keyprogs-program-does-not-parse", "", input)
			continue
		}
		if o.timeout || solo.timeout {
			c.Excluded("watchdog")
			continue
		}
		if c14R6PanicCheck(c, o, fmt.Sprintf("position %d of the case, after other programs over the same key types", pos), input) {
			continue
		}
		if c14R6PanicCheck(c, *solo, "the program run alone in a fresh process", input) {
			continue
		}
		if d := solo.diff(o); d != "" {
			c.Violation("history-dependent:iface-key-types", fmt.Sprintf("run alone as the first program of a fresh process vs run in a process that executed other programs over the same key types before (position %d of this case): %s", pos, d), input)
			continue
		}
		nontrivial = nontrivial || o.trace != ""
	}
	c14R5CaseCanary(c, "keyprogs runs")
	c.Eval(strings.Join(order, "\n---\n"), nontrivial)
	c.Events(len(order))
	c.Tag("kind:keyprogs", "phase:"+c.Phase, "keymix-first:"+c14R6TagClass(tags[0]))
	if c.WantSample() {
		c.Sample(map[string]interface{}{"mode": "keyprogs", "order": order})
	}
}

// ---------------------------------------------------------------------------
// (b) files read by load

// c14R6RunLoad runs a loader tree in a fresh environment that binds dir; the directory
// name is taken out of the observation (the child process works in a directory of its own).
func c14R6RunLoad(dir string, tree ast.Stmt, wd time.Duration) c14Obs {
	e, rec := realrun.NewEnv()
	e.Define("dir", dir)
	o := c14Observe(c14R5Run(e, rec, tree, wd))
	o.trace = strings.ReplaceAll(o.trace, dir, "<dir>")
	o.value = strings.ReplaceAll(o.value, dir, "<dir>")
	o.err = strings.ReplaceAll(o.err, dir, "<dir>")
	return o
}

type c14R6LoadJob struct {
	Files map[string]string // name -> contents; the child writes them into a directory of its own
	Src   string
}

func c14R6WriteFiles(dir string, files map[string]string) error {
	for name, body := range files {
		if err := ioutil.WriteFile(filepath.Join(dir, name), []byte(body), 0644); err != nil {
			return err
		}
	}
	return nil
}

// c14R6LoadChild is `vworker -child c14load`: reads one job from stdin, writes the files
// into a fresh directory, runs the loader as the first and only program of the process
// and prints its observation.
func c14R6LoadChild(args []string) {
	var job c14R6LoadJob
	if err := json.NewDecoder(os.Stdin).Decode(&job); err != nil {
		fmt.Fprintln(os.Stderr, "c14load:", err)
		os.Exit(3)
	}
	dir, err := ioutil.TempDir("", "c14loadchild")
	if err != nil {
		fmt.Fprintln(os.Stderr, "c14load:", err)
		os.Exit(3)
	}
	defer os.RemoveAll(dir)
	if err := c14R6WriteFiles(dir, job.Files); err != nil {
		os.RemoveAll(dir)
		fmt.Fprintln(os.Stderr, "c14load:", err)
		os.Exit(3)
	}
	out := c14ObsJSON{Timeout: true}
	if tree, perr, po := ank.Parse(job.Src); !po.Panicked && perr == nil && tree != nil {
		o := c14R6RunLoad(dir, tree, 4*time.Second)
		out = c14ObsJSON{o.trace, o.gtrace, o.value, o.err, o.timeout}
	}
	json.NewEncoder(os.Stdout).Encode(out)
}

func init() { wk.RegisterChild("c14load", c14R6LoadChild) }

// c14R6LoadSpawn runs one job alone in a fresh child process (nil: no observation).
func c14R6LoadSpawn(job c14R6LoadJob) *c14Obs {
	bin := os.Getenv("VERIF_WORKER_BIN")
	if bin == "" {
		bin, _ = os.Executable()
	}
	in, _ := json.Marshal(job)
	cmd := exec.Command(bin, "-child", "c14load")
	cmd.Stdin = bytes.NewReader(in)
	var stdout, stderr bytes.Buffer
	cmd.Stdout, cmd.Stderr = &stdout, &stderr
	if err := cmd.Start(); err != nil {
		return nil
	}
	done := make(chan error, 1)
	go func() { done <- cmd.Wait() }()
	select {
	case err := <-done:
		var out c14ObsJSON
		if err == nil && json.Unmarshal(stdout.Bytes(), &out) == nil {
			return &c14Obs{trace: out.Trace, gtrace: out.GTrace, value: out.Value, err: out.Err, timeout: out.Timeout}
		}
	case <-time.After(60 * time.Second):
		// a stuck child is inconclusive, never a verdict
		cmd.Process.Kill()
		<-done
	}
	return nil
}

// versions of a library file; %d = a number that tells the versions apart
var c14R6LibVersions = []string{
	"func answer() { return %d }\n",
	"func answer() {\n return %d\n}\nloaded = %d\n",
	"x = %d\nfunc answer() { return x * 2 }\nx + 1\n",
	"module lib { v = %d\n func get() { return v + 1 } }\nfunc answer() { return lib.get() }\n",
	"func answer() { return \"s%d\" }\n\"v%d\"\n",
	"make(type LT, %d)\nfunc answer() { return make(LT) }\n",
	"make(type LT, \"s%d\")\nfunc answer() { return make(LT) }\n",
	"var a = [%d, 2]\nfunc answer() { a[1]++\n return a }\n",
	// versions that fail
	"throw \"T%d\"\n",
	"func answer() { return %d +\n",
	"func answer() { return [1][%d] }\nanswer()\n",
	"break\nfunc answer() { return %d }\n",
}

// loaders of dir/lib.ank; the last statement is not caught
var c14R6Loaders = []string{
	"try { v = load(dir + \"/lib.ank\")\n rd(\"loaded\", v) } catch e { rd(\"load-error\", toString(e)) }\nrd(\"a\", answer() ?? \"undefined\")\nanswer()",
	"rd(\"v\", load(dir + \"/lib.ank\") ?? \"failed\")\nrd(\"names\", [answer() ?? \"undefined\", x ?? \"undefined\", lib.v ?? \"undefined\", make(LT) ?? \"undefined\"])",
	"func ld() { return load(dir + \"/lib.ank\") }\nr = []\nfor i = 0; i < 2; i++ { try { ld()\n r += [answer()] } catch e { r += [toString(e)] } }\nrd(\"r\", r)\nload(dir + \"/lib.ank\")",
	"load(dir + \"/lib.ank\")\nrd(\"a\", [answer(), answer()])",
	// through a file that stays as it is
	"try { load(dir + \"/outer.ank\")\n rd(\"a\", [answer(), outer()]) } catch e { rd(\"load-error\", toString(e)) }",
}

const c14R6OuterFile = "load(dir + \"/lib.ank\")\nfunc outer() { return answer() ?? \"undefined\" }\n"

var c14R6PinnedTime = time.Unix(1700000000, 0)

// c14R6LoadMix: a history of rewrites of one file, a loader run in a fresh environment
// after each; every run against the loader alone in a fresh process over equal files.
func c14R6LoadMix(c *wk.Case) {
	loader := c14R6Loaders[c.Rng.Intn(len(c14R6Loaders))]
	nver := 2 + c.Rng.Intn(3)
	var versions []string
	perm := c.Rng.Perm(len(c14R6LibVersions))
	// one shape throughout (the versions differ in one digit), or a shape per version
	oneShape := c.Rng.Intn(2) == 0
	for i := 0; i < nver; i++ {
		tmpl := c14R6LibVersions[perm[i]]
		if oneShape {
			tmpl = c14R6LibVersions[perm[0]]
		}
		versions = append(versions, strings.ReplaceAll(tmpl, "%d", fmt.Sprint(1+i)))
	}
	if c.Rng.Intn(4) != 0 {
		// comment lines make the lengths equal
		max := 0
		for _, v := range versions {
			if len(v) > max {
				max = len(v)
			}
		}
		for i, v := range versions {
			if pad := max - len(v); pad > 0 {
				if pad == 1 {
					versions[i] = v + "\n"
				} else {
					versions[i] = v + "#" + strings.Repeat("p", pad-2) + "\n"
				}
			}
		}
	}
	sameLength := true
	for _, v := range versions {
		sameLength = sameLength && len(v) == len(versions[0])
	}
	timeMode := []string{"pinned", "pinned", "preserved", "clock", "advanced", "pinned-rename"}[c.Rng.Intn(6)]
	nsteps := 2 + c.Rng.Intn(4)
	steps := make([]int, nsteps) // version written before the run of the step; -1 = the file is removed
	for i := range steps {
		steps[i] = i % nver
		if i >= nver {
			steps[i] = c.Rng.Intn(nver)
		}
		if i > 0 && c.Rng.Intn(12) == 0 {
			steps[i] = -1
		}
	}
	if c.Rng.Intn(3) == 0 {
		// back to the first version at the end
		steps[nsteps-1] = 0
	}
	sharedTree := c.Rng.Intn(2) == 0
	input := map[string]interface{}{"kind": "loadmix", "loader": loader, "versions-of-lib.ank": versions, "version-written-before-run": steps, "time-stamps": timeMode,
		"one-tree-for-all-runs": sharedTree, "outer.ank": c14R6OuterFile}
	c.Begin(input)
	tree, perr, po := ank.Parse(loader)
	if po.Panicked || perr != nil || tree == nil {
		c.Inconclusive("loadmix-program-does-not-parse", ank.ErrText(perr), input)
		return
	}
	dir, err := ioutil.TempDir("", "c14load")
	if err != nil {
		c.Inconclusive("loadmix-no-directory", err.Error(), input)
		return
	}
	defer os.RemoveAll(dir)
	if err := ioutil.WriteFile(filepath.Join(dir, "outer.ank"), []byte(c14R6OuterFile), 0644); err != nil {
		c.Inconclusive("loadmix-write-failed", err.Error(), input)
		return
	}
	// alone: one child per different state of the directory
	jobOf := func(v int) c14R6LoadJob {
		files := map[string]string{"outer.ank": c14R6OuterFile}
		if v >= 0 {
			files["lib.ank"] = versions[v]
		}
		return c14R6LoadJob{Files: files, Src: loader}
	}
	alone := map[int]*c14Obs{}
	{
		var need []int
		for _, v := range steps {
			if _, ok := alone[v]; !ok {
				alone[v] = nil
				need = append(need, v)
			}
		}
		sort.Ints(need)
		c.Count("solo-child-processes", len(need))
		res := make([]*c14Obs, len(need))
		var wg sync.WaitGroup
		for i := range need {
			wg.Add(1)
			go func(i int) { defer wg.Done(); res[i] = c14R6LoadSpawn(jobOf(need[i])) }(i)
		}
		wg.Wait()
		for i, v := range need {
			alone[v] = res[i]
		}
	}
	path := filepath.Join(dir, "lib.ank")
	dump0 := astx.Dump(tree, c14DumpOpts)
	var firstTime time.Time
	nontrivial := false
	for i, v := range steps {
		// the file as the run of this step finds it
		if v < 0 {
			os.Remove(path)
		} else {
			var werr error
			if timeMode == "pinned-rename" {
				tmp := filepath.Join(dir, "lib.ank.new")
				werr = ioutil.WriteFile(tmp, []byte(versions[v]), 0644)
				if werr == nil {
					werr = os.Chtimes(tmp, c14R6PinnedTime, c14R6PinnedTime)
				}
				if werr == nil {
					werr = os.Rename(tmp, path)
				}
			} else {
				werr = ioutil.WriteFile(path, []byte(versions[v]), 0644)
				switch {
				case werr != nil:
				case timeMode == "pinned":
					werr = os.Chtimes(path, c14R6PinnedTime, c14R6PinnedTime)
				case timeMode == "advanced":
					t := c14R6PinnedTime.Add(time.Duration(i) * time.Hour)
					werr = os.Chtimes(path, t, t)
				case timeMode == "preserved":
					// the time stamp of the first version is put back (cp -p, rsync -t, tar)
					if firstTime.IsZero() {
						if info, serr := os.Stat(path); serr == nil {
							firstTime = info.ModTime()
						}
					} else {
						werr = os.Chtimes(path, firstTime, firstTime)
					}
				}
			}
			if werr != nil {
				c.Inconclusive("loadmix-write-failed", werr.Error(), input)
				return
			}
		}
		t := tree
		if !sharedTree {
			t, _, _ = ank.Parse(loader)
		}
		o := c14R6RunLoad(dir, t, 4*time.Second)
		solo := alone[v]
		if solo == nil {
			c.Inconclusive("solo-child-failed", "", input)
			return
		}
		if o.timeout || solo.timeout {
			c.Excluded("watchdog")
			return
		}
		if c14R6PanicCheck(c, o, fmt.Sprintf("run %d of the history", i), input) || c14R6PanicCheck(c, *solo, "the loader alone in a fresh process", input) {
			return
		}
		if d := solo.diff(o); d != "" {
			length := "other-length"
			if sameLength {
				length = "same-length"
			}
			what := "lib.ank removed"
			if v >= 0 {
				what = fmt.Sprintf("lib.ank = version %d", v)
			}
			c.Violation("load-run-differs-from-alone:"+length, fmt.Sprintf("run %d of the history (time stamps: "+timeMode+"; fresh environment, %s; earlier runs of the process loaded the path with other contents) differs from the loader run alone in a fresh process over equal files: alone %s", i, what, d), input)
			return
		}
		nontrivial = nontrivial || o.trace != ""
	}
	if d := astx.Dump(tree, c14DumpOpts); d != dump0 {
		c.Violation("tree-mutated:"+firstDiffNode(dump0, d), "the parsed tree of the loader differs after the runs: "+dumpDiff(dump0, d), input)
		return
	}
	c14R5CaseCanary(c, "loadmix runs")
	c.Eval(loader+"|"+strings.Join(versions, "|")+"|"+fmt.Sprint(steps)+"|"+timeMode, nontrivial)
	c.Events(nsteps)
	c.Tag("kind:loadmix", "phase:"+c.Phase, "loadmix-time:"+timeMode, fmt.Sprintf("loadmix-same-length:%v", sameLength))
	if c.WantSample() {
		c.Sample(input)
	}
}

// ---------------------------------------------------------------------------
// case allocation

// c14R6Cases is the number of cases of phase r6 (regular build).
func c14R6Cases(tier string) int {
	if tier == "thorough" {
		return 12000
	}
	return 160
}

// c14RunR6 runs case c.Index of phase r6.
func c14RunR6(c *wk.Case) {
	switch c.Index % 4 {
	case 0:
		c14R6KeyMix(c, false)
	case 1:
		c14R6LoadMix(c)
	case 2:
		c14R6KeyProgs(c)
	default:
		if c.Index%8 == 3 {
			c14R6KeyMix(c, true)
		} else {
			c14R6LoadMix(c)
		}
	}
}
