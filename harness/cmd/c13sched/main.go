//go:build c13sched

// c13sched is the controlled-scheduler worker of C13. It is built only against
// a scratch copy of the repository whose env package uses verifsync mutexes
// (see cmd/vcheck buildC13), so every lock operation of the real env code is a
// scheduling point. It enumerates schedules of small configurations, records a
// call/return history per execution on the scheduler's logical clock and
// checks it with porcupine against a sequential dictionary model.
package main

import (
	"fmt"
	"reflect"
	"sort"
	"strings"
	"time"

	"github.com/anishathalye/porcupine"
	"github.com/mattn/anko/env"
	"github.com/mattn/anko/verifsync"

	"verifharness/internal/fw"
	"verifharness/internal/wk"
)

type op struct {
	Kind string `json:"kind"`
	Key  string `json:"key,omitempty"`
	Val  string `json:"val,omitempty"`
}

type config struct {
	Init map[string]string `json:"initial_values"`
	Gs   [][]op            `json:"goroutines"`
	// Prelude: number of Define/Delete cycles on throw-away symbols the scope has already seen,
	// one-at-a-time, before the goroutines start (long-history configurations only)
	Prelude int `json:"prelude_define_delete_cycles,omitempty"`
	// Alias: the shared scope has an external lookup that reads the scope itself (lookup configurations only)
	Alias bool `json:"alias_lookup_reading_the_scope,omitempty"`
}

// aliasLookup is an immutable lookup object that READS the scope it is installed on: al_<name> is
// the value <name> has for that scope. Get and Type call the lookup with no lock held, so a lookup
// of this kind is a combination of environment operations like any other: it must not block for good.
type aliasLookup struct{ scope *env.Env }

func (l aliasLookup) Get(s string) (reflect.Value, error) {
	if strings.HasPrefix(s, "al_") {
		return l.scope.GetValue(s[3:])
	}
	return reflect.Value{}, fmt.Errorf("undefined symbol '%s'", s)
}

func (l aliasLookup) Type(s string) (reflect.Type, error) {
	if strings.HasPrefix(s, "AL_") {
		return l.scope.Type(s[3:])
	}
	return nil, fmt.Errorf("undefined type '%s'", s)
}

var typePool = map[string]reflect.Type{"int64": reflect.TypeOf(int64(0)), "string": reflect.TypeOf(""), "bool": reflect.TypeOf(true)}

var opKinds = []string{"Define", "Set", "Get", "Delete", "DeleteGlobal", "Copy", "DeepCopy", "Symbols", "DefineType", "Type", "TypeSymbols", "String", "Get", "Set", "Define"}

// ---- sequential model ----

type mstate struct {
	vals  map[string]string
	types map[string]string
}

func encode(vals, types map[string]string) string {
	var a []string
	for k, v := range vals {
		a = append(a, k+"="+v)
	}
	sort.Strings(a)
	var b []string
	for k, v := range types {
		b = append(b, k+":"+v)
	}
	sort.Strings(b)
	return strings.Join(a, ";") + "|" + strings.Join(b, ";")
}

func decode(s string) mstate {
	st := mstate{vals: map[string]string{}, types: map[string]string{}}
	parts := strings.SplitN(s, "|", 2)
	if parts[0] != "" {
		for _, kv := range strings.Split(parts[0], ";") {
			i := strings.Index(kv, "=")
			st.vals[kv[:i]] = kv[i+1:]
		}
	}
	if len(parts) > 1 && parts[1] != "" {
		for _, kv := range strings.Split(parts[1], ";") {
			i := strings.Index(kv, ":")
			st.types[kv[:i]] = kv[i+1:]
		}
	}
	return st
}

var parentVals = map[string]string{"kp": "P"}
var parentTypes = map[string]string{"tp": "int64"}

func symbols(m map[string]string) string {
	var a []string
	for k := range m {
		a = append(a, k)
	}
	sort.Strings(a)
	return strings.Join(a, ",")
}

var model = porcupine.Model{
	Init: func() interface{} { return "" }, // replaced per configuration
	Step: func(state, input, output interface{}) (bool, interface{}) {
		st := decode(state.(string))
		in := input.(op)
		out := output.(string)
		switch in.Kind {
		case "Define":
			st.vals[in.Key] = in.Val
			return out == "ok", encode(st.vals, st.types)
		case "Set":
			if _, ok := st.vals[in.Key]; ok {
				st.vals[in.Key] = in.Val
				return out == "ok", encode(st.vals, st.types)
			}
			return out == "err", state
		case "Get":
			// al_<name> is answered by the alias lookup with the value of <name> (lookup configurations)
			key := strings.TrimPrefix(in.Key, "al_")
			want := "err"
			if v, ok := st.vals[key]; ok {
				want = v
			} else if v, ok := parentVals[key]; ok {
				want = v
			}
			return out == want, state
		case "DefineCell":
			st.vals[in.Key] = in.Val
			return out == "ok", encode(st.vals, st.types)
		case "Addr":
			// an undefined symbol has no address; a defined one answers a pointer to its value, or an
			// error when the value bound cannot be addressed (the statement is silent on which values
			// can: both are accepted)
			key := strings.TrimPrefix(in.Key, "al_")
			v, ok := st.vals[key]
			if !ok {
				v, ok = parentVals[key]
			}
			if !ok {
				return out == "err", state
			}
			return out == "err" || out == "ptr:"+v, state
		case "Delete", "DeleteGlobal":
			delete(st.vals, in.Key)
			return out == "ok", encode(st.vals, st.types)
		case "Copy", "DeepCopy", "Final":
			return out == state.(string), state
		case "Symbols":
			return out == symbols(st.vals), state
		case "DefineType":
			st.types[in.Key] = in.Val
			return out == "ok", encode(st.vals, st.types)
		case "Type":
			key := strings.TrimPrefix(in.Key, "AL_")
			want := "err"
			if v, ok := st.types[key]; ok {
				want = v
			} else if v, ok := parentTypes[key]; ok {
				want = v
			}
			return out == want, state
		case "TypeSymbols":
			return out == symbols(st.types), state
		case "String":
			return true, state
		}
		return false, state
	},
	Equal: func(a, b interface{}) bool { return a.(string) == b.(string) },
	DescribeOperation: func(input, output interface{}) string {
		in := input.(op)
		return fmt.Sprintf("%s(%s,%s)->%s", in.Kind, in.Key, in.Val, output.(string))
	},
}

// ---- real execution ----

func dump(e *env.Env) string {
	vals := map[string]string{}
	for _, s := range e.GetValueSymbols() {
		v, err := e.Get(s)
		if err == nil {
			vals[s] = fmt.Sprint(v)
		}
	}
	types := map[string]string{}
	for _, s := range e.GetTypeSymbols() {
		t, err := e.Type(s)
		if err == nil && t != nil {
			types[s] = t.String()
		}
	}
	return encode(vals, types)
}

func execOp(shared *env.Env, o op) string {
	switch o.Kind {
	case "Define":
		if shared.Define(o.Key, o.Val) != nil {
			return "err"
		}
		return "ok"
	case "Set":
		if shared.Set(o.Key, o.Val) != nil {
			return "err"
		}
		return "ok"
	case "Get":
		v, err := shared.Get(o.Key)
		if err != nil {
			return "err"
		}
		return fmt.Sprint(v)
	case "DefineCell":
		// the value is bound as an addressable cell nobody stores to
		cell := reflect.New(reflect.TypeOf("")).Elem()
		cell.SetString(o.Val)
		if shared.DefineValue(o.Key, cell) != nil {
			return "err"
		}
		return "ok"
	case "Addr":
		p, err := shared.Addr(o.Key)
		if err != nil || p.Kind() != reflect.Ptr || p.IsNil() {
			return "err"
		}
		return "ptr:" + fmt.Sprint(p.Elem().Interface())
	case "Delete":
		shared.Delete(o.Key)
		return "ok"
	case "DeleteGlobal":
		shared.DeleteGlobal(o.Key)
		return "ok"
	case "Copy":
		// the copy is private to this goroutine: reading it back is not a concurrent operation
		c := shared.Copy()
		return dump(c)
	case "DeepCopy":
		c := shared.DeepCopy()
		return dump(c)
	case "Symbols":
		s := shared.GetValueSymbols()
		sort.Strings(s)
		return strings.Join(s, ",")
	case "DefineType":
		if shared.DefineReflectType(o.Key, typePool[o.Val]) != nil {
			return "err"
		}
		return "ok"
	case "Type":
		t, err := shared.Type(o.Key)
		if err != nil || t == nil {
			return "err"
		}
		return t.String()
	case "TypeSymbols":
		s := shared.GetTypeSymbols()
		sort.Strings(s)
		return strings.Join(s, ",")
	case "String":
		_ = shared.String()
		return "ok"
	}
	return "?"
}

type execution struct {
	res  verifsync.Result
	hist []porcupine.Operation
}

func run(cfg *config, choose func(step int, enabled []int, cur int) int) execution {
	parent := env.NewEnv()
	for k, v := range parentVals {
		parent.Define(k, v)
	}
	for k, v := range parentTypes {
		parent.DefineReflectType(k, typePool[v])
	}
	shared := parent.NewEnv()
	for k, v := range cfg.Init {
		shared.Define(k, v)
	}
	if cfg.Alias {
		shared.SetExternalLookup(aliasLookup{shared})
	}
	// the past of the scope: symbols that came and went before anything runs concurrently.
	// Sequentially a Define followed by a Delete leaves no trace, so the model's initial state is cfg.Init.
	for i := 0; i < cfg.Prelude; i++ {
		k := fmt.Sprintf("p%d", i%9)
		shared.Define(k, "past")
		if i%5 == 4 {
			shared.Delete("never-defined") // a Delete without effect belongs to a history too
		}
		shared.Delete(k)
	}
	n := len(cfg.Gs)
	hists := make([][]porcupine.Operation, n)
	res := verifsync.Run(n, func(id int) {
		for _, o := range cfg.Gs[id] {
			verifsync.Yield()
			call := verifsync.Tick()
			out := execOp(shared, o)
			ret := verifsync.Tick()
			hists[id] = append(hists[id], porcupine.Operation{ClientId: id, Input: o, Call: call, Output: out, Return: ret})
		}
	}, choose)
	var hist []porcupine.Operation
	for _, h := range hists {
		hist = append(hist, h...)
	}
	if !res.Deadlock && len(res.Panics) == 0 {
		call := verifsync.Tick()
		out := dump(shared)
		ret := verifsync.Tick()
		hist = append(hist, porcupine.Operation{ClientId: n, Input: op{Kind: "Final"}, Call: call, Output: out, Return: ret})
	}
	return execution{res, hist}
}

func describe(h []porcupine.Operation) string {
	ops := append([]porcupine.Operation(nil), h...)
	sort.Slice(ops, func(i, j int) bool { return ops[i].Call < ops[j].Call })
	var b []string
	for _, o := range ops {
		in := o.Input.(op)
		b = append(b, fmt.Sprintf("g%d:%s(%s,%s)@%d-%d->%s", o.ClientId, in.Kind, in.Key, in.Val, o.Call, o.Return, o.Output))
	}
	return strings.Join(b, " ")
}

func kindsOf(cfg *config) string {
	set := map[string]bool{}
	for _, g := range cfg.Gs {
		for _, o := range g {
			set[o.Kind] = true
		}
	}
	var a []string
	for k := range set {
		a = append(a, k)
	}
	sort.Strings(a)
	return strings.Join(a, "+")
}

func contains(a []int, x int) bool {
	for _, v := range a {
		if v == x {
			return true
		}
	}
	return false
}

func genConfig(c *wk.Case, maxOps int) *config {
	cfg := &config{Init: map[string]string{}}
	if c.Rng.Intn(2) == 0 {
		cfg.Init["k1"] = "init1"
	}
	if c.Rng.Intn(3) == 0 {
		cfg.Init["k2"] = "init2"
	}
	ng := 2 + c.Rng.Intn(2)
	for g := 0; g < ng; g++ {
		nops := 2 + c.Rng.Intn(maxOps-1)
		if ng == 3 && nops > 3 {
			nops = 3
		}
		var ops []op
		for i := 0; i < nops; i++ {
			k := opKinds[c.Rng.Intn(len(opKinds))]
			o := op{Kind: k}
			switch k {
			case "Define", "Set":
				o.Key = []string{"k1", "k2"}[c.Rng.Intn(2)]
				o.Val = fmt.Sprintf("g%d.%d", g, i)
			case "Get":
				o.Key = []string{"k1", "k2", "kp"}[c.Rng.Intn(3)]
			case "Delete", "DeleteGlobal":
				o.Key = []string{"k1", "k2"}[c.Rng.Intn(2)]
			case "DefineType":
				o.Key = []string{"t1", "t2"}[c.Rng.Intn(2)]
				o.Val = []string{"int64", "string", "bool"}[c.Rng.Intn(3)]
			case "Type":
				o.Key = []string{"t1", "t2", "tp"}[c.Rng.Intn(3)]
			}
			ops = append(ops, o)
		}
		cfg.Gs = append(cfg.Gs, ops)
	}
	return cfg
}

// ---- lookup configurations ----
//
// The scope has a lookup object that reads the scope itself, and the operations include Addr
// (of plain values, of addressable cells, of the parent's symbol, through the lookup) next to
// Get and Type through the lookup and the writers Define, DefineCell, Set, Delete, DefineType.
// The oracle is the same as for the short configurations; what these add is the deadlock verdict
// of the scheduler for operations that keep the scope's lock while they ask the lookup or the parent.
func genLookupConfig(c *wk.Case, maxOps int) *config {
	cfg := &config{Init: map[string]string{}, Alias: true}
	if c.Rng.Intn(2) == 0 {
		cfg.Init["k1"] = "init1"
	}
	ng := 2 + c.Rng.Intn(2)
	for g := 0; g < ng; g++ {
		nops := 2 + c.Rng.Intn(maxOps-1)
		if ng == 3 && nops > 3 {
			nops = 3
		}
		var ops []op
		for i := 0; i < nops; i++ {
			k := []string{"Addr", "Addr", "Addr", "Get", "Type", "Define", "DefineCell", "Set", "Delete", "DefineType", "Symbols"}[c.Rng.Intn(11)]
			if g == 0 && i == 0 {
				k = "Addr"
			}
			o := op{Kind: k}
			switch k {
			case "Addr":
				o.Key = []string{"k1", "k2", "kp", "al_k1", "al_k1", "al_k2", "al_kp"}[c.Rng.Intn(7)]
			case "Get":
				o.Key = []string{"k1", "al_k1", "al_k2", "al_kp"}[c.Rng.Intn(4)]
			case "Type":
				o.Key = []string{"t1", "AL_t1", "AL_tp"}[c.Rng.Intn(3)]
			case "Define", "DefineCell", "Set":
				o.Key = []string{"k1", "k2"}[c.Rng.Intn(2)]
				o.Val = fmt.Sprintf("g%d.%d", g, i)
			case "Delete":
				o.Key = []string{"k1", "k2"}[c.Rng.Intn(2)]
			case "DefineType":
				o.Key = "t1"
				o.Val = []string{"int64", "string", "bool"}[c.Rng.Intn(3)]
			}
			ops = append(ops, o)
		}
		cfg.Gs = append(cfg.Gs, ops)
	}
	return cfg
}

// ---- long-history configurations ----
//
// The statement quantifies over histories: what a scope does with an operation may not depend on
// how many operations it has already seen. A long-history configuration gives the scope a past
// (cfg.Prelude Define/Delete cycles before the goroutines start) and lets 2-3 goroutines run tens
// of operations each, most of them on symbols only that goroutine ever writes:
//
//	w<g>      a symbol g sets/defines and reads back,
//	t<g>_<j>  short-lived symbols g defines and deletes again (the deletes are effective),
//	f<g>_<n>  symbols g defines once and nobody deletes,
//
// plus reads of the other goroutines' symbols, operations on the contended symbol k1, symbol
// listings and copies. The oracle is the same as for the short configurations (porcupine against
// the sequential dictionary model, closed by a read of the final state); the ownership structure
// only serves to name what went wrong in the signature.

func longOwner(key string) int {
	if len(key) >= 2 && (key[0] == 'w' || key[0] == 't' || key[0] == 'f') && key[1] >= '0' && key[1] <= '9' {
		return int(key[1] - '0')
	}
	return -1
}

func genLongConfig(c *wk.Case) *config {
	cfg := &config{Init: map[string]string{}}
	ng := 2 + c.Rng.Intn(2)
	lo, span := 45, 40
	if ng == 3 {
		lo, span = 32, 26
	}
	if c.Tier == "thorough" {
		lo, span = lo*2, span*2
	}
	// the past: anything from none to a few hundred symbols that came and went
	switch c.Rng.Intn(4) {
	case 0:
		cfg.Prelude = c.Rng.Intn(8)
	case 1:
		cfg.Prelude = c.Rng.Intn(70)
	default:
		cfg.Prelude = c.Rng.Intn(300)
	}
	if c.Rng.Intn(2) == 0 {
		cfg.Init["k1"] = "init1"
	}
	for g := 0; g < ng; g++ {
		if c.Rng.Intn(3) != 0 {
			cfg.Init[fmt.Sprintf("w%d", g)] = fmt.Sprintf("init.w%d", g)
		}
	}
	for g := 0; g < ng; g++ {
		nops := lo + c.Rng.Intn(span)
		w := fmt.Sprintf("w%d", g)
		live := []string{} // short-lived symbols of g that g has defined and not yet deleted
		fresh := 0
		var ops []op
		val := func(i int) string { return fmt.Sprintf("g%d.%d", g, i) }
		others := func() string {
			h := c.Rng.Intn(ng)
			switch c.Rng.Intn(4) {
			case 0:
				return fmt.Sprintf("t%d_%d", h, c.Rng.Intn(4))
			case 1:
				return fmt.Sprintf("f%d_%d", h, c.Rng.Intn(3))
			case 2:
				return []string{"k1", "kp"}[c.Rng.Intn(2)]
			}
			return fmt.Sprintf("w%d", h)
		}
		for i := 0; i < nops; i++ {
			var o op
			r := c.Rng.Intn(24)
			switch {
			case r < 7 || (r < 13 && len(live) == 0):
				k := fmt.Sprintf("t%d_%d", g, c.Rng.Intn(4))
				o = op{Kind: "Define", Key: k, Val: val(i)}
				found := false
				for _, l := range live {
					found = found || l == k
				}
				if !found {
					live = append(live, k)
				}
			case r < 13:
				j := c.Rng.Intn(len(live))
				kind := "Delete"
				if c.Rng.Intn(6) == 0 {
					kind = "DeleteGlobal"
				}
				o = op{Kind: kind, Key: live[j]}
				live = append(live[:j], live[j+1:]...)
			case r < 15:
				o = op{Kind: "Set", Key: w, Val: val(i)}
			case r == 15:
				o = op{Kind: "Define", Key: w, Val: val(i)}
			case r < 18:
				o = op{Kind: "Get", Key: w}
			case r == 18:
				if fresh < 5 {
					o = op{Kind: "Define", Key: fmt.Sprintf("f%d_%d", g, fresh), Val: val(i)}
					fresh++
				} else {
					o = op{Kind: "Get", Key: fmt.Sprintf("f%d_%d", g, c.Rng.Intn(fresh))}
				}
			case r < 21:
				o = op{Kind: "Get", Key: others()}
			case r == 21:
				o = op{Kind: []string{"Define", "Set", "Delete"}[c.Rng.Intn(3)], Key: "k1"}
				if o.Kind != "Delete" {
					o.Val = val(i)
				}
			case r == 22:
				o = op{Kind: "Symbols"}
			default:
				o = op{Kind: []string{"Copy", "DeepCopy", "String", "Get"}[c.Rng.Intn(4)]}
				if o.Kind == "Get" {
					o.Key = "never-defined"
				}
			}
			ops = append(ops, o)
		}
		cfg.Gs = append(cfg.Gs, ops)
	}
	return cfg
}

// longAnomaly names what is wrong with a history porcupine rejected, using only the symbols that
// a single goroutine writes: for those every one-at-a-time ordering consistent with that
// goroutine's order fixes what the goroutine itself reads and what is left at the end.
func longAnomaly(cfg *config, hist []porcupine.Operation) string {
	final, haveFinal := mstate{}, false
	per := make([][]porcupine.Operation, len(cfg.Gs))
	for _, o := range hist {
		if o.Input.(op).Kind == "Final" {
			final, haveFinal = decode(o.Output.(string)), true
		} else if o.ClientId < len(per) {
			per[o.ClientId] = append(per[o.ClientId], o) // already in the goroutine's own order
		}
	}
	for g, ops := range per {
		own := map[string]string{} // symbol -> value, "" = not defined in the shared scope
		known := map[string]bool{}
		for k, v := range cfg.Init {
			if longOwner(k) == g {
				own[k], known[k] = v, true
			}
		}
		for _, o := range ops {
			in, out := o.Input.(op), o.Output.(string)
			if longOwner(in.Key) != g {
				continue
			}
			switch in.Kind {
			case "Define":
				if out == "ok" {
					own[in.Key], known[in.Key] = in.Val, true
				}
			case "Set":
				if v, def := own[in.Key]; def && v != "" {
					if out != "ok" {
						return "own-symbol-gone-at-set"
					}
					own[in.Key] = in.Val
				} else if out == "ok" {
					return "set-of-undefined-own-symbol-succeeds"
				}
			case "Delete", "DeleteGlobal":
				own[in.Key], known[in.Key] = "", true
			case "Get":
				v := own[in.Key]
				if v == "" && out != "err" {
					return "own-deleted-or-undefined-symbol-read"
				}
				if v != "" && out != v {
					return "own-write-not-read-back"
				}
			}
		}
		// listings and copies taken by g itself show g's symbols as g left them
		own = map[string]string{}
		for k, v := range cfg.Init {
			if longOwner(k) == g {
				own[k] = v
			}
		}
		for _, o := range ops {
			in, out := o.Input.(op), o.Output.(string)
			switch in.Kind {
			case "Define", "Set":
				if longOwner(in.Key) == g && out == "ok" {
					own[in.Key] = in.Val
				}
			case "Delete", "DeleteGlobal":
				if longOwner(in.Key) == g {
					delete(own, in.Key)
				}
			case "Symbols":
				seen := map[string]bool{}
				for _, k := range strings.Split(out, ",") {
					seen[k] = true
					if _, def := own[k]; !def && longOwner(k) == g {
						return "own-deleted-symbol-listed"
					}
				}
				for k := range own {
					if !seen[k] {
						return "own-symbol-not-listed"
					}
				}
			case "Copy", "DeepCopy":
				snap := decode(out)
				for k, v := range snap.vals {
					if _, def := own[k]; !def && longOwner(k) == g {
						return "own-deleted-symbol-in-copy"
					} else if def && own[k] != v {
						return "own-write-not-in-copy"
					}
				}
				for k := range own {
					if _, there := snap.vals[k]; !there {
						return "own-symbol-not-in-copy"
					}
				}
			}
		}
		if haveFinal {
			for k := range known {
				fv, there := final.vals[k]
				if own[k] == "" && there {
					return "own-deleted-symbol-in-final-state"
				}
				if own[k] != "" && (!there || fv != own[k]) {
					return "own-write-missing-in-final-state"
				}
			}
		}
	}
	// what h reads of a symbol only g writes can only move forward through g's writes
	// (every written value is unique)
	for h, ops := range per {
		last := map[string]int{}
		for _, o := range ops {
			in, out := o.Input.(op), o.Output.(string)
			g := longOwner(in.Key)
			if in.Kind != "Get" || g < 0 || g == h || g >= len(per) {
				continue
			}
			if out == "err" {
				continue // not defined (yet, or no longer): says nothing about the order of g's writes
			}
			pos, n := -1, 0
			if v, ok := cfg.Init[in.Key]; ok && v == out {
				pos = 0
			}
			for _, w := range per[g] {
				wi := w.Input.(op)
				if wi.Key == in.Key && (wi.Kind == "Define" || wi.Kind == "Set") {
					n++
					if w.Output.(string) == "ok" && wi.Val == out {
						pos = n
					}
				}
			}
			if pos < 0 {
				return "foreign-read-of-a-value-never-written"
			}
			if pos < last[in.Key] {
				return "foreign-read-went-back"
			}
			if pos > last[in.Key] {
				last[in.Key] = pos
			}
		}
	}
	return "other"
}

func runLong(c *wk.Case, verdicts map[string]porcupine.CheckResult) {
	nRandom := 36
	if c.Tier == "thorough" {
		nRandom = 120
	}
	cfg := genLongConfig(c)
	initState := encode(cfg.Init, map[string]string{})
	m := model
	m.Init = func() interface{} { return initState }
	c.Begin(cfg)
	c.Tag("config-long-history")
	c.Tag("config-long-history-goroutines:" + fmt.Sprint(len(cfg.Gs)))
	nd := 0
	for _, g := range cfg.Gs {
		for _, o := range g {
			if o.Kind == "Delete" || o.Kind == "DeleteGlobal" {
				nd++
			}
		}
	}
	c.Count("long_history_deletes_before_and_during", cfg.Prelude+nd)

	judge := func(ex execution, sched []int) bool {
		input := map[string]interface{}{"config": cfg, "schedule": sched, "history": describe(ex.hist)}
		if len(ex.res.Panics) > 0 {
			c.Violation("panic-in-env-operation:long-history", strings.Join(ex.res.Panics, "; "), input)
			return false
		}
		if ex.res.Deadlock {
			c.Violation("deadlock:long-history", "no goroutine enabled while some are unfinished: "+strings.Join(ex.res.Blocked, "; "), input)
			return false
		}
		key := fmt.Sprintf("long%d#", c.Index) + describe(ex.hist)
		c.Eval(key, true)
		c.Events(len(ex.hist))
		v, seen := verdicts[key]
		if !seen {
			v, _ = porcupine.CheckOperationsVerbose(m, ex.hist, 20*time.Second)
			verdicts[key] = v
			c.Count("distinct_histories_checked", 1)
		}
		switch v {
		case porcupine.Illegal:
			c.Violation("nonlinearizable:long-history:"+longAnomaly(cfg, ex.hist), fmt.Sprintf("after %d earlier Define/Delete cycles on the scope, no one-at-a-time ordering of the operations explains the results and the final state: %s", cfg.Prelude, describe(ex.hist)), input)
			return false
		case porcupine.Unknown:
			c.Inconclusive("porcupine-timeout", key, input)
		}
		return true
	}
	schedOf := func(ex execution) []int {
		s := make([]int, len(ex.res.Choices))
		for i, ch := range ex.res.Choices {
			s[i] = ch.Chosen
		}
		return s
	}
	// (a) every goroutine in one piece, in every rotation of the start order
	for first := 0; first < len(cfg.Gs); first++ {
		ex := run(cfg, func(step int, enabled []int, cur int) int {
			if cur >= 0 && contains(enabled, cur) {
				return cur
			}
			for d := 0; d < len(cfg.Gs); d++ {
				if id := (first + d) % len(cfg.Gs); contains(enabled, id) {
					return id
				}
			}
			return enabled[0]
		})
		if !judge(ex, schedOf(ex)) {
			return
		}
	}
	// (b) random schedules; the chance of a switch at a scheduling point differs per schedule, from
	// one switch in 64 points (a handful of preemptions in the whole execution) to every other point
	for i := 0; i < nRandom; i++ {
		stick := []int{2, 3, 4, 6, 8, 16, 32, 64}[c.Rng.Intn(8)]
		ex := run(cfg, func(step int, enabled []int, cur int) int {
			if cur >= 0 && contains(enabled, cur) && c.Rng.Intn(stick) != 0 {
				return cur
			}
			return enabled[c.Rng.Intn(len(enabled))]
		})
		if !judge(ex, schedOf(ex)) {
			return
		}
	}
	c.Count("schedules_random_long_history", nRandom)
	if c.WantSample() {
		ex := run(cfg, func(step int, enabled []int, cur int) int { return enabled[c.Rng.Intn(len(enabled))] })
		c.Sample(map[string]interface{}{"config": cfg, "one_history": describe(ex.hist)})
	}
}

func main() {
	verdicts := map[string]porcupine.CheckResult{}
	wk.Register(&wk.Engine{
		ID:   "C13",
		Plan: func(tier string) fw.Plan { return fw.Plan{} }, // the plan is answered by the regular worker
		Run: func(c *wk.Case) {
			maxOps, maxSched, nRandom := 3, 1500, 60
			if c.Tier == "thorough" {
				maxOps, maxSched, nRandom = 4, 12000, 300
			}
			// the cases behind the base range are lookup configurations (numbers as in the plan of cmd/vworker/c13.go)
			base := 184
			if c.Tier == "thorough" {
				base = 9144
			}
			if c.Index < base && c.Index%8 == 7 {
				// one case in eight is a long-history configuration (runLong below)
				runLong(c, verdicts)
				return
			}
			var cfg *config
			if c.Index >= base {
				cfg = genLookupConfig(c, maxOps)
				c.Tag("config-alias-lookup")
			} else {
				cfg = genConfig(c, maxOps)
			}
			kinds := kindsOf(cfg)
			initState := encode(cfg.Init, map[string]string{})
			m := model
			m.Init = func() interface{} { return initState }
			c.Begin(cfg)
			c.Tag("config-goroutines:" + fmt.Sprint(len(cfg.Gs)))

			judge := func(ex execution, sched []int) bool {
				input := map[string]interface{}{"config": cfg, "schedule": sched, "history": describe(ex.hist)}
				if len(ex.res.Panics) > 0 {
					c.Violation("panic-in-env-operation:"+kinds, strings.Join(ex.res.Panics, "; "), input)
					return false
				}
				if ex.res.Deadlock {
					c.Violation("deadlock:"+kinds, "no goroutine enabled while some are unfinished: "+strings.Join(ex.res.Blocked, "; "), input)
					return false
				}
				key := describe(ex.hist)
				c.Eval(initState+"#"+key, true)
				c.Events(len(ex.hist))
				v, seen := verdicts[initState+"#"+key]
				if !seen {
					v, _ = porcupine.CheckOperationsVerbose(m, ex.hist, 20*time.Second)
					verdicts[initState+"#"+key] = v
					c.Count("distinct_histories_checked", 1)
				}
				switch v {
				case porcupine.Illegal:
					c.Violation("nonlinearizable:"+kinds, "no one-at-a-time ordering of the operations explains the results and the final state: "+key, input)
					return false
				case porcupine.Unknown:
					c.Inconclusive("porcupine-timeout", key, input)
				}
				return true
			}

			// depth-first enumeration of all schedules with at most 2 preemptions
			const bound = 2
			stack := [][]int{nil}
			explored := 0
			exhaustive := true
			for len(stack) > 0 {
				if explored >= maxSched {
					exhaustive = false
					break
				}
				prefix := stack[len(stack)-1]
				stack = stack[:len(stack)-1]
				ex := run(cfg, func(step int, enabled []int, cur int) int {
					if step < len(prefix) {
						return prefix[step]
					}
					if cur >= 0 && contains(enabled, cur) {
						return cur
					}
					return enabled[0]
				})
				explored++
				sched := make([]int, len(ex.res.Choices))
				for i, ch := range ex.res.Choices {
					sched[i] = ch.Chosen
				}
				if !judge(ex, sched) {
					return
				}
				pre := 0
				for i, ch := range ex.res.Choices {
					preemptible := ch.Cur >= 0 && contains(ch.Enabled, ch.Cur)
					if i >= len(prefix) {
						for _, alt := range ch.Enabled {
							if alt == ch.Chosen {
								continue
							}
							cost := pre
							if preemptible && alt != ch.Cur {
								cost++
							}
							if cost <= bound {
								np := append(append([]int(nil), sched[:i]...), alt)
								stack = append(stack, np)
							}
						}
					}
					if preemptible && ch.Chosen != ch.Cur {
						pre++
					}
				}
			}
			c.Count("schedules_enumerated", explored)
			if exhaustive {
				c.Tag("config-exhaustive-within-2-preemptions")
			} else {
				c.Tag("config-truncated-at-schedule-cap")
			}
			// random schedules with unbounded preemptions
			for i := 0; i < nRandom; i++ {
				ex := run(cfg, func(step int, enabled []int, cur int) int {
					if cur >= 0 && contains(enabled, cur) && c.Rng.Intn(3) != 0 {
						return cur
					}
					return enabled[c.Rng.Intn(len(enabled))]
				})
				sched := make([]int, len(ex.res.Choices))
				for i, ch := range ex.res.Choices {
					sched[i] = ch.Chosen
				}
				if !judge(ex, sched) {
					return
				}
			}
			c.Count("schedules_random", nRandom)
			for k, v := range verifsync.Points {
				c.Count("scheduling_points_last_execution:"+k, v)
			}
			if c.WantSample() {
				ex := run(cfg, func(step int, enabled []int, cur int) int { return enabled[c.Rng.Intn(len(enabled))] })
				c.Sample(map[string]interface{}{"config": cfg, "one_history": describe(ex.hist), "schedules_enumerated": explored, "exhaustive_within_bound": exhaustive})
			}
		},
	})
	wk.Main()
}
