//go:build c13sched

// c13sched is the controlled-scheduler worker of C13. It is built only against
// a scratch copy of the repository whose env package uses verifsync mutexes
// (see cmd/vcheck buildC13), so every lock operation of the real env code is a
// scheduling point. It enumerates schedules of small configurations, records a
// call/return history per execution on the scheduler's logical clock and
// checks it with porcupine against a sequential dictionary model.
package main

import (
	"fmt"
	"reflect"
	"sort"
	"strings"
	"time"

	"github.com/anishathalye/porcupine"
	"github.com/mattn/anko/env"
	"github.com/mattn/anko/verifsync"

	"verifharness/internal/fw"
	"verifharness/internal/wk"
)

type op struct {
	Kind string `json:"kind"`
	Key  string `json:"key,omitempty"`
	Val  string `json:"val,omitempty"`
}

type config struct {
	Init map[string]string `json:"initial_values"`
	Gs   [][]op            `json:"goroutines"`
}

var typePool = map[string]reflect.Type{"int64": reflect.TypeOf(int64(0)), "string": reflect.TypeOf(""), "bool": reflect.TypeOf(true)}

var opKinds = []string{"Define", "Set", "Get", "Delete", "DeleteGlobal", "Copy", "DeepCopy", "Symbols", "DefineType", "Type", "TypeSymbols", "String", "Get", "Set", "Define"}

// ---- sequential model ----

type mstate struct {
	vals  map[string]string
	types map[string]string
}

func encode(vals, types map[string]string) string {
	var a []string
	for k, v := range vals {
		a = append(a, k+"="+v)
	}
	sort.Strings(a)
	var b []string
	for k, v := range types {
		b = append(b, k+":"+v)
	}
	sort.Strings(b)
	return strings.Join(a, ";") + "|" + strings.Join(b, ";")
}

func decode(s string) mstate {
	st := mstate{vals: map[string]string{}, types: map[string]string{}}
	parts := strings.SplitN(s, "|", 2)
	if parts[0] != "" {
		for _, kv := range strings.Split(parts[0], ";") {
			i := strings.Index(kv, "=")
			st.vals[kv[:i]] = kv[i+1:]
		}
	}
	if len(parts) > 1 && parts[1] != "" {
		for _, kv := range strings.Split(parts[1], ";") {
			i := strings.Index(kv, ":")
			st.types[kv[:i]] = kv[i+1:]
		}
	}
	return st
}

var parentVals = map[string]string{"kp": "P"}
var parentTypes = map[string]string{"tp": "int64"}

func symbols(m map[string]string) string {
	var a []string
	for k := range m {
		a = append(a, k)
	}
	sort.Strings(a)
	return strings.Join(a, ",")
}

var model = porcupine.Model{
	Init: func() interface{} { return "" }, // replaced per configuration
	Step: func(state, input, output interface{}) (bool, interface{}) {
		st := decode(state.(string))
		in := input.(op)
		out := output.(string)
		switch in.Kind {
		case "Define":
			st.vals[in.Key] = in.Val
			return out == "ok", encode(st.vals, st.types)
		case "Set":
			if _, ok := st.vals[in.Key]; ok {
				st.vals[in.Key] = in.Val
				return out == "ok", encode(st.vals, st.types)
			}
			return out == "err", state
		case "Get":
			want := "err"
			if v, ok := st.vals[in.Key]; ok {
				want = v
			} else if v, ok := parentVals[in.Key]; ok {
				want = v
			}
			return out == want, state
		case "Delete", "DeleteGlobal":
			delete(st.vals, in.Key)
			return out == "ok", encode(st.vals, st.types)
		case "Copy", "DeepCopy", "Final":
			return out == state.(string), state
		case "Symbols":
			return out == symbols(st.vals), state
		case "DefineType":
			st.types[in.Key] = in.Val
			return out == "ok", encode(st.vals, st.types)
		case "Type":
			want := "err"
			if v, ok := st.types[in.Key]; ok {
				want = v
			} else if v, ok := parentTypes[in.Key]; ok {
				want = v
			}
			return out == want, state
		case "TypeSymbols":
			return out == symbols(st.types), state
		case "String":
			return true, state
		}
		return false, state
	},
	Equal: func(a, b interface{}) bool { return a.(string) == b.(string) },
	DescribeOperation: func(input, output interface{}) string {
		in := input.(op)
		return fmt.Sprintf("%s(%s,%s)->%s", in.Kind, in.Key, in.Val, output.(string))
	},
}

// ---- real execution ----

func dump(e *env.Env) string {
	vals := map[string]string{}
	for _, s := range e.GetValueSymbols() {
		v, err := e.Get(s)
		if err == nil {
			vals[s] = fmt.Sprint(v)
		}
	}
	types := map[string]string{}
	for _, s := range e.GetTypeSymbols() {
		t, err := e.Type(s)
		if err == nil && t != nil {
			types[s] = t.String()
		}
	}
	return encode(vals, types)
}

func execOp(shared *env.Env, o op) string {
	switch o.Kind {
	case "Define":
		if shared.Define(o.Key, o.Val) != nil {
			return "err"
		}
		return "ok"
	case "Set":
		if shared.Set(o.Key, o.Val) != nil {
			return "err"
		}
		return "ok"
	case "Get":
		v, err := shared.Get(o.Key)
		if err != nil {
			return "err"
		}
		return fmt.Sprint(v)
	case "Delete":
		shared.Delete(o.Key)
		return "ok"
	case "DeleteGlobal":
		shared.DeleteGlobal(o.Key)
		return "ok"
	case "Copy":
		// the copy is private to this goroutine: reading it back is not a concurrent operation
		c := shared.Copy()
		return dump(c)
	case "DeepCopy":
		c := shared.DeepCopy()
		return dump(c)
	case "Symbols":
		s := shared.GetValueSymbols()
		sort.Strings(s)
		return strings.Join(s, ",")
	case "DefineType":
		if shared.DefineReflectType(o.Key, typePool[o.Val]) != nil {
			return "err"
		}
		return "ok"
	case "Type":
		t, err := shared.Type(o.Key)
		if err != nil || t == nil {
			return "err"
		}
		return t.String()
	case "TypeSymbols":
		s := shared.GetTypeSymbols()
		sort.Strings(s)
		return strings.Join(s, ",")
	case "String":
		_ = shared.String()
		return "ok"
	}
	return "?"
}

type execution struct {
	res  verifsync.Result
	hist []porcupine.Operation
}

func run(cfg *config, choose func(step int, enabled []int, cur int) int) execution {
	parent := env.NewEnv()
	for k, v := range parentVals {
		parent.Define(k, v)
	}
	for k, v := range parentTypes {
		parent.DefineReflectType(k, typePool[v])
	}
	shared := parent.NewEnv()
	for k, v := range cfg.Init {
		shared.Define(k, v)
	}
	n := len(cfg.Gs)
	hists := make([][]porcupine.Operation, n)
	res := verifsync.Run(n, func(id int) {
		for _, o := range cfg.Gs[id] {
			verifsync.Yield()
			call := verifsync.Tick()
			out := execOp(shared, o)
			ret := verifsync.Tick()
			hists[id] = append(hists[id], porcupine.Operation{ClientId: id, Input: o, Call: call, Output: out, Return: ret})
		}
	}, choose)
	var hist []porcupine.Operation
	for _, h := range hists {
		hist = append(hist, h...)
	}
	if !res.Deadlock && len(res.Panics) == 0 {
		call := verifsync.Tick()
		out := dump(shared)
		ret := verifsync.Tick()
		hist = append(hist, porcupine.Operation{ClientId: n, Input: op{Kind: "Final"}, Call: call, Output: out, Return: ret})
	}
	return execution{res, hist}
}

func describe(h []porcupine.Operation) string {
	ops := append([]porcupine.Operation(nil), h...)
	sort.Slice(ops, func(i, j int) bool { return ops[i].Call < ops[j].Call })
	var b []string
	for _, o := range ops {
		in := o.Input.(op)
		b = append(b, fmt.Sprintf("g%d:%s(%s,%s)@%d-%d->%s", o.ClientId, in.Kind, in.Key, in.Val, o.Call, o.Return, o.Output))
	}
	return strings.Join(b, " ")
}

func kindsOf(cfg *config) string {
	set := map[string]bool{}
	for _, g := range cfg.Gs {
		for _, o := range g {
			set[o.Kind] = true
		}
	}
	var a []string
	for k := range set {
		a = append(a, k)
	}
	sort.Strings(a)
	return strings.Join(a, "+")
}

func contains(a []int, x int) bool {
	for _, v := range a {
		if v == x {
			return true
		}
	}
	return false
}

func genConfig(c *wk.Case, maxOps int) *config {
	cfg := &config{Init: map[string]string{}}
	if c.Rng.Intn(2) == 0 {
		cfg.Init["k1"] = "init1"
	}
	if c.Rng.Intn(3) == 0 {
		cfg.Init["k2"] = "init2"
	}
	ng := 2 + c.Rng.Intn(2)
	for g := 0; g < ng; g++ {
		nops := 2 + c.Rng.Intn(maxOps-1)
		if ng == 3 && nops > 3 {
			nops = 3
		}
		var ops []op
		for i := 0; i < nops; i++ {
			k := opKinds[c.Rng.Intn(len(opKinds))]
			o := op{Kind: k}
			switch k {
			case "Define", "Set":
				o.Key = []string{"k1", "k2"}[c.Rng.Intn(2)]
				o.Val = fmt.Sprintf("g%d.%d", g, i)
			case "Get":
				o.Key = []string{"k1", "k2", "kp"}[c.Rng.Intn(3)]
			case "Delete", "DeleteGlobal":
				o.Key = []string{"k1", "k2"}[c.Rng.Intn(2)]
			case "DefineType":
				o.Key = []string{"t1", "t2"}[c.Rng.Intn(2)]
				o.Val = []string{"int64", "string", "bool"}[c.Rng.Intn(3)]
			case "Type":
				o.Key = []string{"t1", "t2", "tp"}[c.Rng.Intn(3)]
			}
			ops = append(ops, o)
		}
		cfg.Gs = append(cfg.Gs, ops)
	}
	return cfg
}

func main() {
	verdicts := map[string]porcupine.CheckResult{}
	wk.Register(&wk.Engine{
		ID:   "C13",
		Plan: func(tier string) fw.Plan { return fw.Plan{} }, // the plan is answered by the regular worker
		Run: func(c *wk.Case) {
			maxOps, maxSched, nRandom := 3, 1500, 60
			if c.Tier == "thorough" {
				maxOps, maxSched, nRandom = 4, 12000, 300
			}
			cfg := genConfig(c, maxOps)
			kinds := kindsOf(cfg)
			initState := encode(cfg.Init, map[string]string{})
			m := model
			m.Init = func() interface{} { return initState }
			c.Begin(cfg)
			c.Tag("config-goroutines:" + fmt.Sprint(len(cfg.Gs)))

			judge := func(ex execution, sched []int) bool {
				input := map[string]interface{}{"config": cfg, "schedule": sched, "history": describe(ex.hist)}
				if len(ex.res.Panics) > 0 {
					c.Violation("panic-in-env-operation:"+kinds, strings.Join(ex.res.Panics, "; "), input)
					return false
				}
				if ex.res.Deadlock {
					c.Violation("deadlock:"+kinds, "no goroutine enabled while some are unfinished: "+strings.Join(ex.res.Blocked, "; "), input)
					return false
				}
				key := describe(ex.hist)
				c.Eval(initState+"#"+key, true)
				c.Events(len(ex.hist))
				v, seen := verdicts[initState+"#"+key]
				if !seen {
					v, _ = porcupine.CheckOperationsVerbose(m, ex.hist, 20*time.Second)
					verdicts[initState+"#"+key] = v
					c.Count("distinct_histories_checked", 1)
				}
				switch v {
				case porcupine.Illegal:
					c.Violation("nonlinearizable:"+kinds, "no one-at-a-time ordering of the operations explains the results and the final state: "+key, input)
					return false
				case porcupine.Unknown:
					c.Inconclusive("porcupine-timeout", key, input)
				}
				return true
			}

			// depth-first enumeration of all schedules with at most 2 preemptions
			const bound = 2
			stack := [][]int{nil}
			explored := 0
			exhaustive := true
			for len(stack) > 0 {
				if explored >= maxSched {
					exhaustive = false
					break
				}
				prefix := stack[len(stack)-1]
				stack = stack[:len(stack)-1]
				ex := run(cfg, func(step int, enabled []int, cur int) int {
					if step < len(prefix) {
						return prefix[step]
					}
					if cur >= 0 && contains(enabled, cur) {
						return cur
					}
					return enabled[0]
				})
				explored++
				sched := make([]int, len(ex.res.Choices))
				for i, ch := range ex.res.Choices {
					sched[i] = ch.Chosen
				}
				if !judge(ex, sched) {
					return
				}
				pre := 0
				for i, ch := range ex.res.Choices {
					preemptible := ch.Cur >= 0 && contains(ch.Enabled, ch.Cur)
					if i >= len(prefix) {
						for _, alt := range ch.Enabled {
							if alt == ch.Chosen {
								continue
							}
							cost := pre
							if preemptible && alt != ch.Cur {
								cost++
							}
							if cost <= bound {
								np := append(append([]int(nil), sched[:i]...), alt)
								stack = append(stack, np)
							}
						}
					}
					if preemptible && ch.Chosen != ch.Cur {
						pre++
					}
				}
			}
			c.Count("schedules_enumerated", explored)
			if exhaustive {
				c.Tag("config-exhaustive-within-2-preemptions")
			} else {
				c.Tag("config-truncated-at-schedule-cap")
			}
			// random schedules with unbounded preemptions
			for i := 0; i < nRandom; i++ {
				ex := run(cfg, func(step int, enabled []int, cur int) int {
					if cur >= 0 && contains(enabled, cur) && c.Rng.Intn(3) != 0 {
						return cur
					}
					return enabled[c.Rng.Intn(len(enabled))]
				})
				sched := make([]int, len(ex.res.Choices))
				for i, ch := range ex.res.Choices {
					sched[i] = ch.Chosen
				}
				if !judge(ex, sched) {
					return
				}
			}
			c.Count("schedules_random", nRandom)
			for k, v := range verifsync.Points {
				c.Count("scheduling_points_last_execution:"+k, v)
			}
			if c.WantSample() {
				ex := run(cfg, func(step int, enabled []int, cur int) int { return enabled[c.Rng.Intn(len(enabled))] })
				c.Sample(map[string]interface{}{"config": cfg, "one_history": describe(ex.hist), "schedules_enumerated": explored, "exhaustive_within_bound": exhaustive})
			}
		},
	})
	wk.Main()
}
