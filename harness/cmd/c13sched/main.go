//go:build c13sched

// c13sched is the controlled-scheduler worker of C13. It is built only against
// a scratch copy of the repository whose env package uses verifsync mutexes
// (see cmd/vcheck buildC13), so every lock operation of the real env code is a
// scheduling point. It enumerates schedules of small configurations, records a
// call/return history per execution on the scheduler's logical clock and
// checks it with porcupine against a sequential dictionary model.
package main

import (
	"fmt"
	"reflect"
	"sort"
	"strings"
	"time"

	"github.com/anishathalye/porcupine"
	"github.com/mattn/anko/env"
	"github.com/mattn/anko/verifsync"

	"verifharness/internal/fw"
	"verifharness/internal/wk"
)

type op struct {
	Kind string `json:"kind"`
	Key  string `json:"key,omitempty"`
	Val  string `json:"val,omitempty"`
	// G: the goroutine issuing the operation (kept-copy configurations only: the operations
	// CopyKeep and C.* work on the copy that goroutine keeps)
	G int `json:"g,omitempty"`
	// At: the scope of the tree the operation is started in (tree configurations only)
	At string `json:"at,omitempty"`
}

type config struct {
	Init map[string]string `json:"initial_values"`
	Gs   [][]op            `json:"goroutines"`
	// Prelude: number of Define/Delete cycles on throw-away symbols the scope has already seen,
	// one-at-a-time, before the goroutines start (long-history configurations only)
	Prelude int `json:"prelude_define_delete_cycles,omitempty"`
	// Alias: the shared scope has an external lookup that reads the scope itself (lookup configurations only)
	Alias bool `json:"alias_lookup_reading_the_scope,omitempty"`
	// Copies: every goroutine may keep a copy of the shared scope and go on working on it
	// (kept-copy configurations only); the model then has one dictionary per kept copy
	Copies bool `json:"kept_copies,omitempty"`
	// Tree: the operations are started in the scopes of a tree of related scopes (tree configurations only)
	Tree bool `json:"tree_of_related_scopes,omitempty"`
	// Links: the tree also has the bindings n.up = m and root.alias = n
	Links bool `json:"up_and_alias_links,omitempty"`
}

// aliasLookup is an immutable lookup object that READS the scope it is installed on: al_<name> is
// the value <name> has for that scope. Get and Type call the lookup with no lock held, so a lookup
// of this kind is a combination of environment operations like any other: it must not block for good.
type aliasLookup struct{ scope *env.Env }

func (l aliasLookup) Get(s string) (reflect.Value, error) {
	if strings.HasPrefix(s, "al_") {
		return l.scope.GetValue(s[3:])
	}
	return reflect.Value{}, fmt.Errorf("undefined symbol '%s'", s)
}

func (l aliasLookup) Type(s string) (reflect.Type, error) {
	if strings.HasPrefix(s, "AL_") {
		return l.scope.Type(s[3:])
	}
	return nil, fmt.Errorf("undefined type '%s'", s)
}

var typePool = map[string]reflect.Type{"int64": reflect.TypeOf(int64(0)), "string": reflect.TypeOf(""), "bool": reflect.TypeOf(true)}

var opKinds = []string{"Define", "Set", "Get", "Delete", "DeleteGlobal", "Copy", "DeepCopy", "Symbols", "DefineType", "Type", "TypeSymbols", "String", "Get", "Set", "Define"}

// ---- sequential model ----

type mstate struct {
	vals  map[string]string
	types map[string]string
}

func encode(vals, types map[string]string) string {
	var a []string
	for k, v := range vals {
		a = append(a, k+"="+v)
	}
	sort.Strings(a)
	var b []string
	for k, v := range types {
		b = append(b, k+":"+v)
	}
	sort.Strings(b)
	return strings.Join(a, ";") + "|" + strings.Join(b, ";")
}

func decode(s string) mstate {
	st := mstate{vals: map[string]string{}, types: map[string]string{}}
	parts := strings.SplitN(s, "|", 2)
	if parts[0] != "" {
		for _, kv := range strings.Split(parts[0], ";") {
			i := strings.Index(kv, "=")
			st.vals[kv[:i]] = kv[i+1:]
		}
	}
	if len(parts) > 1 && parts[1] != "" {
		for _, kv := range strings.Split(parts[1], ";") {
			i := strings.Index(kv, ":")
			st.types[kv[:i]] = kv[i+1:]
		}
	}
	return st
}

var parentVals = map[string]string{"kp": "P"}
var parentTypes = map[string]string{"tp": "int64"}

func symbols(m map[string]string) string {
	var a []string
	for k := range m {
		a = append(a, k)
	}
	sort.Strings(a)
	return strings.Join(a, ",")
}

// A kept-copy configuration has one dictionary for the shared scope and one per goroutine that
// keeps a copy: the state is "<shared>#<copy of g0>#<copy of g1>..." ("-" = no copy kept yet).
// A copy is a scope of its own: CopyKeep answers the shared scope's dictionary of that moment
// and makes it the goroutine's copy; C.<operation> is <operation> on that copy and on nothing
// else; every other operation works on the shared scope and on nothing else.
func stepAll(state, input, output interface{}) (bool, interface{}) {
	full := state.(string)
	in := input.(op)
	if !strings.Contains(full, "#") {
		return stepScope(full, in, output.(string))
	}
	parts := strings.Split(full, "#")
	out := output.(string)
	slot := 1 + in.G
	switch {
	case in.Kind == "Final":
		return out == full, state
	case in.Kind == "CopyKeep":
		if out != parts[0] {
			return false, state
		}
		parts[slot] = parts[0]
		return true, strings.Join(parts, "#")
	case strings.HasPrefix(in.Kind, "C."):
		if slot >= len(parts) || parts[slot] == "-" {
			return false, state
		}
		in.Kind = in.Kind[2:]
		ok, next := stepScope(parts[slot], in, out)
		parts[slot] = next.(string)
		return ok, strings.Join(parts, "#")
	}
	ok, next := stepScope(parts[0], in, out)
	parts[0] = next.(string)
	return ok, strings.Join(parts, "#")
}

var model = porcupine.Model{
	Init:  func() interface{} { return "" }, // replaced per configuration
	Step:  stepAll,
	Equal: func(a, b interface{}) bool { return a.(string) == b.(string) },
	DescribeOperation: func(input, output interface{}) string {
		in := input.(op)
		return fmt.Sprintf("%s(%s,%s)->%s", in.Kind, in.Key, in.Val, output.(string))
	},
}

// stepScope: one operation on one scope (a child of the read-only parent) with dictionary state
func stepScope(state string, in op, out string) (bool, interface{}) {
	{
		st := decode(state)
		switch in.Kind {
		case "Define":
			st.vals[in.Key] = in.Val
			return out == "ok", encode(st.vals, st.types)
		case "Set":
			if _, ok := st.vals[in.Key]; ok {
				st.vals[in.Key] = in.Val
				return out == "ok", encode(st.vals, st.types)
			}
			return out == "err", state
		case "Get":
			// al_<name> is answered by the alias lookup with the value of <name> (lookup configurations)
			key := strings.TrimPrefix(in.Key, "al_")
			want := "err"
			if v, ok := st.vals[key]; ok {
				want = v
			} else if v, ok := parentVals[key]; ok {
				want = v
			}
			return out == want, state
		case "DefineCell":
			st.vals[in.Key] = in.Val
			return out == "ok", encode(st.vals, st.types)
		case "Addr":
			// an undefined symbol has no address; a defined one answers a pointer to its value, or an
			// error when the value bound cannot be addressed (the statement is silent on which values
			// can: both are accepted)
			key := strings.TrimPrefix(in.Key, "al_")
			v, ok := st.vals[key]
			if !ok {
				v, ok = parentVals[key]
			}
			if !ok {
				return out == "err", state
			}
			return out == "err" || out == "ptr:"+v, state
		case "Delete", "DeleteGlobal":
			delete(st.vals, in.Key)
			return out == "ok", encode(st.vals, st.types)
		case "Copy", "DeepCopy", "Final":
			return out == state, state
		case "Symbols":
			return out == symbols(st.vals), state
		case "DefineType":
			st.types[in.Key] = in.Val
			return out == "ok", encode(st.vals, st.types)
		case "Type":
			key := strings.TrimPrefix(in.Key, "AL_")
			want := "err"
			if v, ok := st.types[key]; ok {
				want = v
			} else if v, ok := parentTypes[key]; ok {
				want = v
			}
			return out == want, state
		case "TypeSymbols":
			return out == symbols(st.types), state
		case "String":
			return true, state
		}
		return false, state
	}
}

// ---- real execution ----

func dump(e *env.Env) string {
	vals := map[string]string{}
	for _, s := range e.GetValueSymbols() {
		v, err := e.Get(s)
		if err == nil {
			vals[s] = fmt.Sprint(v)
		}
	}
	types := map[string]string{}
	for _, s := range e.GetTypeSymbols() {
		t, err := e.Type(s)
		if err == nil && t != nil {
			types[s] = t.String()
		}
	}
	return encode(vals, types)
}

func execOp(shared *env.Env, o op) string {
	switch o.Kind {
	case "Define":
		if shared.Define(o.Key, o.Val) != nil {
			return "err"
		}
		return "ok"
	case "Set":
		if shared.Set(o.Key, o.Val) != nil {
			return "err"
		}
		return "ok"
	case "Get":
		v, err := shared.Get(o.Key)
		if err != nil {
			return "err"
		}
		return fmt.Sprint(v)
	case "DefineCell":
		// the value is bound as an addressable cell nobody stores to
		cell := reflect.New(reflect.TypeOf("")).Elem()
		cell.SetString(o.Val)
		if shared.DefineValue(o.Key, cell) != nil {
			return "err"
		}
		return "ok"
	case "Addr":
		p, err := shared.Addr(o.Key)
		if err != nil || p.Kind() != reflect.Ptr || p.IsNil() {
			return "err"
		}
		return "ptr:" + fmt.Sprint(p.Elem().Interface())
	case "Delete":
		shared.Delete(o.Key)
		return "ok"
	case "DeleteGlobal":
		shared.DeleteGlobal(o.Key)
		return "ok"
	case "Copy":
		// the copy is private to this goroutine: reading it back is not a concurrent operation
		c := shared.Copy()
		return dump(c)
	case "DeepCopy":
		c := shared.DeepCopy()
		return dump(c)
	case "Symbols":
		s := shared.GetValueSymbols()
		sort.Strings(s)
		return strings.Join(s, ",")
	case "DefineType":
		if shared.DefineReflectType(o.Key, typePool[o.Val]) != nil {
			return "err"
		}
		return "ok"
	case "Type":
		t, err := shared.Type(o.Key)
		if err != nil || t == nil {
			return "err"
		}
		return t.String()
	case "TypeSymbols":
		s := shared.GetTypeSymbols()
		sort.Strings(s)
		return strings.Join(s, ",")
	case "String":
		_ = shared.String()
		return "ok"
	}
	return "?"
}

type execution struct {
	res  verifsync.Result
	hist []porcupine.Operation
	// tree configurations: the operations the unfinished goroutines were in at a deadlock, and
	// the first result that contradicts the (never re-bound) structure of the tree
	blockedIn []string
	inFlight  string
	wrong     string
}

// ---- tree configurations ----
//
// "No combination of concurrent environment operations produces ... a deadlock": the other
// configurations work on ONE scope below a parent nobody writes, so an operation that holds the
// lock of one scope while it waits for the lock of a RELATED one never meets its counterpart.
// Here the operations are started in the scopes of a tree
//
//	root { gr, tr(type), m }   m = module { gm, n }   n = module { gn, o }   o = module {}
//	c = child of n, cc = child of c      (+ n.up = m, root.alias = n when Links is set)
//
// and walk it in both directions: DeleteGlobal, Set, Get, Type, DefineGlobal from the inside
// outwards; GetEnvFromPath from the outside inwards (and out again over n.up); DeepCopy up the
// chain; String, Copy, listings, Define, Delete, NewModule on the scopes in between. The module
// bindings m, n, o, up, alias are never written, so every path has one answer whatever the
// interleaving; that, panics and the scheduler's deadlock verdict (no goroutine enabled) are what
// is judged. The values are not: an operation that walks the chain takes one scope at a time and
// the statement orders operations per scope only.
var treeNames = []string{"root", "m", "n", "o", "c", "cc"}

type tree struct {
	scopes map[string]*env.Env
	names  map[*env.Env]string
}

func buildTree(cfg *config) *tree {
	t := &tree{scopes: map[string]*env.Env{}, names: map[*env.Env]string{}}
	root := env.NewEnv()
	root.Define("gr", "R")
	root.DefineReflectType("tr", typePool["int64"])
	m, _ := root.NewModule("m")
	m.Define("gm", "M")
	n, _ := m.NewModule("n")
	n.Define("gn", "N")
	o, _ := n.NewModule("o")
	c := n.NewEnv()
	cc := c.NewEnv()
	if cfg.Links {
		n.Define("up", m)
		root.Define("alias", n)
	}
	for i, e := range []*env.Env{root, m, n, o, c, cc} {
		t.scopes[treeNames[i]] = e
		t.names[e] = treeNames[i]
	}
	// the past of the scopes in between, as in the long-history configurations
	for i := 0; i < cfg.Prelude; i++ {
		e := []*env.Env{m, n, c}[i%3]
		e.Define("past", i)
		e.Delete("past")
	}
	return t
}

var treeParent = map[string]string{"m": "root", "n": "m", "o": "n", "c": "n", "cc": "c"}

// treeResolve: the one answer of GetEnvFromPath(path) started in scope at ("err": no such module)
func treeResolve(cfg *config, at string, path []string) string {
	mods := map[string]map[string]string{"root": {"m": "m"}, "m": {"n": "n"}, "n": {"o": "o"}}
	if cfg.Links {
		mods["n"]["up"] = "m"
		mods["root"]["alias"] = "n"
	}
	cur := ""
	for s := at; ; s = treeParent[s] {
		if to, ok := mods[s][path[0]]; ok {
			cur = to
			break
		}
		if s == "root" {
			return "err"
		}
	}
	for _, p := range path[1:] {
		to, ok := mods[cur][p]
		if !ok {
			return "err"
		}
		cur = to
	}
	return cur
}

func execTreeOp(t *tree, o op) string {
	e := t.scopes[o.At]
	switch o.Kind {
	case "Path":
		got, err := e.GetEnvFromPath(strings.Split(o.Key, "."))
		if err != nil {
			return "err"
		}
		if name, ok := t.names[got]; ok {
			return name
		}
		return "a-scope-outside-the-tree"
	case "DefineGlobal":
		if e.DefineGlobal(o.Key, o.Val) != nil {
			return "err"
		}
		return "ok"
	case "NewModule":
		if _, err := e.NewModule(o.Key); err != nil {
			return "err"
		}
		return "ok"
	}
	return execOp(e, o)
}

func runTree(cfg *config, choose func(step int, enabled []int, cur int) int) execution {
	t := buildTree(cfg)
	n := len(cfg.Gs)
	hists := make([][]porcupine.Operation, n)
	in := make([]string, n)
	inDesc := make([]string, n)
	wrong := ""
	res := verifsync.Run(n, func(id int) {
		for _, o := range cfg.Gs[id] {
			verifsync.Yield()
			in[id] = o.Kind
			inDesc[id] = fmt.Sprintf("%s[%s](%s)", o.Kind, o.At, o.Key)
			call := verifsync.Tick()
			out := execTreeOp(t, o)
			ret := verifsync.Tick()
			in[id] = ""
			if o.Kind == "Path" && wrong == "" {
				if want := treeResolve(cfg, o.At, strings.Split(o.Key, ".")); out != want {
					wrong = fmt.Sprintf("GetEnvFromPath(%s) started in %s answers %s; the modules on the path are never re-bound, so every one-at-a-time ordering answers %s", o.Key, o.At, out, want)
				}
			}
			hists[id] = append(hists[id], porcupine.Operation{ClientId: id, Input: o, Call: call, Output: out, Return: ret})
		}
	}, choose)
	ex := execution{res: res, wrong: wrong}
	for _, h := range hists {
		ex.hist = append(ex.hist, h...)
	}
	if res.Deadlock {
		for id, k := range in {
			if k != "" {
				ex.inFlight += fmt.Sprintf(" g%d is in %s;", id, inDesc[id])
			}
		}
		// the operations of the goroutines on the wait-for cycle (a goroutine that merely queues
		// behind them is no part of the defect); all blocked ones when the scheduler names no cycle
		set := map[string]bool{}
		for _, id := range res.Cycle {
			if k := in[id]; k != "" && !set[k] {
				set[k] = true
				ex.blockedIn = append(ex.blockedIn, k)
			}
		}
		if len(ex.blockedIn) == 0 {
			for _, k := range in {
				if k != "" && !set[k] {
					set[k] = true
					ex.blockedIn = append(ex.blockedIn, k)
				}
			}
		}
		sort.Strings(ex.blockedIn)
	}
	return ex
}

func genTreeConfig(c *wk.Case, maxOps int) *config {
	cfg := &config{Init: map[string]string{}, Tree: true, Links: c.Rng.Intn(3) == 0}
	if c.Rng.Intn(2) == 0 {
		cfg.Prelude = c.Rng.Intn(40)
	}
	pick := func(a ...string) string { return a[c.Rng.Intn(len(a))] }
	ng := 2 + c.Rng.Intn(2)
	for g := 0; g < ng; g++ {
		nops := 2 + c.Rng.Intn(maxOps-1)
		if ng == 3 && nops > 3 {
			nops = 3
		}
		var ops []op
		for i := 0; i < nops; i++ {
			// outwards, inwards and in between, in equal parts
			var o op
			switch c.Rng.Intn(3) {
			case 0:
				o = op{Kind: pick("DeleteGlobal", "DeleteGlobal", "DeleteGlobal", "Set", "Get", "Type", "DefineGlobal", "DeepCopy"), At: pick("n", "o", "c", "cc", "m")}
				switch o.Kind {
				case "DeleteGlobal", "Get":
					o.Key = pick("gr", "gm", "gn", "k1", "never-bound")
				case "Set", "DefineGlobal":
					o.Key, o.Val = pick("gr", "gm", "gn", "k1"), fmt.Sprintf("g%d.%d", g, i)
				case "Type":
					o.Key = pick("tr", "tm", "never-defined")
				}
			case 1:
				o = op{Kind: "Path", At: pick("root", "root", "m", "o", "c", "cc"), Key: pick("m", "m.n", "m.n", "m.n.o", "m.n.o", "n.o", "n")}
				if cfg.Links && c.Rng.Intn(2) == 0 {
					o.Key = pick("m.n.up", "m.n.up.n", "m.n.up.n.o", "alias", "alias.o", "alias.up.n")
				}
			default:
				o = op{Kind: pick("Define", "Define", "Delete", "String", "Copy", "Symbols", "DefineType", "NewModule"), At: pick("root", "m", "n", "c")}
				switch o.Kind {
				case "Define":
					o.Key, o.Val = pick("gr", "gm", "gn", "k1"), fmt.Sprintf("g%d.%d", g, i)
				case "Delete":
					o.Key = pick("gr", "gm", "gn", "k1")
				case "DefineType":
					o.Key, o.Val = "tm", pick("int64", "string", "bool")
				case "NewModule":
					o.Key = "x" // a module no path of the configuration goes through
				}
			}
			ops = append(ops, o)
		}
		cfg.Gs = append(cfg.Gs, ops)
	}
	return cfg
}

func run(cfg *config, choose func(step int, enabled []int, cur int) int) execution {
	if cfg.Tree {
		return runTree(cfg, choose)
	}
	parent := env.NewEnv()
	for k, v := range parentVals {
		parent.Define(k, v)
	}
	for k, v := range parentTypes {
		parent.DefineReflectType(k, typePool[v])
	}
	shared := parent.NewEnv()
	for k, v := range cfg.Init {
		shared.Define(k, v)
	}
	if cfg.Alias {
		shared.SetExternalLookup(aliasLookup{shared})
	}
	// the past of the scope: symbols that came and went before anything runs concurrently.
	// Sequentially a Define followed by a Delete leaves no trace, so the model's initial state is cfg.Init.
	for i := 0; i < cfg.Prelude; i++ {
		k := fmt.Sprintf("p%d", i%9)
		shared.Define(k, "past")
		if i%5 == 4 {
			shared.Delete("never-defined") // a Delete without effect belongs to a history too
		}
		shared.Delete(k)
	}
	n := len(cfg.Gs)
	hists := make([][]porcupine.Operation, n)
	kept := make([]*env.Env, n) // kept-copy configurations: the copy goroutine id keeps (touched by that goroutine only)
	res := verifsync.Run(n, func(id int) {
		for _, o := range cfg.Gs[id] {
			verifsync.Yield()
			call := verifsync.Tick()
			var out string
			switch {
			case o.Kind == "CopyKeep":
				if o.Val == "deep" {
					kept[id] = shared.DeepCopy()
				} else {
					kept[id] = shared.Copy()
				}
				out = dump(kept[id])
			case strings.HasPrefix(o.Kind, "C."):
				oc := o
				oc.Kind = o.Kind[2:]
				out = execOp(kept[id], oc)
			default:
				out = execOp(shared, o)
			}
			ret := verifsync.Tick()
			hists[id] = append(hists[id], porcupine.Operation{ClientId: id, Input: o, Call: call, Output: out, Return: ret})
		}
	}, choose)
	var hist []porcupine.Operation
	for _, h := range hists {
		hist = append(hist, h...)
	}
	if !res.Deadlock && len(res.Panics) == 0 {
		call := verifsync.Tick()
		out := dump(shared)
		if cfg.Copies {
			// the final state of a kept-copy configuration: the shared scope and every kept copy
			for _, k := range kept {
				if k == nil {
					out += "#-"
				} else {
					out += "#" + dump(k)
				}
			}
		}
		ret := verifsync.Tick()
		hist = append(hist, porcupine.Operation{ClientId: n, Input: op{Kind: "Final"}, Call: call, Output: out, Return: ret})
	}
	return execution{res: res, hist: hist}
}

func describe(h []porcupine.Operation) string {
	ops := append([]porcupine.Operation(nil), h...)
	sort.Slice(ops, func(i, j int) bool { return ops[i].Call < ops[j].Call })
	var b []string
	for _, o := range ops {
		in := o.Input.(op)
		at := ""
		if in.At != "" {
			at = "[" + in.At + "]"
		}
		b = append(b, fmt.Sprintf("g%d:%s%s(%s,%s)@%d-%d->%s", o.ClientId, in.Kind, at, in.Key, in.Val, o.Call, o.Return, o.Output))
	}
	return strings.Join(b, " ")
}

func kindsOf(cfg *config) string {
	set := map[string]bool{}
	for _, g := range cfg.Gs {
		for _, o := range g {
			set[o.Kind] = true
		}
	}
	var a []string
	for k := range set {
		a = append(a, k)
	}
	sort.Strings(a)
	return strings.Join(a, "+")
}

func contains(a []int, x int) bool {
	for _, v := range a {
		if v == x {
			return true
		}
	}
	return false
}

func genConfig(c *wk.Case, maxOps int) *config {
	cfg := &config{Init: map[string]string{}}
	if c.Rng.Intn(2) == 0 {
		cfg.Init["k1"] = "init1"
	}
	if c.Rng.Intn(3) == 0 {
		cfg.Init["k2"] = "init2"
	}
	ng := 2 + c.Rng.Intn(2)
	for g := 0; g < ng; g++ {
		nops := 2 + c.Rng.Intn(maxOps-1)
		if ng == 3 && nops > 3 {
			nops = 3
		}
		var ops []op
		for i := 0; i < nops; i++ {
			k := opKinds[c.Rng.Intn(len(opKinds))]
			o := op{Kind: k}
			switch k {
			case "Define", "Set":
				o.Key = []string{"k1", "k2"}[c.Rng.Intn(2)]
				o.Val = fmt.Sprintf("g%d.%d", g, i)
			case "Get":
				o.Key = []string{"k1", "k2", "kp"}[c.Rng.Intn(3)]
			case "Delete", "DeleteGlobal":
				o.Key = []string{"k1", "k2"}[c.Rng.Intn(2)]
			case "DefineType":
				o.Key = []string{"t1", "t2"}[c.Rng.Intn(2)]
				o.Val = []string{"int64", "string", "bool"}[c.Rng.Intn(3)]
			case "Type":
				o.Key = []string{"t1", "t2", "tp"}[c.Rng.Intn(3)]
			}
			ops = append(ops, o)
		}
		cfg.Gs = append(cfg.Gs, ops)
	}
	return cfg
}

// ---- lookup configurations ----
//
// The scope has a lookup object that reads the scope itself, and the operations include Addr
// (of plain values, of addressable cells, of the parent's symbol, through the lookup) next to
// Get and Type through the lookup and the writers Define, DefineCell, Set, Delete, DefineType.
// The oracle is the same as for the short configurations; what these add is the deadlock verdict
// of the scheduler for operations that keep the scope's lock while they ask the lookup or the parent.
func genLookupConfig(c *wk.Case, maxOps int) *config {
	cfg := &config{Init: map[string]string{}, Alias: true}
	if c.Rng.Intn(2) == 0 {
		cfg.Init["k1"] = "init1"
	}
	ng := 2 + c.Rng.Intn(2)
	for g := 0; g < ng; g++ {
		nops := 2 + c.Rng.Intn(maxOps-1)
		if ng == 3 && nops > 3 {
			nops = 3
		}
		var ops []op
		for i := 0; i < nops; i++ {
			k := []string{"Addr", "Addr", "Addr", "Get", "Type", "Define", "DefineCell", "Set", "Delete", "DefineType", "Symbols"}[c.Rng.Intn(11)]
			if g == 0 && i == 0 {
				k = "Addr"
			}
			o := op{Kind: k}
			switch k {
			case "Addr":
				o.Key = []string{"k1", "k2", "kp", "al_k1", "al_k1", "al_k2", "al_kp"}[c.Rng.Intn(7)]
			case "Get":
				o.Key = []string{"k1", "al_k1", "al_k2", "al_kp"}[c.Rng.Intn(4)]
			case "Type":
				o.Key = []string{"t1", "AL_t1", "AL_tp"}[c.Rng.Intn(3)]
			case "Define", "DefineCell", "Set":
				o.Key = []string{"k1", "k2"}[c.Rng.Intn(2)]
				o.Val = fmt.Sprintf("g%d.%d", g, i)
			case "Delete":
				o.Key = []string{"k1", "k2"}[c.Rng.Intn(2)]
			case "DefineType":
				o.Key = "t1"
				o.Val = []string{"int64", "string", "bool"}[c.Rng.Intn(3)]
			}
			ops = append(ops, o)
		}
		cfg.Gs = append(cfg.Gs, ops)
	}
	return cfg
}

// ---- kept-copy configurations ----
//
// "A copy is a consistent snapshot of its scope": a scope of its own. The other configurations
// read a copy once and drop it; here a goroutine KEEPS its copy (CopyKeep) and goes on working
// on it (C.Define, C.Set, C.Get, C.Delete, C.Symbols, same names as in the shared scope, values of
// their own) while the others go on working on the shared scope. The shared scope starts in a
// PRNG state of its life: never used, used and emptied again (0-300 Define/Delete cycles before
// the start and no initial symbol), holding one symbol that a goroutine deletes (the copy may
// be taken right after the last symbol went), or holding symbols. The model has a dictionary per
// kept copy; the final read covers the shared scope and every kept copy.
func genCopyConfig(c *wk.Case, maxOps int) *config {
	cfg := &config{Init: map[string]string{}, Copies: true}
	switch c.Rng.Intn(4) {
	case 0:
	case 1:
		cfg.Init["k1"] = "init1"
	default:
		cfg.Prelude = 1 + c.Rng.Intn(300)
		if c.Rng.Intn(4) == 0 {
			cfg.Prelude = 1 + c.Rng.Intn(3)
		}
		if c.Rng.Intn(4) == 0 {
			cfg.Init["k1"] = "init1"
		}
	}
	ng := 2 + c.Rng.Intn(2)
	for g := 0; g < ng; g++ {
		nops := 2 + c.Rng.Intn(maxOps-1)
		if ng == 3 && nops > 3 {
			nops = 3
		}
		keeps := false
		var ops []op
		for i := 0; i < nops; i++ {
			k := []string{"CopyKeep", "CopyKeep", "C.Define", "C.Define", "C.Define", "C.Get", "C.Get", "C.Symbols", "C.Set", "C.Delete", "Define", "Define", "Delete", "Delete", "Get", "Set", "Symbols"}[c.Rng.Intn(17)]
			if g == 0 && i == 0 {
				k = "CopyKeep"
			}
			if strings.HasPrefix(k, "C.") && !keeps {
				k = "CopyKeep"
			}
			o := op{Kind: k, G: g}
			switch k {
			case "CopyKeep":
				keeps = true
				if c.Rng.Intn(3) == 0 {
					o.Val = "deep"
				}
			case "C.Define", "C.Set":
				o.Key = []string{"k1", "k2"}[c.Rng.Intn(2)]
				o.Val = fmt.Sprintf("c%d.%d", g, i)
			case "Define", "Set":
				o.Key = []string{"k1", "k2"}[c.Rng.Intn(2)]
				o.Val = fmt.Sprintf("g%d.%d", g, i)
			case "Get", "C.Get":
				o.Key = []string{"k1", "k2", "kp"}[c.Rng.Intn(3)]
			case "Delete", "C.Delete":
				o.Key = []string{"k1", "k2"}[c.Rng.Intn(2)]
			}
			ops = append(ops, o)
		}
		cfg.Gs = append(cfg.Gs, ops)
	}
	return cfg
}

// ---- long-history configurations ----
//
// The statement quantifies over histories: what a scope does with an operation may not depend on
// how many operations it has already seen. A long-history configuration gives the scope a past
// (cfg.Prelude Define/Delete cycles before the goroutines start) and lets 2-3 goroutines run tens
// of operations each, most of them on symbols only that goroutine ever writes:
//
//	w<g>      a symbol g sets/defines and reads back,
//	t<g>_<j>  short-lived symbols g defines and deletes again (the deletes are effective),
//	f<g>_<n>  symbols g defines once and nobody deletes,
//
// plus reads of the other goroutines' symbols, operations on the contended symbol k1, symbol
// listings and copies. The oracle is the same as for the short configurations (porcupine against
// the sequential dictionary model, closed by a read of the final state); the ownership structure
// only serves to name what went wrong in the signature.

func longOwner(key string) int {
	if len(key) >= 2 && (key[0] == 'w' || key[0] == 't' || key[0] == 'f') && key[1] >= '0' && key[1] <= '9' {
		return int(key[1] - '0')
	}
	return -1
}

func genLongConfig(c *wk.Case) *config {
	cfg := &config{Init: map[string]string{}}
	ng := 2 + c.Rng.Intn(2)
	lo, span := 45, 40
	if ng == 3 {
		lo, span = 32, 26
	}
	if c.Tier == "thorough" {
		lo, span = lo*2, span*2
	}
	// the past: anything from none to a few hundred symbols that came and went
	switch c.Rng.Intn(4) {
	case 0:
		cfg.Prelude = c.Rng.Intn(8)
	case 1:
		cfg.Prelude = c.Rng.Intn(70)
	default:
		cfg.Prelude = c.Rng.Intn(300)
	}
	if c.Rng.Intn(2) == 0 {
		cfg.Init["k1"] = "init1"
	}
	for g := 0; g < ng; g++ {
		if c.Rng.Intn(3) != 0 {
			cfg.Init[fmt.Sprintf("w%d", g)] = fmt.Sprintf("init.w%d", g)
		}
	}
	for g := 0; g < ng; g++ {
		nops := lo + c.Rng.Intn(span)
		w := fmt.Sprintf("w%d", g)
		live := []string{} // short-lived symbols of g that g has defined and not yet deleted
		fresh := 0
		var ops []op
		val := func(i int) string { return fmt.Sprintf("g%d.%d", g, i) }
		others := func() string {
			h := c.Rng.Intn(ng)
			switch c.Rng.Intn(4) {
			case 0:
				return fmt.Sprintf("t%d_%d", h, c.Rng.Intn(4))
			case 1:
				return fmt.Sprintf("f%d_%d", h, c.Rng.Intn(3))
			case 2:
				return []string{"k1", "kp"}[c.Rng.Intn(2)]
			}
			return fmt.Sprintf("w%d", h)
		}
		for i := 0; i < nops; i++ {
			var o op
			r := c.Rng.Intn(24)
			switch {
			case r < 7 || (r < 13 && len(live) == 0):
				k := fmt.Sprintf("t%d_%d", g, c.Rng.Intn(4))
				o = op{Kind: "Define", Key: k, Val: val(i)}
				found := false
				for _, l := range live {
					found = found || l == k
				}
				if !found {
					live = append(live, k)
				}
			case r < 13:
				j := c.Rng.Intn(len(live))
				kind := "Delete"
				if c.Rng.Intn(6) == 0 {
					kind = "DeleteGlobal"
				}
				o = op{Kind: kind, Key: live[j]}
				live = append(live[:j], live[j+1:]...)
			case r < 15:
				o = op{Kind: "Set", Key: w, Val: val(i)}
			case r == 15:
				o = op{Kind: "Define", Key: w, Val: val(i)}
			case r < 18:
				o = op{Kind: "Get", Key: w}
			case r == 18:
				if fresh < 5 {
					o = op{Kind: "Define", Key: fmt.Sprintf("f%d_%d", g, fresh), Val: val(i)}
					fresh++
				} else {
					o = op{Kind: "Get", Key: fmt.Sprintf("f%d_%d", g, c.Rng.Intn(fresh))}
				}
			case r < 21:
				o = op{Kind: "Get", Key: others()}
			case r == 21:
				o = op{Kind: []string{"Define", "Set", "Delete"}[c.Rng.Intn(3)], Key: "k1"}
				if o.Kind != "Delete" {
					o.Val = val(i)
				}
			case r == 22:
				o = op{Kind: "Symbols"}
			default:
				o = op{Kind: []string{"Copy", "DeepCopy", "String", "Get"}[c.Rng.Intn(4)]}
				if o.Kind == "Get" {
					o.Key = "never-defined"
				}
			}
			ops = append(ops, o)
		}
		cfg.Gs = append(cfg.Gs, ops)
	}
	return cfg
}

// longAnomaly names what is wrong with a history porcupine rejected, using only the symbols that
// a single goroutine writes: for those every one-at-a-time ordering consistent with that
// goroutine's order fixes what the goroutine itself reads and what is left at the end.
func longAnomaly(cfg *config, hist []porcupine.Operation) string {
	final, haveFinal := mstate{}, false
	per := make([][]porcupine.Operation, len(cfg.Gs))
	for _, o := range hist {
		if o.Input.(op).Kind == "Final" {
			final, haveFinal = decode(o.Output.(string)), true
		} else if o.ClientId < len(per) {
			per[o.ClientId] = append(per[o.ClientId], o) // already in the goroutine's own order
		}
	}
	for g, ops := range per {
		own := map[string]string{} // symbol -> value, "" = not defined in the shared scope
		known := map[string]bool{}
		for k, v := range cfg.Init {
			if longOwner(k) == g {
				own[k], known[k] = v, true
			}
		}
		for _, o := range ops {
			in, out := o.Input.(op), o.Output.(string)
			if longOwner(in.Key) != g {
				continue
			}
			switch in.Kind {
			case "Define":
				if out == "ok" {
					own[in.Key], known[in.Key] = in.Val, true
				}
			case "Set":
				if v, def := own[in.Key]; def && v != "" {
					if out != "ok" {
						return "own-symbol-gone-at-set"
					}
					own[in.Key] = in.Val
				} else if out == "ok" {
					return "set-of-undefined-own-symbol-succeeds"
				}
			case "Delete", "DeleteGlobal":
				own[in.Key], known[in.Key] = "", true
			case "Get":
				v := own[in.Key]
				if v == "" && out != "err" {
					return "own-deleted-or-undefined-symbol-read"
				}
				if v != "" && out != v {
					return "own-write-not-read-back"
				}
			}
		}
		// listings and copies taken by g itself show g's symbols as g left them
		own = map[string]string{}
		for k, v := range cfg.Init {
			if longOwner(k) == g {
				own[k] = v
			}
		}
		for _, o := range ops {
			in, out := o.Input.(op), o.Output.(string)
			switch in.Kind {
			case "Define", "Set":
				if longOwner(in.Key) == g && out == "ok" {
					own[in.Key] = in.Val
				}
			case "Delete", "DeleteGlobal":
				if longOwner(in.Key) == g {
					delete(own, in.Key)
				}
			case "Symbols":
				seen := map[string]bool{}
				for _, k := range strings.Split(out, ",") {
					seen[k] = true
					if _, def := own[k]; !def && longOwner(k) == g {
						return "own-deleted-symbol-listed"
					}
				}
				for k := range own {
					if !seen[k] {
						return "own-symbol-not-listed"
					}
				}
			case "Copy", "DeepCopy":
				snap := decode(out)
				for k, v := range snap.vals {
					if _, def := own[k]; !def && longOwner(k) == g {
						return "own-deleted-symbol-in-copy"
					} else if def && own[k] != v {
						return "own-write-not-in-copy"
					}
				}
				for k := range own {
					if _, there := snap.vals[k]; !there {
						return "own-symbol-not-in-copy"
					}
				}
			}
		}
		if haveFinal {
			for k := range known {
				fv, there := final.vals[k]
				if own[k] == "" && there {
					return "own-deleted-symbol-in-final-state"
				}
				if own[k] != "" && (!there || fv != own[k]) {
					return "own-write-missing-in-final-state"
				}
			}
		}
	}
	// what h reads of a symbol only g writes can only move forward through g's writes
	// (every written value is unique)
	for h, ops := range per {
		last := map[string]int{}
		for _, o := range ops {
			in, out := o.Input.(op), o.Output.(string)
			g := longOwner(in.Key)
			if in.Kind != "Get" || g < 0 || g == h || g >= len(per) {
				continue
			}
			if out == "err" {
				continue // not defined (yet, or no longer): says nothing about the order of g's writes
			}
			pos, n := -1, 0
			if v, ok := cfg.Init[in.Key]; ok && v == out {
				pos = 0
			}
			for _, w := range per[g] {
				wi := w.Input.(op)
				if wi.Key == in.Key && (wi.Kind == "Define" || wi.Kind == "Set") {
					n++
					if w.Output.(string) == "ok" && wi.Val == out {
						pos = n
					}
				}
			}
			if pos < 0 {
				return "foreign-read-of-a-value-never-written"
			}
			if pos < last[in.Key] {
				return "foreign-read-went-back"
			}
			if pos > last[in.Key] {
				last[in.Key] = pos
			}
		}
	}
	return "other"
}

func runLong(c *wk.Case, verdicts map[string]porcupine.CheckResult) {
	nRandom := 36
	if c.Tier == "thorough" {
		nRandom = 120
	}
	cfg := genLongConfig(c)
	initState := encode(cfg.Init, map[string]string{})
	m := model
	m.Init = func() interface{} { return initState }
	c.Begin(cfg)
	c.Tag("config-long-history")
	c.Tag("config-long-history-goroutines:" + fmt.Sprint(len(cfg.Gs)))
	nd := 0
	for _, g := range cfg.Gs {
		for _, o := range g {
			if o.Kind == "Delete" || o.Kind == "DeleteGlobal" {
				nd++
			}
		}
	}
	c.Count("long_history_deletes_before_and_during", cfg.Prelude+nd)

	judge := func(ex execution, sched []int) bool {
		input := map[string]interface{}{"config": cfg, "schedule": sched, "history": describe(ex.hist)}
		if len(ex.res.Panics) > 0 {
			c.Violation("panic-in-env-operation:long-history", strings.Join(ex.res.Panics, "; "), input)
			return false
		}
		if ex.res.Deadlock {
			c.Violation("deadlock:long-history", "no goroutine enabled while some are unfinished: "+strings.Join(ex.res.Blocked, "; "), input)
			return false
		}
		key := fmt.Sprintf("long%d#", c.Index) + describe(ex.hist)
		c.Eval(key, true)
		c.Events(len(ex.hist))
		v, seen := verdicts[key]
		if !seen {
			v, _ = porcupine.CheckOperationsVerbose(m, ex.hist, 20*time.Second)
			verdicts[key] = v
			c.Count("distinct_histories_checked", 1)
		}
		switch v {
		case porcupine.Illegal:
			c.Violation("nonlinearizable:long-history:"+longAnomaly(cfg, ex.hist), fmt.Sprintf("after %d earlier Define/Delete cycles on the scope, no one-at-a-time ordering of the operations explains the results and the final state: %s", cfg.Prelude, describe(ex.hist)), input)
			return false
		case porcupine.Unknown:
			c.Inconclusive("porcupine-timeout", key, input)
		}
		return true
	}
	schedOf := func(ex execution) []int {
		s := make([]int, len(ex.res.Choices))
		for i, ch := range ex.res.Choices {
			s[i] = ch.Chosen
		}
		return s
	}
	// (a) every goroutine in one piece, in every rotation of the start order
	for first := 0; first < len(cfg.Gs); first++ {
		ex := run(cfg, func(step int, enabled []int, cur int) int {
			if cur >= 0 && contains(enabled, cur) {
				return cur
			}
			for d := 0; d < len(cfg.Gs); d++ {
				if id := (first + d) % len(cfg.Gs); contains(enabled, id) {
					return id
				}
			}
			return enabled[0]
		})
		if !judge(ex, schedOf(ex)) {
			return
		}
	}
	// (b) random schedules; the chance of a switch at a scheduling point differs per schedule, from
	// one switch in 64 points (a handful of preemptions in the whole execution) to every other point
	for i := 0; i < nRandom; i++ {
		stick := []int{2, 3, 4, 6, 8, 16, 32, 64}[c.Rng.Intn(8)]
		ex := run(cfg, func(step int, enabled []int, cur int) int {
			if cur >= 0 && contains(enabled, cur) && c.Rng.Intn(stick) != 0 {
				return cur
			}
			return enabled[c.Rng.Intn(len(enabled))]
		})
		if !judge(ex, schedOf(ex)) {
			return
		}
	}
	c.Count("schedules_random_long_history", nRandom)
	if c.WantSample() {
		ex := run(cfg, func(step int, enabled []int, cur int) int { return enabled[c.Rng.Intn(len(enabled))] })
		c.Sample(map[string]interface{}{"config": cfg, "one_history": describe(ex.hist)})
	}
}

func main() {
	verdicts := map[string]porcupine.CheckResult{}
	wk.Register(&wk.Engine{
		ID:   "C13",
		Plan: func(tier string) fw.Plan { return fw.Plan{} }, // the plan is answered by the regular worker
		Run: func(c *wk.Case) {
			maxOps, maxSched, nRandom := 3, 1500, 60
			if c.Tier == "thorough" {
				maxOps, maxSched, nRandom = 4, 12000, 300
			}
			// the cases behind the base range are lookup configurations (numbers as in the plan of cmd/vworker/c13.go)
			base := 184
			if c.Tier == "thorough" {
				base = 9144
			}
			if c.Index < base && c.Index%8 == 7 {
				// one case in eight is a long-history configuration (runLong below)
				runLong(c, verdicts)
				return
			}
			// ... and the cases behind the lookup configurations are kept-copy configurations
			nLookup := 16
			if c.Tier == "thorough" {
				nLookup = 456
			}
			// ... and the cases behind the kept-copy configurations are tree configurations
			nKept := 24
			if c.Tier == "thorough" {
				nKept = 600
			}
			var cfg *config
			if c.Index >= base+nLookup+nKept {
				cfg = genTreeConfig(c, maxOps)
				c.Tag("config-tree-of-related-scopes")
			} else if c.Index >= base+nLookup {
				cfg = genCopyConfig(c, maxOps)
				c.Tag("config-kept-copies")
			} else if c.Index >= base {
				cfg = genLookupConfig(c, maxOps)
				c.Tag("config-alias-lookup")
			} else {
				cfg = genConfig(c, maxOps)
			}
			kinds := kindsOf(cfg)
			initState := encode(cfg.Init, map[string]string{})
			if cfg.Tree {
				kinds = "related-scopes"
			}
			if cfg.Copies {
				// one signature for the whole family: which operations happen to be in the configuration
				// says nothing about the defect
				kinds = "kept-copies"
				for range cfg.Gs {
					initState += "#-"
				}
				c.Count("kept_copy_configurations_on_an_emptied_scope", map[bool]int{true: 1}[cfg.Prelude > 0 && len(cfg.Init) == 0])
			}
			m := model
			m.Init = func() interface{} { return initState }
			c.Begin(cfg)
			c.Tag("config-goroutines:" + fmt.Sprint(len(cfg.Gs)))

			judge := func(ex execution, sched []int) bool {
				input := map[string]interface{}{"config": cfg, "schedule": sched, "history": describe(ex.hist)}
				if len(ex.res.Panics) > 0 {
					c.Violation("panic-in-env-operation:"+kinds, strings.Join(ex.res.Panics, "; "), input)
					return false
				}
				if ex.res.Deadlock {
					if cfg.Tree {
						// named by the operations that wait for each other, not by what else is in the configuration
						c.Violation("deadlock:related-scopes:"+strings.Join(ex.blockedIn, "+"), "no goroutine enabled while some are unfinished: "+strings.Join(ex.res.Blocked, "; ")+";"+ex.inFlight+" completed so far: "+describe(ex.hist), input)
						return false
					}
					c.Violation("deadlock:"+kinds, "no goroutine enabled while some are unfinished: "+strings.Join(ex.res.Blocked, "; "), input)
					return false
				}
				if cfg.Tree {
					// no dictionary model: see the comment on tree configurations
					key := describe(ex.hist)
					c.Eval("tree#"+key, true)
					c.Events(len(ex.hist))
					if ex.wrong != "" {
						c.Violation("related-scopes:GetEnvFromPath:wrong-module", ex.wrong+": "+key, input)
						return false
					}
					return true
				}
				key := describe(ex.hist)
				c.Eval(initState+"#"+key, true)
				c.Events(len(ex.hist))
				v, seen := verdicts[initState+"#"+key]
				if !seen {
					v, _ = porcupine.CheckOperationsVerbose(m, ex.hist, 20*time.Second)
					verdicts[initState+"#"+key] = v
					c.Count("distinct_histories_checked", 1)
				}
				switch v {
				case porcupine.Illegal:
					c.Violation("nonlinearizable:"+kinds, "no one-at-a-time ordering of the operations explains the results and the final state: "+key, input)
					return false
				case porcupine.Unknown:
					c.Inconclusive("porcupine-timeout", key, input)
				}
				return true
			}

			// depth-first enumeration of all schedules with at most 2 preemptions
			const bound = 2
			stack := [][]int{nil}
			explored := 0
			exhaustive := true
			for len(stack) > 0 {
				if explored >= maxSched {
					exhaustive = false
					break
				}
				prefix := stack[len(stack)-1]
				stack = stack[:len(stack)-1]
				ex := run(cfg, func(step int, enabled []int, cur int) int {
					if step < len(prefix) {
						return prefix[step]
					}
					if cur >= 0 && contains(enabled, cur) {
						return cur
					}
					return enabled[0]
				})
				explored++
				sched := make([]int, len(ex.res.Choices))
				for i, ch := range ex.res.Choices {
					sched[i] = ch.Chosen
				}
				if !judge(ex, sched) {
					return
				}
				pre := 0
				for i, ch := range ex.res.Choices {
					preemptible := ch.Cur >= 0 && contains(ch.Enabled, ch.Cur)
					if i >= len(prefix) {
						for _, alt := range ch.Enabled {
							if alt == ch.Chosen {
								continue
							}
							cost := pre
							if preemptible && alt != ch.Cur {
								cost++
							}
							if cost <= bound {
								np := append(append([]int(nil), sched[:i]...), alt)
								stack = append(stack, np)
							}
						}
					}
					if preemptible && ch.Chosen != ch.Cur {
						pre++
					}
				}
			}
			c.Count("schedules_enumerated", explored)
			if exhaustive {
				c.Tag("config-exhaustive-within-2-preemptions")
			} else {
				c.Tag("config-truncated-at-schedule-cap")
			}
			// random schedules with unbounded preemptions
			for i := 0; i < nRandom; i++ {
				ex := run(cfg, func(step int, enabled []int, cur int) int {
					if cur >= 0 && contains(enabled, cur) && c.Rng.Intn(3) != 0 {
						return cur
					}
					return enabled[c.Rng.Intn(len(enabled))]
				})
				sched := make([]int, len(ex.res.Choices))
				for i, ch := range ex.res.Choices {
					sched[i] = ch.Chosen
				}
				if !judge(ex, sched) {
					return
				}
			}
			c.Count("schedules_random", nRandom)
			for k, v := range verifsync.Points {
				c.Count("scheduling_points_last_execution:"+k, v)
			}
			if c.WantSample() {
				ex := run(cfg, func(step int, enabled []int, cur int) int { return enabled[c.Rng.Intn(len(enabled))] })
				c.Sample(map[string]interface{}{"config": cfg, "one_history": describe(ex.hist), "schedules_enumerated": explored, "exhaustive_within_bound": exhaustive})
			}
		},
	})
	wk.Main()
}
